(* C03: only validated and nominated pairs are ever selected.
   Statements only; proofs in Proofs/AgentC03.v, AgentC03Sel.v, AgentC20.v.  PARTIAL: proved are (1) for
   EVERY history, the selected pair is listed, valid (Succeeded) and nominated -- an invariant of every
   operation; (2) the role discipline (who may nominate / send checks) for every operation from every
   state; (3) the selection rules of the controlled selector.  The ghost-log refinement "valid BY a check
   of its own" is not a theorem: the model (and the code) accept a success response on a
   different local candidate than the one that sent the request (known finding C03, refuted in
   Findings/F_C03_cross_local.v); the extracted monitor C03.* checks the full statement on the
   implementation's observations. *)
From Coq Require Import ZArith Bool List.
From Ice Require Import Model.AgentTypes Model.AgentCore Gen.Consts Gen.Lifecycle
     Proofs.AgentFrame Proofs.AgentC03 Proofs.AgentC03Sel Proofs.AgentC20.
Import ListNotations.
Local Open Scope Z_scope.

(* In every reachable state -- after ANY sequence of API calls, ticks and inbound datagrams, full or lite,
   either role -- the selected pair is in the checklist, is valid (Succeeded) and carries the nominated flag *)
Theorem C03_selected_is_validated_and_nominated : forall cfg lu lp ops id,
  s_selected (fst (run cfg lu lp ops)) = Some id ->
  exists p, In p (s_checklist (fst (run cfg lu lp ops))) /\ p_id p = id /\
            p_state p = CandidatePairStateSucceeded /\ p_nominated p = true.
Proof. exact selected_is_validated_and_nominated. Qed.
Print Assumptions C03_selected_is_validated_and_nominated.

(* the invariant behind it is preserved by every operation from every state satisfying it (with C06's
   uniqueness of pair identifiers) *)
Theorem C03_selection_invariant_step : forall cfg s o, G s -> G (fst (step cfg s o)).
Proof. exact step_G. Qed.
Print Assumptions C03_selection_invariant_step.

(* non-vacuity: a controlled agent that validates a pair and is told to use it ends with that pair selected *)
Example C03_example_selected :
  let cfg := mkConfig false 5 7 5000000000 false 25000000000 0 0 0 0 0 [] false false 1 in
  let l := mkCand 1 1 1 (mkAddr false 167772161 5000) 0 2130706431 1 None in
  let ra := mkAddr false 3232235777 6000 in
  let req tx use := InStun 1 ra (mkMsg 0 1 tx (Some (1, 3)) (Some 1) use (Some (true, 9)) (Some 2000) None None None) in
  let resp tx := InStun 1 ra (mkMsg 2 1 tx None (Some 4) false None None None None None) in
  s_selected (fst (run cfg 1 1 [AddLocal l; Start false 3 4; req 2000001 false; resp 1; req 2000002 true])) = Some 1.
Proof. vm_compute. reflexivity. Qed.

(* A controlled agent never sends USE-CANDIDATE (nor a nomination value): every nominating request of
   every operation from every state carries the controlling role *)
Theorem C03_controlled_never_sends_use_candidate : forall cfg o,
  sat (outs_all nominates_only_controlling) (step_m cfg o).
Proof. exact nominations_carry_controlling_role. Qed.
Print Assumptions C03_controlled_never_sends_use_candidate.

(* A lite agent never originates Binding requests in the controlled role *)
Theorem C03_lite_controlled_never_checks : forall cfg o,
  cf_lite cfg = true -> sat (outs_all requests_only_controlling) (step_m cfg o).
Proof. exact lite_agent_requests_only_when_controlling. Qed.
Print Assumptions C03_lite_controlled_never_checks.

(* The switch rule the controlled side applies to a nomination on a valid pair is the GENERATED
   controlledSelector.shouldSwitchSelectedPair: with no nomination value, and priority checking in force
   (full agent, or lite with the option), the selection moves only to a strictly higher priority *)
Theorem C03_no_downward_switch_rule : forall has_sel same needs sp pp,
  shouldSwitchSelectedPair has_sel same false needs sp pp = true ->
  has_sel = false \/ (same = false /\ (needs = false \/ sp < pp)).
Proof.
  intros has_sel same needs sp pp. unfold shouldSwitchSelectedPair.
  destruct has_sel; cbn; [|auto]. destruct same; cbn; [discriminate|].
  destruct needs; cbn; [|auto]. intros H. apply Z.ltb_lt in H. auto.
Qed.
Print Assumptions C03_no_downward_switch_rule.

Theorem C03_priority_check_applies : forall lite opt,
  needsToCheckPriorityOnNominated lite opt = negb lite || opt.
Proof. reflexivity. Qed.

(* an accepted nomination on a pair that is not yet valid is only recorded; on a valid pair it selects:
   see C20_switch_when_valid / C20_deferred_latest_nomination_wins for the valued cases *)
Example C03_example_controlled_request_is_plain :
  let cfg := mkConfig false 5 7 5000000000 false 25000000000 0 0 0 0 0 [] false false 1 in
  let l := mkCand 1 1 1 (mkAddr false 167772161 5000) 0 2130706431 1 None in
  let r := mkCand 101 1 1 (mkAddr false 3232235777 6000) 0 2130706431 1 None in
  let outs := snd (run cfg 1 1 [AddLocal l; AddRemote r; Start false 3 4; Tick]) in
  Forall (Forall nominates_only_controlling) outs /\ length (nth 3 outs []) = 1%nat.
Proof. vm_compute. split; [repeat constructor; cbn; intros; try discriminate; intuition discriminate|reflexivity]. Qed.
