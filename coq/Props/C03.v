(* C03: only validated and nominated pairs are ever selected.
   Statements only; proofs in Proofs/AgentC03.v, AgentC03Sel.v, AgentC20.v.  PARTIAL: proved are (1) for
   EVERY history, the selected pair is listed, valid (Succeeded) and nominated -- an invariant of every
   operation; (1b) where a selection comes from: only an authentic, transaction-matched, symmetric success response
   that answers a USE-CANDIDATE request or finds a deferred nomination on the pair, or an authentic request carrying
   USE-CANDIDATE / a nomination value on that very pair, can move the selection, and a deferred nomination is only ever
   put on a pair by such a request (C03_selection_provenance_step, C03_deferred_nomination_provenance_step);
   (2) the role discipline (who may nominate / send checks) for every operation from every
   state; (3) the selection rules of the controlled selector.  The ghost-log refinement "valid BY a check
   of its own" is not a theorem: the model (and the code) accept a success response on a
   different local candidate than the one that sent the request (known finding C03, refuted in
   Findings/F_C03_cross_local.v); the extracted monitor C03.* checks the full statement on the
   implementation's observations. *)
From Coq Require Import ZArith Bool List.
From Ice Require Import Model.AgentTypes Model.AgentCore Gen.Consts Gen.Lifecycle
     Proofs.AgentFrame Proofs.AgentC02 Proofs.AgentC03 Proofs.AgentC03Sel Proofs.AgentC20 Proofs.AgentC06 Proofs.AgentRem
     Proofs.AgentEnds Proofs.AgentSelProv.
From Ice Require Import Proofs.AgentC06 Proofs.AgentRem Proofs.AgentEnds Proofs.AgentSingleNom Proofs.AgentNomInv.
From Ice Require Import Proofs.AgentGenRules.
Import ListNotations.
Local Open Scope Z_scope.

(* In every reachable state -- after ANY sequence of API calls, ticks and inbound datagrams, full or lite,
   either role -- the selected pair is in the checklist, is valid (Succeeded) and carries the nominated flag *)
Theorem C03_selected_is_validated_and_nominated : forall cfg lu lp ops id,
  s_selected (fst (run cfg lu lp ops)) = Some id ->
  exists p, In p (s_checklist (fst (run cfg lu lp ops))) /\ p_id p = id /\
            p_state p = CandidatePairStateSucceeded /\ p_nominated p = true.
Proof. exact selected_is_validated_and_nominated. Qed.
Print Assumptions C03_selected_is_validated_and_nominated.

(* the invariant behind it is preserved by every operation from every state satisfying it (with C06's
   uniqueness of pair identifiers) *)
Theorem C03_selection_invariant_step : forall cfg s o, G s -> G (fst (step cfg s o)).
Proof. exact step_G. Qed.
Print Assumptions C03_selection_invariant_step.

(* non-vacuity: a controlled agent that validates a pair and is told to use it ends with that pair selected *)
Example C03_example_selected :
  let cfg := mkConfig false 5 7 5000000000 false 25000000000 0 0 0 0 0 [] false false 1 in
  let l := mkCand 1 1 1 (mkAddr false 167772161 5000) 0 2130706431 1 None in
  let ra := mkAddr false 3232235777 6000 in
  let req tx use := InStun 1 ra (mkMsg 0 1 tx (Some (1, 3)) (Some 1) use (Some (true, 9)) (Some 2000) None None None) in
  let resp tx := InStun 1 ra (mkMsg 2 1 tx None (Some 4) false None None None None None) in
  s_selected (fst (run cfg 1 1 [AddLocal l; Start false 3 4; req 2000001 false; resp 1; req 2000002 true])) = Some 1.
Proof. vm_compute. reflexivity. Qed.

(* A controlled agent never sends USE-CANDIDATE (nor a nomination value): every nominating request of
   every operation from every state carries the controlling role *)
Theorem C03_controlled_never_sends_use_candidate : forall cfg o,
  sat (outs_all nominates_only_controlling) (step_m cfg o).
Proof. exact nominations_carry_controlling_role. Qed.
Print Assumptions C03_controlled_never_sends_use_candidate.

(* A lite agent never originates Binding requests in the controlled role *)
Theorem C03_lite_controlled_never_checks : forall cfg o,
  cf_lite cfg = true -> sat (outs_all requests_only_controlling) (step_m cfg o).
Proof. exact lite_agent_requests_only_when_controlling. Qed.
Print Assumptions C03_lite_controlled_never_checks.

(* The switch rule the controlled side applies to a nomination on a valid pair is the GENERATED
   controlledSelector.shouldSwitchSelectedPair: with no nomination value, and priority checking in force
   (full agent, or lite with the option), the selection moves only to a strictly higher priority *)
Theorem C03_no_downward_switch_rule : forall has_sel same needs sp pp,
  shouldSwitchSelectedPair has_sel same false needs sp pp = true ->
  has_sel = false \/ (same = false /\ (needs = false \/ sp < pp)).
Proof.
  intros has_sel same needs sp pp. unfold shouldSwitchSelectedPair.
  destruct has_sel; cbn; [|auto]. destruct same; cbn; [discriminate|].
  destruct needs; cbn; [|auto]. intros H. apply Z.ltb_lt in H. auto.
Qed.
Print Assumptions C03_no_downward_switch_rule.

Theorem C03_priority_check_applies : forall lite opt,
  needsToCheckPriorityOnNominated lite opt = negb lite || opt.
Proof. reflexivity. Qed.

(* an accepted nomination on a pair that is not yet valid is only recorded; on a valid pair it selects:
   see C20_switch_when_valid / C20_deferred_latest_nomination_wins for the valued cases *)
Example C03_example_controlled_request_is_plain :
  let cfg := mkConfig false 5 7 5000000000 false 25000000000 0 0 0 0 0 [] false false 1 in
  let l := mkCand 1 1 1 (mkAddr false 167772161 5000) 0 2130706431 1 None in
  let r := mkCand 101 1 1 (mkAddr false 3232235777 6000) 0 2130706431 1 None in
  let outs := snd (run cfg 1 1 [AddLocal l; AddRemote r; Start false 3 4; Tick]) in
  Forall (Forall nominates_only_controlling) outs /\ length (nth 3 outs []) = 1%nat.
Proof. vm_compute. split; [repeat constructor; cbn; intros; try discriminate; intuition discriminate|reflexivity]. Qed.

(* ---- where a selection comes from (every operation, every state) -------------------------------------------------
   After any operation the selection is what it was, or empty, or Some id with:
   - the operation delivered a STUN message to an open agent on a known local candidate l, and either
   - [C_succ]: it is a success response, authentic under the remote password, whose transaction id is that of an
     outstanding request q sent to exactly the response's source over l's transport ([response_symmetric]), the pair
     (l, remote of that source) has identifier id, and q carried USE-CANDIDATE or the pair carries a deferred
     nomination; or
   - [C_req]: it is a Binding request, authentic (USERNAME and MESSAGE-INTEGRITY under the local password), carrying
     USE-CANDIDATE or a nomination value, and id names the pair of l and a remote candidate with the request's source
     address.
   No API call, tick, data packet, timer or indication ever selects a pair. *)
Theorem C03_selection_provenance_step : forall cfg s o,
  let s' := fst (step cfg s o) in
  s_selected s' = s_selected s \/ s_selected s' = None \/
  exists id, s_selected s' = Some id /\
    match o with
    | InStun lh src m =>
      s_closed s = false /\ exists l, find_local lh s = Some l /\
        ((m_class m = 2 /\ response_authentic s m = true /\
          exists q p0 r, In q (s_pending s) /\ q_tx q = m_tx m /\ response_symmetric q l src = true /\
                         find_pair l r s = Some p0 /\ p_id p0 = id /\ (q_use q = true \/ p_nom_on_succ p0 = true)) \/
         (m_class m = 0 /\ request_authentic s m = true /\ (m_use m = true \/ m_nom m <> None) /\
          exists p r, p_id p = id /\ cand_equal (p_loc p) l = true /\ cand_equal (p_rem p) r = true /\
                      addr_eqb (c_addr r) src = true))
    | _ => False
    end.
Proof. exact step_selection. Qed.
Print Assumptions C03_selection_provenance_step.

(* A pair carries a deferred nomination (nominateOnBindingSuccess) after an operation only if it carried one
   before, or the operation delivered an authentic Binding request with USE-CANDIDATE / a nomination value on that
   very pair (from any state with unique pair ids; for AddRemoteCandidate also consistent remote bookkeeping). *)
Theorem C03_deferred_nomination_provenance_step : forall cfg s o,
  InvU s -> (match o with AddRemote _ => Rm s | _ => True end) ->
  forall p', In p' (s_checklist (fst (step cfg s o))) -> p_nom_on_succ p' = true ->
    (exists p, In p (s_checklist s) /\ p_id p = p_id p' /\ p_nom_on_succ p = true) \/
    match o with
    | InStun lh src m =>
      s_closed s = false /\ exists l, find_local lh s = Some l /\
        m_class m = 0 /\ request_authentic s m = true /\ (m_use m = true \/ m_nom m <> None) /\
        exists p r, p_id p = p_id p' /\ cand_equal (p_loc p) l = true /\ cand_equal (p_rem p) r = true /\
                    addr_eqb (c_addr r) src = true
    | _ => False
    end.
Proof. exact step_deferred_flag. Qed.
Print Assumptions C03_deferred_nomination_provenance_step.

(* non-vacuity: a controlled agent; the USE-CANDIDATE request defers the nomination (second theorem, right
   disjunct), the answer to the triggered check then selects the pair through the deferred nomination (first theorem) *)
Example C03_example_provenance :
  let cfg := mkConfig false 5 7 5000000000 false 25000000000 2000000000 0 0 0 0 [] false false 1 in
  let l := mkCand 1 CandidateTypeHost NetworkTypeUDP4 (mkAddr false 167772161 5000) TCPTypeUnspecified 2130706431 1 None in
  let src := mkAddr false 3232235777 6000 in
  let r := mkCand 2 CandidateTypeHost NetworkTypeUDP4 src TCPTypeUnspecified 2130706431 1 None in
  let req := mkMsg 0 1 77 (Some (1, 3)) (Some 2) true (Some (true, 9)) (Some 100) None None None in
  let resp := mkMsg 2 1 1 None (Some 4) false None None None None (Some (mkAddr false 167772161 5000)) in
  let s1 := fst (run cfg 1 2 [AddLocal l; AddRemote r; Start false 3 4]) in
  let s2 := fst (step cfg s1 (InStun 1 src req)) in
  let s3 := fst (step cfg s2 (InStun 1 src resp)) in
  (map p_nom_on_succ (s_checklist s1), map p_nom_on_succ (s_checklist s2), s_selected s2, s_selected s3) =
  ([false], [true], None, Some 1) /\
  request_authentic s1 req = true /\ response_authentic s2 resp = true /\
  map q_use (s_pending s2) = [false].
Proof. vm_compute. repeat split. Qed.

(* ---- single nomination (the nomination mechanism of C01 / C03) ------------------------------------------------------
   One operation, from EVERY state: unless it (re)starts the selector (Start, Restart, a request carrying the receiver's
   own role), is an application renomination, or adds a remote candidate that supersedes a peer-reflexive one, the
   recorded nominated pair (identifier, local socket, remote address) stays what it was once it is set, and every
   USE-CANDIDATE request the operation sends goes from that pair's socket to that pair's remote address. *)
Theorem C03_single_nomination_step : forall cfg s o,
  single_rel (renominates_or_restarts s o) s (snd (step cfg s o)) (fst (step cfg s o)).
Proof. exact step_single_nomination. Qed.
Print Assumptions C03_single_nomination_step.

(* any stretch of any history free of those operations: all the USE-CANDIDATE requests the agent sends go from ONE
   socket to ONE address -- the controlling side nominates a single pair and repeats that nomination *)
Theorem C03_use_candidate_requests_share_one_pair : forall cfg ops s lh1 dst1 m1 lh2 dst2 m2,
  quiet cfg s ops ->
  In (OSend lh1 dst1 m1) (trace cfg s ops) -> m_class m1 = 0 -> m_use m1 = true ->
  In (OSend lh2 dst2 m2) (trace cfg s ops) -> m_class m2 = 0 -> m_use m2 = true ->
  lh1 = lh2 /\ dst1 = dst2.
Proof. exact use_candidate_requests_share_one_pair. Qed.
Print Assumptions C03_use_candidate_requests_share_one_pair.

Theorem C03_nominated_pair_recorded_once : forall cfg ops s, quiet cfg s ops ->
  nom_keep s (runs cfg s ops) /\ Forall (use_ok (runs cfg s ops)) (trace cfg s ops).
Proof. exact history_single_nomination. Qed.
Print Assumptions C03_nominated_pair_recorded_once.

Module C03_example_single_nomination.
  Definition cfg := mkConfig false 5 7 5000000000 false 25000000000 0 0 0 0 0 [] true false 1.
  Definition l := mkCand 1 1 1 (mkAddr false 167772161 5000) 0 2130706431 1 None.
  Definition hi := mkAddr false 3232235777 6000.
  Definition lo := mkAddr false 3232235778 6001.
  Definition rhi := mkCand 2 1 1 hi 0 2130706431 1 None.
  Definition rlo := mkCand 3 1 1 lo 0 2130706175 1 None.
  Definition resp tx src := InStun 1 src (mkMsg 2 1 tx None (Some 4) false None None None None None).
  Definition s := fst (run cfg 1 1 [AddLocal l; Start true 3 4]).
  Definition ops := [AddRemote rhi; AddRemote rlo; Tick; resp 1 hi; resp 2 lo; Tick; Advance 200000000; Tick; resp 4 hi; Tick].
  Definition uses := filter (fun o => match o with OSend _ _ m => (m_class m =? 0) && m_use m | _ => false end) (trace cfg s ops).
  Example hypotheses_hold : quiet cfg s ops.
  Proof.
    unfold ops, resp, rhi, rlo. cbn [quiet renominates_or_restarts]. repeat split;
      match goal with
      | |- ~ False => intros []
      | |- ~ ~ _ => intros H; apply H; vm_compute; reflexivity
      | |- _ => intros [tb H]; vm_compute in H; discriminate H
      end.
  Qed.
  (* two USE-CANDIDATE requests (transactions 3 and 4), both from socket 1 to the high-priority remote; then selected *)
  Example two_nominations_one_pair :
    (map (fun o => match o with OSend lh dst m => (lh, dst, m_tx m) | _ => (0, hi, 0) end) uses, s_selected (runs cfg s ops))
    = ([(1, hi, 3); (1, hi, 4)], Some 1).
  Proof. vm_compute. reflexivity. Qed.
End C03_example_single_nomination.

(* ---- single nomination across supersession (Proofs/AgentNomInv.v) -------------------------------------------------------
   In every state of every history the recorded nominated pair agrees with the checklist pair of the same identifier
   (same local candidate, same remote address). *)
Theorem C03_nominated_record_agrees_with_checklist : forall cfg lu lp ops, NomInv (runs cfg (init lu lp) ops).
Proof. exact nominated_record_agrees_with_checklist. Qed.
Print Assumptions C03_nominated_record_agrees_with_checklist.

(* With that invariant the exception for superseding AddRemoteCandidate calls disappears: from every state with consistent
   bookkeeping (identifiers unique, remote candidates / pairs consistent, record agreeing with the checklist -- all
   invariants of admissible histories), every operation other than a selector restart or an application renomination
   keeps the recorded pair's identifier, socket and remote address and sends USE-CANDIDATE only on it *)
Theorem C03_single_nomination_step_adm : forall cfg s o,
  InvU s -> NomInv s -> Rc s ->
  single_rel (restarts_or_renominates s o) s (snd (step cfg s o)) (fst (step cfg s o)).
Proof. exact step_single_nomination_adm. Qed.
Print Assumptions C03_single_nomination_step_adm.

Theorem C03_use_candidate_requests_share_one_pair_adm : forall cfg ops s lh1 dst1 m1 lh2 dst2 m2,
  InvU s -> Rc s -> NomInv s -> ops_ok cfg s ops -> calm cfg s ops ->
  In (OSend lh1 dst1 m1) (trace cfg s ops) -> m_class m1 = 0 -> m_use m1 = true ->
  In (OSend lh2 dst2 m2) (trace cfg s ops) -> m_class m2 = 0 -> m_use m2 = true ->
  lh1 = lh2 /\ dst1 = dst2.
Proof. exact use_candidate_requests_share_one_pair_adm. Qed.
Print Assumptions C03_use_candidate_requests_share_one_pair_adm.

Module C03_example_supersession.
  Definition cfg := mkConfig false 5 7 5000000000 false 25000000000 0 0 0 0 0 [] true false 1.
  Definition l := mkCand 1 1 1 (mkAddr false 167772161 5000) 0 2130706431 1 None.
  Definition hi := mkAddr false 3232235777 6000.
  Definition rhi := mkCand 2 1 1 hi 0 2130706431 1 None.
  Definition req tx := InStun 1 hi (mkMsg 0 1 tx (Some (1, 3)) (Some 1) false (Some (false, 9)) (Some 1845501695) None None None).
  Definition resp tx := InStun 1 hi (mkMsg 2 1 tx None (Some 4) false None None None None None).
  Definition setup := [AddLocal l; Start true 3 4].
  Definition s := runs cfg (init 1 1) setup.
  Definition ops := [req 2000001; Tick; resp 1; resp 2; Tick; AddRemote rhi; Advance 200000000; Tick].
  Definition uses := filter (fun o => match o with OSend _ _ m => (m_class m =? 0) && m_use m | _ => false end) (trace cfg s ops).
  Example hypotheses_hold : InvU s /\ Rc s /\ NomInv s /\ ops_ok cfg s ops /\ calm cfg s ops.
  Proof.
    assert (Hs : ops_ok cfg (init 1 1) setup) by (cbn; auto).
    destruct (runs_E cfg setup (init 1 1) (InvU_init 1 1) (Rc_init 1 1) Hs) as [_ [HU HR]].
    split; [exact HU|]. split; [exact HR|]. split; [exact (nominated_record_agrees_with_checklist cfg 1 1 setup)|]. split.
    - unfold ops, req, resp, rhi. cbn [ops_ok op_ok]. repeat split;
        try (intros l0 El; vm_compute in El; injection El as <-; reflexivity);
        try (vm_compute; intros H; repeat (destruct H as [H|H]; [discriminate H|]); exact H);
        try (vm_compute; reflexivity).
    - unfold ops, req, resp, rhi. cbn [calm restarts_or_renominates]. repeat split;
        match goal with
        | |- ~ False => intros []
        | |- _ => intros [tb H]; vm_compute in H; discriminate H
        end.
  Qed.
  (* a peer-reflexive remote is learnt from a request, its pair validated and nominated (transaction 2); the signalled
     candidate then supersedes it (the record is rebuilt: remote type 3 -> 1); the repeated nomination (transaction 3)
     still goes from socket 1 to the same address *)
  Example nomination_survives_supersession :
    (map (fun o => match o with OSend lh dst m => (lh, dst, m_tx m) | _ => (0, hi, 0) end) uses,
     map (fun n => option_map (fun np => (p_id np, c_typ (p_rem np))) (s_nominated (runs cfg s (firstn n ops)))) [5; 6; 8]%nat,
     map c_typ (s_remotes (runs cfg s ops)))
    = ([(1, hi, 2); (1, hi, 3)], [Some (1, 3); Some (1, 1); Some (1, 1)], [1]).
  Proof. vm_compute. reflexivity. Qed.
End C03_example_supersession.

(* ---- decision functions the model takes from the code (regenerated from /repo on every run), pinned ------------------ *)
Theorem C03_nominatable_rule : forall cfg s c,
  is_nominatable cfg s c =
  match acceptance_wait cfg c with
  | Some w => w <=? since cfg s (s_sel_start s)
  | None => false
  end.
Proof. exact nominatable_rule. Qed.
Print Assumptions C03_nominatable_rule.

Theorem C03_pair_equal_rule : forall a b,
  pair_equal a b = cand_equal (p_loc a) (p_loc b) && cand_equal (p_rem a) (p_rem b).
Proof. exact pair_equal_rule. Qed.
Print Assumptions C03_pair_equal_rule.

Theorem C03_switch_rule : forall has_sel same has_nom check sel_prio prio,
  shouldSwitchSelectedPair has_sel same has_nom check sel_prio prio =
  if negb has_sel then true else if same then false else if has_nom then true else negb check || (sel_prio <? prio).
Proof. exact switch_rule. Qed.
Print Assumptions C03_switch_rule.

Theorem C03_priority_check_rule : forall lite flag, needsToCheckPriorityOnNominated lite flag = negb lite || flag.
Proof. exact priority_check_rule. Qed.
Print Assumptions C03_priority_check_rule.
