(* C16: executable model of the candidate text codec and of candidate equality
   (candidate_base.go: Marshal, UnmarshalCandidate and the readCandidate* tokenizers,
   tryReadRelativeAddrs, unmarshalCandidateExtensions, marshalExtensions, Extensions,
   AddExtension, extensionsEqual, transportAddressEqual, Equal, DeepEqual, Foundation, Priority;
   candidate_{host,server_reflexive,peer_reflexive,relay}.go: the public constructors;
   networktype.go: determineNetworkType; tcptype.go: NewTCPType; candidaterelatedaddress.go).

   Written function by function after the Go code; no proofs here.

   Strings are Go strings seen as BYTE sequences (Coq [string] = list of 8-bit [ascii]).
   The Go tokenizers iterate with [for i, char := range raw[start:]], i.e. over UTF-8 runes
   (an invalid byte yields U+FFFD, width 1).  That only matters where a tokenizer tests a rune
   against a set containing non-ASCII runes, which is readCandidateByteString (runes up to U+00FF
   are admitted): [read_byte_string] below spells out the resulting byte-level rule.  All other
   tokenizers either reject every non-ASCII rune at its first byte (ice-char, digit tokens) or
   only look for the SP rune, which UTF-8 decoding never hides (string tokens).

   Not modelled: netip.ParseAddr.  The address text is an opaque token; [parse_addr] is a
   Section variable (any function) giving what the code uses of the parse result: whether the
   address is IPv4 after Unmap and the identity [ip_key] of the address that addrEqual compares.
   crc32.ChecksumIEEE is the Section variable [checksum] (Model/Crc32.v instantiates it). *)
From Coq Require Import ZArith NArith Bool String Ascii List DecimalString.
From Ice Require Import Model.Wrap Model.PrioSpec Model.Foundation Model.CandVariant
     Gen.Names Gen.Prio Gen.CandEq.
Import ListNotations.
Local Open Scope string_scope.
Local Open Scope Z_scope.

(* ---------------------------------------------------------------- characters *)

Definition code (a : ascii) : N := N_of_ascii a.
Definition is_sp (a : ascii) : bool := Ascii.eqb a " "%char.
Definition in_range (lo hi n : N) : bool := ((lo <=? n) && (n <=? hi))%N.
Definition is_digit (a : ascii) : bool := in_range 48 57 (code a).
Definition digit_val (a : ascii) : Z := Z.of_N (code a) - 48.
(* ice-char = ALPHA / DIGIT / "+" / "/" *)
Definition is_ice_char (a : ascii) : bool :=
  let n := code a in
  in_range 65 90 n || in_range 97 122 n || in_range 48 57 n || (n =? 43)%N || (n =? 47)%N.
Definition is_cont (a : ascii) : bool := in_range 128 191 (code a).   (* UTF-8 continuation byte *)
(* runes %x01-09 / %x0B-0C / %x0E-7F (SP is tested before) *)
Definition bs_ascii_ok (n : N) : bool := negb ((n =? 0) || (n =? 10) || (n =? 13))%N.

Definition is_empty (s : string) : bool := match s with EmptyString => true | _ => false end.

Definition lower_ascii (a : ascii) : ascii :=
  let n := code a in if in_range 65 90 n then ascii_of_N (n + 32) else a.
Fixpoint lower_string (s : string) : string :=
  match s with EmptyString => EmptyString | String a r => String (lower_ascii a) (lower_string r) end.

(* strings.HasSuffix *)
Fixpoint has_suffix (suf s : string) : bool :=
  if String.eqb s suf then true
  else match s with EmptyString => false | String _ r => has_suffix suf r end.

(* strings.TrimPrefix *)
Fixpoint trim_prefix (p s : string) : option string :=
  match p with
  | EmptyString => Some s
  | String a p' => match s with
                   | String b s' => if Ascii.eqb a b then trim_prefix p' s' else None
                   | EmptyString => None
                   end
  end.
Definition trim_prefix_or_same (p s : string) : string :=
  match trim_prefix p s with Some r => r | None => s end.

(* removeZoneIDFromAddress: strings.Cut(addr, "%") *)
Fixpoint strip_zone (s : string) : string :=
  match s with
  | EmptyString => EmptyString
  | String a r => if Ascii.eqb a "%"%char then EmptyString else String a (strip_zone r)
  end.

(* fmt's %d *)
Definition print_int (z : Z) : string :=
  if z <? 0 then "-" ++ N_to_decimal (Z.to_N (- z)) else N_to_decimal (Z.to_N z).

(* ---------------------------------------------------------------- tokenizers
   Every tokenizer takes the not yet consumed suffix raw[start:] and returns the token and the
   suffix raw[pos:]; Go's test [pos >= len(raw)] is [is_empty] of that suffix. *)

(* readCandidateCharToken(raw, start, limit); [i] is the loop index *)
Fixpoint read_char_token (limit i : nat) (s : string) : option (string * string) :=
  match s with
  | EmptyString => Some (EmptyString, EmptyString)
  | String a r =>
    if is_sp a then Some (EmptyString, r)
    else if Nat.eqb i limit then None                       (* token too long *)
    else if negb (is_ice_char a) then None                  (* invalid ice-char *)
    else match read_char_token limit (S i) r with
         | Some (t, rest) => Some (String a t, rest)
         | None => None
         end
  end.

(* readCandidateStringToken *)
Fixpoint read_string_token (s : string) : string * string :=
  match s with
  | EmptyString => (EmptyString, EmptyString)
  | String a r => if is_sp a then (EmptyString, r)
                  else let (t, rest) := read_string_token r in (String a t, rest)
  end.

(* readCandidateDigitToken(raw, start, limit); [val] is the accumulator *)
Fixpoint read_digit_token (limit i : nat) (val : Z) (s : string) : option (Z * string) :=
  match s with
  | EmptyString => Some (val, EmptyString)
  | String a r =>
    if is_sp a then Some (val, r)
    else if Nat.eqb i limit then None
    else if negb (is_digit a) then None
    else read_digit_token limit (S i) (val * 10 + digit_val a) r
  end.

(* readCandidatePort *)
Definition read_port (s : string) : option (Z * string) :=
  match read_digit_token 5 0 0 s with
  | None => None
  | Some (p, r) => if 65535 <? p then None else Some (p, r)
  end.

(* readCandidateByteString: runes %x01-09 / %x0B-0C / %x0E-FF up to SP.  At byte level: an
   ASCII byte other than NUL, LF, CR; or the two-byte encodings of U+0080..U+00FF, i.e. C2|C3
   followed by a continuation byte.  Every other byte >= 0x80 starts either an invalid sequence
   (rune U+FFFD) or a rune above U+00FF: rejected. *)
Fixpoint read_byte_string (s : string) : option (string * string) :=
  match s with
  | EmptyString => Some (EmptyString, EmptyString)
  | String a r =>
    if is_sp a then Some (EmptyString, r) else
    let n := code a in
    if (n <? 128)%N then
      if bs_ascii_ok n then
        match read_byte_string r with Some (t, rest) => Some (String a t, rest) | None => None end
      else None
    else if ((n =? 194) || (n =? 195))%N then
      match r with
      | String b r' =>
        if is_cont b then
          match read_byte_string r' with
          | Some (t, rest) => Some (String a (String b t), rest)
          | None => None
          end
        else None
      | EmptyString => None
      end
    else None
  end.

(* ---------------------------------------------------------------- data *)

Inductive err :=
| E_foundation | E_too_short | E_component | E_priority | E_port | E_typ | E_reladdr
| E_extension | E_tcptype | E_addr | E_nettype.

Inductive result (A : Type) := Ok (a : A) | Err (e : err).
Arguments Ok {A} a.
Arguments Err {A} e.

Definition ext : Type := (string * string)%type.

(* what the code uses of a successfully parsed address *)
Record ipinfo := { ip_is4 : bool;      (* ip.Unmap().Is4() *)
                   ip_key : string }.  (* identity of the address compared by addrEqual *)

(* resolvedAddr: *net.TCPAddr or *net.UDPAddr with IP and port *)
Record resolved := { rs_tcp : bool; rs_is4 : bool; rs_key : string; rs_port : Z }.

Record cand := {
  c_type : Z; c_net : Z; c_comp : Z; c_addr : string; c_port : Z;
  c_rel : option (string * Z);          (* relatedAddress (nil for host) *)
  c_tcp : Z;
  c_resolved : option resolved;
  c_found_ov : string; c_prio_ov : Z;   (* foundationOverride, priorityOverride *)
  c_relay_pref : Z;                     (* relayLocalPreference *)
  c_exts : list ext }.

(* the fields of the Candidate*Config structs *)
Record config := {
  g_type : Z; g_network : string; g_address : string; g_port : Z; g_comp : Z; g_prio : Z;
  g_found : string; g_tcp : Z; g_reladdr : string; g_relport : Z; g_relayproto : string }.

Definition ext_eqb (a b : ext) : bool := String.eqb (fst a) (fst b) && String.eqb (snd a) (snd b).

Section WithEnv.
Variable parse_addr : string -> option ipinfo.   (* netip.ParseAddr, abstract *)
Variable checksum : string -> N.                 (* crc32.ChecksumIEEE *)

(* ---------------------------------------------------------------- constructors *)

(* determineNetworkType: strings.HasPrefix(strings.ToLower(network), "udp"/"tcp").  No rune
   other than ASCII letters lower-cases to one of u d p t c, so ASCII lowering decides it. *)
Definition determine_network_type (network : string) (is4 : bool) : result Z :=
  let l := lower_string network in
  if String.prefix "udp" l then Ok (if is4 then 1 else 2)
  else if String.prefix "tcp" l then Ok (if is4 then 3 else 4)
  else Err E_nettype.

(* NewTCPType on strings whose runes are <= U+00FF or ASCII (all that the parser lets through) *)
Definition new_tcp_type (value : string) : Z := NewTCPType_lowered (lower_string value).

Definition is_mdns (address : string) : bool :=
  has_suffix ".local" address || has_suffix ".invalid" address.

Definition mk_resolved (tcp : bool) (ip : ipinfo) (port : Z) : resolved :=
  {| rs_tcp := tcp; rs_is4 := ip_is4 ip; rs_key := ip_key ip; rs_port := port |}.

Definition mk_cand (g : config) (nt : Z) (rs : option resolved) (rel : option (string * Z))
           (tcp relaypref : Z) : cand :=
  {| c_type := g_type g; c_net := nt; c_comp := g_comp g; c_addr := g_address g; c_port := g_port g;
     c_rel := rel; c_tcp := tcp; c_resolved := rs;
     c_found_ov := g_found g; c_prio_ov := g_prio g; c_relay_pref := relaypref; c_exts := [] |}.

(* NewCandidateHost / ServerReflexive / PeerReflexive / Relay, selected by g_type *)
Definition new_candidate (g : config) : result cand :=
  let rel := Some (g_reladdr g, g_relport g) in
  if g_type g =? 1 then
    if is_mdns (g_address g) then Ok (mk_cand g 1 None None (g_tcp g) 0)
    else match parse_addr (g_address g) with
         | None => Err E_addr
         | Some ip =>
           match determine_network_type (g_network g) (ip_is4 ip) with
           | Err e => Err e
           | Ok nt => Ok (mk_cand g nt (Some (mk_resolved (NetworkType_IsTCP nt) ip (g_port g))) None (g_tcp g) 0)
           end
         end
  else if (g_type g =? 2) || (g_type g =? 3) || (g_type g =? 4) then
    match parse_addr (g_address g) with
    | None => Err E_addr
    | Some ip =>
      match determine_network_type (g_network g) (ip_is4 ip) with
      | Err e => Err e
      | Ok nt =>
        (* srflx and relay always hold a *net.UDPAddr; prflx uses createAddr *)
        let tcpkind := if g_type g =? 3 then NetworkType_IsTCP nt else false in
        let rp := if g_type g =? 4 then relayProtocolPreference (g_relayproto g) else 0 in
        Ok (mk_cand g nt (Some (mk_resolved tcpkind ip (g_port g))) rel 0 rp)
      end
    end
  else Err E_typ.

Definition set_exts (c : cand) (l : list ext) : cand :=
  {| c_type := c_type c; c_net := c_net c; c_comp := c_comp c; c_addr := c_addr c; c_port := c_port c;
     c_rel := c_rel c; c_tcp := c_tcp c; c_resolved := c_resolved c; c_found_ov := c_found_ov c;
     c_prio_ov := c_prio_ov c; c_relay_pref := c_relay_pref c; c_exts := l |}.
Definition set_tcp (c : cand) (t : Z) : cand :=
  {| c_type := c_type c; c_net := c_net c; c_comp := c_comp c; c_addr := c_addr c; c_port := c_port c;
     c_rel := c_rel c; c_tcp := t; c_resolved := c_resolved c; c_found_ov := c_found_ov c;
     c_prio_ov := c_prio_ov c; c_relay_pref := c_relay_pref c; c_exts := c_exts c |}.

(* AddExtension *)
Fixpoint replace_ext (e : ext) (l : list ext) : option (list ext) :=
  match l with
  | [] => None
  | x :: r => if String.eqb (fst x) (fst e) then Some (e :: r)
              else match replace_ext e r with Some r' => Some (x :: r') | None => None end
  end.
Definition add_extension (c : cand) (e : ext) : result cand :=
  if String.eqb (fst e) "tcptype" then
    let t := new_tcp_type (snd e) in
    if t =? 0 then Err E_tcptype else Ok (set_tcp c t)
  else if String.eqb (fst e) "" then Err E_extension
  else match replace_ext e (c_exts c) with
       | Some l => Ok (set_exts c l)
       | None => Ok (set_exts c (c_exts c ++ [e])%list)
       end.
Fixpoint add_extensions (c : cand) (l : list ext) : result cand :=
  match l with
  | [] => Ok c
  | e :: r => match add_extension c e with Ok c' => add_extensions c' r | Err x => Err x end
  end.

(* ---------------------------------------------------------------- getters *)

Definition foundation (c : cand) : string :=
  foundation_with checksum (c_found_ov c) (c_type c) (c_addr c) (c_net c).

(* Priority(): no agent is attached to a freshly built candidate *)
Definition priority (c : cand) : Z :=
  Priority (c_prio_ov c) (TypePreference (c_type c) (c_net c) false 0)
           (LocalPreference (c_type c) (c_net c) (c_tcp c) (c_relay_pref c)) (c_comp c).

(* Extensions(): tcptype first when set *)
Definition extensions (c : cand) : list ext :=
  if c_tcp c =? 0 then c_exts c else ("tcptype", TCPType_String (c_tcp c)) :: c_exts c.

(* ---------------------------------------------------------------- Marshal *)

Fixpoint marshal_ext_list (l : list ext) : string :=
  match l with
  | [] => ""
  | [e] => fst e ++ " " ++ snd e
  | e :: r => fst e ++ " " ++ snd e ++ " " ++ marshal_ext_list r
  end.

(* the condition under which Marshal writes the related address ([r != nil] is the match in
   [marshal]); [fix_marshal_rport0]: the proposed repair that drops the port test *)
Definition emits_raddr (r : string * Z) : bool :=
  if fix_marshal_rport0 then negb (String.eqb (fst r) "")
  else negb (String.eqb (fst r) "") && negb (snd r =? 0).

Definition marshal (c : cand) : string :=
  let f := foundation c in
  let f := if String.eqb f " " then "" else f in
  let head := f ++ " " ++ print_int (c_comp c) ++ " " ++ NetworkType_NetworkShort (c_net c) ++ " "
                ++ print_int (priority c) ++ " " ++ strip_zone (c_addr c) ++ " " ++ print_int (c_port c)
                ++ " typ " ++ CandidateType_String (c_type c) in
  let head := match c_rel c with
              | Some r => if emits_raddr r
                          then head ++ " raddr " ++ fst r ++ " rport " ++ print_int (snd r)
                          else head
              | None => head
              end in
  let e := marshal_ext_list (extensions c) in
  if String.eqb e "" then head else head ++ " " ++ e.

(* ---------------------------------------------------------------- UnmarshalCandidate *)

(* tryReadRelativeAddrs: None = error; otherwise (raddr, rport, rest).
   [fix_empty_raddr] (Model/CandVariant.v): the proposed repair that rejects an empty raddr value. *)
Definition try_read_rel (s : string) : option (string * Z * string) :=
  let (key, r) := read_string_token s in
  if negb (String.eqb key "raddr") then Some ("", 0, s) else
  if is_empty r then None else
  let (raddr, r) := read_string_token r in
  if fix_empty_raddr && is_empty raddr then None else
  if is_empty r then None else
  let (key, r) := read_string_token r in
  if negb (String.eqb key "rport") then None else
  if is_empty r then None else
  match read_port r with
  | None => None
  | Some (p, r) => Some (raddr, p, r)
  end.

(* the loop of unmarshalCandidateExtensions; the option is the value of the LAST tcptype key.
   [fuel] bounds the iterations (each consumes at least one byte).
   [fix_ext_empty_key] (Model/CandVariant.v): the proposed repair that rejects an empty key. *)
Fixpoint parse_exts (fuel : nat) (s : string) : result (list ext * option string) :=
  match fuel with
  | O => Ok ([], None)
  | S f =>
    if is_empty s then Ok ([], None) else
    match read_byte_string s with
    | None => Err E_extension
    | Some (key, r) =>
      if fix_ext_empty_key && is_empty key then Err E_extension else
      match (if is_empty r then Some ("", "") else read_byte_string r) with
      | None => Err E_extension
      | Some (value, r') =>
        match parse_exts f r' with
        | Err e => Err e
        | Ok (l, t) =>
          if String.eqb key "tcptype"
          then Ok (l, match t with Some v => Some v | None => Some value end)
          else Ok ((key, value) :: l, t)
        end
      end
    end
  end.

Definition unmarshal_extensions (s : string) : result (list ext * string) :=
  match s with
  | EmptyString => Ok ([], "")
  | String a _ =>
    if is_sp a then Err E_extension else
    match parse_exts (S (String.length s)) s with
    | Err e => Err e
    | Ok (l, t) => Ok (l, match t with Some v => v | None => "" end)
    end
  end.

(* the part of UnmarshalCandidate after the "typ" keyword: [r] is the unconsumed text *)
Definition unmarshal_tail (found : string) (component : Z) (protocol : string) (prio : Z)
           (address : string) (port : Z) (r : string) : result cand :=
  if is_empty r then Err E_too_short else
  let (typ, r) := read_string_token r in
  match try_read_rel r with
  | None => Err E_reladdr
  | Some (raddr, rport, r) =>
    match (if is_empty r then Ok ([], "") else unmarshal_extensions r) with
    | Err e => Err e
    | Ok (exts, tcpraw) =>
      let tcp := if String.eqb tcpraw "" then 0 else new_tcp_type tcpraw in
      if negb (String.eqb tcpraw "") && (tcp =? 0) then Err E_tcptype else
      let ty := if String.eqb typ "host" then 1 else if String.eqb typ "srflx" then 2
                else if String.eqb typ "prflx" then 3 else if String.eqb typ "relay" then 4 else 0 in
      if ty =? 0 then Err E_typ else
      match new_candidate {| g_type := ty; g_network := protocol; g_address := address; g_port := port;
                             g_comp := wrap 16 component; g_prio := wrap 32 prio; g_found := found;
                             g_tcp := tcp; g_reladdr := raddr; g_relport := rport; g_relayproto := "" |} with
      | Err e => Err e
      | Ok c => Ok (set_exts c exts)
      end
    end
  end.

Definition unmarshal (raw0 : string) : result cand :=
  let raw := trim_prefix_or_same "candidate:" raw0 in
  match read_char_token 32 0 raw with
  | None => Err E_foundation
  | Some (found, r) =>
    let found := if String.eqb found "" then " " else found in
    if is_empty r then Err E_too_short else
    match read_digit_token 5 0 0 r with
    | None => Err E_component
    | Some (component, r) =>
      if is_empty r then Err E_too_short else
      let (protocol, r) := read_string_token r in
      if is_empty r then Err E_too_short else
      match read_digit_token 10 0 0 r with
      | None => Err E_priority
      | Some (prio, r) =>
        if is_empty r then Err E_too_short else
        let (address, r) := read_string_token r in
        let address := strip_zone address in
        if is_empty r then Err E_too_short else
        match read_port r with
        | None => Err E_port
        | Some (port, r) =>
          let (type_key, r) := read_string_token r in
          if negb (String.eqb type_key "typ") then Err E_typ else
          unmarshal_tail found component protocol prio address port r
        end
      end
    end
  end.

(* ---------------------------------------------------------------- equality *)

(* addrEqual on two resolved addresses: same kind (UDP4/UDP6/TCP4/TCP6), same IP, same port *)
Definition addr_equal (a b : resolved) : bool :=
  Bool.eqb (rs_tcp a) (rs_tcp b) && Bool.eqb (rs_is4 a) (rs_is4 b)
  && String.eqb (rs_key a) (rs_key b) && (rs_port a =? rs_port b).

(* transportAddressEqual, Equal, DeepEqual through the GENERATED predicates (Gen/CandEq.v).
   [c.addr() != other.addr()] compares interface values: equal when both are nil, or the very
   same object; two distinct candidates never share the pointer, and for the same object the
   shortcut and addrEqual agree (addr_equal is reflexive), so value semantics is exact. *)
Definition transport_equal (a b : cand) : bool :=
  let both_nil := match c_resolved a, c_resolved b with None, None => true | _, _ => false end in
  let a_nil := match c_resolved a with None => true | _ => false end in
  let b_nil := match c_resolved b with None => true | _ => false end in
  let ae := match c_resolved a, c_resolved b with Some x, Some y => addr_equal x y | _, _ => false end in
  transportAddressEqual both_nil a_nil b_nil ae (c_net a) (c_net b) (c_addr a) (c_addr b)
                        (c_port a) (c_port b) (c_tcp a) (c_tcp b).

Definition rel_equal (a b : option (string * Z)) : bool :=
  let n x := match x with None => true | Some _ => false end in
  let ad x := match x with None => "" | Some r => fst r end in
  let po x := match x with None => 0 | Some r => snd r end in
  RelatedAddress_Equal (n a) (n b) (ad a) (ad b) (po a) (po b).

Definition equal (a b : cand) : bool :=
  Candidate_Equal (transport_equal a b) (c_type a) (c_type b) (rel_equal (c_rel a) (c_rel b)).

Fixpoint count_ext (k : ext) (l : list ext) : nat :=
  match l with [] => O | x :: r => (if ext_eqb k x then 1 else 0) + count_ext k r end.

(* extensionsEqual(mine, other): equal lengths and, for more than one element, equal frequency
   maps (the loop over freq1 is a conjunction, so Go's random map order cannot matter).  In the
   pinned code [mine] is c.extensions (without tcptype) while [other] is other.Extensions()
   (with it); [fix_deep_equal] in [deep_equal] below selects c.Extensions() for [mine]. *)
Definition extensions_equal (mine other : list ext) : bool :=
  if negb (Nat.eqb (List.length mine) (List.length other)) then false else
  match mine with
  | [] => true
  | [x] => match other with y :: _ => ext_eqb x y | [] => false end
  | _ => forallb (fun k => Nat.eqb (count_ext k mine) (count_ext k other)) mine
  end.

Definition deep_equal (a b : cand) : bool :=
  Candidate_DeepEqual (equal a b)
    (extensions_equal (if fix_deep_equal then extensions a else c_exts a) (extensions b)).

(* ---------------------------------------------------------------- observations *)

Record getters := {
  o_found : string; o_comp : Z; o_net : Z; o_prio : Z; o_addr : string; o_port : Z; o_type : Z;
  o_rel : option (string * Z); o_tcp : Z; o_exts : list ext }.

Definition observe (c : cand) : getters :=
  {| o_found := foundation c; o_comp := c_comp c; o_net := c_net c; o_prio := priority c;
     o_addr := c_addr c; o_port := c_port c; o_type := c_type c; o_rel := c_rel c;
     o_tcp := c_tcp c; o_exts := extensions c |}.

Inductive source :=
| SrcCtor (g : config) (adds : list ext)    (* public constructor, then AddExtension calls *)
| SrcText (raw : string).                   (* UnmarshalCandidate *)

Definition build (s : source) : result cand :=
  match s with
  | SrcCtor g adds => match new_candidate g with Ok c => add_extensions c adds | Err e => Err e end
  | SrcText raw => unmarshal raw
  end.

(* what the harness observes of one round trip c -> Marshal -> UnmarshalCandidate -> c' *)
Inductive rt_obs :=
| RT_panic
| RT_err (e : err)                                   (* c could not be built *)
| RT_rerr (g : getters) (m : string) (e : err)       (* Marshal(c) does not parse *)
| RT_ok (g : getters) (m : string) (g' : getters)
        (flags : list bool)  (* Equal(c,c') Equal(c',c) Deep(c,c') Deep(c',c) Equal(c,c) Deep(c,c) Equal(c',c') Deep(c',c') *)
        (m' : string).

Definition rt_observe (s : source) : rt_obs :=
  match build s with
  | Err e => RT_err e
  | Ok c =>
    let m := marshal c in
    match unmarshal m with
    | Err e => RT_rerr (observe c) m e
    | Ok c' => RT_ok (observe c) m (observe c')
                     [equal c c'; equal c' c; deep_equal c c'; deep_equal c' c;
                      equal c c; deep_equal c c; equal c' c'; deep_equal c' c'] (marshal c')
    end
  end.

(* two candidates: Equal(a,b) Equal(b,a) Deep(a,b) Deep(b,a) *)
Definition pair_observe (sa sb : source) : option (list bool) :=
  match build sa, build sb with
  | Ok a, Ok b => Some [equal a b; equal b a; deep_equal a b; deep_equal b a]
  | _, _ => None
  end.

End WithEnv.

(* ---------------------------------------------------------------- the domain of the round-trip law
   "grammar-valid, zone-free fields" *)

Fixpoint all_chars (p : ascii -> bool) (s : string) : bool :=
  match s with EmptyString => true | String a r => p a && all_chars p r end.

Definition no_space (s : string) : bool := all_chars (fun a => negb (is_sp a)) s.
Definition no_space_no_zone (s : string) : bool :=
  all_chars (fun a => negb (is_sp a) && negb (Ascii.eqb a "%"%char)) s.

(* 1*32 ice-char *)
Definition valid_foundation_token (s : string) : bool :=
  negb (is_empty s) && Nat.leb (String.length s) 32 && all_chars is_ice_char s.

(* a byte-string the extension tokenizer reads back: runes %x01-09/%x0B-0C/%x0E-FF except SP,
   UTF-8 encoded (same recursion as read_byte_string) *)
Fixpoint valid_bs (s : string) : bool :=
  match s with
  | EmptyString => true
  | String a r =>
    if is_sp a then false else
    let n := code a in
    if (n <? 128)%N then bs_ascii_ok n && valid_bs r
    else if ((n =? 194) || (n =? 195))%N then
      match r with String b r' => is_cont b && valid_bs r' | EmptyString => false end
    else false
  end.

Definition valid_added_ext (e : ext) : bool :=
  negb (is_empty (fst e)) && valid_bs (fst e) && valid_bs (snd e)
  && negb (String.eqb (fst e) "tcptype")
  && negb (String.eqb (fst e) "raddr").   (* an extension named raddr right after the type is
                                              the related address by the grammar: ambiguous *)

Definition valid_config (g : config) : bool :=
  ((g_type g =? 1) || (g_type g =? 2) || (g_type g =? 3) || (g_type g =? 4))
  && (0 <=? g_port g) && (g_port g <=? 65535)
  && (0 <=? g_comp g) && (g_comp g <? 65536)
  && (0 <=? g_prio g) && (g_prio g <? 4294967296)
  && (String.eqb (g_found g) "" || String.eqb (g_found g) " " || valid_foundation_token (g_found g))
  && no_space_no_zone (g_address g)
  && (if g_type g =? 1 then (0 <=? g_tcp g) && (g_tcp g <=? 3)
      else (negb (is_empty (g_reladdr g)) && no_space (g_reladdr g)
            && (0 <=? g_relport g) && (g_relport g <=? 65535))
           || (is_empty (g_reladdr g) && (g_relport g =? 0))).

Definition in_domain (s : source) : bool :=
  match s with
  | SrcCtor g adds => valid_config g && forallb valid_added_ext adds
  | SrcText _ => false
  end.

(* ---------------------------------------------------------------- the monitor (states C16 on
   the implementation's observations; evaluated by the driver on every line) *)

Definition opt_rel_eqb (a b : option (string * Z)) : bool :=
  match a, b with
  | None, None => true
  | Some x, Some y => String.eqb (fst x) (fst y) && (snd x =? snd y)
  | _, _ => false
  end.

Fixpoint exts_eqb (a b : list ext) : bool :=
  match a, b with
  | [], [] => true
  | x :: a', y :: b' => ext_eqb x y && exts_eqb a' b'
  | _, _ => false
  end.

Definition nthb (l : list bool) (i : nat) : bool := nth i l false.

(* laws on the pair (c, c') and on each alone *)
Definition law_checks (f : list bool) : checks :=
  [ ("equal_refl", nthb f 4 && nthb f 6);
    ("deep_refl", nthb f 5 && nthb f 7);
    ("equal_sym", Bool.eqb (nthb f 0) (nthb f 1));
    ("deep_sym", Bool.eqb (nthb f 2) (nthb f 3));
    ("deep_implies_equal", (implb (nthb f 2) (nthb f 0)) && (implb (nthb f 3) (nthb f 1))) ].

Definition C16_rt_checks (s : source) (o : rt_obs) : checks :=
  match o with
  | RT_panic => [("no_panic", false)]
  | RT_err _ => []
  | RT_rerr _ _ _ =>
    match s with
    | SrcCtor _ _ => if in_domain s then [("rt_parses", false)] else []
    | SrcText _ => [("reparse_parses", false)]
    end
  | RT_ok g _ g' f _ =>
    match s with
    | SrcCtor _ _ =>
      ((if in_domain s then
         [ ("rt_foundation", String.eqb (o_found g) (o_found g'));
           ("rt_component", o_comp g =? o_comp g');
           ("rt_transport", o_net g =? o_net g');
           ("rt_priority", o_prio g =? o_prio g');
           ("rt_address", String.eqb (o_addr g) (o_addr g'));
           ("rt_port", o_port g =? o_port g');
           ("rt_type", o_type g =? o_type g');
           ("rt_related", opt_rel_eqb (o_rel g) (o_rel g'));
           ("rt_tcptype", o_tcp g =? o_tcp g');
           ("rt_extensions", exts_eqb (o_exts g) (o_exts g'));
           ("rt_equal", nthb f 0 && nthb f 1);
           ("rt_deep_equal", nthb f 2 && nthb f 3) ]
       else []) ++ law_checks f)%list
    | SrcText _ =>
      ("reparse_equal", nthb f 0 && nthb f 1) :: law_checks f
    end
  end.

Definition C16_pair_checks (o : option (list bool)) : checks :=
  match o with
  | None => []
  | Some f =>
    [ ("equal_sym", Bool.eqb (nthb f 0) (nthb f 1));
      ("deep_sym", Bool.eqb (nthb f 2) (nthb f 3));
      ("deep_implies_equal", (implb (nthb f 2) (nthb f 0)) && (implb (nthb f 3) (nthb f 1))) ]
  end.
