(* The composition the code performs for a candidate without priority override
   (candidateBase.Priority calling TypePreference / LocalPreference), over the generated functions. *)
From Coq Require Import ZArith String.
From Ice Require Import Gen.Prio.
Definition candidate_priority (ty nt tcp : Z) (relayProto : string) (has_agent : bool) (off comp : Z) : Z :=
  Priority 0 (TypePreference ty nt has_agent off)
             (LocalPreference ty nt tcp (relayProtocolPreference relayProto)) comp.
