(* Two agents and the network between them (C01).  Each agent is an AgentCore state machine; the
   network routes a datagram written to local candidate socket [lh] towards address [dst] to the
   peer endpoint whose public address is [dst], if the link between the two endpoints is up in that
   direction, and the receiver observes the sender endpoint's public address as source (NAT).
   In-flight datagrams form a list; any one may be delivered, dropped or duplicated at any time
   (hence every ordering, duplication, delay and loss). *)
From Coq Require Import ZArith Bool List.
From Ice Require Import Model.AgentTypes Model.AgentCore Model.PairMonitor Gen.Consts.
Import ListNotations.
Local Open Scope Z_scope.

Record topology := mkTopology {
  t_a : list endpoint;                 (* A's sockets: local handle, public address *)
  t_b : list endpoint;
  t_links : list (list (bool * bool))  (* [i][j] = (A_i -> B_j delivered, B_j -> A_i delivered) *)
}.

Definition t_link (t : topology) (i j : nat) : bool * bool :=
  nth j (nth i (t_links t) []) (false, false).

Record flight := mkFlight {
  f_to_a : bool;       (* destination agent *)
  f_lh : Z;            (* destination socket (local candidate handle) *)
  f_src : addr;        (* source address as observed by the receiver *)
  f_msg : msg
}.

(* routing of one written STUN datagram *)
Definition route_one (t : topology) (from_a : bool) (lh : Z) (dst : addr) (m : msg) : list flight :=
  let mine := if from_a then t_a t else t_b t in
  let theirs := if from_a then t_b t else t_a t in
  match index_of lh mine 0, index_of_pub dst theirs 0 with
  | Some i, Some j =>
    let up := if from_a then fst (t_link t i j) else snd (t_link t j i) in
    if up then [mkFlight (negb from_a) (ep_h (nth j theirs (mkEndpoint 0 (mkAddr false 0 0))))
                         (ep_pub (nth i mine (mkEndpoint 0 (mkAddr false 0 0)))) m]
    else []
  | _, _ => []
  end.

Definition route (t : topology) (from_a : bool) (outs : list out) : list flight :=
  flat_map (fun o => match o with OSend lh dst m => route_one t from_a lh dst m | _ => [] end) outs.

Record sys := mkSys { sy_a : state; sy_b : state; sy_net : list flight }.

Inductive sys_op :=
| SApi (on_a : bool) (o : op)     (* an API call / timer tick on one agent (never an inbound delivery) *)
| SDeliver (n : nat)
| SDrop (n : nat)
| SDup (n : nat).

Fixpoint remove_nth {A} (n : nat) (l : list A) : list A :=
  match n, l with
  | O, _ :: t => t
  | S k, x :: t => x :: remove_nth k t
  | _, [] => []
  end.

Definition is_inbound (o : op) : bool :=
  match o with InStun _ _ _ | InData _ _ _ => true | _ => false end.

Definition agent_step (cfga cfgb : config) (t : topology) (on_a : bool) (o : op) (sy : sys) : sys :=
  if on_a then
    let '(s', outs) := step cfga (sy_a sy) o in
    mkSys s' (sy_b sy) (sy_net sy ++ route t true outs)
  else
    let '(s', outs) := step cfgb (sy_b sy) o in
    mkSys (sy_a sy) s' (sy_net sy ++ route t false outs).

Definition sys_step (cfga cfgb : config) (t : topology) (sy : sys) (o : sys_op) : sys :=
  match o with
  | SApi on_a op => if is_inbound op then sy else agent_step cfga cfgb t on_a op sy
  | SDeliver n =>
    match nth_error (sy_net sy) n with
    | Some f =>
      agent_step cfga cfgb t (f_to_a f) (InStun (f_lh f) (f_src f) (f_msg f))
                 (mkSys (sy_a sy) (sy_b sy) (remove_nth n (sy_net sy)))
    | None => sy
    end
  | SDrop n => mkSys (sy_a sy) (sy_b sy) (remove_nth n (sy_net sy))
  | SDup n =>
    match nth_error (sy_net sy) n with
    | Some f => mkSys (sy_a sy) (sy_b sy) (sy_net sy ++ [f])
    | None => sy
    end
  end.

Definition sys_run (cfga cfgb : config) (t : topology) (sy : sys) (ops : list sys_op) : sys :=
  fold_left (sys_step cfga cfgb t) ops sy.

Definition sys_init (lua lpa lub lpb : Z) : sys := mkSys (init lua lpa) (init lub lpb) [].

(* some endpoint pair is reachable in both directions *)
Definition topo_bidirectional (t : topology) : bool :=
  existsb (fun row => existsb (fun l => fst l && snd l) row) (t_links t).
