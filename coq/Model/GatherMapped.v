(* C18, the mapped server-reflexive gatherer (gather.go gatherCandidatesSrflxMapped): when the address-rewrite
   mapper has server-reflexive rules, the agent opens, per enabled UDP network type, a socket on the WILDCARD address of
   that family in the configured port range, asks the mapper (resolveSrflxAddresses) for the external addresses of
   that wildcard address, and publishes one server-reflexive candidate per external address (an extra socket for the
   second and later ones) whose port and related port are the socket's.  The mapper's answer is an input of this
   model (its semantics is C19's model, Model/Rewrite.v: resolve_srflx); the cases of the harness configure only
   server-reflexive candidates and no STUN/TURN URLs, so that this gatherer is the only one that runs. *)
From Coq Require Import ZArith Bool List String.
From Ice Require Import Gen.Names Gen.Prio Model.PrioSpec Model.GatherSpec.
Import ListNotations.
Local Open Scope Z_scope.

(* [res is6]: what resolveSrflxAddresses returns for the wildcard address of the family: None = "not ok" (nothing is
   published), Some l = the addresses to publish (the wildcard address itself when no rule matched).
   [skip_unspec]: the repaired code does not publish an unspecified address (model parameter, probed by the harness). *)
Definition mapped_one (skip_unspec : bool) (c : cfg) (e : env) (res : bool -> option (list addr)) (nt : Z) : list cdesc :=
  let is6 := NetworkType_IsIPv6 nt in
  match listen_spec e (wild is6) (c_pmin c) (c_pmax c) with
  | None => []
  | Some ps =>
    match res is6 with
    | None => []
    | Some exts =>
      flat_map (fun x =>
        if location_tracked x || (skip_unspec && is_unspec x) then []
        else [mkCdesc 2 (nt_of TUdp (a6 x)) (DIP x) ps (Some (wild is6, ps)) true (Some (wild is6))]) exts
    end
  end.

Definition mapped_model (skip_unspec : bool) (c : cfg) (e : env) (res : bool -> option (list addr)) : list cdesc :=
  if negb (mem 2 (c_ctypes c)) then []
  else flat_map (fun nt => if NetworkType_IsTCP nt then [] else mapped_one skip_unspec c e res nt) (eff_nts (c_ntypes c)).

(* the monitor: the clauses of C18 that apply to these candidates, over observations *)
Definition C18_mapped_checks (c : cfg) (ifs : list iface) (pub : list ocand) (socks : list osock) : checks :=
  [ ("mapped_type_enabled"%string, forallb (fun o => mem (o_type o) (c_ctypes c)) pub);
    ("mapped_base_family_enabled"%string,
       forallb (fun o => match o_base o with
                         | Some (b, _) => mem (nt_of TUdp (a6 b)) (eff_nts (c_ntypes c))
                         | None => false end) pub);
    ("mapped_addr_class"%string,
       forallb (fun o => match o_disp o with DIP a => negb (bad_class a) || is_unspec a | DName _ => false end) pub);
    ("mapped_not_unspecified"%string,
       forallb (fun o => match o_disp o with DIP a => negb (is_unspec a) | DName _ => false end) pub);
    ("mapped_port_in_range"%string,
       forallb (fun o => match o_base o with
                         | Some (_, p) => in_cfg_range c p && (o_port o =? p)
                         | None => false end) pub);
    ("mapped_own_socket"%string,
       forallb (fun o => match o_base o with
                         | Some (b, p) => existsb (fun s => addr_eqb (s_addr s) b && (s_port s =? p)) socks
                         | None => false end) pub);
    ("mapped_base_accepted"%string, forallb (base_ok c ifs) pub) ].

(* ---- the UDP-mux host gatherer (gather.go gatherCandidatesLocalUDPMux) ------------------------------------------
   With a UDP mux configured the agent opens no UDP sockets of its own for host candidates: it publishes one host
   candidate per listen address of the mux (duplicates once), on a connection borrowed from the mux, with the mux's
   port.  [fixed]: the repaired code skips an address whose network type is not enabled and labels the candidate with
   the network type of the listen address also behind an mDNS name (model parameter, probed by the harness); the pinned
   code publishes every address whatever the configured network types, as udp4 when an mDNS name is shown.  (No host rewrite rules in these
   cases, and a mux that is not a *UDPMuxDefault, for which the loopback setting is not consulted.) *)
Definition udpmux_nt (fixed : bool) (c : cfg) (a : addr) : Z :=
  (* pinned: behind an mDNS name the candidate is labelled udp4 whatever the family of the listen address *)
  if negb fixed && c_mdns c then 1 else nt_of TUdp (a6 a).

Definition udpmux_one (fixed : bool) (c : cfg) (ap : addr * Z) : list cdesc :=
  let '(a, port) := ap in
  if fixed && negb (mem (nt_of TUdp (a6 a)) (eff_nts (c_ntypes c))) then []
  else [mkCdesc 1 (udpmux_nt fixed c a) (host_disp c a) (PExact port) None (host_pub c a) None].

Definition cdesc_key (d : cdesc) : (disp * Z) :=
  (d_disp d, match d_port d with PExact p => p | _ => 0 end).
Definition key_eqb (x y : disp * Z) : bool := disp_eqb (fst x) (fst y) && (snd x =? snd y).

Fixpoint dedup_descs (seen : list (disp * Z)) (l : list cdesc) : list cdesc :=
  match l with
  | [] => []
  | d :: t => if existsb (key_eqb (cdesc_key d)) seen then dedup_descs seen t
              else d :: dedup_descs (cdesc_key d :: seen) t
  end.

Definition udpmux_model (fixed : bool) (c : cfg) (addrs : list (addr * Z)) : list cdesc :=
  if negb (mem 1 (c_ctypes c)) then [] else dedup_descs [] (flat_map (udpmux_one fixed c) addrs).

Definition C18_udpmux_checks (c : cfg) (pub : list ocand) : checks :=
  [ ("udpmux_type_enabled"%string, forallb (fun o => mem (o_type o) (c_ctypes c)) pub);
    ("udpmux_nettype_enabled"%string, forallb (fun o => mem (o_nt o) (eff_nts (c_ntypes c))) pub);
    ("udpmux_addr_class"%string,
       forallb (fun o => match o_disp o with DIP a => negb (bad_class a) | DName _ => true end) pub);
    ("udpmux_mdns_name"%string,
       forallb (fun o => if c_mdns c then disp_eqb (o_disp o) (DName (c_mdns_name c))
                         else match o_disp o with DIP _ => true | DName _ => false end) pub) ].
