(* C19: address rewrite rules.  Executable model of
     external_ip_mapper.go  (newAddressRewriteMapper, addExternalMappings, maybeMarkEmptyMapping,
                             findExternalIPs, ruleMappingForLookup, evaluateRewriteRules)
     agent_options.go       (sanitizeAddressRewriteRule / sanitizeExternalIPs)
     agent.go               (validateLegacyNAT1To1IPs, legacyNAT1To1Rules)
     gather.go              (applyHostAddressRewrite, applyHostRewriteForUDPMux,
                             resolveSrflxAddresses, resolveRelayAddresses and their guards)
   followed by an INDEPENDENT declarative statement of the documented precedence (spec_lookup)
   and the monitors.  No proofs in this file.

   Abstractions: textual IP parsing is not modelled.  An address is (is_ipv4, numeric value);
   a user-supplied string is classified as empty / containing a slash / unparseable / a good
   address (ipstr); a CIDR is (family, masked base, prefix length) with containment by
   arithmetic.  The generated functions catchAllSpecificity, defaultAddressRewriteMode,
   hasMappings, isFamilyAllowed (Gen/RewriteFns.v) and NetworkType_IsIPv4/6 (Gen/Names.v) are
   CALLED by the model, so an edit of those Go functions changes the subject of the theorems. *)
From Coq Require Import ZArith Bool String List.
From Ice Require Import Model.PrioSpec Gen.Names Gen.RewriteFns.
Import ListNotations.
Local Open Scope Z_scope.

(* ---------------------------------------------------------------- addresses *)

Definition addr := (bool * Z)%type.                 (* (is IPv4, value) *)
Definition addr_eqb (a b : addr) : bool := Bool.eqb (fst a) (fst b) && (snd a =? snd b).

(* a string supplied where an IP is expected, after strings.TrimSpace *)
Inductive ipstr := SEmpty | SSlash | SBad | SGood (a : addr).
(* an External entry: (identity of the trimmed text, its class); the identity is used only by
   sanitizeExternalIPs (textual de-duplication) *)
Definition xstr := (Z * ipstr)%type.

Definition cidr := (bool * Z * Z)%type.             (* family, masked base, prefix length *)
Inductive cidrstr := CNone | CBad | CGood (c : cidr).

Definition fam_bits (v4 : bool) : Z := if v4 then 32 else 128.
Definition cidr_v4 (c : cidr) : bool := fst (fst c).
(* net.IPNet.Contains: same family and equal network number *)
Definition cidr_contains (c : cidr) (a : addr) : bool :=
  let '(v4, base, plen) := c in
  Bool.eqb v4 (fst a) &&
  (Z.shiftr (snd a) (fam_bits v4 - plen) =? Z.shiftr base (fam_bits v4 - plen)).

(* ---------------------------------------------------------------- rules *)

Record rule := mkRule {
  r_external : list xstr;
  r_local : ipstr;
  r_iface : string;
  r_cidr : cidrstr;
  r_type : Z;          (* AsCandidateType *)
  r_mode : Z;          (* 0 unspecified, 1 replace, 2 append *)
  r_networks : list Z  (* NetworkType values *)
}.

(* ---------------------------------------------------------------- compiled structures *)

(* ipMapping *)
Record ipmapping := mkIpm {
  m_sole : list addr;
  m_map : list (addr * list addr);   (* ipMap, keyed by the local address *)
  m_valid : bool;
  m_catchall : bool
}.
Definition new_ipmapping : ipmapping := mkIpm [] [] false false.

Fixpoint map_get (m : list (addr * list addr)) (k : addr) : option (list addr) :=
  match m with
  | [] => None
  | (k', v) :: rest => if addr_eqb k' k then Some v else map_get rest k
  end.
Fixpoint map_set (m : list (addr * list addr)) (k : addr) (v : list addr) : list (addr * list addr) :=
  match m with
  | [] => [(k, v)]
  | (k', v') :: rest => if addr_eqb k' k then (k', v) :: rest else (k', v') :: map_set rest k v
  end.

(* addSoleIP *)
Definition add_sole (m : ipmapping) (ip : addr) : ipmapping :=
  mkIpm (m_sole m ++ [ip]) (m_map m) true true.
(* addIPMapping:  m.ipMap[loc] = append(m.ipMap[loc], ext) *)
Definition add_ip_mapping (m : ipmapping) (loc ext : addr) : ipmapping :=
  let cur := match map_get (m_map m) loc with Some l => l | None => [] end in
  mkIpm (m_sole m) (map_set (m_map m) loc (cur ++ [ext])) true (m_catchall m).

(* addressRewriteRuleMapping (rule.Iface is the only field of the rule read after construction) *)
Record rmap := mkRmap {
  rm_iface : string;
  rm_cidr : option cidr;
  rm_mode : Z;
  rm_v4 : ipmapping;
  rm_v6 : ipmapping;
  rm_allow4 : bool;
  rm_allow6 : bool
}.
Definition mapping_for_family (rm : rmap) (v4 : bool) : ipmapping := if v4 then rm_v4 rm else rm_v6 rm.
Definition set_mapping_for_family (rm : rmap) (v4 : bool) (m : ipmapping) : rmap :=
  if v4 then mkRmap (rm_iface rm) (rm_cidr rm) (rm_mode rm) m (rm_v6 rm) (rm_allow4 rm) (rm_allow6 rm)
  else mkRmap (rm_iface rm) (rm_cidr rm) (rm_mode rm) (rm_v4 rm) m (rm_allow4 rm) (rm_allow6 rm).
Definition family_allowed (rm : rmap) (v4 : bool) : bool := isFamilyAllowed (rm_allow4 rm) (rm_allow6 rm) v4.
Definition has_mappings (rm : rmap) : bool := hasMappings (m_valid (rm_v4 rm)) (m_valid (rm_v6 rm)).

(* addImplicitMapping *)
Definition add_implicit (rm : rmap) (ext : addr) (v4 : bool) (local : option addr) : rmap :=
  let m := mapping_for_family rm v4 in
  set_mapping_for_family rm v4
    (match local with Some l => add_ip_mapping m l ext | None => add_sole m ext end).

(* addExternalMappings: None = ErrInvalidNAT1To1IPMapping, else (mapping, added) *)
Fixpoint add_externals (ext : list xstr) (rm : rmap) (local : option addr) (added : bool)
  : option (rmap * bool) :=
  match ext with
  | [] => Some (rm, added)
  | (_, SGood e) :: rest =>
      let target := match local with
                    | Some l => fst l
                    | None => match rm_cidr rm with Some c => cidr_v4 c | None => fst e end
                    end in
      if family_allowed rm target
      then add_externals rest (add_implicit rm e target local) local true
      else add_externals rest rm local added
  | _ :: _ => None
  end.

(* maybeMarkEmptyMapping *)
Definition mark_valid_catchall (m : ipmapping) : ipmapping := mkIpm (m_sole m) (m_map m) true true.
Definition maybe_mark_empty (rm : rmap) (added : bool) (local : option addr) : rmap :=
  if added then rm else
  match local with
  | Some l =>
      if family_allowed rm (fst l) then
        let m := mapping_for_family rm (fst l) in
        set_mapping_for_family rm (fst l) (mkIpm (m_sole m) (map_set (m_map m) l []) true (m_catchall m))
      else rm
  | None =>
      let rm1 := if rm_allow4 rm then set_mapping_for_family rm true (mark_valid_catchall (rm_v4 rm)) else rm in
      if rm_allow6 rm1 then set_mapping_for_family rm1 false (mark_valid_catchall (rm_v6 rm1)) else rm1
  end.

(* error codes: 1 = ErrInvalidNAT1To1IPMapping, 2 = ErrUnsupportedNAT1To1IPCandidateType *)
Inductive crule := CRErr (code : Z) | CRSkip | CRRule (ty : Z) (rm : rmap).

(* one iteration of the loop of newAddressRewriteMapper *)
Definition compile_rule (r : rule) : crule :=
  let ty := if r_type r =? 0 then 1 else r_type r in
  if ty =? 3 then CRErr 2 else
  let mode := if r_mode r =? 0 then defaultAddressRewriteMode ty else r_mode r in
  let restricted := match r_networks r with [] => false | _ => true end in
  let a4 := if restricted then existsb NetworkType_IsIPv4 (r_networks r) else true in
  let a6 := if restricted then existsb NetworkType_IsIPv6 (r_networks r) else true in
  if restricted && negb a4 && negb a6 then CRSkip else
  match r_cidr r with
  | CBad => CRErr 1
  | cs =>
    let c := match cs with CGood c => Some c | _ => None end in
    let rm0 := mkRmap (r_iface r) c mode new_ipmapping new_ipmapping a4 a6 in
    let with_local (local : option addr) :=
      match add_externals (r_external r) rm0 local false with
      | None => CRErr 1
      | Some (rm1, added) =>
          let rm2 := maybe_mark_empty rm1 added local in
          if has_mappings rm2 then CRRule ty rm2 else CRSkip
      end in
    match r_local r with
    | SEmpty => with_local None
    | SGood l =>
        match c with
        | Some cc => if cidr_contains cc l then with_local (Some l) else CRErr 1
        | None => with_local (Some l)
        end
    | _ => CRErr 1
    end
  end.

Inductive cres := CErr (code : Z) | COk (m : list (Z * rmap)).   (* COk [] is the nil mapper *)

Fixpoint compile (rs : list rule) : cres :=
  match rs with
  | [] => COk []
  | r :: rest =>
      match compile_rule r with
      | CRErr c => CErr c
      | CRSkip => compile rest
      | CRRule ty rm => match compile rest with CErr c => CErr c | COk m => COk ((ty, rm) :: m) end
      end
  end.

Definition rules_for (m : list (Z * rmap)) (ty : Z) : list rmap :=
  map snd (filter (fun p => fst p =? ty) m).

Definition has_candidate_type (m : list (Z * rmap)) (ty : Z) : bool := existsb has_mappings (rules_for m ty).
Definition should_replace (m : list (Z * rmap)) (ty : Z) : bool := existsb (fun r => rm_mode r =? 1) (rules_for m ty).

(* ---------------------------------------------------------------- lookup *)

(* ruleMappingForLookup *)
Definition mapping_for_lookup (rm : rmap) (loc : addr) (iface : string) : option ipmapping :=
  if negb (String.eqb (rm_iface rm) "") && negb (String.eqb (rm_iface rm) iface) then None else
  if match rm_cidr rm with Some c => negb (cidr_contains c loc) | None => false end then None else
  let m := mapping_for_family rm (fst loc) in
  if m_valid m then Some m else None.

Definition rm_specificity (rm : rmap) (iface : string) : Z :=
  catchAllSpecificity (negb (String.eqb (rm_iface rm) ""))
                      (match rm_cidr rm with Some _ => true | None => false end)
                      (String.eqb iface "").

Definition lres := (list addr * bool * Z)%type.      (* ips, matched, mode *)

(* evaluateRewriteRules; ca = Some (catchAll, catchAllMode, bestSpec) once hasCatchAll *)
Fixpoint eval_rules (rules : list rmap) (loc : addr) (iface : string) (ca : option (list addr * Z * Z)) : lres :=
  match rules with
  | [] => match ca with Some (ips, mode, _) => (ips, true, mode) | None => ([], false, 0) end
  | r :: rest =>
      match mapping_for_lookup r loc iface with
      | None => eval_rules rest loc iface ca
      | Some m =>
          match map_get (m_map m) loc with
          | Some explicit => (explicit, true, rm_mode r)
          | None =>
              if m_catchall m then
                let spec := rm_specificity r iface in
                match ca with
                | None => eval_rules rest loc iface (Some (m_sole m, rm_mode r, spec))
                | Some (_, _, best) =>
                    if best <? spec then eval_rules rest loc iface (Some (m_sole m, rm_mode r, spec))
                    else eval_rules rest loc iface ca
                end
              else eval_rules rest loc iface ca
          end
      end
  end.

Definition lookup (m : list (Z * rmap)) (ty : Z) (loc : addr) (iface : string) : lres :=
  eval_rules (rules_for m ty) loc iface None.

(* addressRewriteMapper.findExternalIPs: None = error (unparseable local address) *)
Definition find_external_ips (m : list (Z * rmap)) (ty : Z) (loc : ipstr) (iface : string) : option lres :=
  match loc with SGood a => Some (lookup m ty a iface) | _ => None end.

(* ---------------------------------------------------------------- application during gathering *)

Definition is_nil {A} (l : list A) : bool := match l with [] => true | _ => false end.

(* Agent.applyHostAddressRewrite(addr, mappedAddrs, iface) *)
Definition apply_host (m : list (Z * rmap)) (loc : ipstr) (mapped : list addr) (iface : string) : list addr * bool :=
  match find_external_ips m 1 loc iface with
  | None => (mapped, true)
  | Some (ips, matched, mode) =>
      if negb matched then (mapped, true) else
      let mapped1 := if mode =? 1 then [] else mapped in
      let mapped2 := mapped1 ++ ips in
      if is_nil mapped2 && (mode =? 1) then (mapped2, false) else (mapped2, true)
  end.

(* Agent.applyHostRewriteForUDPMux(candidateIPs, udpAddr): lookup with interface "" *)
Definition apply_udpmux (m : list (Z * rmap)) (loc : ipstr) (cand : list addr) : list addr * bool :=
  match find_external_ips m 1 loc "" with
  | None => (cand, false)
  | Some (ips, matched, mode) =>
      if negb matched then (cand, true) else
      if is_nil ips then (if mode =? 1 then (cand, false) else (cand, true)) else
      ((if mode =? 1 then [] else cand) ++ ips, true)
  end.

(* Agent.resolveSrflxAddresses(localIP, iface), including its shouldRewriteCandidateType guard *)
Definition resolve_srflx (m : list (Z * rmap)) (loc : ipstr) (self : addr) (iface : string) : list addr * bool :=
  if negb (has_candidate_type m 2) then ([self], true) else
  match find_external_ips m 2 loc iface with
  | None => ([], false)
  | Some (ips, matched, mode) =>
      if negb matched then ([self], true) else
      if is_nil ips then (if mode =? 1 then ([], false) else ([self], true)) else
      (ips, true)          (* both modes: the STUN-derived srflx candidates are gathered elsewhere *)
  end.

(* Agent.resolveRelayAddresses(ep): key = ep.relAddr / ep.iface, original = ep.address *)
Definition resolve_relay (m : list (Z * rmap)) (rel : ipstr) (address : addr) (iface : string) : list addr * bool :=
  if negb (has_candidate_type m 4) then ([address], true) else
  match find_external_ips m 4 rel iface with
  | None => ([], false)
  | Some (ips, matched, mode) =>
      if negb matched then ([address], true) else
      if is_nil ips then (if mode =? 1 then ([], false) else ([address], true)) else
      if mode =? 1 then (ips, true) else ([address] ++ ips, true)
  end.

(* the caller's guard of the two host functions (gatherCandidatesLocal / ...UDPMux, mDNS mode
   other than QueryAndGather) *)
Definition host_addresses (m : list (Z * rmap)) (self : addr) (iface : string) : list addr * bool :=
  if has_candidate_type m 1 then apply_host m (SGood self) [self] iface else ([self], true).
Definition udpmux_addresses (m : list (Z * rmap)) (self : addr) : list addr * bool :=
  if has_candidate_type m 1 then apply_udpmux m (SGood self) [self] else ([self], true).
(* gatherServerReflexiveCandidates: STUN gathering runs unless some srflx rule replaces *)
Definition stun_srflx_gathered (m : list (Z * rmap)) : bool := negb (should_replace m 2).

(* ---------------------------------------------------------------- WithAddressRewriteRules validation *)

Definition is_good (s : ipstr) : bool := match s with SGood _ => true | _ => false end.

(* sanitizeExternalIPs: None = ErrInvalidNAT1To1IPMapping.
   [reject_empty] = whether a list without usable entries is an error (true in the pinned code).
   It is a correspondence detail: the harness probes on the real code which behaviour the option
   has, and no monitor judges it. *)
Fixpoint sanitize_externals (reject_empty : bool) (ext : list xstr) (seen : list Z) (acc : list xstr) : option (list xstr) :=
  match ext with
  | [] => if is_nil acc && reject_empty then None else Some (rev acc)
  | (id, s) :: rest =>
      match s with
      | SEmpty => sanitize_externals reject_empty rest seen acc
      | _ =>
        if existsb (Z.eqb id) seen then sanitize_externals reject_empty rest seen acc else
        match s with
        | SGood _ => sanitize_externals reject_empty rest (id :: seen) ((id, s) :: acc)
        | _ => None
        end
      end
  end.

(* sanitizeAddressRewriteRule *)
Definition sanitize_rule (reject_empty : bool) (r : rule) : option rule :=
  match sanitize_externals reject_empty (r_external r) [] [] with
  | None => None
  | Some ext =>
      if negb (match r_local r with SEmpty | SGood _ => true | _ => false end) then None else
      let mode := r_mode r in
      if mode =? 0 then Some (mkRule ext (r_local r) (r_iface r) (r_cidr r) (r_type r) (defaultAddressRewriteMode (r_type r)) (r_networks r))
      else if (mode =? 1) || (mode =? 2) then Some (mkRule ext (r_local r) (r_iface r) (r_cidr r) (r_type r) mode (r_networks r))
      else None
  end.

Fixpoint sanitize_rules (reject_empty : bool) (rs : list rule) : option (list rule) :=
  match rs with
  | [] => Some []
  | r :: rest => match sanitize_rule reject_empty r with
                 | None => None
                 | Some r' => match sanitize_rules reject_empty rest with None => None | Some l => Some (r' :: l) end
                 end
  end.

(* ---------------------------------------------------------------- legacy NAT1To1IPs *)

(* one entry of AgentConfig.NAT1To1IPs after TrimSpace and Split "/" *)
Inductive lentry :=
  | LEmpty                                   (* "" : ignored *)
  | LTooMany                                 (* more than one slash *)
  | LOne (s : ipstr)                         (* "ext" *)
  | LTwo (ext_raw ext_trim loc_trim : ipstr) (* "ext/local": parts[0] as is, trimmed, parts[1] trimmed *).

(* validateLegacyNAT1To1Entry / validateLegacyNAT1To1IPs *)
Fixpoint legacy_validate_from (es : list lentry) (has4 has6 : bool) : bool :=
  match es with
  | [] => true
  | LEmpty :: rest => legacy_validate_from rest has4 has6
  | LTooMany :: _ => false
  | LOne (SGood a) :: rest =>
      if fst a then (if has4 then false else legacy_validate_from rest true has6)
      else (if has6 then false else legacy_validate_from rest has4 true)
  | LOne _ :: _ => false
  | LTwo (SGood _) _ (SGood _) :: rest => legacy_validate_from rest has4 has6
  | LTwo _ _ _ :: _ => false
  end.
Definition legacy_validate (es : list lentry) : bool := legacy_validate_from es false false.

(* legacyNAT1To1Rules; the text identity of the produced External entry is the entry's index *)
Fixpoint legacy_rules_from (es : list lentry) (ty : Z) (idx : Z) : option (list rule) :=
  match es with
  | [] => Some []
  | e :: rest =>
      let tail := legacy_rules_from rest ty (idx + 1) in
      match e with
      | LEmpty => tail
      | LTooMany => None
      | LOne s => match tail with None => None
                  | Some l => Some (mkRule [(idx, s)] SEmpty "" CNone ty 0 [] :: l) end
      | LTwo _ ext loc =>
          if is_good ext && is_good loc then
            match tail with None => None
            | Some l => Some (mkRule [(idx, ext)] loc "" CNone ty 0 [] :: l) end
          else None
      end
  end.
Definition legacy_rules (es : list lentry) (ty : Z) : option (list rule) := legacy_rules_from es ty 0.

(* newAgentFromConfig: validate, default the candidate type to host, translate.
   result: None = error, Some rules *)
Definition legacy_config_rules (es : list lentry) (cfg_ty : Z) : option (list rule) :=
  if legacy_validate es then legacy_rules es (if cfg_ty =? 0 then 1 else cfg_ty) else None.

(* ================================================================ SPECIFICATION
   The documented behaviour, written without reference to the compiled structures
   (WithAddressRewriteRules' and AddressRewriteRule's documentation; property C19):
   a rule applies to a key (candidate type, local address, interface) when its candidate
   type (host when unspecified), interface (if set), CIDR (if set) and network restriction
   (if set) accept it.  The first applicable rule pinned (Local) to exactly this address wins
   and advertises all its externals.  Otherwise the most specific applicable catch-all wins,
   iface+CIDR (3) > iface (2) > CIDR (1) > global (0), earliest first among equals; a catch-all
   advertises for a local family the externals targeting that family (family of its CIDR when
   it has one, else the external's own family). *)

Definition eff_type (r : rule) : Z := if r_type r =? 0 then 1 else r_type r.
Definition eff_mode (r : rule) : Z :=
  if r_mode r =? 0 then (if eff_type r =? 1 then 1 else 2) else r_mode r.
Definition net_is_v4 (n : Z) : bool := (n =? 1) || (n =? 3).
Definition net_is_v6 (n : Z) : bool := (n =? 2) || (n =? 4).
Definition net_allows (r : rule) (v4 : bool) : bool :=
  match r_networks r with
  | [] => true
  | ns => existsb (if v4 then net_is_v4 else net_is_v6) ns
  end.
Definition local_of (r : rule) : option addr := match r_local r with SGood a => Some a | _ => None end.
Definition cidr_of (r : rule) : option cidr := match r_cidr r with CGood c => Some c | _ => None end.
Fixpoint good_addrs (l : list xstr) : list addr :=
  match l with [] => [] | (_, SGood a) :: t => a :: good_addrs t | _ :: t => good_addrs t end.
Definition exts (r : rule) : list addr := good_addrs (r_external r).

Definition scope_match (r : rule) (ty : Z) (loc : addr) (iface : string) : bool :=
  (eff_type r =? ty)
  && (String.eqb (r_iface r) "" || String.eqb (r_iface r) iface)
  && (match cidr_of r with Some c => cidr_contains c loc | None => true end)
  && net_allows r (fst loc).

Definition target_family (r : rule) (e : addr) : bool :=
  match cidr_of r with Some c => cidr_v4 c | None => fst e end.
Definition offers (r : rule) (v4 : bool) : list addr :=
  if net_allows r v4 then filter (fun e => Bool.eqb (target_family r e) v4) (exts r) else [].
(* a catch-all none of whose externals targets an allowed family acts on every allowed
   family with an empty list (this is how "empty External" rules behave) *)
Definition offers_nothing (r : rule) : bool := is_nil (offers r true) && is_nil (offers r false).

Definition explicit_match (r : rule) (ty : Z) (loc : addr) (iface : string) : bool :=
  scope_match r ty loc iface && match local_of r with Some l => addr_eqb l loc | None => false end.
Definition catchall_match (r : rule) (ty : Z) (loc : addr) (iface : string) : bool :=
  scope_match r ty loc iface && match r_local r with SEmpty => true | _ => false end
  && (negb (is_nil (offers r (fst loc))) || offers_nothing r).

(* the documented specificity of a catch-all *)
Definition doc_rank (r : rule) : Z :=
  (if String.eqb (r_iface r) "" then 0 else 2) + (match cidr_of r with Some _ => 1 | None => 0 end).
(* the specificity the code uses (depends on the lookup interface) *)
Definition code_rank (iface : string) (r : rule) : Z :=
  catchAllSpecificity (negb (String.eqb (r_iface r) ""))
                      (match cidr_of r with Some _ => true | None => false end) (String.eqb iface "").

(* what one rule contributes to a key *)
Inductive view := VNone | VExplicit (ips : list addr) (mode : Z) | VCatch (ips : list addr) (mode : Z) (rank : Z).

Definition spec_view (rank : rule -> Z) (ty : Z) (loc : addr) (iface : string) (r : rule) : view :=
  if explicit_match r ty loc iface then VExplicit (exts r) (eff_mode r)
  else if catchall_match r ty loc iface then VCatch (offers r (fst loc)) (eff_mode r) (rank r)
  else VNone.

Fixpoint first_explicit (vs : list view) : option (list addr * Z) :=
  match vs with
  | [] => None
  | VExplicit ips mode :: _ => Some (ips, mode)
  | _ :: rest => first_explicit rest
  end.
Fixpoint catches (vs : list view) : list (list addr * Z * Z) :=
  match vs with
  | [] => []
  | VCatch ips mode rank :: rest => (ips, mode, rank) :: catches rest
  | _ :: rest => catches rest
  end.
Definition with_rank (k : Z) (cs : list (list addr * Z * Z)) := filter (fun c => snd c =? k) cs.
(* most specific first, declaration order within a rank *)
Definition best_catch (cs : list (list addr * Z * Z)) : option (list addr * Z * Z) :=
  hd_error (with_rank 3 cs ++ with_rank 2 cs ++ with_rank 1 cs ++ with_rank 0 cs).

Definition pick (vs : list view) : lres :=
  match first_explicit vs with
  | Some (ips, mode) => (ips, true, mode)
  | None => match best_catch (catches vs) with
            | Some (ips, mode, _) => (ips, true, mode)
            | None => ([], false, 0)
            end
  end.

(* THE DOCUMENTED LOOKUP *)
Definition spec_lookup (rs : list rule) (ty : Z) (loc : addr) (iface : string) : lres :=
  pick (map (spec_view doc_rank ty loc iface) rs).
(* the same statement with the specificity the code computes *)
Definition code_precedence_lookup (rs : list rule) (ty : Z) (loc : addr) (iface : string) : lres :=
  pick (map (spec_view (code_rank iface) ty loc iface) rs).

(* the one situation in which the two differ as to the chosen rule: non-empty lookup
   interface, no pinned rule and no interface-scoped catch-all applies, a CIDR-only catch-all
   applies, and a global catch-all is declared before every applicable CIDR-only one *)
Definition cidr_only_vs_global (rs : list rule) (ty : Z) (loc : addr) (iface : string) : bool :=
  let vs := map (spec_view doc_rank ty loc iface) rs in
  let cs := catches vs in
  negb (String.eqb iface "")
  && match first_explicit vs with Some _ => false | None => true end
  && is_nil (with_rank 3 cs) && is_nil (with_rank 2 cs)
  && negb (is_nil (with_rank 1 cs))
  && match cs with c :: _ => snd c =? 0 | [] => false end.

(* a catch-all with a CIDR and an external of the other family than the CIDR: the rule
   documentation lets the CIDR decide the family, property C19 does not *)
Definition cidr_cross_rule (r : rule) : bool :=
  match r_local r, cidr_of r with
  | SEmpty, Some c => existsb (fun e => negb (Bool.eqb (fst e) (cidr_v4 c))) (exts r)
  | _, _ => false
  end.

(* validity of a rule set, declaratively *)
Definition rule_ignored (r : rule) : bool :=           (* restricted to networks of no family *)
  negb (is_nil (r_networks r)) && negb (net_allows r true) && negb (net_allows r false).
Definition rule_invalid (r : rule) : bool :=
  (eff_type r =? 3)
  || (negb (rule_ignored r)
      && ( match r_cidr r with CBad => true | _ => false end
           || match r_local r with SBad | SSlash => true | _ => false end
           || match r_local r, r_cidr r with SGood l, CGood c => negb (cidr_contains c l) | _, _ => false end
           || existsb (fun x => negb (is_good (snd x))) (r_external r) )).

(* ================================================================ MONITORS
   They state property C19 over the implementation's observations. *)

Fixpoint addrs_eqb (a b : list addr) : bool :=
  match a, b with
  | [], [] => true
  | x :: a', y :: b' => addr_eqb x y && addrs_eqb a' b'
  | _, _ => false
  end.
Definition lres_eqb (a b : lres) : bool :=
  let '(ia, ma, oa) := a in let '(ib, mb, ob) := b in
  addrs_eqb ia ib && Bool.eqb ma mb && (oa =? ob).
Definition mem_addr (a : addr) (l : list addr) : bool := existsb (addr_eqb a) l.

(* an external of another family than the local address may only come from a rule pinned to
   exactly this local address *)
Definition pinned_exts (rs : list rule) (ty : Z) (loc : addr) : list addr :=
  flat_map (fun r => if (eff_type r =? ty) && match local_of r with Some l => addr_eqb l loc | None => false end
                     then exts r else []) rs.
Definition no_cross_family (rs : list rule) (ty : Z) (loc : addr) (ips : list addr) : bool :=
  forallb (fun e => Bool.eqb (fst e) (fst loc) || mem_addr e (pinned_exts rs ty loc)) ips.

(* monitor of one lookup: rules (a valid set), key, observed findExternalIPs result *)
Definition C19_lookup_checks (rs : list rule) (ty : Z) (loc : addr) (iface : string) (obs : lres) : checks :=
  [ ("lookup_documented_precedence"%string, lres_eqb obs (spec_lookup rs ty loc iface));
    ("no_cross_family_unpinned"%string, no_cross_family rs ty loc (fst (fst obs))) ].

(* monitor of the application functions: observed lookup result for the function's key and the
   function's observed result (list, ok); [orig] is the address the function starts from *)
Definition mode_expect (keeps_orig_on_append : bool) (orig : addr) (found : lres) : option (list addr * bool) :=
  let '(ips, matched, mode) := found in
  if negb matched then Some ([orig], true) else
  if mode =? 1 then Some (if is_nil ips then ([], false) else (ips, true)) else
  if mode =? 2 then Some (if is_nil ips then ([orig], true)
                          else ((if keeps_orig_on_append then [orig] else []) ++ ips, true))
  else None.
Definition mode_ok (keeps : bool) (orig : addr) (found : lres) (res : list addr * bool) : bool :=
  match mode_expect keeps orig found with
  | None => true
  | Some (l, ok) =>
      Bool.eqb ok (snd res) && (if ok then addrs_eqb l (fst res) else true)
  end.
Definition C19_apply_checks (has_host has_srflx has_relay : bool) (self orig : addr)
           (f_host f_mux f_srflx f_relay : lres)
           (r_host r_mux r_srflx r_relay : list addr * bool) : checks :=
  let unmatched : lres := ([], false, 0) in
  [ ("modes_host"%string, mode_ok true self (if has_host then f_host else unmatched) r_host);
    ("modes_udpmux"%string, mode_ok true self (if has_host then f_mux else unmatched) r_mux);
    ("modes_srflx"%string, mode_ok false self (if has_srflx then f_srflx else unmatched) r_srflx);
    ("modes_relay"%string, mode_ok true orig (if has_relay then f_relay else unmatched) r_relay) ].

(* monitor of construction: invalid sets are rejected, valid ones are not *)
Definition C19_validation_checks (rs : list rule) (rejected : bool) : checks :=
  [ ("invalid_rejected"%string, if existsb rule_invalid rs then rejected else true);
    ("valid_accepted"%string, if existsb rule_invalid rs then true else negb rejected) ].

(* monitor of the legacy list: entries well-formed, at most one catch-all per family *)
Definition lentry_ok (e : lentry) : bool :=
  match e with
  | LEmpty => true
  | LTooMany => false
  | LOne s => is_good s
  | LTwo raw _ loc => is_good raw && is_good loc
  end.
Definition lentry_catchall (v4 : bool) (e : lentry) : bool :=
  match e with LOne (SGood a) => Bool.eqb (fst a) v4 | _ => false end.
Definition legacy_valid (es : list lentry) : bool :=
  forallb lentry_ok es
  && (Z.of_nat (length (filter (lentry_catchall true) es)) <=? 1)
  && (Z.of_nat (length (filter (lentry_catchall false) es)) <=? 1).
Definition C19_legacy_checks (es : list lentry) (rejected : bool) : checks :=
  [ ("legacy_invalid_rejected"%string, if legacy_valid es then true else rejected);
    ("legacy_valid_accepted"%string, if legacy_valid es then negb rejected else true) ].

(* monitor of WithAddressRewriteRules' validation: a rule with an unparseable External/Local entry
   or an unknown mode is rejected; a well-formed rule with at least one External entry is accepted.
   A rule whose External list is empty after trimming is NOT judged: the property speaks about
   what the mapper does with an empty list, not about whether the public option lets one through
   (the pinned option rejects it, see C19_option_rejects_no_external). *)
Definition option_rule_bad (r : rule) : bool :=
  existsb (fun x => match snd x with SBad | SSlash => true | _ => false end) (r_external r)
  || match r_local r with SBad | SSlash => true | _ => false end
  || negb ((r_mode r =? 0) || (r_mode r =? 1) || (r_mode r =? 2)).
Definition option_rule_no_external (r : rule) : bool :=
  forallb (fun x => match snd x with SEmpty => true | _ => false end) (r_external r).
Definition C19_option_checks (r : rule) (rejected : bool) : checks :=
  [ ("option_bad_rejected"%string, if option_rule_bad r then rejected else true);
    ("option_good_accepted"%string,
     if option_rule_bad r || option_rule_no_external r then true else negb rejected) ].
