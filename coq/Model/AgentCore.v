(* Agent core model: the loop-owned state machine of agent.go / selection.go /
   candidate_base.go (inbound path) / transport.go, function by function.
   Executable Gallina only (no proofs here).  Uses the GENERATED functions of Gen/ for the
   pair priority, the silence->state function, the initial checking deadline, the message
   filter and the controlled switch rule, so those parts of the model are the code's.

   Time: [s_now] is a virtual clock in ns advanced by [Advance]; a duration the code measures
   with time.Since is [now - ts + eps] where [cf_eps] >= 0 stands for the real time that
   elapses between the operations (the harness keeps thresholds and advances on a 100 ms grid
   and real elapsed time far below it, so any 0 < eps < 100 ms gives the same outcomes).

   Not modelled: application BindingRequestHandler, automatic renomination, mDNS remote
   candidates, active-TCP dialling for passive TCP remotes (harness sets DisableActiveTCP),
   socket write errors (the fake socket never fails). *)
From Coq Require Import ZArith Bool List.
From Ice Require Import Model.AgentTypes Gen.Consts Gen.Prio Gen.Lifecycle Gen.Names.
Import ListNotations.
Local Open Scope Z_scope.

(* ---- small state monad ------------------------------------------------------- *)
Definition M := state -> state * list out.
Definition nop : M := fun s => (s, []).
Definition emit (o : out) : M := fun s => (s, [o]).
Definition modify (f : state -> state) : M := fun s => (f s, []).
Definition seq (f g : M) : M :=
  fun s => let '(s1, o1) := f s in let '(s2, o2) := g s1 in (s2, o1 ++ o2).
Notation "f ;; g" := (seq f g) (at level 61, right associativity).
Definition with_state {A} (f : state -> A) (k : A -> M) : M := fun s => k (f s) s.
Fixpoint for_each {A} (l : list A) (f : A -> M) : M :=
  match l with
  | [] => nop
  | x :: t => f x ;; for_each t f
  end.

(* ---- lookups -------------------------------------------------------------------- *)
Definition max_duration : Z := 9223372036854775807.

Definition pair_priority (p : pair) : Z :=
  match p_prio_ov p with
  | Some v => PairPriority true v (p_ctl p) (c_prio (p_loc p)) (c_prio (p_rem p))
  | None => PairPriority false 0 (p_ctl p) (c_prio (p_loc p)) (c_prio (p_rem p))
  end.

Definition find_pair (l r : cand) (s : state) : option pair :=
  find (fun p => cand_equal (p_loc p) l && cand_equal (p_rem p) r) (s_checklist s).

Definition pair_by_id (id : Z) (s : state) : option pair :=
  find (fun p => p_id p =? id) (s_checklist s).

Definition selected_pair (s : state) : option pair :=
  match s_selected s with
  | Some id => pair_by_id id s
  | None => None
  end.

Definition upd_pair (id : Z) (f : pair -> pair) : M :=
  modify (fun s => set_s_checklist (map (fun p => if p_id p =? id then f p else p) (s_checklist s)) s).

Definition find_local (h : Z) (s : state) : option cand :=
  find (fun c => c_h c =? h) (s_locals s).

(* Agent.findRemoteCandidate: first remote of that network type whose address equals addr *)
Definition find_remote (net : Z) (a : addr) (s : state) : option cand :=
  find (fun c => (c_net c =? net) && addr_eqb (c_addr c) a) (s_remotes s).

Fixpoint assoc_get (k : Z) (l : list (Z * Z)) : option Z :=
  match l with
  | [] => None
  | (k', v) :: t => if k' =? k then Some v else assoc_get k t
  end.
Definition assoc_set (k v : Z) (l : list (Z * Z)) : list (Z * Z) :=
  (k, v) :: filter (fun kv => negb (fst kv =? k)) l.

(* Candidate.seen(false) *)
Definition seen (h : Z) : M :=
  modify (fun s => set_s_lastrecv (assoc_set h (s_now s) (s_lastrecv s)) s).

(* time.Since(ts) as observed by the code *)
Definition since (cfg : config) (s : state) (ts : Z) : Z := s_now s - ts + cf_eps cfg.

(* ---- connection state, selection -------------------------------------------------- *)
Definition wipe_failed (s : state) : state :=
  set_s_remotes [] (set_s_locals [] (set_s_selected None (set_s_pending [] (set_s_checklist [] s)))).

(* Agent.updateConnectionState *)
Definition update_conn (st : Z) : M :=
  fun s =>
    if s_conn s =? st then (s, [])
    else
      let s1 := if st =? ConnectionStateFailed then wipe_failed s else s in
      (set_s_conn st s1, [OState st]).

(* Agent.setSelectedPair (non-nil) *)
Definition set_selected (id : Z) : M :=
  upd_pair id (set_p_nominated true) ;;
  modify (set_s_selected (Some id)) ;;
  update_conn ConnectionStateConnected ;;
  emit (OSelected id).

(* ---- sending ------------------------------------------------------------------------ *)
Definition fresh_tx (k : Z -> M) : M :=
  with_state s_next_tx (fun tx => modify (set_s_next_tx (tx + 1)) ;; k tx).

(* Agent.invalidatePendingBindingRequests *)
Definition invalidate_pending (cfg : config) : M :=
  modify (fun s => set_s_pending
    (filter (fun q => since cfg s (q_ts q) <? maxBindingRequestTimeout) (s_pending s)) s).

(* Agent.sendBindingRequest *)
Definition send_binding_request (cfg : config) (m : msg) (l r : cand) : M :=
  invalidate_pending cfg ;;
  modify (fun s => set_s_pending (s_pending s ++
     [mkPending (m_tx m) (c_addr r) (c_net r) (m_use m) (m_nom m) (s_now s)]) s) ;;
  with_state (find_pair l r) (fun op =>
    match op with
    | Some p => upd_pair (p_id p) (fun p => set_p_req_sent (p_req_sent p + 1) p)
    | None => nop
    end) ;;
  emit (OSend (c_h l) (c_addr r) m).

Definition request_msg (s : state) (cfg : config) (tx : Z) (use : bool) (prio : Z) (nom : option Z) : msg :=
  mkMsg 0 1 tx (Some (s_rufrag s, s_lufrag s)) (Some (s_rpwd s)) use
        (Some (s_ctl s, cf_tiebreaker cfg)) (Some prio) nom None None.

(* selector.PingCandidate (controlling and controlled differ only in the role attribute) *)
Definition ping_candidate (cfg : config) (l r : cand) : M :=
  fresh_tx (fun tx => with_state (fun s => request_msg s cfg tx false (c_prio l) None)
    (fun m => send_binding_request cfg m l r)).

(* controllingSelector.nominatePair *)
Definition nominate_pair (cfg : config) (p : pair) : M :=
  fresh_tx (fun tx => with_state (fun s => request_msg s cfg tx true (c_prio (p_loc p)) None)
    (fun m => send_binding_request cfg m (p_loc p) (p_rem p))).

(* Agent.sendBindingSuccess *)
Definition send_binding_success (m : msg) (l r : cand) : M :=
  with_state (find_pair l r) (fun op =>
    match op with
    | Some p => upd_pair (p_id p) (fun p => set_p_resp_sent (p_resp_sent p + 1) p)
    | None => nop
    end) ;;
  with_state (fun s => mkMsg 2 1 (m_tx m) None (Some (s_lpwd s)) false None None None None (Some (c_addr r)))
    (fun resp => emit (OSend (c_h l) (c_addr r) resp)).

(* ---- pairs and candidates -------------------------------------------------------------- *)
Definition new_pair (id : Z) (l r : cand) (ctl : bool) : pair :=
  mkPair id l r ctl CandidatePairStateWaiting false false None 0 None 0 0 0 0 0 0 0 0.

(* Agent.addPair *)
Definition add_pair (l r : cand) : M :=
  modify (fun s =>
    let id := s_next_pair s + 1 in
    set_s_next_pair id (set_s_checklist (s_checklist s ++ [new_pair id l r (s_ctl s)]) s)).

Definition accepts_remote (cfg : config) (c : cand) : bool :=
  negb (existsb (Z.eqb (a_ip (c_addr c))) (cf_blocked_ips cfg)).

(* replaceRemoteInPairs: "if a.getSelectedPair() == pair { a.setSelectedPair(replacement) }" *)
Definition reselect (pid : Z) : M :=
  with_state s_selected (fun sel =>
    match sel with
    | Some id => if id =? pid then set_selected id else nop
    | None => nop
    end).

(* replacePairRemote + replaceRemoteInPairs for one superseded peer-reflexive remote *)
Definition replace_remote_in_pairs (old new : cand) : M :=
  with_state s_checklist (fun cl =>
    for_each (filter (fun p => c_h (p_rem p) =? c_h old) cl) (fun p =>
      let repl := set_p_prio_ov (Some (pair_priority p)) (set_p_rem new p) in
      upd_pair (p_id p) (fun _ => repl) ;;
      modify (fun s => match s_nominated s with
                       | Some np => if p_id np =? p_id p then set_s_nominated (Some repl) s else s
                       | None => s
                       end) ;;
      reselect (p_id p))).

Definition retarget_cache (old new : cand) : M :=
  modify (fun s => set_s_cache
    (map (fun e => let '(lh, a, rh) := e in if rh =? c_h old then (lh, a, c_h new) else e) (s_cache s)) s).

(* copyCandidateActivity: lastReceived of the signalled candidate is taken from the prflx one if unset *)
Definition copy_activity (old new : cand) : M :=
  modify (fun s =>
    match assoc_get (c_h old) (s_lastrecv s), assoc_get (c_h new) (s_lastrecv s) with
    | Some t, None => set_s_lastrecv (assoc_set (c_h new) t (s_lastrecv s)) s
    | _, _ => s
    end).

(* Agent.addRemoteCandidate after the filter and the duplicate check: supersede redundant
   peer-reflexive candidates, append, pair with the local candidates of the same network type *)
Definition add_remote_body (c : cand) (set : list cand) : M :=
  let redundant := if c_typ c =? CandidateTypePeerReflexive then []
                   else filter (fun e => (c_typ e =? CandidateTypePeerReflexive) && cand_taddr_eqb e c) set in
  modify (fun s => set_s_remotes
    (filter (fun e => negb (existsb (fun o => c_h o =? c_h e) redundant)) (s_remotes s)) s) ;;
  for_each redundant (fun old =>
    copy_activity old c ;; replace_remote_in_pairs old c ;; retarget_cache old c) ;;
  modify (fun s => set_s_remotes (s_remotes s ++ [c]) s) ;;
  (if c_tcp c =? TCPTypePassive then nop else
   with_state (fun s => filter (fun l => c_net l =? c_net c) (s_locals s)) (fun locals =>
     for_each locals (fun l =>
       with_state (find_pair l c) (fun op =>
         match op with Some _ => nop | None => add_pair l c end)))).

(* Agent.addRemoteCandidate; the continuation receives whether the candidate was accepted *)
Definition add_remote (cfg : config) (c : cand) (k : bool -> M) : M :=
  with_state (fun s => (s_conn s, filter (fun e => c_net e =? c_net c) (s_remotes s))) (fun '(conn, set) =>
    if conn =? ConnectionStateFailed then k false
    else if negb (accepts_remote cfg c) then k false
    else if existsb (fun e => cand_equal e c) set then k true
    else add_remote_body c set ;; k true).

(* Agent.addCandidate (local) *)
Definition add_local (c : cand) : M :=
  with_state (fun s => (s_conn s, filter (fun e => c_net e =? c_net c) (s_locals s))) (fun '(conn, set) =>
    (* a candidate gathered after the agent failed, or a duplicate, is closed and dropped *)
    if (conn =? ConnectionStateFailed) || existsb (fun e => cand_equal e c) set
    then emit (OClosedCand (c_h c)) ;; emit (ORet RDuplicate) else
    modify (fun s => set_s_locals (s_locals s ++ [c]) s) ;;
    with_state (fun s => filter (fun r => c_net r =? c_net c) (s_remotes s)) (fun remotes =>
      for_each remotes (fun r => add_pair c r)) ;;
    emit (OCand (c_h c)) ;; emit (ORet ROk)).

(* ---- best pairs -------------------------------------------------------------------------- *)
Fixpoint best_of (l : list pair) (best : option pair) : option pair :=
  match l with
  | [] => best
  | p :: t =>
    match best with
    | None => best_of t (Some p)
    | Some b => if pair_priority b <? pair_priority p then best_of t (Some p) else best_of t best
    end
  end.
(* Agent.getBestAvailableCandidatePair / getBestValidCandidatePair *)
Definition best_available (s : state) : option pair :=
  best_of (filter (fun p => negb (p_state p =? CandidatePairStateFailed)) (s_checklist s)) None.
Definition best_valid (s : state) : option pair :=
  best_of (filter (fun p => p_state p =? CandidatePairStateSucceeded) (s_checklist s)) None.

Definition pair_equal (a b : pair) : bool :=
  (* the GENERATED function (Gen/Lifecycle.v, from CandidatePair.equal); both pairs exist *)
  CandidatePair_equal false false (cand_equal (p_loc a) (p_loc b)) (cand_equal (p_rem a) (p_rem b)).

(* ---- selectors ------------------------------------------------------------------------------ *)
Definition acceptance_wait (cfg : config) (c : cand) : option Z :=
  if c_typ c =? CandidateTypeHost then Some (cf_wait_host cfg)
  else if c_typ c =? CandidateTypeServerReflexive then Some (cf_wait_srflx cfg)
  else if c_typ c =? CandidateTypePeerReflexive then Some (cf_wait_prflx cfg)
  else if c_typ c =? CandidateTypeRelay then Some (cf_wait_relay cfg)
  else None.
(* controllingSelector.isNominatable *)
Definition is_nominatable (cfg : config) (s : state) (c : cand) : bool :=
  (* the GENERATED function (Gen/Lifecycle.v, from controllingSelector.isNominatable) *)
  isNominatable (c_typ c) (since cfg s (s_sel_start s))
                (cf_wait_host cfg) (cf_wait_srflx cfg) (cf_wait_prflx cfg) (cf_wait_relay cfg).

(* Agent.setSelector (selector.Start) *)
Definition set_selector : M :=
  modify (fun s => set_s_last_nom None (set_s_nominated None (set_s_sel_start (s_now s) s))).

(* Agent.pingAllCandidates *)
Definition ping_all (cfg : config) : M :=
  with_state s_checklist (fun cl =>
    for_each cl (fun p0 =>
      with_state (pair_by_id (p_id p0)) (fun op =>
        match op with
        | None => nop
        | Some p =>
          if (p_state p =? CandidatePairStateWaiting) || (p_state p =? CandidatePairStateInProgress) then
            (if p_state p =? CandidatePairStateWaiting
             then upd_pair (p_id p) (set_p_state CandidatePairStateInProgress) else nop) ;;
            (if cf_max_req cfg <? p_reqcount p
             then upd_pair (p_id p) (set_p_state CandidatePairStateFailed)
             else ping_candidate cfg (p_loc p) (p_rem p) ;;
                  upd_pair (p_id p) (fun p => set_p_reqcount (p_reqcount p + 1) p))
          else nop
        end))).

(* Agent.validateSelectedPair; returns false iff there is no selected pair *)
Definition validate_selected (cfg : config) (k : bool -> M) : M :=
  with_state selected_pair (fun osp =>
    match osp with
    | None => k false
    | Some sp =>
      with_state (fun s =>
        let lr := match assoc_get (c_h (p_rem sp)) (s_lastrecv s) with
                  | Some t => since cfg s t
                  | None => max_duration
                  end in
        let total := if cf_failed_timeout cfg =? 0 then 0 else cf_failed_timeout cfg + cf_disc_timeout cfg in
        connectionStateForDisconnection (cf_disc_timeout cfg) (s_conn s) lr total)
        (fun st => update_conn st ;; k true)
    end).

(* Agent.checkKeepalive *)
Definition check_keepalive (cfg : config) : M :=
  with_state selected_pair (fun osp =>
    match osp with
    | None => nop
    | Some sp => if cf_keepalive cfg =? 0 then nop else ping_candidate cfg (p_loc sp) (p_rem sp)
    end).

Definition contact_controlling (cfg : config) : M :=
  with_state (fun s => (selected_pair s, s_nominated s)) (fun '(osp, onom) =>
    match osp, onom with
    | Some _, _ => validate_selected cfg (fun ok => if ok then check_keepalive cfg else nop)
    | None, Some np => nominate_pair cfg np
    | None, None =>
      with_state (fun s => (best_valid s, s)) (fun '(ob, s) =>
        match ob with
        | Some p =>
          if is_nominatable cfg s (p_loc p) && is_nominatable cfg s (p_rem p) then
            upd_pair (p_id p) (set_p_nominated true) ;;
            modify (set_s_nominated (Some (set_p_nominated true p))) ;;
            nominate_pair cfg p
          else ping_all cfg
        | None => ping_all cfg
        end)
    end).

Definition contact_controlled (cfg : config) : M :=
  with_state selected_pair (fun osp =>
    match osp with
    | Some _ => validate_selected cfg (fun ok => if ok then check_keepalive cfg else nop)
    | None => ping_all cfg
    end).

(* selector.ContactCandidates incl. the lite wrapper *)
Definition contact_candidates (cfg : config) : M :=
  with_state s_ctl (fun ctl =>
    if ctl then contact_controlling cfg
    else if cf_lite cfg then validate_selected cfg (fun _ => nop)
    else contact_controlled cfg).

(* controllingSelector.HandleBindingRequest *)
Definition handle_request_controlling (cfg : config) (m : msg) (l r : cand) : M :=
  send_binding_success m l r ;;
  with_state (find_pair l r) (fun op =>
    match op with
    | None =>
      add_pair l r ;;
      with_state (find_pair l r) (fun op' =>
        match op' with
        | Some p => upd_pair (p_id p) (fun p => set_p_req_recv (p_req_recv p + 1) p)
        | None => nop
        end)
    | Some p0 =>
      upd_pair (p_id p0) (fun p => set_p_req_recv (p_req_recv p + 1) p) ;;
      with_state (fun s => (pair_by_id (p_id p0) s, s)) (fun '(op1, s) =>
        match op1 with
        | None => nop
        | Some p =>
          if (p_state p =? CandidatePairStateSucceeded)
             && match s_nominated s with None => true | Some _ => false end
             && match selected_pair s with None => true | Some _ => false end
          then
            match best_available s with
            | None => nop
            | Some b =>
              if pair_equal b p && is_nominatable cfg s (p_loc p) && is_nominatable cfg s (p_rem p)
              then modify (set_s_nominated (Some p)) ;; nominate_pair cfg p
              else nop
            end
          else nop
        end)
    end).

(* Agent.handleInboundBindingSuccess *)
Fixpoint take_pending (tx : Z) (l : list pending) : option (pending * list pending) :=
  match l with
  | [] => None
  | q :: t =>
    if q_tx q =? tx then Some (q, t)
    else match take_pending tx t with
         | Some (f, rest) => Some (f, q :: rest)
         | None => None
         end
  end.

(* responseSymmetric *)
Definition response_symmetric (q : pending) (l : cand) (src : addr) : bool :=
  (* the GENERATED function (Gen/Lifecycle.v, from responseSymmetric) *)
  responseSymmetric (q_net q) (c_net l) (addr_eqb (q_dst q) src).

(* controllingSelector.HandleSuccessResponse *)
Definition handle_success_controlling (cfg : config) (m : msg) (l r : cand) (src : addr) : M :=
  invalidate_pending cfg ;;
  with_state (fun s => take_pending (m_tx m) (s_pending s)) (fun t =>
    match t with
    | None => nop
    | Some (q, rest) =>
      modify (set_s_pending rest) ;;
      if negb (response_symmetric q l src) then nop else
      with_state (find_pair l r) (fun op =>
        match op with
        | None => nop
        | Some p =>
          upd_pair (p_id p) (set_p_state CandidatePairStateSucceeded) ;;
          (if q_use q then
             match q_nom q with
             | Some _ => set_selected (p_id p)
             | None => with_state selected_pair (fun osp =>
                         match osp with None => set_selected (p_id p) | Some _ => nop end)
             end
           else nop) ;;
          upd_pair (p_id p) (fun p => set_p_resp_recv (p_resp_recv p + 1) p)
        end)
    end).

(* controlledSelector.HandleSuccessResponse *)
Definition handle_success_controlled (cfg : config) (m : msg) (l r : cand) (src : addr) : M :=
  invalidate_pending cfg ;;
  with_state (fun s => take_pending (m_tx m) (s_pending s)) (fun t =>
    match t with
    | None => nop
    | Some (q, rest) =>
      modify (set_s_pending rest) ;;
      if negb (response_symmetric q l src) then nop else
      with_state (find_pair l r) (fun op =>
        match op with
        | None => nop
        | Some p0 =>
          upd_pair (p_id p0) (set_p_state CandidatePairStateSucceeded) ;;
          (if p_nom_on_succ p0 then
             with_state (fun s => (selected_pair s, pair_by_id (p_id p0) s, s_last_nom s)) (fun '(osp, op1, ln) =>
               match op1 with
               | None => nop
               | Some p =>
                 let same := match osp with Some sp => p_id sp =? p_id p | None => false end in
                 match p_nom_value p with
                 | Some v =>
                   (* renomination: wins while it is still the latest accepted value *)
                   if negb same && match ln with Some cur => cur =? v | None => false end
                   then set_selected (p_id p) else nop
                 | None =>
                   match osp with
                   | None => set_selected (p_id p)
                   | Some sp =>
                     if negb same
                        && (negb (needsToCheckPriorityOnNominated (cf_lite cfg) (cf_check_prio cfg))
                            || (pair_priority sp <=? pair_priority p))
                     then set_selected (p_id p) else nop
                   end
                 end
               end) ;;
             (* the deferred nomination is consumed: a later response on this pair does not replay it *)
             upd_pair (p_id p0) (fun p => set_p_nom_value None (set_p_nom_on_succ false p))
           else nop) ;;
          upd_pair (p_id p0) (fun p => set_p_resp_recv (p_resp_recv p + 1) p)
        end)
    end).

(* controlledSelector.shouldAcceptNomination: the decision is the GENERATED function (Gen/Lifecycle.v);
   its side effect (remember the accepted value) is modelled here *)
Definition accept_nomination (nv : option Z) (k : bool -> M) : M :=
  with_state s_last_nom (fun ln =>
    let accepted := shouldAcceptNomination (match nv with Some _ => true | None => false end) (match nv with Some v => v | None => 0 end)
                                           (match ln with Some _ => true | None => false end) (match ln with Some c => c | None => 0 end) in
    if accepted then
      match nv with
      | Some v => modify (set_s_last_nom (Some v)) ;; k true
      | None => k true
      end
    else k false).

(* controlledSelector.HandleBindingRequest *)
Definition handle_request_controlled (cfg : config) (m : msg) (l r : cand) : M :=
  with_state (find_pair l r) (fun op => match op with None => add_pair l r | Some _ => nop end) ;;
  with_state (find_pair l r) (fun op =>
    match op with
    | None => nop
    | Some p0 =>
      let id := p_id p0 in
      upd_pair id (fun p => set_p_req_recv (p_req_recv p + 1) p) ;;
      let nominating := m_use m || match m_nom m with Some _ => true | None => false end in
      (if nominating then
         accept_nomination (m_nom m) (fun accepted =>
           if negb accepted then send_binding_success m l r
           else
             (if cf_lite cfg then upd_pair id (set_p_state CandidatePairStateSucceeded) else nop) ;;
             with_state (fun s => (pair_by_id id s, selected_pair s)) (fun '(op1, osp) =>
               match op1 with
               | None => nop
               | Some p =>
                 if p_state p =? CandidatePairStateSucceeded then
                   if shouldSwitchSelectedPair
                        (match osp with Some _ => true | None => false end)
                        (match osp with Some sp => p_id sp =? id | None => false end)
                        (match m_nom m with Some _ => true | None => false end)
                        (needsToCheckPriorityOnNominated (cf_lite cfg) (cf_check_prio cfg))
                        (match osp with Some sp => pair_priority sp | None => 0 end)
                        (pair_priority p)
                   then set_selected id else nop
                 else (* a plain USE-CANDIDATE does not erase the value of a deferred renomination *)
                      upd_pair id (fun p => set_p_nom_value (match m_nom m with Some v => Some v | None => p_nom_value p end)
                                                            (set_p_nom_on_succ true p))
               end) ;;
             send_binding_success m l r ;;
             with_state (fun s => (pair_by_id id s, selected_pair s)) (fun '(op1, osp) =>
               match op1 with
               | None => nop
               | Some p =>
                 if negb (cf_lite cfg) &&
                    (negb (p_state p =? CandidatePairStateSucceeded)
                     || match osp with None => true | Some _ => false end)
                 then ping_candidate cfg l r else nop
               end))
       else
         send_binding_success m l r ;;
         with_state (fun s => (pair_by_id id s, selected_pair s)) (fun '(op1, osp) =>
           match op1 with
           | None => nop
           | Some p =>
             if negb (cf_lite cfg) &&
                (negb (p_state p =? CandidatePairStateSucceeded)
                 || match osp with None => true | Some _ => false end)
             then ping_candidate cfg l r else nop
           end))
    end).

(* Agent.handleRoleConflict *)
Definition handle_role_conflict (cfg : config) (m : msg) (l r : cand) (their_tb : Z) : M :=
  with_state (fun s => (s_ctl s, s_lpwd s)) (fun '(ctl, lpwd) =>
    let local_ge := their_tb <=? cf_tiebreaker cfg in
    if (ctl && local_ge) || (negb ctl && negb local_ge) then
      emit (OSend (c_h l) (c_addr r)
              (mkMsg 3 1 (m_tx m) None (Some lpwd) false None None None (Some 487) None))
    else
      modify (fun s => set_s_ctl (negb (s_ctl s)) s) ;; set_selector).

(* network type of a peer-reflexive remote: transport of the local candidate, family of the source *)
Definition prflx_net (l : cand) (src : addr) : Z :=
  if NetworkType_IsTCP (c_net l)
  then (if a_v6 src then NetworkTypeTCP6 else NetworkTypeTCP4)
  else (if a_v6 src then NetworkTypeUDP6 else NetworkTypeUDP4).

(* priority a peer-reflexive candidate computes for itself when PRIORITY is absent or 0 *)
Definition prflx_default_prio (net comp : Z) : Z :=
  Priority 0 (TypePreference CandidateTypePeerReflexive net false 0)
             (LocalPreference CandidateTypePeerReflexive net TCPTypeUnspecified 0) comp.

(* a.getSelector().HandleBindingRequest / HandleSuccessResponse: the selector of the current role *)
Definition dispatch_request (cfg : config) (m : msg) (l rc : cand) : M :=
  with_state s_ctl (fun ctl =>
    if ctl then handle_request_controlling cfg m l rc else handle_request_controlled cfg m l rc).
Definition dispatch_success (cfg : config) (m : msg) (l rc : cand) (src : addr) : M :=
  with_state s_ctl (fun ctl =>
    if ctl then handle_success_controlling cfg m l rc src else handle_success_controlled cfg m l rc src).

(* Agent.handleInboundRequest; continuation receives the remote candidate when the request was accepted *)
Definition handle_inbound_request (cfg : config) (orc : option cand) (l : cand) (src : addr) (m : msg)
           (k : option cand -> M) : M :=
  with_state (fun s => (s_lufrag s, s_rufrag s, s_lpwd s)) (fun '(lu, ru, lp) =>
    let user_ok := match m_user m with Some (a, b) => (a =? lu) && (b =? ru) | None => false end in
    let key_ok := match m_key m with Some kx => kx =? lp | None => false end in
    if negb user_ok then k None else if negb key_ok then k None else
    let continue (rc : cand) : M :=
      with_state s_ctl (fun ctl =>
        match m_ctl m with
        | Some (their_ctl, tb) =>
          if Bool.eqb their_ctl ctl then handle_role_conflict cfg m l rc tb ;; k None
          else dispatch_request cfg m l rc ;; k (Some rc)
        | None => dispatch_request cfg m l rc ;; k (Some rc)
        end) in
    match orc with
    | Some rc => continue rc
    | None =>
      with_state s_next_h (fun h =>
        let net := prflx_net l src in
        let prio := match m_prio m with
                    | Some p => if p =? 0 then prflx_default_prio net (c_comp l) else p
                    | None => prflx_default_prio net (c_comp l)
                    end in
        let rc := mkCand h CandidateTypePeerReflexive net src TCPTypeUnspecified prio (c_comp l) (Some (0, 0)) in
        modify (set_s_next_h (h + 1)) ;;
        add_remote cfg rc (fun ok => if ok then continue rc else k None))
    end).

(* Agent.handleInbound *)
Definition handle_inbound (cfg : config) (l : cand) (src : addr) (m : msg) : M :=
  if negb (canHandleInbound (m_method m) (m_class m)) then nop else
  with_state (fun s => (find_remote (c_net l) src s, s_rpwd s)) (fun '(orc, rpwd) =>
    if m_class m =? 2 then
      (* success response *)
      let key_ok := match m_key m with Some kx => kx =? rpwd | None => false end in
      if negb key_ok then nop else
      match orc with
      | None => nop
      | Some rc =>
        dispatch_success cfg m l rc src ;;
        seen (c_h rc)
      end
    else if m_class m =? 0 then
      handle_inbound_request cfg orc l src m (fun res =>
        match res with
        | Some rc => seen (c_h rc)
        | None => nop
        end)
    else
      (* indication *)
      match orc with Some rc => seen (c_h rc) | None => nop end).

(* ---- the connectivity-check tick (closure `contact` of Agent.connectivityChecks) -------------- *)
Definition tick (cfg : config) : M :=
  with_state (fun s => (s_closed s || negb (s_started s), s_conn s)) (fun '(idle, conn) =>
    if idle then nop else
    (if conn =? ConnectionStateFailed then nop
     else if conn =? ConnectionStateChecking then
       modify (fun s => if negb (s_tick_last s =? s_conn s) then set_s_tick_start (s_now s) s else s) ;;
       with_state (fun s => negb (s_tick_timeout s =? 0) && (s_tick_timeout s <? since cfg s (s_tick_start s)))
         (fun expired => if expired then update_conn ConnectionStateFailed else contact_candidates cfg)
     else contact_candidates cfg) ;;
    modify (fun s => set_s_tick_last (s_conn s) s)).

(* ---- application data --------------------------------------------------------------------------- *)
Definition cache_lookup (lh : Z) (src : addr) (s : state) : option Z :=
  match find (fun e => let '(h, a, _) := e in (h =? lh) && addr_eqb a src) (s_cache s) with
  | Some (_, _, rh) => Some rh
  | None => None
  end.

(* candidateBase.handleInboundPacket, non-STUN branch *)
Definition accept_data (p : payload) : M :=
  modify (fun s => set_s_buf (s_buf s ++ [p]) s) ;;
  (if 0 <? pl_len p then
     with_state selected_pair (fun osp =>
       match osp with
       | Some sp => upd_pair (p_id sp) (fun q => set_p_bytes_recv (p_bytes_recv q + pl_len p)
                                                   (set_p_pkts_recv (p_pkts_recv q + 1) q))
       | None => nop
       end)
   else nop).

Definition inbound_data (l : cand) (src : addr) (p : payload) : M :=
  if pl_stun p then nop (* goes to the STUN decoder; the harness only sends undecodable ones *)
  else
    with_state (fun s => (cache_lookup (c_h l) src s, find_remote (c_net l) src s)) (fun '(cached, orc) =>
      match cached with
      | Some rh => seen rh ;; accept_data p
      | None =>
        match orc with
        | Some rc =>
          seen (c_h rc) ;;
          modify (fun s => set_s_cache (s_cache s ++ [(c_h l, src, c_h rc)]) s) ;;
          accept_data p
        | None => nop
        end
      end).

(* a payload the socket refuses to send (a send fault injected by the environment): candidateBase.writeTo
   swallows the socket error, nothing is written and nothing is counted; Write still returns nil *)
Definition refused_payload_id : Z := -7.
Definition pl_refused (p : payload) : bool := pl_id p =? refused_payload_id.

Definition do_write (pr : pair) (p : payload) (count_conn : bool) : M :=
  if pl_refused p then emit (ORet ROk) else
  emit (OData (c_h (p_loc pr)) (c_addr (p_rem pr)) p) ;;
  (if 0 <? pl_len p then
     (if count_conn then modify (fun s => set_s_bytes_sent (s_bytes_sent s + pl_len p) s) else nop) ;;
     upd_pair (p_id pr) (fun q => set_p_bytes_sent (p_bytes_sent q + pl_len p) (set_p_pkts_sent (p_pkts_sent q + 1) q))
   else nop) ;;
  emit (ORet ROk).

(* Conn.Write *)
Definition conn_write (p : payload) : M :=
  with_state (fun s => (s_closed s, selected_pair s, best_valid s)) (fun '(closed, osp, ob) =>
    if closed then emit (ORet RErrClosed)
    else if pl_stun p then emit (ORet RErrStunPayload)
    else match osp with
         | Some pr => do_write pr p true
         | None => match ob with
                   | Some pr => do_write pr p true
                   | None => emit (ORet RErrNoPairs)
                   end
         end).

(* Conn.WriteToPair *)
Definition conn_write_to_pair (id : Z) (p : payload) : M :=
  with_state (fun s => (s_closed s, pair_by_id id s)) (fun '(closed, opr) =>
    if closed then emit (ORet RErrClosed)
    else if pl_stun p then emit (ORet RErrStunPayload)
    else match opr with
         | None => emit (ORet RErrPairNotFound)
         | Some pr => if p_state pr =? CandidatePairStateSucceeded then do_write pr p false
                      else emit (ORet RErrPairNotSucceeded)
         end).

(* Conn.Read (the harness only reads when data is queued) *)
Definition conn_read : M :=
  with_state (fun s => (s_closed s, s_buf s)) (fun '(closed, buf) =>
    if closed then emit (ORet RErrClosed)
    else match buf with
         | [] => emit (ORet RWouldBlock)
         | p :: t => modify (fun s => set_s_bytes_recv (s_bytes_recv s + pl_len p) (set_s_buf t s)) ;;
                     emit (ODeliver p)
         end).

(* ---- API operations -------------------------------------------------------------------------------- *)
Definition initial_checking_timeout (cfg : config) : Z :=
  initialCheckingTimeout (cf_failed_timeout cfg) (cf_disc_timeout cfg) (cf_lite cfg) (cf_disc_explicit cfg).

Definition do_start (cfg : config) (ctl : bool) (ru rp : Z) : M :=
  with_state (fun s => (s_closed s, s_started s)) (fun '(closed, started) =>
    if closed then emit (ORet RErrClosed)
    else if started then emit (ORet RErrMultipleStart)
    else if (ru =? 0) || (rp =? 0) then emit (ORet RErrEmptyCreds)
    else
      modify (fun s => set_s_tick_timeout (initial_checking_timeout cfg)
                         (set_s_tick_start 0 (set_s_tick_last 0
                         (set_s_started true (set_s_rpwd rp (set_s_rufrag ru (set_s_ctl ctl s))))))) ;;
      set_selector ;;
      update_conn ConnectionStateChecking ;;
      emit (ORet ROk)).

Definition do_set_remote_creds (ru rp : Z) : M :=
  with_state s_closed (fun closed =>
    if (ru =? 0) || (rp =? 0) then emit (ORet RErrEmptyCreds)
    else if closed then emit (ORet RErrClosed)
    else modify (fun s => set_s_rpwd rp (set_s_rufrag ru s)) ;; emit (ORet ROk)).

(* Agent.Restart *)
Definition do_restart (lu lp : Z) : M :=
  with_state s_closed (fun closed =>
    if closed then emit (ORet RErrClosed) else
    modify (fun s => set_s_cache [] (set_s_lastrecv [] (set_s_remotes [] (set_s_locals []
              (set_s_selected None (set_s_pending [] (set_s_checklist []
              (set_s_rpwd 0 (set_s_rufrag 0 (set_s_lpwd lp (set_s_lufrag lu s))))))))))) ;;
    set_selector ;;
    with_state s_conn (fun c => if c =? ConnectionStateNew then nop else update_conn ConnectionStateChecking) ;;
    emit (ORet ROk)).

(* Agent.RenominateCandidate *)
Definition do_renominate (cfg : config) (l r : cand) (v : Z) : M :=
  with_state (fun s => (s_ctl s, find_pair l r s)) (fun '(ctl, op) =>
    if negb ctl then emit (ORet RErrNotControlling)
    else if negb (cf_renomination cfg) then emit (ORet RErrRenominationOff)
    else
      match op with
      | None => emit (ORet RErrPairNotFound)
      | Some p =>
        (* only a validated pair can be nominated (a lite peer selects on the nomination alone) *)
        if negb (p_state p =? CandidatePairStateSucceeded) then emit (ORet RErrPairNotSucceeded) else
        fresh_tx (fun tx => with_state (fun s =>
            request_msg s cfg tx true (c_prio (p_loc p)) (if 0 <? v then Some v else None))
            (fun m => send_binding_request cfg m (p_loc p) (p_rem p))) ;;
        emit (ORet ROk)
      end).

(* the public method: RenominateCandidate runs on the task loop, so it is refused once the agent is closed *)
Definition renominate_op (cfg : config) (l r : cand) (v : Z) : M :=
  with_state s_closed (fun closed => if closed then emit (ORet RErrClosed) else do_renominate cfg l r v).

(* Agent.Close: the task loop's on-close callback *)
Definition do_close : M :=
  with_state s_closed (fun closed =>
    if closed then emit (ORet ROk) else
    modify (fun s => set_s_closed true (set_s_remotes [] (set_s_locals [] s))) ;;
    update_conn ConnectionStateClosed ;;
    emit (ORet ROk)).

Definition step_m (cfg : config) (o : op) : M :=
  match o with
  | AddLocal c => with_state s_closed (fun closed => if closed then emit (ORet RErrClosed) else add_local c)
  | AddRemote c =>
    with_state s_closed (fun closed =>
      if c_tcp c =? TCPTypeActive then emit (ORet RIgnored)
      else if closed then emit (ORet RErrClosed)
      else add_remote cfg c (fun ok => emit (ORet (if ok then ROk else RIgnored))))
  | Start ctl ru rp => do_start cfg ctl ru rp
  | SetRemoteCreds ru rp => do_set_remote_creds ru rp
  | Advance d => modify (fun s => set_s_now (s_now s + d) s)
  | Tick => tick cfg
  | InStun lh src m =>
    with_state (fun s => (s_closed s, find_local lh s)) (fun '(closed, ol) =>
      if closed then nop else
      match ol with
      | Some l => handle_inbound cfg l src m
      | None => nop
      end)
  | InData lh src p =>
    with_state (fun s => (s_closed s, find_local lh s)) (fun '(closed, ol) =>
      if closed then nop else
      match ol with
      | Some l => inbound_data l src p
      | None => nop
      end)
  | Write p => conn_write p
  | WriteToPair id p => conn_write_to_pair id p
  | Read => conn_read
  | Restart lu lp => do_restart lu lp
  | Renominate l r v => renominate_op cfg l r v
  | Close => do_close
  end.

Definition step (cfg : config) (s : state) (o : op) : state * list out := step_m cfg o s.

Definition init (lufrag lpwd : Z) : state :=
  mkState false ConnectionStateNew lufrag lpwd 0 0 [] [] [] 0 [] None None 0 None [] false 1 1000000 [] 0 0 0 0 0 [] 0 false.

(* histories *)
Definition run_from (cfg : config) (s : state) (ops : list op) : state * list (list out) :=
  fold_left (fun '(s, tr) o => let '(s', os) := step cfg s o in (s', tr ++ [os])) ops (s, []).
Definition run (cfg : config) (lufrag lpwd : Z) (ops : list op) : state * list (list out) :=
  run_from cfg (init lufrag lpwd) ops.
