(* Two agents and the network, with application data (C07 across the pair).  Model/TwoAgents.v carries STUN only;
   here the datagrams written by Conn.Write / WriteToPair are routed the same way (same topology, same routing
   function), may be delivered, dropped or duplicated at any time, and are handed to the receiving agent as
   inbound data; Conn.Read takes them from its queue. *)
From Coq Require Import ZArith Bool List.
From Ice Require Import Model.AgentTypes Model.AgentCore Model.PairMonitor Model.TwoAgents Gen.Consts.
Import ListNotations.
Local Open Scope Z_scope.

Record dflight := mkDFlight { d_to_a : bool; d_lh : Z; d_src : addr; d_pl : payload }.

(* routing of one written application datagram: exactly route_one's decision *)
Definition route_data_one (t : topology) (from_a : bool) (lh : Z) (dst : addr) (p : payload) : list dflight :=
  let mine := if from_a then t_a t else t_b t in
  let theirs := if from_a then t_b t else t_a t in
  match index_of lh mine 0, index_of_pub dst theirs 0 with
  | Some i, Some j =>
    let up := if from_a then fst (t_link t i j) else snd (t_link t j i) in
    if up then [mkDFlight (negb from_a) (ep_h (nth j theirs (mkEndpoint 0 (mkAddr false 0 0))))
                          (ep_pub (nth i mine (mkEndpoint 0 (mkAddr false 0 0)))) p]
    else []
  | _, _ => []
  end.

Definition route_data (t : topology) (from_a : bool) (outs : list out) : list dflight :=
  flat_map (fun o => match o with OData lh dst p => route_data_one t from_a lh dst p | _ => [] end) outs.

Record dsys := mkDSys { d_sys : sys; d_net : list dflight }.

Inductive dsys_op :=
| DSys (o : sys_op)            (* any operation of the STUN-level system (API calls incl. Write / Read, ticks, STUN deliveries ...) *)
| DDeliver (n : nat)           (* an application datagram arrives *)
| DDrop (n : nat)
| DDup (n : nat).

Definition agent_of (a : bool) (sy : sys) : state := if a then sy_a sy else sy_b sy.
Definition cfg_of (cfga cfgb : config) (a : bool) : config := if a then cfga else cfgb.

(* the application datagrams an operation of the STUN-level system puts on the wire *)
Definition data_written (cfga cfgb : config) (t : topology) (sy : sys) (o : sys_op) : list dflight :=
  match o with
  | SApi on_a op =>
    if is_inbound op then []
    else route_data t on_a (snd (step (cfg_of cfga cfgb on_a) (agent_of on_a sy) op))
  | _ => []
  end.

Definition dsys_step (cfga cfgb : config) (t : topology) (d : dsys) (o : dsys_op) : dsys :=
  match o with
  | DSys so => mkDSys (sys_step cfga cfgb t (d_sys d) so) (d_net d ++ data_written cfga cfgb t (d_sys d) so)
  | DDeliver n =>
    match nth_error (d_net d) n with
    | Some f =>
      let sy := d_sys d in
      let a := d_to_a f in
      let s' := fst (step (cfg_of cfga cfgb a) (agent_of a sy) (InData (d_lh f) (d_src f) (d_pl f))) in
      mkDSys (if a then mkSys s' (sy_b sy) (sy_net sy) else mkSys (sy_a sy) s' (sy_net sy)) (remove_nth n (d_net d))
    | None => d
    end
  | DDrop n => mkDSys (d_sys d) (remove_nth n (d_net d))
  | DDup n =>
    match nth_error (d_net d) n with
    | Some f => mkDSys (d_sys d) (d_net d ++ [f])
    | None => d
    end
  end.

Definition dsys_run (cfga cfgb : config) (t : topology) (d : dsys) (ops : list dsys_op) : dsys :=
  fold_left (dsys_step cfga cfgb t) ops d.

Definition dsys_init (lua lpa lub lpb : Z) : dsys := mkDSys (sys_init lua lpa lub lpb) [].

(* the payloads side [by_a] handed to Conn.Write / WriteToPair in a run *)
Definition written_by (by_a : bool) (ops : list dsys_op) : list payload :=
  flat_map (fun o => match o with
                     | DSys (SApi a (Write p)) => if Bool.eqb a by_a then [p] else []
                     | DSys (SApi a (WriteToPair _ p)) => if Bool.eqb a by_a then [p] else []
                     | _ => [] end) ops.
