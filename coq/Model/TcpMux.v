(* C15: executable model of TCPMuxDefault (tcp_mux.go) and tcpPacketConn (tcp_packet_conn.go)
   together with the refcounted handle returned by GetConnByUfrag (shared_packet_conn.go: Close and
   closed-handle behaviour only).  A deterministic LABELLED step machine: the label list is the
   history AND the schedule, i.e. the API calls, the environment events (client sends, client
   closes, a read deadline firing, an alive timer firing) and every atomic action of the mux's own
   goroutines are labels, so "for all label lists" means for all interleavings.  A label that is not
   enabled in a state is a no-op.

   Function by function:
     OAccept          = one iteration of TCPMuxDefault.start (Accept succeeded; wg.Add; go handleConn)
                        + handleConn's SetReadDeadline (only when FirstStunBindTimeout > 0)
     OFirst           = handleConn from the return of readStreamingPacket (a complete first frame) up
                        to and including the critical section m.mu{getConn / createConn(fromStun)}.
                        The frame is given DEFRAMED as a [first_msg] record (the framing itself is
                        C14's subject): announced length, "Decode succeeded and Method == Binding",
                        the USERNAME attribute, the raw bytes.  [classify] is the decision sequence of
                        handleConn: length > 512 (io.ErrShortBuffer), decode/method, USERNAME,
                        strings.Split(username, ":")[0]; then SplitHostPort / LocalAddr() being a TCPAddr
                        (c_addr_ok), then the map lookup.  NOTE handleConn does not test m.closed.
     ODeadline        = the first-frame read failing with a timeout  (late)
     OClientClose     = the client closes its end; on a connection still in handleConn's first read
                        this is the read error path (early close)
     OAttach          = tcpPacketConn.AddConn (closed check, duplicate remote address check, table
                        insert, wg.Add, go reader) and handleConn's exit
     OPull            = one iteration of the reader goroutine (AddConn's closure + startReading) up
                        to the point where it blocks in handleRecv / on recvChan: next frame, frame
                        larger than receiveMTU (io.ErrShortBuffer), EOF; removeConn and the "last
                        connection" rule for propagating EOF
     ORead            = sharedPacketConn.ReadFrom -> tcpPacketConn.readFromContext taking what one
                        reader is blocked sending (recvChan unbuffered: ReadBufferSize = 0)
     OWrite           = sharedPacketConn.WriteTo -> tcpPacketConn.WriteTo -> writeStreamingPacket
     OGet             = TCPMuxDefault.GetConnByUfrag (closed check, getConn + ClearAliveTimer, or
                        createConn(fromStun=false)); NOTE in the pinned code (cf_byid = false) no test
                        whether the found conn is closed
     ORemove          = TCPMuxDefault.RemoveConnByUfrag (delete both families, close what was removed)
     OHClose          = sharedPacketConn.Close (closeOnce; refs.Add(-1) <= 0 => underlying.Close())
     OExpire          = the alive timer of a provisional tcpPacketConn firing: packet.Close()
     OWatcher         = the goroutine started by createConn after <-conn.CloseChannel():
                        removeConnByUfragAndLocalHost(ufrag, connKey) -- in the pinned code
                        (cf_byid = false) removal is BY KEY in both families, whatever packet conn is
                        registered there now, and closes it; with the repair only the conn itself
     OAcceptExit      = Listener.Accept returning an error after Listener.Close: start returns
     OMuxClose        = TCPMuxDefault.Close up to m.mu.Unlock
     OMuxCloseReturn  = m.wg.Wait() returning (enabled iff accept loop, every handleConn and every
                        watcher goroutine have exited)
     OClientRecv, OStat, OCensus  = observations only
   [close_pcs] = tcpPacketConn.Close for a set of packet conns, INCLUDING the exit of their reader
   goroutines (after closedChan is closed and the TCP conns are closed a reader can only return:
   conn.Read fails, removeConn finds nothing, handleRecv selects closedChan), which is what the
   t.wg.Wait() inside Close waits for.

   State: maps are total functions; [cids] lists the accepted connection ids, packet conns are
   numbered 0 .. npc-1.  No proofs here. *)
From Coq Require Import ZArith Bool String Ascii List Arith.
From Ice Require Import Gen.Consts.
Import ListNotations.

(* ---------- first frame decision ---------- *)
Definition first_buf_size : Z := 512.         (* buf := make([]byte, 512) in handleConn: a literal *)

Record first_msg := mkFirst {
  fm_len : Z;                  (* length announced by the 2-byte header *)
  fm_binding : bool;           (* msg.Decode() == nil && msg.Type.Method == stun.MethodBinding *)
  fm_user : option string;     (* msg.Get(stun.AttrUsername) *)
  fm_bytes : string }.

Inductive first_class := FOversized | FNotBinding | FNoUser | FOk (ufrag : string) (bytes : string).

(* strings.Split(username, ":")[0] *)
Fixpoint ufrag_of (s : string) : string :=
  match s with
  | EmptyString => EmptyString
  | String c r => if Ascii.eqb c ":"%char then EmptyString else String c (ufrag_of r)
  end.

Definition classify (m : first_msg) : first_class :=
  if Z.ltb first_buf_size (fm_len m) then FOversized
  else if negb (fm_binding m) then FNotBinding
  else match fm_user m with
       | None => FNoUser
       | Some u => FOk (ufrag_of u) (fm_bytes m)
       end.

(* ---------- state ---------- *)
Inductive item := IData (b : string) | IErr (k : nat).   (* k: 0 = io.EOF, 1 = io.ErrShortBuffer *)
Inductive phase := PPending | PRouted (p : nat) (first : string) | PDone.

Record tconn := mkT {
  c_raddr : string; c_is6 : bool; c_lip : string; c_addr_ok : bool;
  c_phase : phase;              (* the handleConn goroutine *)
  c_att : option nat;           (* Some p: in p's table conns[raddr] *)
  c_reader : option nat;        (* Some p: reader goroutine alive (counted in p.wg) *)
  c_hold : option item;         (* what the reader is blocked sending on recvChan *)
  c_stream : list string;       (* complete frames sent by the client, not yet read by the mux *)
  c_cli_closed : bool; c_srv_closed : bool;
  c_dl : bool;                  (* a read deadline is armed *)
  c_out : list string;          (* frames written by the mux, not yet received by the client *)
  (* ghost fields (not read by the machine) *)
  c_msgs : list string;         (* first message and later packets the client got accepted, in order *)
  c_got : list string;          (* payloads ReadFrom returned for this connection, in order *)
  c_route : option nat;         (* packet conn chosen by handleConn's lookup *)
  c_rejected : bool }.          (* closed by handleConn's first-frame decision *)

Definition dead_conn : tconn :=
  mkT EmptyString false EmptyString false PDone None None None [] true true false [] [] [] None false.

Record pconn := mkP {
  p_ufrag : string; p_is6 : bool; p_ip : string;
  p_closed : bool;
  p_timer : bool;               (* alive timer armed *)
  p_watcher : bool;             (* createConn's goroutine alive *)
  p_refs : Z;
  p_stun : bool }.              (* created by handleConn *)

Definition dead_pc : pconn := mkP EmptyString false EmptyString true false false 0 false.

Record cfg := mkCfg {
  cf_first_timeout : bool;      (* FirstStunBindTimeout > 0 (0 is replaced by 30 s) *)
  cf_alive : bool;              (* AliveDurationForConnFromStun > 0 (0 is replaced by 30 s) *)
  cf_wbuf : bool;               (* WriteBufferSize > 0 *)
  cf_addr_ok : bool;            (* Listener.Addr() is a net.TCPAddr pointer *)
  cf_wdrop : bool;              (* bufferedConn.writeProcess reads into a receiveMTU-sized slice (the pinned
                                   code; false once it has room for the 2-byte header too): probed by the harness *)
  cf_byid : bool }.             (* false = the pinned code: removeConnByUfragAndLocalHost removes whatever is
                                   registered under the key and getConn returns closed conns too; true = the
                                   repair (findings/proposed/C15-tcpmux-stale-conn.diff): removal only of the
                                   conn the watcher was started for, getConn ignores closed conns.  Probed. *)

Record state := mkS {
  cids : list nat; conn : nat -> tconn;
  npc : nat; pc : nat -> pconn;
  mp : string -> bool -> string -> option nat;       (* connsIPv4 / connsIPv6 *)
  hnd : nat -> option (nat * bool);                  (* handle -> (packet conn, wrapper closed) *)
  mclosed : bool; lopen : bool; acc_alive : bool; closing : bool; creturned : bool }.

Definition init : state :=
  mkS [] (fun _ => dead_conn) 0 (fun _ => dead_pc) (fun _ _ _ => None) (fun _ => None)
      false true true false false.

Definition upd {A} (f : nat -> A) (k : nat) (v : A) : nat -> A := fun x => if Nat.eqb x k then v else f x.
Definition memb (k : nat) (l : list nat) : bool := existsb (Nat.eqb k) l.
Definition oeqb (o : option nat) (p : nat) : bool := match o with Some q => Nat.eqb q p | None => false end.

(* field setters *)
Definition set_conn (s : state) (f : nat -> tconn) : state :=
  mkS (cids s) f (npc s) (pc s) (mp s) (hnd s) (mclosed s) (lopen s) (acc_alive s) (closing s) (creturned s).
Definition set_pc (s : state) (f : nat -> pconn) : state :=
  mkS (cids s) (conn s) (npc s) f (mp s) (hnd s) (mclosed s) (lopen s) (acc_alive s) (closing s) (creturned s).
Definition set_mp (s : state) (m : string -> bool -> string -> option nat) : state :=
  mkS (cids s) (conn s) (npc s) (pc s) m (hnd s) (mclosed s) (lopen s) (acc_alive s) (closing s) (creturned s).
Definition set_hnd (s : state) (h : nat -> option (nat * bool)) : state :=
  mkS (cids s) (conn s) (npc s) (pc s) (mp s) h (mclosed s) (lopen s) (acc_alive s) (closing s) (creturned s).

(* closing a TCP conn from the mux side, as handleConn's error paths do *)
Definition reject (c : tconn) (rej : bool) : tconn :=
  mkT (c_raddr c) (c_is6 c) (c_lip c) (c_addr_ok c) PDone None None None (c_stream c)
      (c_cli_closed c) true (c_dl c) (c_out c) (c_msgs c) (c_got c) (c_route c) rej.

(* tcpPacketConn.Close on every packet conn selected by [sel], readers' exit included *)
Definition close_conn_of (sel : nat -> bool) (c : tconn) : tconn :=
  let att_hit := match c_att c with Some p => sel p | None => false end in
  let rd_hit := match c_reader c with Some p => sel p | None => false end in
  mkT (c_raddr c) (c_is6 c) (c_lip c) (c_addr_ok c) (c_phase c)
      (if att_hit then None else c_att c)
      (if rd_hit then None else c_reader c)
      (if rd_hit then None else c_hold c)
      (c_stream c) (c_cli_closed c)
      (if att_hit then true else c_srv_closed c)
      (c_dl c) (c_out c) (c_msgs c) (c_got c) (c_route c) (c_rejected c).

Definition close_pc_of (sel : nat -> bool) (q : nat) (p : pconn) : pconn :=
  if sel q then mkP (p_ufrag p) (p_is6 p) (p_ip p) true false (p_watcher p) (p_refs p) (p_stun p) else p.

Definition close_pcs (s : state) (sel : nat -> bool) : state :=
  set_pc (set_conn s (fun k => close_conn_of sel (conn s k))) (fun q => close_pc_of sel q (pc s q)).

Definition mapped (s : state) (q : nat) : bool :=
  oeqb (mp s (p_ufrag (pc s q)) (p_is6 (pc s q)) (p_ip (pc s q))) q.

(* getConn *)
Definition lookup (cf : cfg) (s : state) (u : string) (is6 : bool) (ip : string) : option nat :=
  match mp s u is6 ip with
  | Some p => if cf_byid cf && p_closed (pc s p) then None else Some p
  | None => None
  end.

(* createConn *)
Definition create_pc (s : state) (u : string) (is6 : bool) (ip : string) (stun : bool) (timer : bool) (refs : Z) : state :=
  let p := npc s in
  mkS (cids s) (conn s) (S p) (upd (pc s) p (mkP u is6 ip false timer true refs stun))
      (fun u' f' i' => if String.eqb u' u && Bool.eqb f' is6 && String.eqb i' ip then Some p else mp s u' f' i')
      (hnd s) (mclosed s) (lopen s) (acc_alive s) (closing s) (creturned s).

(* table lookup conns[raddr] of packet conn p *)
Definition find_att (s : state) (p : nat) (raddr : string) : option nat :=
  find (fun k => oeqb (c_att (conn s k)) p && String.eqb (c_raddr (conn s k)) raddr) (cids s).
Definition count_att (s : state) (p : nat) : nat :=
  length (filter (fun k => oeqb (c_att (conn s k)) p) (cids s)).

Definition handler_alive (c : tconn) : bool := match c_phase c with PDone => false | _ => true end.
Definition n_handlers (s : state) : nat := length (filter (fun k => handler_alive (conn s k)) (cids s)).
Definition n_readers (s : state) : nat :=
  length (filter (fun k => match c_reader (conn s k) with Some _ => true | None => false end) (cids s)).
Definition n_attached (s : state) : nat :=
  length (filter (fun k => match c_att (conn s k) with Some _ => true | None => false end) (cids s)).
Definition n_watchers (s : state) : nat := length (filter (fun q => p_watcher (pc s q)) (seq 0 (npc s))).
Definition wg_zero (s : state) : bool :=
  negb (acc_alive s) && Nat.eqb (n_handlers s) 0 && Nat.eqb (n_watchers s) 0.

(* ---------- labels and outputs ---------- *)
Inductive op :=
| OAccept (cid : nat) (raddr : string) (is6 : bool) (lip : string) (addr_ok : bool)
| OFirst (cid : nat) (m : first_msg)
| OAttach (cid : nat)
| ODeadline (cid : nat)
| OSend (cid : nat) (b : string)
| OClientClose (cid : nat)
| OClientRecv (cid : nat)
| OPull (cid : nat)
| OGet (h : nat) (u : string) (is6 : bool) (ip : string)
| ORemove (u : string)
| OWrite (h : nat) (raddr : string) (b : string)
| ORead (h : nat) (cid : nat)
| OHClose (h : nat)
| OExpire (u : string) (is6 : bool) (ip : string)
| OWatcher (p : nat)
| OAcceptExit
| OMuxClose
| OMuxCloseReturn
| OStat (cid : nat)
| OCensus.

Inductive out :=
| XOk | XErr | XRefused | XSkip | XNone | XClosed | XOpen
| XPkt (a b : string) | XErrFrom (a : string) (k : nat) | XN (n : Z)
| XCensus (acc hc w r wp : nat).

Definition slen (b : string) : Z := Z.of_nat (String.length b).

Definition set_one (s : state) (k : nat) (c : tconn) : state := set_conn s (upd (conn s) k c).

Definition step (cf : cfg) (s : state) (o : op) : state * out :=
  match o with
  | OAccept cid raddr is6 lip aok =>
    if lopen s && acc_alive s && negb (memb cid (cids s)) then
      (mkS (cid :: cids s)
           (upd (conn s) cid (mkT raddr is6 lip aok PPending None None None [] false false
                                  (cf_first_timeout cf) [] [] [] None false))
           (npc s) (pc s) (mp s) (hnd s) (mclosed s) (lopen s) (acc_alive s) (closing s) (creturned s), XOk)
    else (s, XRefused)
  | OFirst cid m =>
    let c := conn s cid in
    if negb (memb cid (cids s)) then (s, XSkip) else
    match c_phase c with
    | PPending =>
      match classify m with
      | FOk u b =>
        if negb (c_addr_ok c) then (set_one s cid (reject c true), XOk) else
        let routed p :=
          mkT (c_raddr c) (c_is6 c) (c_lip c) (c_addr_ok c) (PRouted p b) None None None (c_stream c)
              (c_cli_closed c) false false (c_out c) [b] [] (Some p) false in
        match lookup cf s u (c_is6 c) (c_lip c) with
        | Some p => (set_one s cid (routed p), XOk)
        | None =>
          if cf_addr_ok cf then
            let s1 := create_pc s u (c_is6 c) (c_lip c) true (cf_alive cf) 0 in
            (set_one s1 cid (routed (npc s)), XOk)
          else (set_one s cid (reject c true), XOk)
        end
      | _ => (set_one s cid (reject c true), XOk)
      end
    | _ => (s, XSkip)
    end
  | OAttach cid =>
    let c := conn s cid in
    if negb (memb cid (cids s)) then (s, XSkip) else
    match c_phase c with
    | PRouted p b =>
      if p_closed (pc s p) then (set_one s cid (reject c false), XErr)
      else match find_att s p (c_raddr c) with
           | Some _ => (set_one s cid (reject c false), XErr)
           | None =>
             (set_one s cid
                (mkT (c_raddr c) (c_is6 c) (c_lip c) (c_addr_ok c) PDone (Some p) (Some p) (Some (IData b))
                     (c_stream c) (c_cli_closed c) false (c_dl c) (c_out c) (c_msgs c) (c_got c) (c_route c) false), XOk)
           end
    | _ => (s, XSkip)
    end
  | ODeadline cid =>
    let c := conn s cid in
    if negb (memb cid (cids s)) then (s, XSkip) else
    match c_phase c with
    | PPending => if c_dl c then (set_one s cid (reject c true), XOk) else (s, XSkip)
    | _ => (s, XSkip)
    end
  | OSend cid b =>
    let c := conn s cid in
    if negb (memb cid (cids s)) then (s, XSkip) else
    match c_phase c with
    | PPending => (s, XSkip)
    | _ =>
      if c_cli_closed c then (s, XSkip)
      else if c_srv_closed c then (s, XClosed)
      else (set_one s cid
              (mkT (c_raddr c) (c_is6 c) (c_lip c) (c_addr_ok c) (c_phase c) (c_att c) (c_reader c) (c_hold c)
                   (c_stream c ++ [b]) false false (c_dl c) (c_out c) (c_msgs c ++ [b]) (c_got c) (c_route c)
                   (c_rejected c)), XOk)
    end
  | OClientClose cid =>
    let c := conn s cid in
    if negb (memb cid (cids s)) then (s, XSkip) else
    if c_cli_closed c then (s, XSkip) else
    match c_phase c with
    | PPending =>
      if c_srv_closed c then (s, XSkip) else
      (set_one s cid
         (mkT (c_raddr c) (c_is6 c) (c_lip c) (c_addr_ok c) PDone None None None (c_stream c)
              true true (c_dl c) (c_out c) (c_msgs c) (c_got c) (c_route c) true), XOk)
    | _ =>
      (set_one s cid
         (mkT (c_raddr c) (c_is6 c) (c_lip c) (c_addr_ok c) (c_phase c) (c_att c) (c_reader c) (c_hold c)
              (c_stream c) true (c_srv_closed c) (c_dl c) (c_out c) (c_msgs c) (c_got c) (c_route c)
              (c_rejected c)), XOk)
    end
  | OClientRecv cid =>
    let c := conn s cid in
    if negb (memb cid (cids s)) then (s, XSkip) else
    if c_cli_closed c then (s, XSkip) else
    match c_out c with
    | b :: rest =>
      (set_one s cid
         (mkT (c_raddr c) (c_is6 c) (c_lip c) (c_addr_ok c) (c_phase c) (c_att c) (c_reader c) (c_hold c)
              (c_stream c) (c_cli_closed c) (c_srv_closed c) (c_dl c) rest (c_msgs c) (c_got c) (c_route c)
              (c_rejected c)), XPkt EmptyString b)
    | [] => (s, if c_srv_closed c then XClosed else XNone)
    end
  | OPull cid =>
    let c := conn s cid in
    if negb (memb cid (cids s)) then (s, XSkip) else
    match c_reader c, c_hold c with
    | Some p, None =>
      match c_stream c with
      | b :: rest =>
        if Z.leb (slen b) receiveMTU then
          (set_one s cid
             (mkT (c_raddr c) (c_is6 c) (c_lip c) (c_addr_ok c) (c_phase c) (c_att c) (c_reader c) (Some (IData b))
                  rest (c_cli_closed c) (c_srv_closed c) (c_dl c) (c_out c) (c_msgs c) (c_got c) (c_route c)
                  (c_rejected c)), XOk)
        else
          (* io.ErrShortBuffer: removeConn, error always propagated *)
          (set_one s cid
             (mkT (c_raddr c) (c_is6 c) (c_lip c) (c_addr_ok c) (c_phase c) None (c_reader c) (Some (IErr 1))
                  [] (c_cli_closed c) true (c_dl c) (c_out c) (c_msgs c) (c_got c) (c_route c)
                  (c_rejected c)), XOk)
      | [] =>
        if c_cli_closed c then
          (* io.EOF: removeConn; propagated only when the table is empty afterwards *)
          let others := count_att s p - (if oeqb (c_att c) p then 1 else 0) in
          let last := Nat.eqb others 0 in
          (set_one s cid
             (mkT (c_raddr c) (c_is6 c) (c_lip c) (c_addr_ok c) (c_phase c) None
                  (if last then c_reader c else None) (if last then Some (IErr 0) else None)
                  [] true true (c_dl c) (c_out c) (c_msgs c) (c_got c) (c_route c)
                  (c_rejected c)), XOk)
        else (s, XSkip)
      end
    | _, _ => (s, XSkip)
    end
  | OGet h u is6 ip =>
    if mclosed s then (s, XErr) else
    match lookup cf s u is6 ip with
    | Some p =>
      let q := pc s p in
      (set_hnd (set_pc s (upd (pc s) p (mkP (p_ufrag q) (p_is6 q) (p_ip q) (p_closed q) false (p_watcher q)
                                            (p_refs q + 1) (p_stun q))))
               (upd (hnd s) h (Some (p, false))), XOk)
    | None =>
      if cf_addr_ok cf then
        let s1 := create_pc s u is6 ip false false 1 in
        (set_hnd s1 (upd (hnd s1) h (Some (npc s, false))), XOk)
      else (s, XErr)
    end
  | ORemove u =>
    let sel q := mapped s q && String.eqb (p_ufrag (pc s q)) u && Nat.ltb q (npc s) in
    let s1 := close_pcs s sel in
    (set_mp s1 (fun u' f i => if String.eqb u' u then None else mp s u' f i), XOk)
  | OWrite h raddr b =>
    match hnd s h with
    | Some (p, false) =>
      match find_att s p raddr with
      | Some k =>
        let c := conn s k in
        if c_cli_closed c then
          (* the peer is gone: a direct write fails, a buffered one is accepted and dropped *)
          (s, if cf_wbuf cf then XN (slen b) else XErr)
        else if cf_wbuf cf && cf_wdrop cf && Z.ltb receiveMTU (slen b + streamingPacketHeaderLen) then
          (* bufferedConn.writeProcess reads the framed packet from its packetio.Buffer into a
             receiveMTU-sized slice: a frame longer than that fails with io.ErrShortBuffer there,
             is logged and dropped, after WriteTo has already reported success *)
          (s, XN (slen b))
        else
          (set_one s k
             (mkT (c_raddr c) (c_is6 c) (c_lip c) (c_addr_ok c) (c_phase c) (c_att c) (c_reader c) (c_hold c)
                  (c_stream c) (c_cli_closed c) (c_srv_closed c) (c_dl c) (c_out c ++ [b]) (c_msgs c) (c_got c)
                  (c_route c) (c_rejected c)), XN (slen b))
      | None => (s, XErr)
      end
    | _ => (s, XErr)
    end
  | ORead h cid =>
    match hnd s h with
    | Some (p, false) =>
      if p_closed (pc s p) then (s, XClosed) else
      let c := conn s cid in
      if negb (memb cid (cids s)) then (s, XNone) else
      if negb (oeqb (c_reader c) p) then (s, XNone) else
      match c_hold c with
      | Some (IData b) =>
        (set_one s cid
           (mkT (c_raddr c) (c_is6 c) (c_lip c) (c_addr_ok c) (c_phase c) (c_att c) (c_reader c) None
                (c_stream c) (c_cli_closed c) (c_srv_closed c) (c_dl c) (c_out c) (c_msgs c) (c_got c ++ [b])
                (c_route c) (c_rejected c)), XPkt (c_raddr c) b)
      | Some (IErr k) =>
        (set_one s cid
           (mkT (c_raddr c) (c_is6 c) (c_lip c) (c_addr_ok c) (c_phase c) (c_att c) None None
                (c_stream c) (c_cli_closed c) (c_srv_closed c) (c_dl c) (c_out c) (c_msgs c) (c_got c)
                (c_route c) (c_rejected c)), XErrFrom (c_raddr c) k)
      | None => (s, XNone)
      end
    | Some (_, true) => (s, XClosed)
    | None => (s, XSkip)
    end
  | OHClose h =>
    match hnd s h with
    | Some (p, false) =>
      let q := pc s p in
      let s1 := set_hnd (set_pc s (upd (pc s) p (mkP (p_ufrag q) (p_is6 q) (p_ip q) (p_closed q) (p_timer q)
                                                     (p_watcher q) (p_refs q - 1) (p_stun q))))
                        (upd (hnd s) h (Some (p, true))) in
      if Z.leb (p_refs q - 1) 0 then (close_pcs s1 (Nat.eqb p), XOk) else (s1, XOk)
    | _ => (s, XSkip)
    end
  | OExpire u is6 ip =>
    match mp s u is6 ip with
    | Some p => if p_timer (pc s p) then (close_pcs s (Nat.eqb p), XOk) else (s, XSkip)
    | None => (s, XSkip)
    end
  | OWatcher p =>
    let q := pc s p in
    if Nat.ltb p (npc s) && p_watcher q && p_closed q then
      let sel r := if cf_byid cf then false
                   else (oeqb (mp s (p_ufrag q) false (p_ip q)) r || oeqb (mp s (p_ufrag q) true (p_ip q)) r) in
      let s1 := close_pcs s sel in
      let q1 := pc s1 p in
      let s2 := set_pc s1 (upd (pc s1) p (mkP (p_ufrag q1) (p_is6 q1) (p_ip q1) (p_closed q1) (p_timer q1) false
                                              (p_refs q1) (p_stun q1))) in
      (set_mp s2 (fun u' f i =>
                    if cf_byid cf then (if oeqb (mp s u' f i) p then None else mp s u' f i)
                    else if String.eqb u' (p_ufrag q) && String.eqb i (p_ip q) then None else mp s u' f i), XOk)
    else (s, XSkip)
  | OAcceptExit =>
    if acc_alive s && negb (lopen s) then
      (mkS (cids s) (conn s) (npc s) (pc s) (mp s) (hnd s) (mclosed s) (lopen s) false (closing s) (creturned s), XOk)
    else (s, XSkip)
  | OMuxClose =>
    if mclosed s then (s, XSkip) else
    let sel q := mapped s q && Nat.ltb q (npc s) in
    let s1 := close_pcs s sel in
    (mkS (cids s1) (conn s1) (npc s1) (pc s1) (fun _ _ _ => None) (hnd s1) true false (acc_alive s1) true false, XOk)
  | OMuxCloseReturn =>
    if closing s && negb (creturned s) && wg_zero s then
      (mkS (cids s) (conn s) (npc s) (pc s) (mp s) (hnd s) (mclosed s) (lopen s) (acc_alive s) (closing s) true, XOk)
    else (s, if creturned s then XSkip else XNone)
  | OStat cid =>
    if negb (memb cid (cids s)) then (s, XSkip) else
    (s, if c_srv_closed (conn s cid) then XClosed else XOpen)
  | OCensus =>
    (s, XCensus (if acc_alive s then 1 else 0) (n_handlers s) (n_watchers s) (n_readers s)
                (if cf_wbuf cf then n_attached s else 0))
  end.

Definition run (cf : cfg) (s : state) (ops : list op) : state := fold_left (fun st o => fst (step cf st o)) ops s.

(* ---------- helpers for the driver: run the mux's own goroutines until everything blocks ---------- *)
(* [hold]: connections whose handleConn goroutine is parked by the harness between its lookup and
   AddConn (a harness-owned logger blocks on AddConn's first log line, which precedes t.mu.Lock):
   their OAttach is not run until the harness releases them *)
Definition internal_round (cf : cfg) (watchers : bool) (hold : list nat) (s : state) : state :=
  let s1 := fold_left (fun st k =>
                         let st1 := if memb k hold then st else fst (step cf st (OAttach k)) in
                         fst (step cf st1 (OPull k))) (cids s) s in
  let s2 := if watchers then fold_left (fun st q => fst (step cf st (OWatcher q))) (seq 0 (npc s1)) s1 else s1 in
  fst (step cf (fst (step cf s2 OAcceptExit)) OMuxCloseReturn).

Fixpoint settle (cf : cfg) (watchers : bool) (hold : list nat) (fuel : nat) (s : state) : state :=
  match fuel with
  | O => s
  | S n => settle cf watchers hold n (internal_round cf watchers hold s)
  end.

Definition phase_routed (s : state) (k : nat) : bool :=
  match c_phase (conn s k) with PRouted _ _ => true | _ => false end.

(* the connections a ReadFrom on handle h could be served from (readers blocked on recvChan) *)
Definition deliverable (s : state) (h : nat) : list nat :=
  match hnd s h with
  | Some (p, false) =>
    if p_closed (pc s p) then [] else
    filter (fun k => oeqb (c_reader (conn s k)) p && match c_hold (conn s k) with Some _ => true | None => false end)
           (rev (cids s))
  | _ => []
  end.
Definition hold_of (s : state) (k : nat) : option item := c_hold (conn s k).
Definition raddr_of (s : state) (k : nat) : string := c_raddr (conn s k).
