(* candidateBase.Foundation: decimal CRC-32 of type-name ++ address ++ network-type-name. *)
From Coq Require Import ZArith NArith String Ascii List DecimalString.
From Ice Require Import Model.Crc32 Gen.Names.

Definition foundation_input (ty : Z) (addr : string) (nt : Z) : string :=
  (CandidateType_String ty ++ addr ++ NetworkType_String nt)%string.

Definition N_to_decimal (n : N) : string := NilZero.string_of_uint (N.to_uint n).

(* [checksum] abstracts crc32.ChecksumIEEE in the theorems; [foundation] instantiates it. *)
Definition foundation_with (checksum : string -> N) (override : string) (ty : Z) (addr : string) (nt : Z) : string :=
  if String.eqb override "" then N_to_decimal (checksum (foundation_input ty addr nt)) else override.

Definition foundation := foundation_with crc32.
