(* C16: which of the proposed one-line repairs of pion/ice the model follows.
   The model (Model/Cand.v, Model/Attrs.v) is hand-written; each flag selects between the code
   as pinned (false) and the code with findings/proposed/<name>.diff applied (true).  The C16
   theorems are proved for BOTH values of every flag (their statements mention the flag), so
   flipping a flag when the corresponding fix is committed to /repo needs no proof change; a
   flag that does not match /repo shows up as a correspondence DIFF in bin/check C16.

     fix_deep_equal   : extensionsEqual compares c.Extensions() (not c.extensions) with other.Extensions()
                        (findings/proposed/C16-deepequal-tcptype.diff)
     fix_marshal_rport0 : Marshal writes "raddr A rport P" whenever the related address text is
                        non-empty, also for port 0 (findings/proposed/C16-marshal-rport0.diff)
     fix_nomination_size : NominationAttribute.GetFromWithType rejects every length other than 4
                        (findings/proposed/C16-nomination-size.diff)
     fix_ext_empty_key : unmarshalCandidateExtensions rejects an empty extension key
                        (findings/proposed/C16-ext-empty-key.diff)
     fix_empty_raddr  : tryReadRelativeAddrs rejects an empty raddr value ("raddr  rport 7")
                        (findings/proposed/C16-empty-raddr.diff) *)
Definition fix_deep_equal : bool := true.
Definition fix_marshal_rport0 : bool := true.
Definition fix_nomination_size : bool := true.
Definition fix_ext_empty_key : bool := true.
Definition fix_empty_raddr : bool := true.
