(* C08: the monitor.  Named boolean checks over ONE observation of suite "close" (a session script
   run on a real Agent with closers injected at some position; see gotools/suites/close/main.go).
   The checks state the property text on the observation itself; they never compare with a model.

   Stamps are positions in the case's event log (a total order extending real time).  A closer or
   call whose return stamp is 0 never returned within the harness's watchdog bound.

   Executable Gallina only (no proofs). *)
From Coq Require Import Arith Bool List String.
Import ListNotations.
From Ice Require Import Model.PrioSpec.   (* checks / all_ok / failed *)
Local Open Scope string_scope.

(* error / result classes reported by the harness *)
Definition cls_nil : nat := 0.
Definition cls_closed : nat := 1.
Definition cls_canceled : nat := 2.
Definition cls_multistart : nat := 3.
Definition cls_validation : nat := 4.
Definition cls_other : nat := 5.
Definition cls_empty : nat := 6.      (* a value-returning call returned its zero / empty value *)
Definition cls_nonempty : nat := 7.   (* a value-returning call returned agent state *)
Definition cls_hang : nat := 8.       (* never returned within the bound *)

Record closer := mkCloser {
  ck : nat;
  cclass : string;   (* api apig fb | cb cbg cbgo cbggo | bh bhg bhgo bhggo *)
  ccall : nat;
  cret : nat;
  cerr : nat
}.

Record call := mkCall {
  aidx : nat;
  aapi : string;     (* "L:<api>" for the battery of later calls *)
  aspawned : bool;
  acall : nat;
  aret : nat;
  aclass : nat
}.

Record later := mkLater {
  lapi : string;
  lclass : nat;
  leffect : nat
}.

(* the part of the event log the ordering checks look at (positions = stamps) *)
Inductive ev :=
| VCloseCall (k : nat) | VCloseRet (k : nat)
| VOwned (c : nat)          (* the agent owns socket c *)
| VRead (c : nat)           (* candidate c's recvLoop entered its first ReadFrom *)
| VAbort (c : nat)          (* first SetDeadline(past) / Close of socket c *)
| VSockClose (c : nat)      (* first Close of socket c *)
| VRecvExit (c : nat)       (* a ReadFrom on c failed: the recvLoop exits *)
| VWBlockLoop (c : nat)     (* a socket write on the loop goroutine starts blocking *)
| VWBlockOff (c : nat)      (* a socket write on another goroutine starts blocking *)
| VWRet (c : nat)           (* a blocked write returned *)
| VState (v : nat)          (* OnConnectionStateChange entered with state v *)
| VBH                       (* BindingRequestHandler entered (on the loop goroutine) *)
| VTask                     (* a harness task body entered (on the loop goroutine) *)
| VTcpDial                  (* a gatherer entered a TCP connect that never completes *)
| VOther.

Record obs := mkObs {
  o_closers : list closer;
  o_calls : list call;
  o_later : list later;
  o_states : list nat;      (* connection-state notifications, in delivery order *)
  o_latecb : nat;           (* callbacks entered after a GracefulClose (own goroutine) returned *)
  o_left : list string;     (* goroutines started by the agent alive at the census *)
  o_connected : bool;
  o_returned : bool;        (* some closer returned *)
  o_events : list ev
}.

Definition state_closed : nat := 7.
Definition state_connected : nat := 3.

Definition mem_str (x : string) (l : list string) : bool := existsb (String.eqb x) l.

(* closers that run on a goroutine of their own / synchronously inside a notifier callback /
   GracefulClose synchronously inside a notifier callback / synchronously inside the binding
   request handler (the loop goroutine) *)
Definition own_goroutine (c : closer) : bool :=
  mem_str (cclass c) ["api"; "apig"; "fb"; "cbgo"; "cbggo"; "bhgo"; "bhggo"].
Definition in_callback (c : closer) : bool := String.eqb (cclass c) "cb".
Definition graceful_in_callback (c : closer) : bool := String.eqb (cclass c) "cbg".
Definition in_binding_handler (c : closer) : bool := mem_str (cclass c) ["bh"; "bhg"].

(* a GracefulClose waits for the notifier goroutines: it cannot return while one of them is wedged
   inside a callback that itself called GracefulClose *)
Definition graceful_closer (c : closer) : bool := mem_str (cclass c) ["apig"; "cbggo"; "bhggo"; "cbg"; "bhg"].

Definition returned (c : closer) : bool := negb (Nat.eqb (cret c) 0).

Definition all_returned (p : closer -> bool) (o : obs) : bool :=
  forallb (fun c => implb (p c) (returned c)) (o_closers o).

(* a closer on the loop goroutine wedges the loop: nothing else is judged on such a case;
   a GracefulClose inside a notifier callback wedges that notifier goroutine only *)
Definition wedged_loop (o : obs) : bool := existsb in_binding_handler (o_closers o).
Definition wedged_notifier (o : obs) : bool := existsb graceful_in_callback (o_closers o).

Fixpoint min_nonzero (l : list nat) : nat :=
  match l with
  | [] => 0
  | x :: t => let m := min_nonzero t in
              if Nat.eqb x 0 then m else if Nat.eqb m 0 then x else Nat.min x m
  end.

Definition first_ret (o : obs) : nat := min_nonzero (map cret (o_closers o)).
Definition first_call (o : obs) : nat := min_nonzero (map ccall (o_closers o)).

Definition is_later_call (c : call) : bool := String.prefix "L:" (aapi c).

(* ---- blocked callers --------------------------------------------------------------------- *)
(* every call issued before a Close returned has returned *)
Definition blocked_released (o : obs) : bool :=
  let fr := first_ret o in
  forallb (fun c => implb (Nat.ltb (acall c) fr) (negb (Nat.eqb (aret c) 0))) (o_calls o).

(* a caller that was parked when the first closer was invoked and came back after that *)
Definition parked_at_close (o : obs) (c : call) : bool :=
  aspawned c && Nat.ltb (acall c) (first_call o) && Nat.ltb (first_call o) (aret c).

Definition blocked_error (api : string) (connect_like : bool) (o : obs) : bool :=
  forallb (fun c => implb (String.eqb (aapi c) api && parked_at_close o c)
                          (negb (Nat.eqb (aclass c) cls_nil) || (connect_like && o_connected o)))
          (o_calls o).

(* ---- later calls --------------------------------------------------------------------------- *)
Definition must_closed : list string :=
  ["GatherCandidates"; "SetRemoteCredentials"; "UpdateOptions"; "Restart"; "Dial"; "Accept";
   "StartDial"; "StartAccept"; "Read"; "Write"; "WriteToPair"; "GetLocalCandidates";
   "GetRemoteCandidates"; "GetGatheringState"; "GetLocalUserCredentials";
   "GetRemoteUserCredentials"; "AddRemoteSync"].
Definition must_empty : list string :=
  ["GetCandidatePairsStats"; "GetSelectedCandidatePairStats"; "GetLocalCandidatesStats";
   "GetRemoteCandidatesStats"; "GetCandidatePairsInfo"].
Definition validation_or_closed : list string := ["SetRemoteCredentialsEmpty"; "RestartShortCreds"].
Definition must_nil : list string :=
  ["AddRemoteCandidate"; "ConnClose"; "OnConnectionStateChange"; "Tick"; "Inbound"; "Close";
   "GracefulClose"].
(* judged by checks of their own (known deviations get a name of their own) *)
Definition special : list string := ["AwaitConnect"; "GetSelectedCandidatePair"; "RenominateCandidate"].

Definition expected_ok (api : string) (cl : nat) : bool :=
  if mem_str api must_closed then Nat.eqb cl cls_closed
  else if mem_str api must_empty then Nat.eqb cl cls_empty
  else if mem_str api validation_or_closed then Nat.eqb cl cls_validation || Nat.eqb cl cls_closed
  else if mem_str api must_nil then Nat.eqb cl cls_nil
  else true.

Definition special_ok (api : string) (cl : nat) : bool :=
  if String.eqb api "AwaitConnect" then Nat.eqb cl cls_closed
  else if String.eqb api "GetSelectedCandidatePair" then negb (Nat.eqb cl cls_nonempty)
  else if String.eqb api "RenominateCandidate" then Nat.eqb cl cls_closed
  else true.

(* the calls to judge as "later": the battery, and the script calls issued after a Close returned *)
Definition later_results (o : obs) : list (string * nat) :=
  map (fun l => (lapi l, lclass l)) (o_later o)
  ++ flat_map (fun c => if negb (is_later_call c) && negb (Nat.eqb (first_ret o) 0)
                           && Nat.ltb (first_ret o) (acall c)
                        then [(aapi c, aclass c)] else []) (o_calls o).

Definition later_return (o : obs) : bool :=
  forallb (fun r => negb (Nat.eqb (snd r) cls_hang)) (later_results o).

Definition later_closed_error (o : obs) : bool :=
  forallb (fun r => Nat.eqb (snd r) cls_hang || expected_ok (fst r) (snd r)) (later_results o).

Definition later_special (api : string) (o : obs) : bool :=
  forallb (fun r => implb (String.eqb (fst r) api) (Nat.eqb (snd r) cls_hang || special_ok api (snd r)))
          (later_results o).

Definition later_no_effect (o : obs) : bool :=
  forallb (fun l => String.eqb (lapi l) "RenominateCandidate" || Nat.eqb (leffect l) 0) (o_later o).

Definition renominate_no_effect (o : obs) : bool :=
  forallb (fun l => implb (String.eqb (lapi l) "RenominateCandidate") (Nat.eqb (leffect l) 0)) (o_later o).

(* ---- notifications ------------------------------------------------------------------------- *)
Definition count_nat (x : nat) (l : list nat) : nat := List.length (filter (Nat.eqb x) l).

Definition final_state_closed (o : obs) : bool :=
  match rev (o_states o) with
  | s :: _ => Nat.eqb s state_closed
  | [] => false
  end.

Definition closed_once (o : obs) : bool := Nat.eqb (count_nat state_closed (o_states o)) 1.

(* ---- ordering of the observable actions ------------------------------------------------------
   Each check is the instance, at an observable action of the real run, of an invariant proved for
   every reachable state of the close-protocol model (Proofs/CloseProtoProofs.v):
     a closer returns only after taskLoopDone, i.e. after the last task, after every registered
     candidate's socket was closed and its recvLoop exited, after Closed was enqueued. *)
Definition is_close_ret (e : ev) : bool := match e with VCloseRet _ => true | _ => false end.
Definition is_close_call (e : ev) : bool := match e with VCloseCall _ => true | _ => false end.
Definition is_closed_state (e : ev) : bool := match e with VState v => Nat.eqb v state_closed | _ => false end.

Fixpoint prefix_before (p : ev -> bool) (l : list ev) : list ev :=
  match l with
  | [] => []
  | e :: t => if p e then [] else e :: prefix_before p t
  end.
Fixpoint suffix_after (p : ev -> bool) (l : list ev) : list ev :=
  match l with
  | [] => []
  | e :: t => if p e then t else suffix_after p t
  end.

Definition on_loop (e : ev) : bool :=
  match e with VWBlockLoop _ | VBH | VTask => true | _ => false end.

Definition owned_in (l : list ev) : list nat :=
  flat_map (fun e => match e with VOwned c => [c] | _ => [] end) l.
Definition readers_in (l : list ev) : list nat :=
  flat_map (fun e => match e with VRead c => [c] | _ => [] end) l.
Definition closed_in (c : nat) (l : list ev) : bool :=
  existsb (fun e => match e with VSockClose c' => Nat.eqb c c' | _ => false end) l.
Definition exited_in (c : nat) (l : list ev) : bool :=
  existsb (fun e => match e with VRecvExit c' => Nat.eqb c c' | _ => false end) l.

(* nothing runs on the loop goroutine once a closer has returned *)
Definition no_task_after_return (l : list ev) : bool :=
  forallb (fun e => negb (on_loop e)) (suffix_after is_close_ret l).

(* every socket the agent owned when the first closer was invoked is closed, and every recvLoop
   that was reading has exited, before the first closer returns / before Closed is notified *)
Definition teardown_before (stop : ev -> bool) (l : list ev) : bool :=
  let pre := prefix_before stop l in
  let owned := owned_in (prefix_before is_close_call l) in
  let readers := readers_in (prefix_before is_close_call l) in
  forallb (fun c => closed_in c pre) owned && forallb (fun c => exited_in c pre) readers.

Definition has (p : ev -> bool) (l : list ev) : bool := existsb p l.

(* a gatherer is inside net.DialTCP (no context, no timeout of its own): nothing the agent does can
   end it; onClose waits for the gather goroutine, so Close lasts as long as the connect *)
Definition is_tcp_dial (e : ev) : bool := match e with VTcpDial => true | _ => false end.
Definition blocked_dial (o : obs) : bool := has is_tcp_dial (o_events o).

(* ---- the monitor ----------------------------------------------------------------------------- *)
Definition guard (g b : bool) : bool := implb g b.

Definition C08_checks (o : obs) : checks :=
  let wl := wedged_loop o in
  let wn := wedged_notifier o in
  let bd := blocked_dial o in
  let ok := o_returned o && negb wl && negb bd in   (* the case is judgeable beyond "did Close return" *)
  [ ("C08.close_returns",
       wl || bd || all_returned (fun c => own_goroutine c && negb (wn && graceful_closer c)) o);
    ("C08.close_returns:during_tcp_connect", wl || negb bd || all_returned own_goroutine o);
    ("C08.close_returns:in_callback", wl || all_returned in_callback o);
    ("C08.close_returns:graceful_sync_in_callback", wl || all_returned graceful_in_callback o);
    ("C08.close_returns:in_binding_request_handler", all_returned in_binding_handler o);
    ("C08.blocked_calls_released", guard ok (blocked_released o));
    ("C08.blocked_calls_error:Read", guard ok (blocked_error "Read" false o));
    ("C08.blocked_calls_error:Write", guard ok (blocked_error "Write" false o));
    ("C08.blocked_calls_error:Dial", guard ok (blocked_error "Dial" true o));
    ("C08.blocked_calls_error:Accept", guard ok (blocked_error "Accept" true o));
    ("C08.blocked_calls_error:AwaitConnect", guard ok (blocked_error "AwaitConnect" true o));
    ("C08.later_calls_return", guard (ok && negb wn) (later_return o));   (* a later GracefulClose waits for the wedged notifier *)
    ("C08.later_calls_closed_error", guard ok (later_closed_error o));
    ("C08.later_calls_closed_error:AwaitConnect", guard ok (later_special "AwaitConnect" o));
    ("C08.later_calls_closed_error:GetSelectedCandidatePair", guard ok (later_special "GetSelectedCandidatePair" o));
    ("C08.later_calls_closed_error:RenominateCandidate", guard ok (later_special "RenominateCandidate" o));
    ("C08.later_calls_no_effect", guard ok (later_no_effect o));
    ("C08.later_calls_no_effect:RenominateCandidate", guard ok (renominate_no_effect o));
    ("C08.final_state_closed", guard (ok && negb wn) (final_state_closed o));
    ("C08.callback_once", guard (ok && negb wn) (closed_once o));
    ("C08.graceful_waits_for_callbacks", guard (ok && negb wn) (Nat.eqb (o_latecb o) 0));
    ("C08.no_goroutine_left", guard (ok && negb wn) (match o_left o with [] => true | _ => false end));
    ("C08.order:no_task_after_close_returned", guard ok (no_task_after_return (o_events o)));
    ("C08.order:teardown_before_close_returns",
       guard (ok && has is_close_ret (o_events o)) (teardown_before is_close_ret (o_events o)));
    ("C08.order:teardown_before_closed_notified",
       guard (ok && has is_closed_state (o_events o)) (teardown_before is_closed_state (o_events o))) ].

Definition C08_monitor (o : obs) : bool := all_ok (C08_checks o).

(* ---- the agent-core model's prediction for the later calls ----------------------------------
   The after-close results of the operations the agent-core model has (Model/AgentCore.v, whose
   correspondence with the real Agent is checked by suite "core") are computed by running the
   model: a closed state with one pair in the checklist (controlling, renomination on), then the
   operation.  The driver compares class and effect with what the real agent reported. *)
From Coq Require Import ZArith.
From Ice Require Import Model.AgentTypes Model.AgentCore Gen.Consts.

Definition tie_cfg : config :=
  mkConfig false 1%Z 7%Z 5000000000%Z false 25000000000%Z 2000000000%Z 0%Z 0%Z 0%Z 0%Z [] true false 1%Z.
Definition tie_cL : cand :=
  mkCand 1%Z CandidateTypeHost 1%Z (mkAddr false 167772161%Z 5000%Z) 0%Z 2130706431%Z 1%Z None.
Definition tie_cR : cand :=
  mkCand 2%Z CandidateTypeHost 1%Z (mkAddr false 167772162%Z 6000%Z) 0%Z 2130706431%Z 1%Z None.
Definition tie_cR2 : cand :=
  mkCand 3%Z CandidateTypeHost 1%Z (mkAddr false 167772237%Z 7777%Z) 0%Z 2130706431%Z 1%Z None.

Definition tie_closed_state : state :=
  fst (run tie_cfg 1%Z 2%Z [AddLocal tie_cL; AddRemote tie_cR; Start true 7%Z 8%Z; Close]).

Definition tie_op (api : string) : option op :=
  if String.eqb api "AddRemoteSync" then Some (AddRemote tie_cR2)
  else if String.eqb api "StartDial" then Some (Start true 5%Z 5%Z)
  else if String.eqb api "StartAccept" then Some (Start false 5%Z 5%Z)
  else if String.eqb api "SetRemoteCredentials" then Some (SetRemoteCreds 5%Z 5%Z)
  else if String.eqb api "SetRemoteCredentialsEmpty" then Some (SetRemoteCreds 0%Z 0%Z)
  else if String.eqb api "Write" then Some (Write (mkPayload 1%Z 8%Z false))
  else if String.eqb api "WriteToPair" then Some (WriteToPair 0%Z (mkPayload 1%Z 8%Z false))
  else if String.eqb api "Read" then Some Read
  else if String.eqb api "Restart" then Some (Restart 3%Z 4%Z)
  else if String.eqb api "Close" then Some Close
  else if String.eqb api "ConnClose" then Some Close
  else if String.eqb api "RenominateCandidate" then Some (Renominate tie_cL tie_cR 7%Z)
  else if String.eqb api "Tick" then Some Tick
  else if String.eqb api "Inbound" then Some (InData 1%Z (mkAddr false 167772162%Z 9%Z) (mkPayload 2%Z 8%Z false))
  else None.

Definition ret_class (r : ret) : nat :=
  match r with
  | ROk | RIgnored | RDuplicate => cls_nil
  | RErrClosed => cls_closed
  | RErrMultipleStart => cls_multistart
  | RErrEmptyCreds => cls_validation
  | _ => cls_other
  end.

Fixpoint outs_class (os : list out) : nat :=
  match os with
  | [] => cls_nil
  | ORet r :: _ => ret_class r
  | _ :: t => outs_class t
  end.

Definition outs_effect (os : list out) : bool :=
  existsb (fun o => match o with ORet _ => false | _ => true end) os.

Definition tie_changed (s s' : state) : bool :=
  negb (Nat.eqb (List.length (s_pending s)) (List.length (s_pending s'))
        && Z.eqb (s_next_tx s) (s_next_tx s') && Z.eqb (s_conn s) (s_conn s')
        && Nat.eqb (List.length (s_locals s)) (List.length (s_locals s'))
        && Nat.eqb (List.length (s_remotes s)) (List.length (s_remotes s'))
        && Nat.eqb (List.length (s_checklist s)) (List.length (s_checklist s'))
        && Z.eqb (s_lufrag s) (s_lufrag s') && Z.eqb (s_rufrag s) (s_rufrag s')
        && Bool.eqb (s_started s) (s_started s') && Bool.eqb (s_closed s) (s_closed s')).

(* (class, effect) the model predicts for a later call, None when the model has no such operation *)
Definition tie_predict (api : string) : option (nat * nat) :=
  match tie_op api with
  | None => None
  | Some o =>
    let '(s', os) := step tie_cfg tie_closed_state o in
    Some (outs_class os, if outs_effect os || tie_changed tie_closed_state s' then 1 else 0)
  end.
