(* C11, layer C: interleaving model of handlerNotifier (/repo/agent_handlers.go).

   One notifier value: the mutex, the done channel, the WaitGroup `notifiers`, and per stream
   (the struct has three: connection states, candidates, selected pairs; the model allows any
   number, indexed by nat) a FIFO slice and a `running` flag.
   Threads (unbounded, indexed by nat):
     enqueuers e   one call Enqueue<Stream>(v); the enqueued value is identified with e
     drainers  d   one `go notify()` goroutine
     closers   k   one call Close(graceful)
   Handlers are harness/application code of arbitrary latency: a handler invocation is a start
   label and an end label of the drainer; whatever the handler does to the notifier in between
   (enqueue more events, Close) is an enqueuer / closer thread of the model, so re-entrant
   handlers are covered by the unbounded thread sets (over-approximation: such a thread may also
   run when the handler does not).  The one exception, modelled explicitly because it blocks the
   handler itself, is Close(true) called from inside a handler (DInGrace).

   One label = one atomic action: every mutex-delimited section of the Go code contains no
   blocking operation, so a section is one step (Enqueue: test done, append, maybe set running +
   notifiers.Add(1) + go;  drainer: test empty / pop;  Close: test/close done);  the handler
   call, the handler return, notifiers.Done(), notifiers.Wait() are steps of their own.
   No proofs in this file. *)
From Coq Require Import Arith Bool List String.
Import ListNotations.
From Ice Require Import Model.PrioSpec.

Definition upd {A : Type} (f : nat -> A) (i : nat) (v : A) : nat -> A :=
  fun j => if Nat.eqb j i then v else f j.

Inductive epc := EIdle | ECalled | EReturned.         (* Enqueue *)
Inductive dpc :=                                      (* notify() *)
| DNone                      (* goroutine not created *)
| DTop                       (* at the top of the for loop, about to Lock *)
| DHold (v : nat)            (* popped v, unlocked, about to call the handler *)
| DIn (v : nat)              (* inside the handler *)
| DInGrace (v : nat)         (* inside the handler, which called Close(true) and is in Wait() *)
| DExiting                   (* saw the queue empty, cleared running; deferred Done() pending *)
| DExited.
Inductive kpc := KIdle | KCalled | KWait | KRet.       (* Close(graceful) *)

Record state := mk {
  closed : bool;                      (* h.done closed *)
  queue : nat -> list nat;            (* per stream *)
  running : nat -> bool;              (* per stream *)
  wg : nat;                           (* notifiers counter *)
  ep : nat -> epc;
  estream : nat -> nat;
  dp : nat -> dpc;
  dstream : nat -> nat;
  kp : nat -> kpc;
  kgrace : nat -> bool;
  (* ghosts *)
  accepted : nat -> list nat;         (* per stream: values appended to the queue, in order *)
  invoked : nat -> list nat;          (* per stream: handler invocations started, in order *)
  hold : nat -> option nat;           (* per stream: value popped but handler not yet entered *)
  cur : nat -> option nat;            (* per stream: the drainer owning the running flag *)
  live : list nat                     (* drainers counted by the WaitGroup *)
}.

Definition init : state :=
  mk false (fun _ => []) (fun _ => false) 0 (fun _ => EIdle) (fun _ => 0) (fun _ => DNone) (fun _ => 0)
     (fun _ => KIdle) (fun _ => false) (fun _ => []) (fun _ => []) (fun _ => None) (fun _ => None) [].

Inductive event :=
| NEnqCall (e s : nat)        (* stamp before Enqueue of value e on stream s *)
| NEnqRet (e : nat)           (* stamp after it returned *)
| NHStart (v : nat)           (* first action of the handler invoked with v *)
| NHEnd (v : nat)             (* last action of that handler invocation *)
| NCloseCall (k : nat) (g : bool)
| NCloseRet (k : nat).

(* labels: one per atomic action; [lstep] also returns the event the harness observes for it *)
Inductive label :=
| LEnqCall (e st : nat)
| LEnqSection (e d : nat)     (* the critical section of Enqueue; d = goroutine created, if one is *)
| LEnqRet (e : nat)
| LDrain (d : nat)            (* the critical section of notify(): pop, or clear running *)
| LHStart (d : nat)           (* h.<stream>Func(notification) is entered *)
| LHEnd (d : nat)             (* ... returns *)
| LDone (d : nat)             (* deferred notifiers.Done() *)
| LCloseCall (k : nat) (g : bool)
| LCloseSection (k : nat)     (* the critical section of Close *)
| LCloseRet (k : nat)         (* the deferred notifiers.Wait() (graceful) and the return *)
| LNestedGrace (d : nat)      (* the handler run by d calls Close(true): its critical section *)
| LNestedGraceRet (d : nat).  (* ... its Wait() returns *)

Definition epc_eqb (a b : epc) : bool :=
  match a, b with EIdle, EIdle | ECalled, ECalled | EReturned, EReturned => true | _, _ => false end.
Definition kpc_eqb (a b : kpc) : bool :=
  match a, b with KIdle, KIdle | KCalled, KCalled | KWait, KWait | KRet, KRet => true | _, _ => false end.
Definition dpc_eqb (a b : dpc) : bool :=
  match a, b with
  | DNone, DNone | DTop, DTop | DExiting, DExiting | DExited, DExited => true
  | DHold v, DHold w | DIn v, DIn w | DInGrace v, DInGrace w => Nat.eqb v w
  | _, _ => false
  end.

Definition remove_nat (x : nat) (l : list nat) : list nat := filter (fun y => negb (Nat.eqb y x)) l.

Definition set_dp (s : state) (d : nat) (p : dpc) : state :=
  mk (closed s) (queue s) (running s) (wg s) (ep s) (estream s) (upd (dp s) d p) (dstream s)
     (kp s) (kgrace s) (accepted s) (invoked s) (hold s) (cur s) (live s).
Definition set_kp (s : state) (k : nat) (p : kpc) : state :=
  mk (closed s) (queue s) (running s) (wg s) (ep s) (estream s) (dp s) (dstream s)
     (upd (kp s) k p) (kgrace s) (accepted s) (invoked s) (hold s) (cur s) (live s).
Definition set_closed (s : state) : state :=
  mk true (queue s) (running s) (wg s) (ep s) (estream s) (dp s) (dstream s)
     (kp s) (kgrace s) (accepted s) (invoked s) (hold s) (cur s) (live s).

Definition lstep (l : label) (s : state) : option (state * option event) :=
  match l with
  | LEnqCall e st =>
      if epc_eqb (ep s e) EIdle
      then Some (mk (closed s) (queue s) (running s) (wg s) (upd (ep s) e ECalled) (upd (estream s) e st)
                    (dp s) (dstream s) (kp s) (kgrace s) (accepted s) (invoked s) (hold s) (cur s) (live s),
                 Some (NEnqCall e st))
      else None
  | LEnqSection e d =>
      if epc_eqb (ep s e) ECalled then
        let st := estream s e in
        if closed s then
          (* select { case <-h.done: return } : the event is dropped *)
          Some (mk (closed s) (queue s) (running s) (wg s) (upd (ep s) e EReturned) (estream s)
                   (dp s) (dstream s) (kp s) (kgrace s) (accepted s) (invoked s) (hold s) (cur s) (live s), None)
        else if running s st then
          Some (mk (closed s) (upd (queue s) st (queue s st ++ [e])) (running s) (wg s)
                   (upd (ep s) e EReturned) (estream s) (dp s) (dstream s) (kp s) (kgrace s)
                   (upd (accepted s) st (accepted s st ++ [e])) (invoked s) (hold s) (cur s) (live s), None)
        else if dpc_eqb (dp s d) DNone then
          (* running = true; notifiers.Add(1); go notify() *)
          Some (mk (closed s) (upd (queue s) st (queue s st ++ [e])) (upd (running s) st true) (S (wg s))
                   (upd (ep s) e EReturned) (estream s) (upd (dp s) d DTop) (upd (dstream s) d st)
                   (kp s) (kgrace s)
                   (upd (accepted s) st (accepted s st ++ [e])) (invoked s) (hold s)
                   (upd (cur s) st (Some d)) (d :: live s), None)
        else None
      else None
  | LEnqRet e =>
      if epc_eqb (ep s e) EReturned then Some (s, Some (NEnqRet e)) else None
  | LDrain d =>
      if dpc_eqb (dp s d) DTop then
        let st := dstream s d in
        match queue s st with
        | [] =>
            Some (mk (closed s) (queue s) (upd (running s) st false) (wg s) (ep s) (estream s)
                     (upd (dp s) d DExiting) (dstream s) (kp s) (kgrace s) (accepted s) (invoked s)
                     (hold s) (upd (cur s) st None) (live s), None)
        | v :: q =>
            Some (mk (closed s) (upd (queue s) st q) (running s) (wg s) (ep s) (estream s)
                     (upd (dp s) d (DHold v)) (dstream s) (kp s) (kgrace s) (accepted s) (invoked s)
                     (upd (hold s) st (Some v)) (cur s) (live s), None)
        end
      else None
  | LHStart d =>
      match dp s d with
      | DHold v =>
          let st := dstream s d in
          Some (mk (closed s) (queue s) (running s) (wg s) (ep s) (estream s)
                   (upd (dp s) d (DIn v)) (dstream s) (kp s) (kgrace s) (accepted s)
                   (upd (invoked s) st (invoked s st ++ [v])) (upd (hold s) st None) (cur s) (live s),
                Some (NHStart v))
      | _ => None
      end
  | LHEnd d =>
      match dp s d with
      | DIn v => Some (set_dp s d DTop, Some (NHEnd v))
      | _ => None
      end
  | LDone d =>
      if dpc_eqb (dp s d) DExiting
      then Some (mk (closed s) (queue s) (running s) (pred (wg s)) (ep s) (estream s)
                    (upd (dp s) d DExited) (dstream s) (kp s) (kgrace s) (accepted s) (invoked s)
                    (hold s) (cur s) (remove_nat d (live s)), None)
      else None
  | LCloseCall k g =>
      if kpc_eqb (kp s k) KIdle
      then Some (mk (closed s) (queue s) (running s) (wg s) (ep s) (estream s) (dp s) (dstream s)
                    (upd (kp s) k KCalled) (upd (kgrace s) k g) (accepted s) (invoked s) (hold s) (cur s) (live s),
                 Some (NCloseCall k g))
      else None
  | LCloseSection k =>
      (* Lock; if done already closed: Unlock, return; else close(done), Unlock *)
      if kpc_eqb (kp s k) KCalled then Some (set_kp (set_closed s) k KWait, None) else None
  | LCloseRet k =>
      if kpc_eqb (kp s k) KWait && (negb (kgrace s k) || Nat.eqb (wg s) 0)
      then Some (set_kp s k KRet, Some (NCloseRet k)) else None
  | LNestedGrace d =>
      match dp s d with
      | DIn v => Some (set_dp (set_closed s) d (DInGrace v), None)
      | _ => None
      end
  | LNestedGraceRet d =>
      match dp s d with
      | DInGrace v => if Nat.eqb (wg s) 0 then Some (set_dp s d (DIn v), None) else None
      | _ => None
      end
  end.

Definition step (s s' : state) : Prop := exists l o, lstep l s = Some (s', o).

Inductive steps : state -> state -> Prop :=
| steps_refl : forall s, steps s s
| steps_step : forall s s' s'', steps s s' -> step s' s'' -> steps s s''.

Definition reach (s : state) : Prop := steps init s.

Definition opt_list {A} (o : option A) : list A := match o with Some x => [x] | None => [] end.

(* running a label sequence, collecting the observable events *)
Fixpoint run (ls : list label) (s : state) : option (state * list event) :=
  match ls with
  | [] => Some (s, [])
  | l :: ls' =>
      match lstep l s with
      | Some (s', o) =>
          match run ls' s' with
          | Some (s'', evs) => Some (s'', opt_list o ++ evs)
          | None => None
          end
      | None => None
      end
  end.

(* a state in which nothing is in flight: no Enqueue mid-call, no drainer goroutine alive *)
Definition quiescent (s : state) : Prop :=
  (forall e, ep s e <> ECalled) /\ (forall d, dp s d = DNone \/ dp s d = DExited).

(* ======================================================================================== *)
(* The acceptor.  [candidate] is a heuristic that builds, from a COMPLETE log (read at        *)
(* quiescence), a label sequence whose observable projection should be the log; [explains]   *)
(* CHECKS the candidate by running it through [lstep] and comparing the emitted events with  *)
(* the log, so an accepted log is the trace of a model run whatever the heuristic does.      *)
(* Heuristic (completeness argued by commuting independent steps, not proved):               *)
(*  - a value is "accepted" iff the log shows its handler invocation; the critical sections  *)
(*    of accepted Enqueues are placed as early as possible, in the order of the handler      *)
(*    invocations of their stream; a dropped Enqueue's section is placed at its return, and  *)
(*    forces some called Close to have had its section by then;                              *)
(*  - a drainer's critical section is taken as soon as it is at the top of its loop, Done()  *)
(*    at once; Close sections as late as possible (at the Close return).                     *)
(* ======================================================================================== *)
Definition event_eqb (a b : event) : bool :=
  match a, b with
  | NEnqCall e s, NEnqCall e' s' => Nat.eqb e e' && Nat.eqb s s'
  | NEnqRet e, NEnqRet e' => Nat.eqb e e'
  | NHStart v, NHStart v' => Nat.eqb v v'
  | NHEnd v, NHEnd v' => Nat.eqb v v'
  | NCloseCall k g, NCloseCall k' g' => Nat.eqb k k' && Bool.eqb g g'
  | NCloseRet k, NCloseRet k' => Nat.eqb k k'
  | _, _ => false
  end.

Fixpoint events_eqb (a b : list event) : bool :=
  match a, b with
  | [], [] => true
  | x :: a', y :: b' => event_eqb x y && events_eqb a' b'
  | _, _ => false
  end.

Record acc := mk_acc { a_s : state; a_nd : nat; a_todo : list nat; a_ls : list label (* reversed *) }.

Definition do_label (l : label) (a : acc) : option acc :=
  match lstep l (a_s a) with
  | Some (s', _) => Some (mk_acc s' (a_nd a) (a_todo a) (l :: a_ls a))
  | None => None
  end.
Definition try_label (l : label) (a : acc) : acc :=
  match do_label l a with Some a' => a' | None => a end.

(* stream of a value, from the log *)
Fixpoint stream_of (evs : list event) (v : nat) : nat :=
  match evs with
  | [] => 0
  | NEnqCall e s :: evs' => if Nat.eqb e v then s else stream_of evs' v
  | _ :: evs' => stream_of evs' v
  end.

Fixpoint hstarts (evs : list event) : list nat :=
  match evs with [] => [] | NHStart v :: evs' => v :: hstarts evs' | _ :: evs' => hstarts evs' end.
Fixpoint closers_of (evs : list event) : list nat :=
  match evs with [] => [] | NCloseCall k _ :: evs' => k :: closers_of evs' | _ :: evs' => closers_of evs' end.

Definition drains (a : acc) : acc :=
  fold_left (fun a d => try_label (LDone d) (try_label (LDrain d) a)) (seq 0 (a_nd a)) a.

Fixpoint pick (strm : nat -> nat) (s : state) (seen : list nat) (todo : list nat) : option nat :=
  match todo with
  | [] => None
  | e :: t =>
      if existsb (Nat.eqb (strm e)) seen then pick strm s seen t
      else if epc_eqb (ep s e) ECalled then Some e
      else pick strm s (strm e :: seen) t
  end.

Fixpoint settle (fuel : nat) (strm : nat -> nat) (a : acc) : acc :=
  match fuel with
  | 0 => a
  | S f =>
      if closed (a_s a) then a else
      match pick strm (a_s a) [] (a_todo a) with
      | None => a
      | Some e =>
          match do_label (LEnqSection e (a_nd a)) a with
          | Some a' => settle f strm (drains (mk_acc (a_s a') (S (a_nd a')) (remove_nat e (a_todo a')) (a_ls a')))
          | None => a
          end
      end
  end.

Definition find_drainer (p : dpc -> bool) (a : acc) : option nat :=
  find (fun d => p (dp (a_s a) d)) (seq 0 (a_nd a)).

Definition acc_event (strm : nat -> nat) (accepted_vals cids : list nat) (e : event) (a : acc) : option acc :=
  match e with
  | NEnqCall v st =>
      match do_label (LEnqCall v st) a with
      | Some a' => Some (settle (S (List.length (a_todo a'))) strm a')
      | None => None
      end
  | NEnqRet v =>
      let a1 :=
        if epc_eqb (ep (a_s a) v) ECalled && negb (existsb (Nat.eqb v) accepted_vals) then
          (* a dropped value: the notifier must be closed by now *)
          let a0 := if closed (a_s a) then a else
                      match find (fun k => kpc_eqb (kp (a_s a) k) KCalled) cids with
                      | Some k => try_label (LCloseSection k) a
                      | None => a
                      end in
          if closed (a_s a0) then try_label (LEnqSection v 0) a0 else a0
        else a in
      do_label (LEnqRet v) a1
  | NHStart v =>
      match find_drainer (fun p => dpc_eqb p (DHold v)) a with
      | Some d => do_label (LHStart d) a
      | None => None
      end
  | NHEnd v =>
      match find_drainer (fun p => dpc_eqb p (DIn v)) a with
      | Some d => match do_label (LHEnd d) a with
                  | Some a' => Some (settle (S (List.length (a_todo a'))) strm (drains a'))
                  | None => None
                  end
      | None => None
      end
  | NCloseCall k g => do_label (LCloseCall k g) a
  | NCloseRet k =>
      let a1 := if kpc_eqb (kp (a_s a) k) KCalled then try_label (LCloseSection k) a else a in
      do_label (LCloseRet k) a1
  end.

Fixpoint acc_events (strm : nat -> nat) (accepted_vals cids : list nat) (evs : list event) (a : acc) : option acc :=
  match evs with
  | [] => Some a
  | e :: evs' =>
      match acc_event strm accepted_vals cids e a with
      | Some a' => acc_events strm accepted_vals cids evs' a'
      | None => None
      end
  end.

Definition candidate (evs : list event) : option (list label) :=
  let hs := hstarts evs in
  match acc_events (stream_of evs) hs (closers_of evs) evs (mk_acc init 0 hs []) with
  | Some a => Some (rev (a_ls a))
  | None => None
  end.

Definition explains (evs : list event) : bool :=
  match candidate evs with
  | Some ls => match run ls init with
               | Some (_, evs') => events_eqb evs' evs
               | None => false
               end
  | None => false
  end.

(* ======================================================================================== *)
(* The monitor: C11 (the notifier part) stated over a complete log.                           *)
(* ======================================================================================== *)
Fixpoint index_of (p : event -> bool) (l : list event) (n : nat) : option nat :=
  match l with
  | [] => None
  | e :: l' => if p e then Some n else index_of p l' (S n)
  end.
Definition pos (p : event -> bool) (l : list event) : option nat := index_of p l 0.

Definition is_hstart (v : nat) (e : event) : bool := match e with NHStart w => Nat.eqb v w | _ => false end.
Definition is_hend (v : nat) (e : event) : bool := match e with NHEnd w => Nat.eqb v w | _ => false end.
Definition is_enqcall (v : nat) (e : event) : bool := match e with NEnqCall w _ => Nat.eqb v w | _ => false end.
Definition is_enqret (v : nat) (e : event) : bool := match e with NEnqRet w => Nat.eqb v w | _ => false end.
Definition is_closecall (e : event) : bool := match e with NCloseCall _ _ => true | _ => false end.
Definition is_closeret (e : event) : bool := match e with NCloseRet _ => true | _ => false end.
Definition is_handler_event (e : event) : bool := match e with NHStart _ | NHEnd _ => true | _ => false end.

Definition count (p : event -> bool) (l : list event) : nat := List.length (filter p l).

Fixpoint enq_vals (l : list event) : list nat :=
  match l with [] => [] | NEnqCall v _ :: l' => v :: enq_vals l' | _ :: l' => enq_vals l' end.

Definition lt_opt (a b : option nat) : bool :=
  match a, b with Some x, Some y => Nat.ltb x y | _, _ => false end.

(* every value's handler runs at most once *)
Definition handler_at_most_once (l : list event) : bool :=
  forallb (fun v => Nat.leb (count (is_hstart v) l) 1) (hstarts l).

(* a value whose Enqueue returned before any Close was called is delivered exactly once *)
Definition delivered_if_before_close (l : list event) : bool :=
  let c := pos is_closecall l in
  forallb (fun v => match pos (is_enqret v) l with
                    | Some r => match c with
                                | Some cc => if Nat.ltb r cc then Nat.eqb (count (is_hstart v) l) 1 else true
                                | None => Nat.eqb (count (is_hstart v) l) 1
                                end
                    | None => true
                    end) (enq_vals l).

(* a value enqueued after some Close returned is never delivered *)
Definition dropped_after_close (l : list event) : bool :=
  let c := pos is_closeret l in
  forallb (fun v => if lt_opt c (pos (is_enqcall v) l) then Nat.eqb (count (is_hstart v) l) 0 else true)
          (enq_vals l).

(* per stream, handlers are invoked in the order of the (real-time ordered) Enqueues *)
Definition fifo (l : list event) : bool :=
  let vs := hstarts l in
  forallb (fun v1 => forallb (fun v2 =>
     if Nat.eqb (stream_of l v1) (stream_of l v2) && lt_opt (pos (is_enqret v1) l) (pos (is_enqcall v2) l)
     then lt_opt (pos (is_hstart v1) l) (pos (is_hstart v2) l) else true) vs) vs.

(* per stream, a handler invocation ends before the next one starts *)
Fixpoint overlap_scan (strm : nat -> nat) (inside : list (nat * nat)) (l : list event) : bool :=
  match l with
  | [] => true
  | NHStart v :: l' =>
      if existsb (fun sv => Nat.eqb (fst sv) (strm v)) inside then false
      else overlap_scan strm ((strm v, v) :: inside) l'
  | NHEnd v :: l' =>
      if existsb (fun sv => Nat.eqb (fst sv) (strm v) && Nat.eqb (snd sv) v) inside
      then overlap_scan strm (filter (fun sv => negb (Nat.eqb (fst sv) (strm v))) inside) l'
      else false
  | _ :: l' => overlap_scan strm inside l'
  end.

(* after a graceful Close returned no handler is running and none is invoked *)
Fixpoint after_graceful (grace : list nat) (l : list event) : bool :=
  match l with
  | [] => true
  | NCloseCall k g :: l' => after_graceful (if g then k :: grace else grace) l'
  | NCloseRet k :: l' =>
      if existsb (Nat.eqb k) grace then Nat.eqb (count is_handler_event l') 0 && after_graceful grace l'
      else after_graceful grace l'
  | _ :: l' => after_graceful grace l'
  end.

Definition only_enqueued (l : list event) : bool :=
  forallb (fun v => lt_opt (pos (is_enqcall v) l) (pos (is_hstart v) l)) (hstarts l).

Definition C11_checks (l : list event) : checks :=
  [ ("handler_at_most_once"%string, handler_at_most_once l);
    ("delivered_if_enqueued_before_close"%string, delivered_if_before_close l);
    ("dropped_if_enqueued_after_close_returned"%string, dropped_after_close l);
    ("fifo_per_stream"%string, fifo l);
    ("no_self_overlap"%string, overlap_scan (stream_of l) [] l);
    ("quiet_after_graceful_close"%string, after_graceful [] l);
    ("only_enqueued_values"%string, only_enqueued l) ].

Definition C11_monitor (l : list event) : bool := all_ok (C11_checks l).
