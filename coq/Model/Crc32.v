(* CRC-32 (IEEE 802.3, reflected, poly 0xEDB88320) over strings; executable. *)
From Coq Require Import NArith String Ascii List.
Local Open Scope N_scope.

Definition crc_poly : N := 3988292384. (* 0xEDB88320 *)

Fixpoint crc_bits (n : nat) (c : N) : N :=
  match n with
  | O => c
  | S n' => crc_bits n' (if N.testbit c 0 then N.lxor (N.shiftr c 1) crc_poly else N.shiftr c 1)
  end.

Definition crc_byte (c : N) (b : ascii) : N :=
  crc_bits 8 (N.lxor c (N_of_ascii b)).

Fixpoint crc_str (c : N) (s : string) : N :=
  match s with
  | EmptyString => c
  | String a s' => crc_str (crc_byte c a) s'
  end.

Definition crc32 (s : string) : N := N.lxor (crc_str 4294967295 s) 4294967295.
