(* C10, public-API part: what the generated loop-discipline table predicts for a call made while a
   task occupies the loop, and the monitor over the observation of such a call.  No proofs. *)
From Coq Require Import String List Bool.
Import ListNotations.
From Ice Require Import Model.PrioSpec Gen.LoopDiscipline.
Local Open Scope string_scope.

Definition api_lookup (recv name : string) : option api_row :=
  find (fun r => String.eqb (r_recv r) recv && String.eqb (r_name r) name) api_table.

Definition row_touches (r : api_row) : bool :=
  r_uses_loop r || negb (match r_outside r with [] => true | _ => false end).

(* a method that submits its work to the loop cannot return while another task occupies the loop;
   one that never does returns at once *)
Definition api_predict_returns (r : api_row) : bool := negb (r_uses_loop r).

(* observation: the call returned while the parked task was still running / the loop-owned state
   seen by the parked task changed between its two snapshots *)
Definition C10_api_checks (r : api_row) (returned changed : bool) : checks :=
  [ ("state_stable_while_task_runs", negb changed);
    ("state_touching_call_waits_for_loop", negb (row_touches r && returned)) ].
