(* C13, second half: the write-abort protocol of UDPMuxDefault (udp_mux.go).

   One atomic.Uint64 word [writeState] = in-flight writer count (bits 0..61) + deadline-armed
   bit (62) + blocked bit (63), the shared socket's write deadline, any number of writers
   (writeToContext / writeToUDPAddrPort: startWriteContext ... finishWrite ...
   clearWriteDeadlineAfterAbort) and any number of aborters (abortWrite ...
   setWriteDeadlineArmed / clearWriteAbortState; these are candidateBase.abortIO through the
   writeAborter interface, and the per-write watcher goroutine of writeToContext).

   Layer C interleaving model: shared state + [nat -> pc] maps, one rule per atomic action
   (one Load, one CompareAndSwap, one Store, one SetWriteDeadline call - which may FAIL -,
   entering / leaving UDPConn.WriteTo).  CAS loops are modelled with their retry rules.

   This file: definitions only (no proofs).  Also the executable thread-local successor
   functions used by the extracted acceptor, and the C13 write-abort monitor. *)
From Coq Require Import ZArith Bool List Arith String.
From Ice Require Import Model.PrioSpec Gen.Consts.
Import ListNotations.

(* ---- the word -------------------------------------------------------------------------
   udp_mux.go declares   udpMuxWriteBlockedBit  = uint64(1) << 63
                         udpMuxWriteDeadlineBit = uint64(1) << 62
                         udpMuxWriteCountMask   = udpMuxWriteDeadlineBit - 1
   The three constants are GENERATED (Gen/Consts.v).  The model works on the decoded record;
   Proofs/WriteAbortProofs.v (encode_fields, encode_ops) relates it to the uint64 and its masks. *)
Record word := { cnt : nat; blk : bool; dl : bool }.
Definition w0 : word := {| cnt := 0; blk := false; dl := false |}.
Definition winc (w : word) : word := {| cnt := S (cnt w); blk := blk w; dl := dl w |}.   (* state+1 *)
Definition wdec (w : word) : word := {| cnt := pred (cnt w); blk := blk w; dl := dl w |}. (* state-1, count>0 *)
Definition wsetB (w : word) : word := {| cnt := cnt w; blk := true; dl := dl w |}.       (* state|blocked *)
Definition wsetD (w : word) : word := {| cnt := cnt w; blk := blk w; dl := true |}.      (* state|deadline *)
Definition wclrBD (w : word) : word := {| cnt := cnt w; blk := false; dl := false |}.    (* state&^(blocked|deadline) *)
Definition encode (w : word) : Z :=
  (Z.of_nat (cnt w) + (if dl w then udpMuxWriteDeadlineBit else 0) + (if blk w then udpMuxWriteBlockedBit else 0))%Z.
Definition word_eqb (a b : word) : bool :=
  Nat.eqb (cnt a) (cnt b) && Bool.eqb (blk a) (blk b) && Bool.eqb (dl a) (dl b).

(* ---- program counters ------------------------------------------------------------------ *)
Inductive wpc :=
| WIdle
| WStart                   (* startWriteContext: top of loop (ctx.Err() check, then Load) *)
| WStartCas (r : word)     (* loaded r with blocked clear; next: CompareAndSwap(r, r+1) *)
| WPre                     (* counted.  writeToContext: ctx.Err() check before the socket write *)
| WSock                    (* inside UDPConn.WriteTo / WriteToAddrPort *)
| WFin                     (* finishWrite: top of loop *)
| WFinCas (r : word)       (* next: CompareAndSwap(r, r-1), ordinary decrement *)
| WFinCasLast (r : word)   (* next: CompareAndSwap(r, r-1), r blocked with count 1 *)
| WClr                     (* clearWriteDeadlineAfterAbort: top of loop *)
| WClrSet                  (* saw blocked+deadline; next: SetWriteDeadline(time.Time{}) *)
| WClrStore                (* next: writeState.Store(0) *)
| WRet                     (* finished, not yet returned to the caller *)
| WDone.

Inductive apc :=
| AIdle
| ALoad                    (* abortWrite: top of loop *)
| ACas (r : word)          (* next: CompareAndSwap(r, r|blocked) *)
| ASetDl                   (* owns blocked; next: SetWriteDeadline(time.Now()) *)
| AArm                     (* setWriteDeadlineArmed: top of loop *)
| AArmCas (r : word)       (* next: CompareAndSwap(r, r|deadline) *)
| AUndo                    (* clearWriteAbortState (SetWriteDeadline failed): top of loop *)
| AUndoCas (r : word)      (* next: CompareAndSwap(r, r&^(blocked|deadline)) *)
| ARet (ok : bool)         (* finished (ok = nil error), not yet returned *)
| ADone.

Definition inflight (p : wpc) : bool :=
  match p with WPre | WSock | WFin | WFinCas _ | WFinCasLast _ => true | _ => false end.
Definition clearing (p : wpc) : bool :=
  match p with WClr | WClrSet | WClrStore => true | _ => false end.
Definition owning (p : apc) : bool :=
  match p with ASetDl | AArm | AArmCas _ | AUndo | AUndoCas _ => true | _ => false end.
Definition w_quiet (p : wpc) : bool := match p with WIdle | WDone => true | _ => false end.
Definition a_quiet (p : apc) : bool := match p with AIdle | ADone => true | _ => false end.

(* ---- state ------------------------------------------------------------------------------
   ghost fields (never read by a guard): [fl] the writers between their increment and their
   decrement, [own] the aborter that won the blocked bit and has not finished arming, [clr]
   the writer that took the count to zero under blocked, the count of failed arming calls and
   whether a clearing call failed since the last successful arming. *)
Record state := {
  ws : word;                 (* UDPMuxDefault.writeState *)
  armed : bool;              (* the shared socket has a (past) write deadline set *)
  wpcs : nat -> wpc;
  apcs : nat -> apc;
  fl : list nat;
  own : option nat;
  clr : option nat;
  armfails : nat;            (* failed SetWriteDeadline(time.Now()) calls so far *)
  clrfailed : bool           (* a SetWriteDeadline(time.Time{}) call failed after the last successful arming *)
}.

Definition upd {A} (f : nat -> A) (i : nat) (v : A) : nat -> A := fun k => if Nat.eqb k i then v else f k.
Definition remove_nat (i : nat) (l : list nat) : list nat := filter (fun k => negb (Nat.eqb k i)) l.

Definition init : state :=
  {| ws := w0; armed := false; wpcs := fun _ => WIdle; apcs := fun _ => AIdle;
     fl := []; own := None; clr := None; armfails := 0; clrfailed := false |}.

Definition set_w (s : state) (i : nat) (p : wpc) : state :=
  {| ws := ws s; armed := armed s; wpcs := upd (wpcs s) i p; apcs := apcs s;
     fl := fl s; own := own s; clr := clr s; armfails := armfails s; clrfailed := clrfailed s |}.
Definition set_a (s : state) (j : nat) (p : apc) : state :=
  {| ws := ws s; armed := armed s; wpcs := wpcs s; apcs := upd (apcs s) j p;
     fl := fl s; own := own s; clr := clr s; armfails := armfails s; clrfailed := clrfailed s |}.
Definition set_ws (s : state) (w : word) : state :=
  {| ws := w; armed := armed s; wpcs := wpcs s; apcs := apcs s;
     fl := fl s; own := own s; clr := clr s; armfails := armfails s; clrfailed := clrfailed s |}.
Definition set_armed (s : state) (b : bool) : state :=
  {| ws := ws s; armed := b; wpcs := wpcs s; apcs := apcs s;
     fl := fl s; own := own s; clr := clr s; armfails := armfails s; clrfailed := clrfailed s |}.
Definition set_fl (s : state) (l : list nat) : state :=
  {| ws := ws s; armed := armed s; wpcs := wpcs s; apcs := apcs s;
     fl := l; own := own s; clr := clr s; armfails := armfails s; clrfailed := clrfailed s |}.
Definition set_own (s : state) (o : option nat) : state :=
  {| ws := ws s; armed := armed s; wpcs := wpcs s; apcs := apcs s;
     fl := fl s; own := o; clr := clr s; armfails := armfails s; clrfailed := clrfailed s |}.
Definition set_clr (s : state) (o : option nat) : state :=
  {| ws := ws s; armed := armed s; wpcs := wpcs s; apcs := apcs s;
     fl := fl s; own := own s; clr := o; armfails := armfails s; clrfailed := clrfailed s |}.
Definition bump_armfails (s : state) : state :=
  {| ws := ws s; armed := armed s; wpcs := wpcs s; apcs := apcs s;
     fl := fl s; own := own s; clr := clr s; armfails := S (armfails s); clrfailed := clrfailed s |}.
Definition set_clrfailed (s : state) (b : bool) : state :=
  {| ws := ws s; armed := armed s; wpcs := wpcs s; apcs := apcs s;
     fl := fl s; own := own s; clr := clr s; armfails := armfails s; clrfailed := b |}.

(* ---- visible events (what the fake socket and the API boundary can log) ------------------ *)
Inductive label :=
| Tau
| LWCall (i : nat)             (* a write is called *)
| LSockIn (i : nat)            (* the write enters UDPConn.WriteTo *)
| LSockOut (i : nat) (ok : bool) (* UDPConn.WriteTo returns; ok=false: deadline exceeded *)
| LWRet (i : nat)              (* the write returns to its caller *)
| LACall (j : nat)
| LARet (j : nat) (ok : bool)
| LArm (ok : bool)             (* SetWriteDeadline(time.Now()) on the socket, succeeded or failed *)
| LClear (ok : bool).          (* SetWriteDeadline(time.Time{}) on the socket *)

(* ---- two variants of clearWriteAbortState -------------------------------------------------
   [handover = false]: the code as it is,
        newState := state &^ (blocked|deadline); if state == newState { return }; CAS(state, newState)
   [handover = true]: the code with findings/proposed/C13-stale-deadline-clearer.diff,
        if state&blocked == 0 { return }
        newState as above, but when the count is already 0 (the last writer waits in
        clearWriteDeadlineAfterAbort): newState = state | deadline; CAS(state, newState)
   The harness determines which variant /repo contains (a deterministic probe schedule) and the
   acceptor is run for that variant. *)
Definition undo_done (handover : bool) (w : word) : bool :=
  if handover then negb (blk w) else negb (blk w) && negb (dl w).
Definition undo_target (handover : bool) (w : word) : word :=
  if handover && Nat.eqb (cnt w) 0 then wsetD w else wclrBD w.

(* ---- the transition relation: one rule per atomic action -------------------------------- *)
Inductive step (handover : bool) : state -> label -> state -> Prop :=
(* writers: startWriteContext *)
| w_call s i : wpcs s i = WIdle -> step handover s (LWCall i) (set_w s i WStart)
| w_ctx_err s i : wpcs s i = WStart ->                      (* ctx.Err() != nil: return err *)
    step handover s Tau (set_w s i WRet)
| w_start_spin s i : wpcs s i = WStart -> blk (ws s) = true ->   (* Load; blocked: Gosched; continue *)
    step handover s Tau (set_w s i WStart)
| w_start_load s i : wpcs s i = WStart -> blk (ws s) = false ->
    step handover s Tau (set_w s i (WStartCas (ws s)))
| w_start_cas_ok s i r : wpcs s i = WStartCas r -> ws s = r ->
    step handover s Tau (set_fl (set_ws (set_w s i WPre) (winc r)) (i :: fl s))
| w_start_cas_fail s i r : wpcs s i = WStartCas r -> ws s <> r ->
    step handover s Tau (set_w s i WStart)
(* writers: writeToContext body *)
| w_pre_ctx_err s i : wpcs s i = WPre ->                    (* ctx.Err() != nil after counting *)
    step handover s Tau (set_w s i WFin)
| w_sock_in s i : wpcs s i = WPre -> step handover s (LSockIn i) (set_w s i WSock)
| w_sock_ok s i : wpcs s i = WSock ->                       (* the write completes or fails for another reason *)
    step handover s (LSockOut i true) (set_w s i WFin)
| w_sock_timeout s i : wpcs s i = WSock -> armed s = true ->   (* only an armed deadline times a write out *)
    step handover s (LSockOut i false) (set_w s i WFin)
(* writers: finishWrite *)
| w_fin_zero s i : wpcs s i = WFin -> cnt (ws s) = 0 ->
    step handover s Tau (set_fl (set_w s i WRet) (remove_nat i (fl s)))
| w_fin_load_last s i : wpcs s i = WFin -> blk (ws s) = true -> cnt (ws s) = 1 ->
    step handover s Tau (set_w s i (WFinCasLast (ws s)))
| w_fin_load s i : wpcs s i = WFin -> cnt (ws s) <> 0 -> ~ (blk (ws s) = true /\ cnt (ws s) = 1) ->
    step handover s Tau (set_w s i (WFinCas (ws s)))
| w_fin_cas_last_ok s i r : wpcs s i = WFinCasLast r -> ws s = r ->
    step handover s Tau (set_clr (set_fl (set_ws (set_w s i WClr) (wdec r)) (remove_nat i (fl s))) (Some i))
| w_fin_cas_last_fail s i r : wpcs s i = WFinCasLast r -> ws s <> r ->
    step handover s Tau (set_w s i WFin)
| w_fin_cas_ok s i r : wpcs s i = WFinCas r -> ws s = r ->
    step handover s Tau (set_fl (set_ws (set_w s i WRet) (wdec r)) (remove_nat i (fl s)))
| w_fin_cas_fail s i r : wpcs s i = WFinCas r -> ws s <> r ->
    step handover s Tau (set_w s i WFin)
(* writers: clearWriteDeadlineAfterAbort *)
| w_clr_exit s i : wpcs s i = WClr -> blk (ws s) = false ->
    step handover s Tau (set_clr (set_w s i WRet) None)
| w_clr_spin s i : wpcs s i = WClr -> blk (ws s) = true -> dl (ws s) = false ->   (* Gosched; continue *)
    step handover s Tau (set_w s i WClr)
| w_clr_go s i : wpcs s i = WClr -> blk (ws s) = true -> dl (ws s) = true ->
    step handover s Tau (set_w s i WClrSet)
| w_clr_set_ok s i : wpcs s i = WClrSet ->
    step handover s (LClear true) (set_armed (set_w s i WClrStore) false)
| w_clr_set_fail s i : wpcs s i = WClrSet ->
    step handover s (LClear false) (set_clrfailed (set_w s i WClrStore) true)
| w_clr_store s i : wpcs s i = WClrStore ->
    step handover s Tau (set_clr (set_ws (set_w s i WRet) w0) None)
| w_ret s i : wpcs s i = WRet -> step handover s (LWRet i) (set_w s i WDone)
(* aborters: abortWrite *)
| a_call s j : apcs s j = AIdle -> step handover s (LACall j) (set_a s j ALoad)
| a_noop s j : apcs s j = ALoad -> (blk (ws s) = true \/ cnt (ws s) = 0) ->
    step handover s Tau (set_a s j (ARet true))
| a_load s j : apcs s j = ALoad -> blk (ws s) = false -> cnt (ws s) <> 0 ->
    step handover s Tau (set_a s j (ACas (ws s)))
| a_cas_ok s j r : apcs s j = ACas r -> ws s = r ->
    step handover s Tau (set_own (set_ws (set_a s j ASetDl) (wsetB r)) (Some j))
| a_cas_fail s j r : apcs s j = ACas r -> ws s <> r ->
    step handover s Tau (set_a s j ALoad)
| a_arm_ok s j : apcs s j = ASetDl ->
    step handover s (LArm true) (set_clrfailed (set_armed (set_a s j AArm) true) false)
| a_arm_fail s j : apcs s j = ASetDl ->
    step handover s (LArm false) (bump_armfails (set_a s j AUndo))
(* aborters: setWriteDeadlineArmed *)
| a_arm_ret s j : apcs s j = AArm -> (blk (ws s) = false \/ dl (ws s) = true) ->
    step handover s Tau (set_own (set_a s j (ARet true)) None)
| a_arm_load s j : apcs s j = AArm -> blk (ws s) = true -> dl (ws s) = false ->
    step handover s Tau (set_a s j (AArmCas (ws s)))
| a_arm_cas_ok s j r : apcs s j = AArmCas r -> ws s = r ->
    step handover s Tau (set_own (set_ws (set_a s j (ARet true)) (wsetD r)) None)
| a_arm_cas_fail s j r : apcs s j = AArmCas r -> ws s <> r ->
    step handover s Tau (set_a s j AArm)
(* aborters: clearWriteAbortState *)
| a_undo_ret s j : apcs s j = AUndo -> undo_done handover (ws s) = true ->
    step handover s Tau (set_own (set_a s j (ARet false)) None)
| a_undo_load s j : apcs s j = AUndo -> undo_done handover (ws s) = false ->
    step handover s Tau (set_a s j (AUndoCas (ws s)))
| a_undo_cas_ok s j r : apcs s j = AUndoCas r -> ws s = r ->
    step handover s Tau (set_own (set_ws (set_a s j (ARet false)) (undo_target handover r)) None)
| a_undo_cas_fail s j r : apcs s j = AUndoCas r -> ws s <> r ->
    step handover s Tau (set_a s j AUndo)
| a_ret s j ok : apcs s j = ARet ok -> step handover s (LARet j ok) (set_a s j ADone).

Inductive reach (handover : bool) : state -> Prop :=
| reach_init : reach handover init
| reach_step s l s' : reach handover s -> step handover s l s' -> reach handover s'.

(* runs with their labels, oldest first *)
Inductive trace (handover : bool) : list label -> state -> Prop :=
| trace_nil : trace handover [] init
| trace_snoc ls s l s' : trace handover ls s -> step handover s l s' -> trace handover (ls ++ [l]) s'.

(* no writer and no aborter in flight *)
Definition quiescent (s : state) : Prop :=
  (forall i, w_quiet (wpcs s i) = true) /\ (forall j, a_quiet (apcs s j) = true).
Definition nofault (s : state) : Prop := armfails s = 0.
(* the socket's write deadline is cleared, or could not be: the last attempt to clear it failed *)
Definition dl_clean (s : state) : Prop := armed s = false \/ clrfailed s = true.

(* ---- spinning -----------------------------------------------------------------------------
   the two wait loops of the protocol (runtime.Gosched(); continue) *)
Definition w_spins (s : state) (i : nat) : Prop :=
  (wpcs s i = WStart /\ blk (ws s) = true) \/ (wpcs s i = WClr /\ blk (ws s) = true /\ dl (ws s) = false).

(* ========================================================================================
   Executable thread-local successors (used by the extracted acceptor; proved to agree with
   [step] in Proofs/WriteAbortProofs.v).  A successor is (label, new word, new armed, new pc). *)
Definition wsucc := (label * word * bool * wpc)%type.
Definition asucc := (label * word * bool * apc)%type.

Definition wnext (i : nat) (w : word) (a : bool) (p : wpc) : list wsucc :=
  match p with
  | WIdle => [(LWCall i, w, a, WStart)]
  | WStart => (Tau, w, a, WRet) ::
              (if blk w then [(Tau, w, a, WStart)] else [(Tau, w, a, WStartCas w)])
  | WStartCas r => if word_eqb w r then [(Tau, winc r, a, WPre)] else [(Tau, w, a, WStart)]
  | WPre => [(Tau, w, a, WFin); (LSockIn i, w, a, WSock)]
  | WSock => (LSockOut i true, w, a, WFin) :: (if a then [(LSockOut i false, w, a, WFin)] else [])
  | WFin => if Nat.eqb (cnt w) 0 then [(Tau, w, a, WRet)]
            else if blk w && Nat.eqb (cnt w) 1 then [(Tau, w, a, WFinCasLast w)]
            else [(Tau, w, a, WFinCas w)]
  | WFinCasLast r => if word_eqb w r then [(Tau, wdec r, a, WClr)] else [(Tau, w, a, WFin)]
  | WFinCas r => if word_eqb w r then [(Tau, wdec r, a, WRet)] else [(Tau, w, a, WFin)]
  | WClr => if negb (blk w) then [(Tau, w, a, WRet)]
            else if dl w then [(Tau, w, a, WClrSet)] else [(Tau, w, a, WClr)]
  | WClrSet => [(LClear true, w, false, WClrStore); (LClear false, w, a, WClrStore)]
  | WClrStore => [(Tau, w0, a, WRet)]
  | WRet => [(LWRet i, w, a, WDone)]
  | WDone => []
  end.

Definition anext (handover : bool) (j : nat) (w : word) (a : bool) (p : apc) : list asucc :=
  match p with
  | AIdle => [(LACall j, w, a, ALoad)]
  | ALoad => if blk w || Nat.eqb (cnt w) 0 then [(Tau, w, a, ARet true)] else [(Tau, w, a, ACas w)]
  | ACas r => if word_eqb w r then [(Tau, wsetB r, a, ASetDl)] else [(Tau, w, a, ALoad)]
  | ASetDl => [(LArm true, w, true, AArm); (LArm false, w, a, AUndo)]
  | AArm => if negb (blk w) || dl w then [(Tau, w, a, ARet true)] else [(Tau, w, a, AArmCas w)]
  | AArmCas r => if word_eqb w r then [(Tau, wsetD r, a, ARet true)] else [(Tau, w, a, AArm)]
  | AUndo => if undo_done handover w then [(Tau, w, a, ARet false)] else [(Tau, w, a, AUndoCas w)]
  | AUndoCas r => if word_eqb w r then [(Tau, undo_target handover r, a, ARet false)] else [(Tau, w, a, AUndo)]
  | ARet ok => [(LARet j ok, w, a, ADone)]
  | ADone => []
  end.

(* ========================================================================================
   The acceptor ("explains"): does the model have a run whose visible events are exactly the
   logged ones?  Subset construction over finite thread lists with tau-closure over the hidden
   steps (Loads, CASes, Stores, retries).  Hidden aborters model the per-write watcher
   goroutines of writeToContext: after [ECancel j] aborter j may call abortWrite at any time
   and neither its call nor its return is logged. *)
From Coq Require Import MSets.MSetAVL Structures.OrdersEx.
Module ZS := MSetAVL.Make Z_as_OT.

Inductive ev :=
| EV (l : label)            (* a visible event of the model *)
| ECancel (j : nat)         (* the context of a write was cancelled: hidden aborter j is released *)
| ESample (w : word)        (* the harness read writeState *)
| EEither (a b : label).    (* one of two visible events (a result the harness cannot tell apart) *)

Record fstate := { fws : word; farmed : bool; fw : list (nat * wpc); fa : list (nat * apc) }.

Fixpoint wsteps (w : word) (a : bool) (pre rest : list (nat * wpc)) (fa0 : list (nat * apc))
  : list (label * fstate) :=
  match rest with
  | [] => []
  | (i, p) :: tl =>
    map (fun x : wsucc => match x with (l, w', a', p') =>
           (l, {| fws := w'; farmed := a'; fw := rev_append pre ((i, p') :: tl); fa := fa0 |}) end)
        (wnext i w a p)
    ++ wsteps w a ((i, p) :: pre) tl fa0
  end.
Fixpoint asteps (hv : bool) (w : word) (a : bool) (fw0 : list (nat * wpc)) (pre rest : list (nat * apc))
  : list (label * fstate) :=
  match rest with
  | [] => []
  | (j, p) :: tl =>
    map (fun x : asucc => match x with (l, w', a', p') =>
           (l, {| fws := w'; farmed := a'; fw := fw0; fa := rev_append pre ((j, p') :: tl) |}) end)
        (anext hv j w a p)
    ++ asteps hv w a fw0 ((j, p) :: pre) tl
  end.
Definition fsteps (hv : bool) (s : fstate) : list (label * fstate) :=
  wsteps (fws s) (farmed s) [] (fw s) (fa s) ++ asteps hv (fws s) (farmed s) (fw s) [] (fa s).

Definition b2z (b : bool) : Z := if b then 1%Z else 0%Z.
Definition enc_word (w : word) : Z := (Z.of_nat (cnt w) * 4 + b2z (blk w) * 2 + b2z (dl w))%Z.
Definition enc_wpc (p : wpc) : Z :=
  match p with
  | WIdle => 0 | WStart => 1 | WStartCas r => 2 + 16 * enc_word r | WPre => 3 | WSock => 4 | WFin => 5
  | WFinCas r => 6 + 16 * enc_word r | WFinCasLast r => 7 + 16 * enc_word r | WClr => 8 | WClrSet => 9
  | WClrStore => 10 | WRet => 11 | WDone => 12
  end%Z.
Definition enc_apc (p : apc) : Z :=
  match p with
  | AIdle => 0 | ALoad => 1 | ACas r => 2 + 16 * enc_word r | ASetDl => 3 | AArm => 4
  | AArmCas r => 5 + 16 * enc_word r | AUndo => 6 | AUndoCas r => 7 + 16 * enc_word r
  | ARet ok => 8 + b2z ok | ADone => 10
  end%Z.
Definition key_base : Z := (2 ^ 24)%Z.
Definition key (s : fstate) : Z :=
  fold_left (fun acc x => (acc * key_base + x)%Z)
    (map (fun q => enc_wpc (snd q)) (fw s) ++ map (fun q => enc_apc (snd q)) (fa s))
    (enc_word (fws s) * 2 + b2z (farmed s))%Z.

Definition memn (x : nat) (l : list nat) : bool := existsb (Nat.eqb x) l.
(* hidden steps: Tau, and the call/return of hidden aborters *)
Definition is_hidden (hid_on hid_all : list nat) (l : label) : bool :=
  match l with
  | Tau => true
  | LACall j => memn j hid_on
  | LARet j _ => memn j hid_all
  | _ => false
  end.
Definition label_eqb (a b : label) : bool :=
  match a, b with
  | Tau, Tau => true
  | LWCall i, LWCall k | LSockIn i, LSockIn k | LWRet i, LWRet k | LACall i, LACall k => Nat.eqb i k
  | LSockOut i x, LSockOut k y | LARet i x, LARet k y => Nat.eqb i k && Bool.eqb x y
  | LArm x, LArm y | LClear x, LClear y => Bool.eqb x y
  | _, _ => false
  end.

Definition add_new (acc : list fstate * ZS.t) (t : fstate) : list fstate * ZS.t :=
  let k := key t in
  if ZS.mem k (snd acc) then acc else (t :: fst acc, ZS.add k (snd acc)).

Definition pick (f : label -> bool) (l : list (label * fstate)) : list fstate :=
  map snd (filter (fun q => f (fst q)) l).

(* worklist closure; [None] when the fuel runs out (reported as an error, never as a verdict) *)
Fixpoint closure (hv : bool) (fuel : nat) (hid_on hid_all : list nat) (todo : list fstate) (seen : ZS.t)
         (acc : list fstate) : option (list fstate) :=
  match todo with
  | [] => Some acc
  | s :: tl =>
    match fuel with
    | O => None
    | S f =>
      let nw := fold_left add_new (pick (is_hidden hid_on hid_all) (fsteps hv s)) ([], seen) in
      closure hv f hid_on hid_all (fst nw ++ tl) (snd nw) (s :: acc)
    end
  end.
Definition close (hv : bool) (fuel : nat) (hid_on hid_all : list nat) (l : list fstate) : option (list fstate) :=
  let d := fold_left add_new l ([], ZS.empty) in
  closure hv fuel hid_on hid_all (fst d) (snd d) [].

Definition advance (hv : bool) (e : label) (l : list fstate) : list fstate :=
  flat_map (fun s => pick (label_eqb e) (fsteps hv s)) l.

Inductive verdict := Accepted | Rejected (at_event : nat) | OutOfFuel.

Definition final_ok (w : word) (a : bool) (s : fstate) : bool :=
  word_eqb (fws s) w && Bool.eqb (farmed s) a
  && forallb (fun q => w_quiet (snd q)) (fw s) && forallb (fun q => a_quiet (snd q)) (fa s).

Fixpoint accept_from (hv : bool) (fuel : nat) (pos : nat) (hid_on hid_all : list nat) (cur : list fstate) (log : list ev)
         (fin_w : word) (fin_a : bool) : verdict :=
  match close hv fuel hid_on hid_all cur with
  | None => OutOfFuel
  | Some cl =>
    match log with
    | [] => if existsb (final_ok fin_w fin_a) cl then Accepted else Rejected pos
    | EV l :: tl =>
      match advance hv l cl with
      | [] => Rejected pos
      | nx => accept_from hv fuel (S pos) hid_on hid_all nx tl fin_w fin_a
      end
    | EEither a b :: tl =>
      match advance hv a cl ++ advance hv b cl with
      | [] => Rejected pos
      | nx => accept_from hv fuel (S pos) hid_on hid_all nx tl fin_w fin_a
      end
    | ECancel j :: tl => accept_from hv fuel (S pos) (j :: hid_on) hid_all cl tl fin_w fin_a
    | ESample w :: tl =>
      match filter (fun s => word_eqb (fws s) w) cl with
      | [] => Rejected pos
      | nx => accept_from hv fuel (S pos) hid_on hid_all nx tl fin_w fin_a
      end
    end
  end.

(* writers / aborters: the thread ids appearing in the log; hidden: ids of watcher aborters *)
Definition wa_accept (hv : bool) (fuel : nat) (writers aborters hidden : list nat) (log : list ev)
           (fin_w : word) (fin_a : bool) : verdict :=
  accept_from hv fuel 0 [] hidden
    [ {| fws := w0; farmed := false; fw := map (fun i => (i, WIdle)) writers;
         fa := map (fun j => (j, AIdle)) (aborters ++ hidden) |} ]
    log fin_w fin_a.

(* ========================================================================================
   The monitor: the property, stated on what the harness observed (the log of the fake
   socket and of the API boundary, writeState and the socket deadline at quiescence, a
   probe write). *)

(* deadline state according to the log: (armed, a clear failed after the last successful arm) *)
Definition dl_track (st : bool * bool) (e : ev) : bool * bool :=
  match e with
  | EV (LArm true) => (true, false)
  | EV (LClear true) => (false, snd st)
  | EV (LClear false) => (fst st, true)
  | _ => st
  end.
Definition dl_of_log (log : list ev) : bool * bool := fold_left dl_track log (false, false).

(* writers inside UDPConn.WriteTo / writers called and not yet returned, according to the log *)
Definition track_counts (st : nat * nat) (e : ev) : nat * nat :=
  match e with
  | EV (LWCall _) => (fst st, S (snd st))
  | EV (LWRet _) => (fst st, pred (snd st))
  | EV (LSockIn _) => (S (fst st), snd st)
  | EV (LSockOut _ _) => (pred (fst st), snd st)
  | _ => st
  end.
(* every sample taken while all active writers sit inside the socket write shows exactly that count *)
Fixpoint samples_exact (st : nat * nat) (log : list ev) : bool :=
  match log with
  | [] => true
  | ESample w :: tl =>
    (if Nat.eqb (fst st) (snd st) then Nat.eqb (cnt w) (fst st) else true) && samples_exact st tl
  | e :: tl => samples_exact (track_counts st e) tl
  end.

Definition C13_wa_checks (log : list ev) (fin_w : word) (fin_armed : bool) (probe_ok stuck : bool) : checks :=
  let d := dl_of_log log in
  [ ("writestate_zero_at_quiescence"%string, word_eqb fin_w w0);
    ("deadline_cleared_at_quiescence"%string, negb fin_armed || snd d);
    ("probe_write_succeeds"%string, probe_ok || snd d);
    ("count_exact_at_samples"%string, samples_exact (0, 0) log);
    ("writers_and_aborters_return"%string, negb stuck);
    ("deadline_log_consistent"%string, Bool.eqb (fst d) fin_armed) ].
Definition C13_wa_monitor log fin_w fin_armed probe_ok stuck : bool :=
  all_ok (C13_wa_checks log fin_w fin_armed probe_ok stuck).
