(* C15: the MONITOR.  It states the property over what the harness observes of the implementation
   (one observation per operation, taken at quiescence), independently of the machine of
   Model/TcpMux.v: it keeps an abstract ledger in which a (ufrag, family, local IP) key has a
   current "generation" of packet conn (started by GetConnByUfrag or by a first frame naming that
   ufrag, ended by RemoveConnByUfrag, by the expiry of an unclaimed one, by the Close of the last
   handle, by TCPMuxDefault.Close) -- no goroutines, no watcher, removal by identity.

   Every check is conservative: "must" facts are only demanded where the property leaves no choice
   (a connection is [live] only when it was certainly attached, nothing broke it and its packet conn
   was not ended).  Named checks:

     reject_closed            a connection whose first frame is late / oversized / not STUN Binding /
                              without USERNAME (or that closed early) is closed
     deliver_valid            whatever ReadFrom returns on a handle of ufrag u is the NEXT undelivered
                              message of a client that named u (same family, same local IP) in its
                              first frame, with that client's address (so: no misrouting, nothing from
                              rejected clients, no reordering, no duplication, no corruption); an
                              error names a client that closed or broke framing
     deliver_complete         at quiescence nothing a live client sent is withheld
     route_closed             a certainly attached, unbroken connection is open
     live_conn_closed         ... and stays open until a cause
     conn_closed_without_cause  the packet conn behind a handle is not closed unless the history has
                              a cause (Remove / last handle Close / MuxClose)
     write_count, write_refused, write_misrouted, write_lost
                              WriteTo(peer) goes out on the TCP connection of that peer, whole, once
     expiry_armed             an unclaimed provisional packet conn expires; expiry_unexpected: a
                              claimed one does not
     teardown_conn_open       ending a packet conn closes its TCP connections; ended_pc_open: and the
                              packet conn itself
     get_failed, close_get_ok GetConnByUfrag works before Close and fails after
     close_listener, close_conn_open, close_pc_open, close_goroutines, close_returned_early,
     close_blocked            after Close: listener closed, every TCP conn closed, every packet conn
                              closed, no mux goroutine left; Close returns exactly when nothing of the
                              mux can still be running
     cleanup_leak             the harness could tear the mux down to zero goroutines. *)
From Coq Require Import ZArith Bool String Ascii List Arith.
From Ice Require Import Gen.Consts Model.PrioSpec Model.TcpMux.
Import ListNotations.

Inductive vop :=
| VAcc (cid : nat) (raddr : string) (is6 : bool) (lip : string) (aok : bool)
| VFirst (cid : nat) (m : first_msg)
| VDeadline (cid : nat)
| VSend (cid : nat) (b : string)
| VCClose (cid : nat)
| VCRecv (cid : nat)
| VStat (cid : nat)
| VGet (h : nat) (u : string) (is6 : bool) (ip : string)
| VRemove (u : string)
| VRmGet (u : string) (h : nat) (is6 : bool) (ip : string)
| VWrite (h : nat) (raddr : string) (b : string)
| VRead (h : nat)
| VHClose (h : nat)
| VHCloseGet (h h2 : nat) (u : string) (is6 : bool) (ip : string)
| VExpire (u : string) (is6 : bool) (ip : string)
| VExpireGet (u : string) (is6 : bool) (ip : string) (h : nat)
| VMuxClose | VCloseWait | VCensus | VCleanup
| VFirstPark (cid : nat) (m : first_msg)   (* an ok first frame; handleConn then parked just before AddConn *)
| VRelease (cid : nat).                  (* ... and let go *)

(* an observation: up to two result slots (second slot: client view / second half of a compound) *)
Record vobs := mkO { o1 : out; o2 : out }.

Record lconn := mkL {
  l_id : nat; l_raddr : string; l_is6 : bool; l_lip : string; l_aok : bool;
  l_st : nat;                 (* 0 pending, 1 rejected, 2 routed, 3 unspecified (address error paths),
                                 4 routed but its handleConn is parked before AddConn (not attached yet) *)
  l_ufrag : string; l_gen : nat;
  l_sure : bool;              (* certainly attached *)
  l_msgs : list string;       (* sent and not yet delivered, in order *)
  l_broken : bool;            (* sent a frame larger than receiveMTU *)
  l_must_closed : bool;
  l_wr : list string; l_wr_fuzzy : bool;
  l_cli_closed : bool }.

Record lkey := mkK {
  k_u : string; k_is6 : bool; k_ip : string;
  k_gen : nat; k_alive : bool; k_claimed : bool; k_refs : Z; k_post : bool }.

Record lhandle := mkH { h_id : nat; h_u : string; h_is6 : bool; h_ip : string; h_gen : nat; h_closed : bool }.

Record mstate := mkM {
  m_conns : list lconn; m_keys : list lkey; m_handles : list lhandle;
  m_closed : bool; m_returned : bool; m_fails : list string }.

Definition m_init : mstate := mkM [] [] [] false false [].

Definition fail (m : mstate) (name : string) : mstate :=
  mkM (m_conns m) (m_keys m) (m_handles m) (m_closed m) (m_returned m) (name :: m_fails m).
Definition fail_if (b : bool) (name : string) (m : mstate) : mstate := if b then fail m name else m.

Definition key_is (u : string) (is6 : bool) (ip : string) (k : lkey) : bool :=
  String.eqb (k_u k) u && Bool.eqb (k_is6 k) is6 && String.eqb (k_ip k) ip.
Definition find_key (m : mstate) u is6 ip : option lkey := find (key_is u is6 ip) (m_keys m).
Definition find_conn (m : mstate) (cid : nat) : option lconn := find (fun c => Nat.eqb (l_id c) cid) (m_conns m).
Definition find_handle (m : mstate) (h : nat) : option lhandle := find (fun x => Nat.eqb (h_id x) h) (m_handles m).

Definition set_conns (m : mstate) (l : list lconn) : mstate :=
  mkM l (m_keys m) (m_handles m) (m_closed m) (m_returned m) (m_fails m).
Definition set_keys (m : mstate) (l : list lkey) : mstate :=
  mkM (m_conns m) l (m_handles m) (m_closed m) (m_returned m) (m_fails m).
Definition set_handles (m : mstate) (l : list lhandle) : mstate :=
  mkM (m_conns m) (m_keys m) l (m_closed m) (m_returned m) (m_fails m).
Definition put_conn (m : mstate) (c : lconn) : mstate :=
  set_conns m (map (fun x => if Nat.eqb (l_id x) (l_id c) then c else x) (m_conns m)).
Definition put_key (m : mstate) (k : lkey) : mstate :=
  if existsb (key_is (k_u k) (k_is6 k) (k_ip k)) (m_keys m)
  then set_keys m (map (fun x => if key_is (k_u k) (k_is6 k) (k_ip k) x then k else x) (m_keys m))
  else set_keys m (m_keys m ++ [k]).
Definition put_handle (m : mstate) (h : lhandle) : mstate :=
  set_handles m (filter (fun x => negb (Nat.eqb (h_id x) (h_id h))) (m_handles m) ++ [h]).

(* the generation (gen) of key (u,is6,ip) is current and alive *)
Definition gen_alive (m : mstate) u is6 ip (g : nat) : bool :=
  match find_key m u is6 ip with
  | Some k => k_alive k && Nat.eqb (k_gen k) g
  | None => false
  end.

Definition conn_key_is (c : lconn) u is6 ip : bool :=
  String.eqb (l_ufrag c) u && Bool.eqb (l_is6 c) is6 && String.eqb (l_lip c) ip.

Definition live (m : mstate) (c : lconn) : bool :=
  Nat.eqb (l_st c) 2 && l_sure c && negb (l_broken c) && negb (l_must_closed c) && negb (l_cli_closed c)
  && gen_alive m (l_ufrag c) (l_is6 c) (l_lip c) (l_gen c).

(* ending the current generation of every key selected by [sel] *)
Definition end_gens (m : mstate) (sel : lkey -> bool) : mstate :=
  let ended (c : lconn) :=
    Nat.eqb (l_st c) 2 &&
    existsb (fun k => sel k && k_alive k && key_is (l_ufrag c) (l_is6 c) (l_lip c) k && Nat.eqb (k_gen k) (l_gen c))
            (m_keys m) in
  let m1 := set_conns m (map (fun c =>
      if ended c then mkL (l_id c) (l_raddr c) (l_is6 c) (l_lip c) (l_aok c) (l_st c) (l_ufrag c) (l_gen c)
                          (l_sure c) (l_msgs c) (l_broken c) true (l_wr c) (l_wr_fuzzy c) (l_cli_closed c)
      else c) (m_conns m)) in
  set_keys m1 (map (fun k => if sel k && k_alive k
                             then mkK (k_u k) (k_is6 k) (k_ip k) (k_gen k) false (k_claimed k) (k_refs k) (k_post k)
                             else k) (m_keys m)).

Definition is_view_open (o : out) : bool := match o with XOpen => true | _ => false end.
Definition is_view_closed (o : out) : bool := match o with XClosed => true | _ => false end.
Definition is_ok (o : out) : bool := match o with XOk => true | _ => false end.
Definition is_skip (o : out) : bool := match o with XSkip => true | _ => false end.

(* the client's view of connection cid, whenever an operation reports it *)
Definition check_view (m : mstate) (cid : nat) (v : out) : mstate :=
  match find_conn m cid with
  | None => m
  | Some c =>
    let m := fail_if (m_returned m && is_view_open v) "close_conn_open" m in
    let m := fail_if (Nat.eqb (l_st c) 1 && is_view_open v) "reject_closed" m in
    let m := fail_if (Nat.eqb (l_st c) 2 && l_must_closed c && is_view_open v) "teardown_conn_open" m in
    fail_if (live m c && is_view_closed v) "live_conn_closed" m
  end.

Definition do_get (cfg_laddr : bool) (m : mstate) (h : nat) u is6 ip (res : out) : mstate :=
  if m_closed m then fail_if (is_ok res) "close_get_ok" m else
  match res with
  | XOk =>
    match find_key m u is6 ip with
    | Some k =>
      if k_alive k then
        put_handle (put_key m (mkK u is6 ip (k_gen k) true true (k_refs k + 1) (k_post k)))
                   (mkH h u is6 ip (k_gen k) false)
      else
        put_handle (put_key m (mkK u is6 ip (S (k_gen k)) true true 1 false)) (mkH h u is6 ip (S (k_gen k)) false)
    | None => put_handle (put_key m (mkK u is6 ip 1 true true 1 false)) (mkH h u is6 ip 1 false)
    end
  | _ => fail_if cfg_laddr "get_failed" m
  end.

Definition do_remove (m : mstate) (u : string) : mstate := end_gens m (fun k => String.eqb (k_u k) u).

Definition do_hclose (m : mstate) (h : nat) : mstate :=
  match find_handle m h with
  | Some x =>
    if h_closed x then m else
    let m := put_handle m (mkH (h_id x) (h_u x) (h_is6 x) (h_ip x) (h_gen x) true) in
    match find_key m (h_u x) (h_is6 x) (h_ip x) with
    | Some k =>
      if k_alive k && Nat.eqb (k_gen k) (h_gen x) then
        let k' := mkK (k_u k) (k_is6 k) (k_ip k) (k_gen k) true (k_claimed k) (k_refs k - 1) (k_post k) in
        let m := put_key m k' in
        if Z.leb (k_refs k - 1) 0 then end_gens m (key_is (k_u k) (k_is6 k) (k_ip k)) else m
      else m
    | None => m
    end
  | None => m
  end.

Definition do_expire (m : mstate) u is6 ip (res : out) : mstate :=
  let expect := match find_key m u is6 ip with Some k => k_alive k && negb (k_claimed k) | None => false end in
  let m := fail_if (expect && negb (is_ok res)) "expiry_armed" m in
  let m := fail_if (negb expect && is_ok res) "expiry_unexpected" m in
  if is_ok res then end_gens m (key_is u is6 ip) else m.

Definition blockers (m : mstate) : bool :=
  existsb (fun c => Nat.eqb (l_st c) 0 || Nat.eqb (l_st c) 4) (m_conns m)
  || existsb (fun k => k_alive k && k_post k) (m_keys m).

Definition do_close_status (m : mstate) (res : out) : mstate :=
  match res with
  | XOk =>
    let m := fail_if (blockers m) "close_returned_early" m in
    mkM (m_conns m) (m_keys m) (m_handles m) (m_closed m) true (m_fails m)
  | XNone => fail_if (negb (blockers m)) "close_blocked" m
  | _ => m
  end.

Definition head_is (l : list string) (b : string) : bool :=
  match l with x :: _ => String.eqb x b | [] => false end.

Fixpoint after_first (b : string) (l : list string) : list string :=
  match l with
  | [] => []
  | x :: r => if String.eqb x b then r else after_first b r
  end.

Definition mon_step (ft wbuf laddr : bool) (m : mstate) (o : vop) (ob : vobs) : mstate :=
  if is_skip (o1 ob) then m else
  match o with
  | VAcc cid raddr is6 lip aok =>
    match o1 ob with
    | XOk =>
      let m := fail_if (m_closed m) "close_listener" m in
      set_conns m (m_conns m ++ [mkL cid raddr is6 lip aok 0 EmptyString 0 false [] false false [] false false])
    | _ => m
    end
  | VFirst cid fm =>
    match find_conn m cid with
    | Some c =>
      if negb (Nat.eqb (l_st c) 0) then m else
      match classify fm with
      | FOk u b =>
        let alive := match find_key m u (l_is6 c) (l_lip c) with Some k => k_alive k | None => false end in
        if negb (l_aok c) || (negb alive && negb laddr) then
          put_conn m (mkL cid (l_raddr c) (l_is6 c) (l_lip c) (l_aok c) 3 u 0 false [] false false [] true (l_cli_closed c))
        else
          let m := if alive then m else
            match find_key m u (l_is6 c) (l_lip c) with
            | Some k => put_key m (mkK u (l_is6 c) (l_lip c) (S (k_gen k)) true false 0 (m_closed m))
            | None => put_key m (mkK u (l_is6 c) (l_lip c) 1 true false 0 (m_closed m))
            end in
          let g := match find_key m u (l_is6 c) (l_lip c) with Some k => k_gen k | None => 0 end in
          let dup := existsb (fun x => Nat.eqb (l_st x) 2 && String.eqb (l_raddr x) (l_raddr c)
                                       && conn_key_is x u (l_is6 c) (l_lip c) && Nat.eqb (l_gen x) g) (m_conns m) in
          let c' := mkL cid (l_raddr c) (l_is6 c) (l_lip c) (l_aok c) 2 u g (negb dup) [b] false false [] dup (l_cli_closed c) in
          let m := put_conn m c' in
          fail_if (negb dup && is_view_closed (o1 ob)) "route_closed" m
      | _ =>
        let m := put_conn m (mkL cid (l_raddr c) (l_is6 c) (l_lip c) (l_aok c) 1 EmptyString 0 false [] false true [] false (l_cli_closed c)) in
        fail_if (is_view_open (o1 ob)) "reject_closed" m
      end
    | None => m
    end
  | VDeadline cid =>
    match find_conn m cid with
    | Some c =>
      if Nat.eqb (l_st c) 0 && ft then
        let m := put_conn m (mkL cid (l_raddr c) (l_is6 c) (l_lip c) (l_aok c) 1 EmptyString 0 false [] false true [] false (l_cli_closed c)) in
        fail_if (is_view_open (o1 ob)) "reject_closed" m
      else check_view m cid (o1 ob)
    | None => m
    end
  | VSend cid b =>
    match find_conn m cid with
    | Some c =>
      if Nat.eqb (l_st c) 2 && negb (l_cli_closed c) then
        match o1 ob with
        | XOk =>
          let c' :=
            if Z.ltb receiveMTU (slen b) then
              mkL cid (l_raddr c) (l_is6 c) (l_lip c) (l_aok c) 2 (l_ufrag c) (l_gen c) (l_sure c) (l_msgs c) true
                  (l_must_closed c) (l_wr c) (l_wr_fuzzy c) (l_cli_closed c)
            else if l_broken c then c
            else mkL cid (l_raddr c) (l_is6 c) (l_lip c) (l_aok c) 2 (l_ufrag c) (l_gen c) (l_sure c) (l_msgs c ++ [b])
                     false (l_must_closed c) (l_wr c) (l_wr_fuzzy c) (l_cli_closed c) in
          (* the view is judged against the state BEFORE an oversized frame breaks the connection *)
          let m := if l_broken c' then m else check_view m cid (o2 ob) in
          put_conn m c'
        | XClosed => fail_if (live m c) "live_conn_closed" m
        | _ => m
        end
      else m
    | None => m
    end
  | VCClose cid =>
    match find_conn m cid with
    | Some c =>
      if Nat.eqb (l_st c) 0 then
        let m := put_conn m (mkL cid (l_raddr c) (l_is6 c) (l_lip c) (l_aok c) 1 EmptyString 0 false [] false true [] false true) in
        fail_if (is_view_open (o2 ob)) "reject_closed" m
      else
        (* once the client has closed, the mux closes its end as soon as its reader reaches EOF *)
        let m := put_conn m (mkL cid (l_raddr c) (l_is6 c) (l_lip c) (l_aok c) (l_st c) (l_ufrag c) (l_gen c) (l_sure c) (l_msgs c)
                        (l_broken c) (l_must_closed c) (l_wr c) (l_wr_fuzzy c) true) in
        check_view m cid (o2 ob)
    | None => m
    end
  | VCRecv cid =>
    match find_conn m cid with
    | Some c =>
      if l_wr_fuzzy c then m else
      match o1 ob with
      | XPkt _ b =>
        (* b must be the oldest packet written to this peer and not yet received; when it is a later
           one the earlier ones were lost, when it is none of them it was written for someone else *)
        let m := fail_if (negb (head_is (l_wr c) b) && existsb (String.eqb b) (l_wr c)) "write_lost" m in
        let m := fail_if (negb (existsb (String.eqb b) (l_wr c))) "write_misrouted" m in
        put_conn m (mkL cid (l_raddr c) (l_is6 c) (l_lip c) (l_aok c) (l_st c) (l_ufrag c) (l_gen c) (l_sure c) (l_msgs c)
                        (l_broken c) (l_must_closed c) (after_first b (l_wr c)) (l_wr_fuzzy c) (l_cli_closed c))
      | XNone => fail_if (live m c && match l_wr c with [] => false | _ => true end) "write_lost" m
      | XClosed =>
        let m := fail_if (live m c) "live_conn_closed" m in
        fail_if (live m c && match l_wr c with [] => false | _ => true end) "write_lost" m
      | _ => m
      end
    | None => m
    end
  | VStat cid => check_view m cid (o1 ob)
  | VGet h u is6 ip => do_get laddr m h u is6 ip (o1 ob)
  | VRemove u => do_remove m u
  | VRmGet u h is6 ip => do_get laddr (do_remove m u) h u is6 ip (o2 ob)
  | VWrite h raddr b =>
    match find_handle m h with
    | Some x =>
      if h_closed x then m else
      let at_key (c : lconn) := Nat.eqb (l_st c) 2 && conn_key_is c (h_u x) (h_is6 x) (h_ip x) && String.eqb (l_raddr c) raddr in
      match find (fun c => at_key c && live m c && Nat.eqb (l_gen c) (h_gen x)) (m_conns m) with
      | Some c =>
        match o1 ob with
        | XN n =>
          let m := fail_if (negb (Z.eqb n (slen b))) "write_count" m in
          put_conn m (mkL (l_id c) (l_raddr c) (l_is6 c) (l_lip c) (l_aok c) (l_st c) (l_ufrag c) (l_gen c) (l_sure c) (l_msgs c)
                          (l_broken c) (l_must_closed c) (l_wr c ++ [b]) (l_wr_fuzzy c) (l_cli_closed c))
        | _ => fail m "write_refused"
        end
      | None =>
        match o1 ob with
        | XN _ =>
          let m := fail_if (negb (existsb at_key (m_conns m))) "write_misrouted" m in
          set_conns m (map (fun c => if at_key c then
              mkL (l_id c) (l_raddr c) (l_is6 c) (l_lip c) (l_aok c) (l_st c) (l_ufrag c) (l_gen c) (l_sure c) (l_msgs c)
                  (l_broken c) (l_must_closed c) (l_wr c) true (l_cli_closed c) else c) (m_conns m))
        | _ => m
        end
      end
    | None => m
    end
  | VRead h =>
    match find_handle m h with
    | Some x =>
      let cur := gen_alive m (h_u x) (h_is6 x) (h_ip x) (h_gen x) in
      let at_key (c : lconn) := Nat.eqb (l_st c) 2 && conn_key_is c (h_u x) (h_is6 x) (h_ip x) && Nat.eqb (l_gen c) (h_gen x) in
      match o1 ob with
      | XPkt a b =>
        let m := fail_if (h_closed x || negb cur) "ended_pc_open" m in
        match find (fun c => at_key c && String.eqb (l_raddr c) a && head_is (l_msgs c) b) (m_conns m) with
        | Some c =>
          put_conn m (mkL (l_id c) (l_raddr c) (l_is6 c) (l_lip c) (l_aok c) (l_st c) (l_ufrag c) (l_gen c) (l_sure c)
                          (tl (l_msgs c)) (l_broken c) (l_must_closed c) (l_wr c) (l_wr_fuzzy c) (l_cli_closed c))
        | None => fail m "deliver_valid"
        end
      | XErrFrom a _ =>
        fail_if (negb (existsb (fun c => at_key c && String.eqb (l_raddr c) a && (l_cli_closed c || l_broken c)) (m_conns m)))
                "deliver_valid" m
      | XNone =>
        let m := fail_if (negb (h_closed x) && negb cur) "ended_pc_open" m in
        fail_if (negb (h_closed x) && cur &&
                 existsb (fun c => at_key c && l_sure c && negb (l_broken c) && negb (l_must_closed c)
                                   && match l_msgs c with [] => false | _ => true end) (m_conns m))
                "deliver_complete" m
      | XClosed => fail_if (negb (h_closed x) && cur) "conn_closed_without_cause" m
      | _ => m
      end
    | None => m
    end
  | VHClose h => do_hclose m h
  | VHCloseGet h h2 u is6 ip => do_get laddr (do_hclose m h) h2 u is6 ip (o2 ob)
  | VExpire u is6 ip => do_expire m u is6 ip (o1 ob)
  | VExpireGet u is6 ip h => do_get laddr (do_expire m u is6 ip (o1 ob)) h u is6 ip (o2 ob)
  | VMuxClose =>
    let m := end_gens m (fun _ => true) in
    let m := mkM (m_conns m) (m_keys m) (m_handles m) true (m_returned m) (m_fails m) in
    do_close_status m (o2 ob)
  | VCloseWait => do_close_status m (o1 ob)
  | VCensus =>
    match o1 ob with
    | XCensus a h w r wp =>
      fail_if (m_returned m && negb (Nat.eqb (a + h + w + r + wp) 0)) "close_goroutines" m
    | _ => m
    end
  | VCleanup => fail_if (negb (is_ok (o1 ob))) "cleanup_leak" m
  | VFirstPark cid fm =>
    (* the lookup happened (the key's generation starts or is joined); the connection is not in the
       packet conn's table yet, so nothing is demanded of it until it is released *)
    match find_conn m cid with
    | Some c =>
      if negb (Nat.eqb (l_st c) 0) then m else
      match classify fm with
      | FOk u b =>
        let alive := match find_key m u (l_is6 c) (l_lip c) with Some k => k_alive k | None => false end in
        let m := if alive then m else
          match find_key m u (l_is6 c) (l_lip c) with
          | Some k => put_key m (mkK u (l_is6 c) (l_lip c) (S (k_gen k)) true false 0 (m_closed m))
          | None => put_key m (mkK u (l_is6 c) (l_lip c) 1 true false 0 (m_closed m))
          end in
        let g := match find_key m u (l_is6 c) (l_lip c) with Some k => k_gen k | None => 0 end in
        let m := put_conn m (mkL cid (l_raddr c) (l_is6 c) (l_lip c) (l_aok c) 4 u g false [b] false false [] false (l_cli_closed c)) in
        fail_if (is_view_closed (o1 ob)) "route_closed" m
      | _ => m
      end
    | None => m
    end
  | VRelease cid =>
    (* AddConn runs now: if the packet conn chosen at the lookup has ended in the meantime the TCP
       connection must be closed (C15_routing_attach_failure), otherwise it is attached *)
    match find_conn m cid with
    | Some c =>
      if negb (Nat.eqb (l_st c) 4) then m else
      let cur := gen_alive m (l_ufrag c) (l_is6 c) (l_lip c) (l_gen c) in
      let dup := existsb (fun x => Nat.eqb (l_st x) 2 && String.eqb (l_raddr x) (l_raddr c)
                                   && conn_key_is x (l_ufrag c) (l_is6 c) (l_lip c) && Nat.eqb (l_gen x) (l_gen c)) (m_conns m) in
      let c' := mkL cid (l_raddr c) (l_is6 c) (l_lip c) (l_aok c) 2 (l_ufrag c) (l_gen c) (cur && negb dup) (l_msgs c)
                    false (negb cur) [] dup (l_cli_closed c) in
      let m := put_conn m c' in
      let m := fail_if (negb cur && is_view_open (o1 ob)) "teardown_conn_open" m in
      fail_if (cur && negb dup && is_view_closed (o1 ob)) "route_closed" m
    | None => m
    end
  end.

Definition mon_run (ft wbuf laddr : bool) (tr : list (vop * vobs)) : mstate :=
  fold_left (fun m x => mon_step ft wbuf laddr m (fst x) (snd x)) tr m_init.

Definition check_names : list string :=
  [ "reject_closed"; "deliver_valid"; "deliver_complete"; "route_closed"; "live_conn_closed";
    "conn_closed_without_cause"; "write_count"; "write_refused"; "write_misrouted"; "write_lost";
    "expiry_armed"; "expiry_unexpected"; "teardown_conn_open"; "ended_pc_open"; "get_failed"; "close_get_ok";
    "close_listener"; "close_conn_open"; "close_goroutines"; "close_returned_early"; "close_blocked";
    "cleanup_leak" ]%string.

Definition C15_checks (ft wbuf laddr : bool) (tr : list (vop * vobs)) : checks :=
  let fails := m_fails (mon_run ft wbuf laddr tr) in
  map (fun n => (n, negb (existsb (String.eqb n) fails))) check_names.

Definition C15_monitor (ft wbuf laddr : bool) (tr : list (vop * vobs)) : bool := all_ok (C15_checks ft wbuf laddr tr).
