(* C10, public-API part, pairs of concurrent calls: the SEQUENTIAL semantics of a few public Agent
   methods over the part of the agent state they read and write, and the monitor that decides
   whether the observed results (and final state) of two overlapping calls are the results of SOME
   serial order of the two calls ("each call observes a state produced by whole preceding
   operations").  Read from agent.go / transport.go:
     StartDial / StartAccept / Dial / Accept (startConnectivityChecks, under muHaveStarted):
        ErrMultipleStart when startedCh is closed -- by an earlier start or by Close (the loop's
        onClose calls startedFn) --, otherwise remote credentials, role, started, state Checking;
     Restart(ufrag, pwd): local credentials, remote credentials cleared, New stays New, any other
        connection state becomes Checking;
     SetRemoteCredentials; GetLocalUserCredentials / GetRemoteUserCredentials;
     AddRemoteCandidate (returns nil at once, the work is asynchronous);
     Close / GracefulClose (always nil; connection state Closed).
   Credentials are identified by small numbers (0 = none / the initial ones).  No proofs. *)
From Coq Require Import Arith Bool List String.
Import ListNotations.
From Ice Require Import Model.PrioSpec.

Inductive aop :=
| AStart (ctl : bool) (c : nat)     (* StartDial / Dial: ctl = true; StartAccept / Accept: false *)
| ARestart (c : nat)
| ASetRemote (c : nat)
| AAddRemote
| AClose
| AGetRemote
| AGetLocal.

Inductive ares := AOk | AMulti | AClosed | ACred (c : nat) | AOther.

Record ast := mk_a {
  a_started : bool; a_closed : bool; a_ctl : bool;
  a_rcred : nat; a_lcred : nat;
  a_conn : nat       (* ConnectionState: 1 New, 2 Checking, 7 Closed *)
}.

Definition a_init : ast := mk_a false false false 0 0 1.

Definition astep (s : ast) (o : aop) : ast * ares :=
  match o with
  | AStart ctl c =>
      if a_started s || a_closed s then (s, AMulti)
      else (mk_a true false ctl c (a_lcred s) 2, AOk)
  | ARestart c =>
      if a_closed s then (s, AClosed)
      else (mk_a (a_started s) false (a_ctl s) 0 c (if Nat.eqb (a_conn s) 1 then 1 else 2), AOk)
  | ASetRemote c =>
      if a_closed s then (s, AClosed)
      else (mk_a (a_started s) false (a_ctl s) c (a_lcred s) (a_conn s), AOk)
  | AAddRemote => (s, AOk)
  | AClose => (mk_a (a_started s) true (a_ctl s) (a_rcred s) (a_lcred s) 7, AOk)
  | AGetRemote => if a_closed s then (s, AClosed) else (s, ACred (a_rcred s))
  | AGetLocal => if a_closed s then (s, AClosed) else (s, ACred (a_lcred s))
  end.

Definition aserial (o1 o2 : aop) : ast * ares * ares :=
  let '(s1, r1) := astep a_init o1 in
  let '(s2, r2) := astep s1 o2 in (s2, r1, r2).

Definition ares_eqb (a b : ares) : bool :=
  match a, b with
  | AOk, AOk | AMulti, AMulti | AClosed, AClosed | AOther, AOther => true
  | ACred x, ACred y => Nat.eqb x y
  | _, _ => false
  end.

Definition is_close (o : aop) : bool := match o with AClose => true | _ => false end.
Definition is_start_op (o : aop) : bool := match o with AStart _ _ => true | _ => false end.

(* With a Close in the pair a start may be refused with ErrClosed (the loop refuses its task)
   instead of ErrMultipleStart (startedCh closed by onClose): both mean "refused". *)
Definition norm_res (pair_has_close : bool) (o : aop) (r : ares) : ares :=
  if pair_has_close && is_start_op o then match r with AClosed => AMulti | _ => r end else r.

(* the judged part of the final state: with a Close in the pair only "closed"; otherwise the
   credentials and the connection state (the role is not observable without a further hook) *)
Definition final_matches (pair_has_close : bool) (s : ast) (rcred lcred conn : nat) : bool :=
  if pair_has_close then Nat.eqb conn 7
  else Nat.eqb (a_rcred s) rcred && Nat.eqb (a_lcred s) lcred && Nat.eqb (a_conn s) conn.

(* does the serial order "oa then ob" produce results (ra, rb) and the final state? *)
Definition order_explains (hc : bool) (oa ob : aop) (ra rb : ares) (rcred lcred conn : nat) : bool :=
  let '(s, xa, xb) := aserial oa ob in
  ares_eqb (norm_res hc oa xa) (norm_res hc oa ra) && ares_eqb (norm_res hc ob xb) (norm_res hc ob rb)
  && final_matches hc s rcred lcred conn.

Definition results_of_some_order (o1 o2 : aop) (r1 r2 : ares) : bool :=
  let hc := is_close o1 || is_close o2 in
  (let '(_, x1, x2) := aserial o1 o2 in
   ares_eqb (norm_res hc o1 x1) (norm_res hc o1 r1) && ares_eqb (norm_res hc o2 x2) (norm_res hc o2 r2))
  || (let '(_, x2, x1) := aserial o2 o1 in
      ares_eqb (norm_res hc o1 x1) (norm_res hc o1 r1) && ares_eqb (norm_res hc o2 x2) (norm_res hc o2 r2)).

Definition C10_api2_checks (o1 o2 : aop) (r1 r2 : ares) (rcred lcred conn : nat) : checks :=
  let hc := is_close o1 || is_close o2 in
  [ ("pair_results_of_some_serial_order"%string, results_of_some_order o1 o2 r1 r2);
    ("pair_linearizable_with_final_state"%string,
     order_explains hc o1 o2 r1 r2 rcred lcred conn || order_explains hc o2 o1 r2 r1 rcred lcred conn) ].

(* what the model predicts when the first call is parked on the occupied loop and wins / loses:
   the set of allowed (r1, r2) as the two serial outcomes *)
Definition api2_outcomes (o1 o2 : aop) : (ares * ares) * (ares * ares) :=
  let '(_, x1, x2) := aserial o1 o2 in
  let '(_, y2, y1) := aserial o2 o1 in ((x1, x2), (y1, y2)).
