(* C08, layer C: the close protocol of the Agent as an interleaving transition system.

   Source: agent.go (close, registerStartedCandidate, abortStartedCandidateIO, deleteAllCandidates,
   the taskloop.New on-close callback), internal/taskloop/taskloop.go (runLoop, Run,
   CloseWithPreStop), candidate_base.go (start, recvLoop, close, abortIO, writeTo),
   agent_handlers.go (handlerNotifier), transport.go (Read / Write / AwaitConnect), gather.go
   (GatherCandidates, gatherCandidates).

   Threads (each family indexed by nat, any number of them):
     the loop goroutine                           [lp]
     callers i: ONE call each, of kind [akind i]  [ap i]
        KRun h b    loop.Run(ctx, task) issued from host h (an application goroutine, the recvLoop
                    of candidate c, the gather goroutine, a notifier callback), task body b
        KRead       Conn.Read parked in the packet buffer
        KAwait      AwaitConnect parked on loop.Done() / onConnected
        KWriteOff c Conn.Write: a socket write on candidate c's socket on the caller's goroutine
     closers k: ONE Close / GracefulClose each    [cp k], graceful [cgr k], issued from host [chost k]
        (an application goroutine, inside the body of task i on the loop goroutine, inside a
         notifier callback)
     candidates c: the recvLoop goroutine [rp c], abortIO's once and the socket [ioab c]
     the notifier drainer goroutine               [ndr], queue length [nq]
     the gather goroutine                         [gp], remaining socket operations [gfuel]

   One label = one atomic action of the Go code (a channel operation, one branch of a select,
   entering / leaving a sync.Once, a lock-protected section) or one call of an environment
   function (socket write, handler) split in start / end.  Go's select takes any ready branch.
   Iterations over Go maps (the snapshot of started candidates, localCandidates) are modelled as
   iterations in index order; the properties quantify over all assignments of attributes to
   indices, hence over all orders.

   Environment, as parameters of the model:
     wfree c    the socket of candidate c accepts writes (false: a WriteTo blocks until the socket
                is aborted: SetDeadline(past) / Close)
     fix_reg    the proposed repair of registerStartedCandidate (abort the I/O of a candidate that
                registers after the loop was closed); false = the code as it is
   and as the shape of the rules (each is a hypothesis about the environment, see checks/C08.json):
     - a socket read or write on an aborted socket returns (rules RecvExit, WriteEnd, ret of KWriteOff);
     - SetDeadline and Close of a socket return (abortIO's once body is one atomic step);
     - a notifier callback returns once the calls it hosts have returned (NotifyEnd);
     - a socket operation of the gather goroutine returns (GatherIODone): its sockets are closed on
       loop.Done() and every STUN/TURN exchange has a timeout.

   [lstep l s] is the executable semantics of label l (None = not enabled); [step] is its graph.
   No proofs in this file. *)
From Coq Require Import Arith Bool List String.
Import ListNotations.
From Ice Require Import Model.PrioSpec.   (* checks / all_ok / failed *)

Definition upd {A : Type} (f : nat -> A) (i : nat) (v : A) : nat -> A :=
  fun j => if Nat.eqb j i then v else f j.

(* ---- static kinds ------------------------------------------------------------------------- *)
Inductive host :=
| HApi                      (* a goroutine of the application *)
| HRecv (c : nat)           (* candidate c's recvLoop (handleInbound) *)
| HGather                   (* the gather goroutine (setGatheringState, addCandidate) *)
| HHandler                  (* inside a notifier callback *)
| HTask (i : nat).          (* inside the body of task i, i.e. on the loop goroutine (closers only) *)

Inductive body :=
| BPlain
| BNotify                   (* enqueues a notification (updateConnectionState, setSelectedPair, ...) *)
| BWrite (c : nat)          (* a socket write on candidate c inside the task (sendSTUN) *)
| BStart (c : nat)          (* addCandidate: cand.start -> registerStartedCandidate, go recvLoop *)
| BDelAll                   (* Restart / Failed: deleteAllCandidates inside the task *)
| BGather                   (* GatherCandidates: starts the gather goroutine *)
| BHost.                    (* runs application code that may call Close (BindingRequestHandler) *)

Inductive ckind :=
| KRun (h : host) (b : body)
| KRead
| KAwait
| KWriteOff (c : nat).

Inductive retk := ROk | RClosed | RCtx | RIo.

(* ---- program counters ------------------------------------------------------------------------ *)
Inductive apc :=
| AIdle                     (* not called yet *)
| APre                      (* called; about to evaluate loop.Err() *)
| ASelect                   (* Run: at the three-way select *)
| AWait                     (* Run: task handed over; blocked on <-done *)
| APark                     (* parked outside the loop: buffer read, AwaitConnect, socket write *)
| ARet (r : retk).

Inductive dctx := CtxTask (i : nat) | CtxClose.

Inductive lpc :=
| LIdle                     (* runLoop at its select *)
| LRun (i : nat)            (* inside task i, before its characteristic action *)
| LWrite (i : nat)          (* task i inside a socket write *)
| LHost (i : nat)           (* task i inside application code *)
| LHostBusy (i : nat)       (* ... which is inside a Close / GracefulClose call *)
| LDel (x : dctx) (j : nat)     (* deleteAllCandidates at candidate j *)
| LDelWait (x : dctx) (j : nat) (* candidate j: abortIO done, waiting for <-closedCh *)
| LFin (i : nat)            (* task body returned; about to close(t.done) *)
| LClosing                  (* took <-l.done; about to call onClose *)
| LOC1                      (* onClose: gatherCandidateCancel() done; about to wait for the gatherer *)
| LOC4                      (* candidates deleted; about to close the buffer *)
| LOC5                      (* about to updateConnectionState(Closed) *)
| LOC6                      (* onClose returned; about to close(taskLoopDone) *)
| LExited.

Inductive cpc :=
| CIdle
| CCalled                   (* at closeOnce.Do *)
| COnce1                    (* inside the once function, before close(l.done) *)
| CSnap                     (* l.done closed; about to snapshot startedCandidates *)
| CAbort (j : nat)          (* abortStartedCandidateIO at candidate j of the snapshot *)
| COnceEnd                  (* about to leave the once function *)
| CWaitTLD                  (* blocked on <-l.taskLoopDone *)
| CNotif                    (* about to close the notifier (h.done) *)
| CNotifWait                (* graceful: blocked on notifiers.Wait() *)
| CDone                     (* about to return to its caller *)
| CRet.

Inductive once_st := ONot | ORunning | ODone.

Inductive rpc :=
| RNone                     (* candidate not started *)
| RRead                     (* recvLoop blocked in ReadFrom *)
| RBusy                     (* recvLoop inside handleInbound (hosting a caller) *)
| RExited.                  (* closedCh closed *)

Inductive dpc :=
| DNone                     (* no drainer goroutine *)
| DLoop                     (* at the top of its loop *)
| DHandler                  (* inside the application's callback *)
| DBusy.                    (* inside the callback, inside a call of the agent's API *)

Inductive gpc :=
| GNone                     (* GatherCandidates never called *)
| GRun
| GBusy                     (* inside a loop.Run (hosting a caller) *)
| GIO                       (* inside a socket operation of its own *)
| GDone.                    (* close(gatherCandidateDone) *)


(* record and setters: generated by tools/gen_setters.py of the C08 scratch (mechanical) *)
Record state := mk {
  done : bool;   (* l.done closed *)
  tld : bool;   (* l.taskLoopDone closed *)
  once : once_st;   (* l.closeOnce *)
  oowner : nat;   (* ghost: the closer inside the once function *)
  lp : lpc;
  lown : nat;   (* ghost: the closer the application code of the running task is inside of *)
  ap : nat -> apc;
  akind : nat -> ckind;
  tdone : nat -> bool;   (* task i's done channel closed *)
  cp : nat -> cpc;
  cgr : nat -> bool;   (* closer k is GracefulClose *)
  chost : nat -> host;
  snap : nat -> nat -> bool;   (* closer k's snapshot of startedCandidates *)
  rp : nat -> rpc;
  rown : nat -> nat;   (* ghost: the caller candidate c's recvLoop is inside of *)
  ioab : nat -> bool;   (* candidate c's closeOnce has run: closeCh closed, SetDeadline(now), conn.Close() *)
  reg : nat -> bool;   (* candidate c is in startedCandidates / localCandidates *)
  late : nat -> bool;   (* ghost: candidate c was started after l.done was closed *)
  bufclosed : bool;
  hdone : bool;   (* notifier closed *)
  nq : nat;   (* queued notifications *)
  ndr : dpc;
  down : nat;   (* ghost: the caller / closer the callback is inside of *)
  dclo : bool;   (* ghost: ... it is a closer *)
  closedq : bool;   (* ghost: Closed was enqueued *)
  gp : gpc;
  gown : nat;   (* ghost: the caller the gather goroutine is inside of *)
  gcancel : bool;   (* the gathering context is cancelled *)
  gfuel : nat;   (* socket operations the gather goroutine may still start *)
  oncloses : nat;   (* ghost: number of times onClose was started *)
  ntasks : nat   (* ghost: number of tasks started *)
}.

Definition set_done (s : state) (v : bool) : state := mk v (tld s) (once s) (oowner s) (lp s) (lown s) (ap s) (akind s) (tdone s) (cp s) (cgr s) (chost s) (snap s) (rp s) (rown s) (ioab s) (reg s) (late s) (bufclosed s) (hdone s) (nq s) (ndr s) (down s) (dclo s) (closedq s) (gp s) (gown s) (gcancel s) (gfuel s) (oncloses s) (ntasks s).
Definition set_tld (s : state) (v : bool) : state := mk (done s) v (once s) (oowner s) (lp s) (lown s) (ap s) (akind s) (tdone s) (cp s) (cgr s) (chost s) (snap s) (rp s) (rown s) (ioab s) (reg s) (late s) (bufclosed s) (hdone s) (nq s) (ndr s) (down s) (dclo s) (closedq s) (gp s) (gown s) (gcancel s) (gfuel s) (oncloses s) (ntasks s).
Definition set_once (s : state) (v : once_st) : state := mk (done s) (tld s) v (oowner s) (lp s) (lown s) (ap s) (akind s) (tdone s) (cp s) (cgr s) (chost s) (snap s) (rp s) (rown s) (ioab s) (reg s) (late s) (bufclosed s) (hdone s) (nq s) (ndr s) (down s) (dclo s) (closedq s) (gp s) (gown s) (gcancel s) (gfuel s) (oncloses s) (ntasks s).
Definition set_oowner (s : state) (v : nat) : state := mk (done s) (tld s) (once s) v (lp s) (lown s) (ap s) (akind s) (tdone s) (cp s) (cgr s) (chost s) (snap s) (rp s) (rown s) (ioab s) (reg s) (late s) (bufclosed s) (hdone s) (nq s) (ndr s) (down s) (dclo s) (closedq s) (gp s) (gown s) (gcancel s) (gfuel s) (oncloses s) (ntasks s).
Definition set_lp (s : state) (v : lpc) : state := mk (done s) (tld s) (once s) (oowner s) v (lown s) (ap s) (akind s) (tdone s) (cp s) (cgr s) (chost s) (snap s) (rp s) (rown s) (ioab s) (reg s) (late s) (bufclosed s) (hdone s) (nq s) (ndr s) (down s) (dclo s) (closedq s) (gp s) (gown s) (gcancel s) (gfuel s) (oncloses s) (ntasks s).
Definition set_lown (s : state) (v : nat) : state := mk (done s) (tld s) (once s) (oowner s) (lp s) v (ap s) (akind s) (tdone s) (cp s) (cgr s) (chost s) (snap s) (rp s) (rown s) (ioab s) (reg s) (late s) (bufclosed s) (hdone s) (nq s) (ndr s) (down s) (dclo s) (closedq s) (gp s) (gown s) (gcancel s) (gfuel s) (oncloses s) (ntasks s).
Definition set_ap (s : state) (v : nat -> apc) : state := mk (done s) (tld s) (once s) (oowner s) (lp s) (lown s) v (akind s) (tdone s) (cp s) (cgr s) (chost s) (snap s) (rp s) (rown s) (ioab s) (reg s) (late s) (bufclosed s) (hdone s) (nq s) (ndr s) (down s) (dclo s) (closedq s) (gp s) (gown s) (gcancel s) (gfuel s) (oncloses s) (ntasks s).
Definition set_akind (s : state) (v : nat -> ckind) : state := mk (done s) (tld s) (once s) (oowner s) (lp s) (lown s) (ap s) v (tdone s) (cp s) (cgr s) (chost s) (snap s) (rp s) (rown s) (ioab s) (reg s) (late s) (bufclosed s) (hdone s) (nq s) (ndr s) (down s) (dclo s) (closedq s) (gp s) (gown s) (gcancel s) (gfuel s) (oncloses s) (ntasks s).
Definition set_tdone (s : state) (v : nat -> bool) : state := mk (done s) (tld s) (once s) (oowner s) (lp s) (lown s) (ap s) (akind s) v (cp s) (cgr s) (chost s) (snap s) (rp s) (rown s) (ioab s) (reg s) (late s) (bufclosed s) (hdone s) (nq s) (ndr s) (down s) (dclo s) (closedq s) (gp s) (gown s) (gcancel s) (gfuel s) (oncloses s) (ntasks s).
Definition set_cp (s : state) (v : nat -> cpc) : state := mk (done s) (tld s) (once s) (oowner s) (lp s) (lown s) (ap s) (akind s) (tdone s) v (cgr s) (chost s) (snap s) (rp s) (rown s) (ioab s) (reg s) (late s) (bufclosed s) (hdone s) (nq s) (ndr s) (down s) (dclo s) (closedq s) (gp s) (gown s) (gcancel s) (gfuel s) (oncloses s) (ntasks s).
Definition set_cgr (s : state) (v : nat -> bool) : state := mk (done s) (tld s) (once s) (oowner s) (lp s) (lown s) (ap s) (akind s) (tdone s) (cp s) v (chost s) (snap s) (rp s) (rown s) (ioab s) (reg s) (late s) (bufclosed s) (hdone s) (nq s) (ndr s) (down s) (dclo s) (closedq s) (gp s) (gown s) (gcancel s) (gfuel s) (oncloses s) (ntasks s).
Definition set_chost (s : state) (v : nat -> host) : state := mk (done s) (tld s) (once s) (oowner s) (lp s) (lown s) (ap s) (akind s) (tdone s) (cp s) (cgr s) v (snap s) (rp s) (rown s) (ioab s) (reg s) (late s) (bufclosed s) (hdone s) (nq s) (ndr s) (down s) (dclo s) (closedq s) (gp s) (gown s) (gcancel s) (gfuel s) (oncloses s) (ntasks s).
Definition set_snap (s : state) (v : nat -> nat -> bool) : state := mk (done s) (tld s) (once s) (oowner s) (lp s) (lown s) (ap s) (akind s) (tdone s) (cp s) (cgr s) (chost s) v (rp s) (rown s) (ioab s) (reg s) (late s) (bufclosed s) (hdone s) (nq s) (ndr s) (down s) (dclo s) (closedq s) (gp s) (gown s) (gcancel s) (gfuel s) (oncloses s) (ntasks s).
Definition set_rp (s : state) (v : nat -> rpc) : state := mk (done s) (tld s) (once s) (oowner s) (lp s) (lown s) (ap s) (akind s) (tdone s) (cp s) (cgr s) (chost s) (snap s) v (rown s) (ioab s) (reg s) (late s) (bufclosed s) (hdone s) (nq s) (ndr s) (down s) (dclo s) (closedq s) (gp s) (gown s) (gcancel s) (gfuel s) (oncloses s) (ntasks s).
Definition set_rown (s : state) (v : nat -> nat) : state := mk (done s) (tld s) (once s) (oowner s) (lp s) (lown s) (ap s) (akind s) (tdone s) (cp s) (cgr s) (chost s) (snap s) (rp s) v (ioab s) (reg s) (late s) (bufclosed s) (hdone s) (nq s) (ndr s) (down s) (dclo s) (closedq s) (gp s) (gown s) (gcancel s) (gfuel s) (oncloses s) (ntasks s).
Definition set_ioab (s : state) (v : nat -> bool) : state := mk (done s) (tld s) (once s) (oowner s) (lp s) (lown s) (ap s) (akind s) (tdone s) (cp s) (cgr s) (chost s) (snap s) (rp s) (rown s) v (reg s) (late s) (bufclosed s) (hdone s) (nq s) (ndr s) (down s) (dclo s) (closedq s) (gp s) (gown s) (gcancel s) (gfuel s) (oncloses s) (ntasks s).
Definition set_reg (s : state) (v : nat -> bool) : state := mk (done s) (tld s) (once s) (oowner s) (lp s) (lown s) (ap s) (akind s) (tdone s) (cp s) (cgr s) (chost s) (snap s) (rp s) (rown s) (ioab s) v (late s) (bufclosed s) (hdone s) (nq s) (ndr s) (down s) (dclo s) (closedq s) (gp s) (gown s) (gcancel s) (gfuel s) (oncloses s) (ntasks s).
Definition set_late (s : state) (v : nat -> bool) : state := mk (done s) (tld s) (once s) (oowner s) (lp s) (lown s) (ap s) (akind s) (tdone s) (cp s) (cgr s) (chost s) (snap s) (rp s) (rown s) (ioab s) (reg s) v (bufclosed s) (hdone s) (nq s) (ndr s) (down s) (dclo s) (closedq s) (gp s) (gown s) (gcancel s) (gfuel s) (oncloses s) (ntasks s).
Definition set_bufclosed (s : state) (v : bool) : state := mk (done s) (tld s) (once s) (oowner s) (lp s) (lown s) (ap s) (akind s) (tdone s) (cp s) (cgr s) (chost s) (snap s) (rp s) (rown s) (ioab s) (reg s) (late s) v (hdone s) (nq s) (ndr s) (down s) (dclo s) (closedq s) (gp s) (gown s) (gcancel s) (gfuel s) (oncloses s) (ntasks s).
Definition set_hdone (s : state) (v : bool) : state := mk (done s) (tld s) (once s) (oowner s) (lp s) (lown s) (ap s) (akind s) (tdone s) (cp s) (cgr s) (chost s) (snap s) (rp s) (rown s) (ioab s) (reg s) (late s) (bufclosed s) v (nq s) (ndr s) (down s) (dclo s) (closedq s) (gp s) (gown s) (gcancel s) (gfuel s) (oncloses s) (ntasks s).
Definition set_nq (s : state) (v : nat) : state := mk (done s) (tld s) (once s) (oowner s) (lp s) (lown s) (ap s) (akind s) (tdone s) (cp s) (cgr s) (chost s) (snap s) (rp s) (rown s) (ioab s) (reg s) (late s) (bufclosed s) (hdone s) v (ndr s) (down s) (dclo s) (closedq s) (gp s) (gown s) (gcancel s) (gfuel s) (oncloses s) (ntasks s).
Definition set_ndr (s : state) (v : dpc) : state := mk (done s) (tld s) (once s) (oowner s) (lp s) (lown s) (ap s) (akind s) (tdone s) (cp s) (cgr s) (chost s) (snap s) (rp s) (rown s) (ioab s) (reg s) (late s) (bufclosed s) (hdone s) (nq s) v (down s) (dclo s) (closedq s) (gp s) (gown s) (gcancel s) (gfuel s) (oncloses s) (ntasks s).
Definition set_down (s : state) (v : nat) : state := mk (done s) (tld s) (once s) (oowner s) (lp s) (lown s) (ap s) (akind s) (tdone s) (cp s) (cgr s) (chost s) (snap s) (rp s) (rown s) (ioab s) (reg s) (late s) (bufclosed s) (hdone s) (nq s) (ndr s) v (dclo s) (closedq s) (gp s) (gown s) (gcancel s) (gfuel s) (oncloses s) (ntasks s).
Definition set_dclo (s : state) (v : bool) : state := mk (done s) (tld s) (once s) (oowner s) (lp s) (lown s) (ap s) (akind s) (tdone s) (cp s) (cgr s) (chost s) (snap s) (rp s) (rown s) (ioab s) (reg s) (late s) (bufclosed s) (hdone s) (nq s) (ndr s) (down s) v (closedq s) (gp s) (gown s) (gcancel s) (gfuel s) (oncloses s) (ntasks s).
Definition set_closedq (s : state) (v : bool) : state := mk (done s) (tld s) (once s) (oowner s) (lp s) (lown s) (ap s) (akind s) (tdone s) (cp s) (cgr s) (chost s) (snap s) (rp s) (rown s) (ioab s) (reg s) (late s) (bufclosed s) (hdone s) (nq s) (ndr s) (down s) (dclo s) v (gp s) (gown s) (gcancel s) (gfuel s) (oncloses s) (ntasks s).
Definition set_gp (s : state) (v : gpc) : state := mk (done s) (tld s) (once s) (oowner s) (lp s) (lown s) (ap s) (akind s) (tdone s) (cp s) (cgr s) (chost s) (snap s) (rp s) (rown s) (ioab s) (reg s) (late s) (bufclosed s) (hdone s) (nq s) (ndr s) (down s) (dclo s) (closedq s) v (gown s) (gcancel s) (gfuel s) (oncloses s) (ntasks s).
Definition set_gown (s : state) (v : nat) : state := mk (done s) (tld s) (once s) (oowner s) (lp s) (lown s) (ap s) (akind s) (tdone s) (cp s) (cgr s) (chost s) (snap s) (rp s) (rown s) (ioab s) (reg s) (late s) (bufclosed s) (hdone s) (nq s) (ndr s) (down s) (dclo s) (closedq s) (gp s) v (gcancel s) (gfuel s) (oncloses s) (ntasks s).
Definition set_gcancel (s : state) (v : bool) : state := mk (done s) (tld s) (once s) (oowner s) (lp s) (lown s) (ap s) (akind s) (tdone s) (cp s) (cgr s) (chost s) (snap s) (rp s) (rown s) (ioab s) (reg s) (late s) (bufclosed s) (hdone s) (nq s) (ndr s) (down s) (dclo s) (closedq s) (gp s) (gown s) v (gfuel s) (oncloses s) (ntasks s).
Definition set_gfuel (s : state) (v : nat) : state := mk (done s) (tld s) (once s) (oowner s) (lp s) (lown s) (ap s) (akind s) (tdone s) (cp s) (cgr s) (chost s) (snap s) (rp s) (rown s) (ioab s) (reg s) (late s) (bufclosed s) (hdone s) (nq s) (ndr s) (down s) (dclo s) (closedq s) (gp s) (gown s) (gcancel s) v (oncloses s) (ntasks s).
Definition set_oncloses (s : state) (v : nat) : state := mk (done s) (tld s) (once s) (oowner s) (lp s) (lown s) (ap s) (akind s) (tdone s) (cp s) (cgr s) (chost s) (snap s) (rp s) (rown s) (ioab s) (reg s) (late s) (bufclosed s) (hdone s) (nq s) (ndr s) (down s) (dclo s) (closedq s) (gp s) (gown s) (gcancel s) (gfuel s) v (ntasks s).
Definition set_ntasks (s : state) (v : nat) : state := mk (done s) (tld s) (once s) (oowner s) (lp s) (lown s) (ap s) (akind s) (tdone s) (cp s) (cgr s) (chost s) (snap s) (rp s) (rown s) (ioab s) (reg s) (late s) (bufclosed s) (hdone s) (nq s) (ndr s) (down s) (dclo s) (closedq s) (gp s) (gown s) (gcancel s) (gfuel s) (oncloses s) v.

Definition init (g0 : nat) : state :=
  mk false false ONot 0 LIdle 0 (fun _ => AIdle) (fun _ => KRead) (fun _ => false)
     (fun _ => CIdle) (fun _ => false) (fun _ => HApi) (fun _ _ => false)
     (fun _ => RNone) (fun _ => 0) (fun _ => false) (fun _ => false) (fun _ => false)
     false false 0 DNone 0 false false GNone 0 false g0 0 0.

Definition set_ap_at (s : state) (i : nat) (v : apc) : state := set_ap s (upd (ap s) i v).
Definition set_akind_at (s : state) (i : nat) (v : ckind) : state := set_akind s (upd (akind s) i v).
Definition set_tdone_at (s : state) (i : nat) (v : bool) : state := set_tdone s (upd (tdone s) i v).
Definition set_cp_at (s : state) (k : nat) (v : cpc) : state := set_cp s (upd (cp s) k v).
Definition set_ckind_at (s : state) (k : nat) (g : bool) (h : host) : state :=
  set_chost (set_cgr s (upd (cgr s) k g)) (upd (chost s) k h).
Definition set_snap_at (s : state) (k : nat) (v : nat -> bool) : state := set_snap s (upd (snap s) k v).
Definition set_rp_at (s : state) (c : nat) (v : rpc) : state := set_rp s (upd (rp s) c v).
Definition set_rown_at (s : state) (c : nat) (v : nat) : state := set_rown s (upd (rown s) c v).
Definition set_abort (s : state) (c : nat) : state := set_ioab s (upd (ioab s) c true).
Definition set_reg_at (s : state) (c : nat) (v : bool) : state := set_reg s (upd (reg s) c v).
Definition set_late_at (s : state) (c : nat) (v : bool) : state := set_late s (upd (late s) c v).

(* ---- alphabet --------------------------------------------------------------------------------- *)
Inductive label :=
(* callers *)
| ECall (i : nat) (kd : ckind)
| TErrOk (i : nat)            (* loop.Err() == nil (or no such check): on to the select / the parking place *)
| ERet (i : nat) (r : retk)
| TSend (i : nat)             (* rendez-vous on l.tasks *)
(* the loop: tasks *)
| TBody (i : nat)             (* the characteristic action of a BPlain / BNotify / BStart / BGather task *)
| EWriteStart (i : nat) | EWriteEnd (i : nat)
| EHostStart (i : nat) | EHostEnd (i : nat)
| TDelBegin (i : nat)         (* BDelAll: enter deleteAllCandidates *)
| TDelSkip                    (* candidate j is not a live local candidate *)
| TDelAbort                   (* c.close(): abortIO *)
| TDelJoin                    (* <-c.closedCh; unregister *)
| TDelEnd                     (* past the last candidate *)
| TTaskDone                   (* close(t.done) *)
(* the loop: closing *)
| TSeeDone
| EOnCloseStart               (* onClose begins: gatherCandidateCancel() *)
| TGatherJoin                 (* <-gatherCandidateDone (or nil) *)
| TBufClose
| TEnqClosed                  (* updateConnectionState(Closed) *)
| TCloseTLD
(* closers *)
| ECloseCall (k : nat) (graceful : bool) (h : host)
| TOnceEnter (k : nat) | TOnceSeen (k : nat)
| TCloseDone (k : nat)
| TSnapshot (k : nat)
| TAbortSkip (k : nat)        (* candidate j not in the snapshot *)
| TAbortIO (k : nat)          (* abortIO of candidate j *)
| TAbortEnd (k : nat)
| TOnceLeave (k : nat)
| TSeeTLD (k : nat)
| TNotifClose (k : nat)
| TNotifJoin (k : nat)        (* notifiers.Wait() returns *)
| ECloseRet (k : nat)
(* candidates *)
| ERecvExit (c : nat)         (* ReadFrom failed on an aborted socket; close(closedCh) *)
(* notifier *)
| ENotifyStart | ENotifyEnd | TDrainExit
(* gather goroutine *)
| TGatherIO | TGatherIODone | EGatherDone.

(* ---- small decidable tests --------------------------------------------------------------------- *)
Definition apc_is (a b : apc) : bool :=
  match a, b with
  | AIdle, AIdle | APre, APre | ASelect, ASelect | AWait, AWait | APark, APark => true
  | _, _ => false
  end.
Definition cpc_is (a b : cpc) : bool :=
  match a, b with
  | CIdle, CIdle | CCalled, CCalled | COnce1, COnce1 | CSnap, CSnap | COnceEnd, COnceEnd
  | CWaitTLD, CWaitTLD | CNotif, CNotif | CNotifWait, CNotifWait | CDone, CDone | CRet, CRet => true
  | _, _ => false
  end.
Definition rpc_is (a b : rpc) : bool :=
  match a, b with RNone, RNone | RRead, RRead | RBusy, RBusy | RExited, RExited => true | _, _ => false end.
Definition dpc_is (a b : dpc) : bool :=
  match a, b with DNone, DNone | DLoop, DLoop | DHandler, DHandler | DBusy, DBusy => true | _, _ => false end.
Definition gpc_is (a b : gpc) : bool :=
  match a, b with GNone, GNone | GRun, GRun | GBusy, GBusy | GIO, GIO | GDone, GDone => true | _, _ => false end.
Definition once_is (a b : once_st) : bool :=
  match a, b with ONot, ONot | ORunning, ORunning | ODone, ODone => true | _, _ => false end.

(* Enqueue on the notifier: dropped once the notifier is closed; starts a drainer if none runs. *)
Definition enqueue (s : state) : state :=
  if hdone s then s
  else set_ndr (set_nq s (S (nq s))) (match ndr s with DNone => DLoop | d => d end).

(* a host is available for a new call ... *)
Definition host_free (s : state) (h : host) : bool :=
  match h with
  | HApi => true
  | HRecv c => rpc_is (rp s c) RRead
  | HGather => gpc_is (gp s) GRun
  | HHandler => dpc_is (ndr s) DHandler
  | HTask i => match lp s with LHost j => Nat.eqb i j | _ => false end
  end.
(* ... is taken by caller / closer [o] ... *)
Definition host_take (s : state) (h : host) (o : nat) (closer : bool) : state :=
  match h with
  | HApi => s
  | HTask i => set_lown (set_lp s (LHostBusy i)) o
  | HRecv c => set_rown_at (set_rp_at s c RBusy) c o
  | HGather => set_gown (set_gp s GBusy) o
  | HHandler => set_dclo (set_down (set_ndr s DBusy) o) closer
  end.
(* ... and released when the call returns *)
Definition host_release (s : state) (h : host) : state :=
  match h with
  | HApi => s
  | HTask i => set_lp s (LHost i)
  | HRecv c => set_rp_at s c RRead
  | HGather => set_gp s GRun
  | HHandler => set_ndr s DHandler
  end.

Definition khost (kd : ckind) : host := match kd with KRun h _ => h | _ => HApi end.

(* callers are never hosted by a task: the loop goroutine does not call loop.Run *)
Definition caller_host_ok (h : host) : bool := match h with HTask _ => false | _ => true end.
(* closers are issued by application code: an application goroutine, a callback, a task body *)
Definition closer_host_ok (h : host) : bool := match h with HRecv _ | HGather => false | _ => true end.

(* the context handed to Run is cancelled: the candidate's (closeCh) for handleInbound, the
   gathering cycle's for the gatherers; the loop's own context otherwise (covered by [done]) *)
Definition ctx_cancelled (s : state) (h : host) : bool :=
  match h with
  | HRecv c => ioab s c
  | HGather => gcancel s
  | _ => false
  end.

Definition ret_caller (s : state) (i : nat) (r : retk) : state :=
  host_release (set_ap_at s i (ARet r)) (khost (akind s i)).

Definition body_of (kd : ckind) : option body := match kd with KRun _ b => Some b | _ => None end.

(* the candidate whose socket a call writes on *)
Definition write_target (kd : ckind) : option nat :=
  match kd with
  | KRun _ (BWrite c) => Some c
  | KWriteOff c => Some c
  | _ => None
  end.

(* task bodies only the application's own goroutines issue: Restart, the Failed transition of a
   tick (deleteAllCandidates), GatherCandidates *)
Definition api_only (kd : ckind) : bool :=
  match kd with
  | KRun _ BDelAll | KRun _ BGather => true
  | _ => false
  end.

(* a call is well formed: Conn.Write writes on the selected pair's candidate, which exists;
   Restart / GatherCandidates / the Failed transition come from the application.  (The socket a
   TASK writes on is decided when the task runs: see EWriteStart.) *)
Definition kind_ok (s : state) (kd : ckind) : bool :=
  (match kd with KWriteOff c => negb (rpc_is (rp s c) RNone) | _ => true end)
  && (if api_only kd then match khost kd with HApi => true | _ => false end else true).

Section Step.
Variable NC : nat.            (* candidates are 0 .. NC-1 *)
Variable wfree : nat -> bool.
Variable fix_reg : bool.

Definition after_del (x : dctx) : lpc := match x with CtxTask i => LFin i | CtxClose => LOC4 end.

Definition lstep (l : label) (s : state) : option state :=
  match l with
  (* ---------------- callers ---------------- *)
  | ECall i kd =>
      if apc_is (ap s i) AIdle && caller_host_ok (khost kd) && host_free s (khost kd) && kind_ok s kd
      then Some (host_take (set_akind_at (set_ap_at s i APre) i kd) (khost kd) i false) else None
  | TErrOk i =>
      if apc_is (ap s i) APre then
        match akind s i with
        | KRun _ _ => if negb (done s) then Some (set_ap_at s i ASelect) else None
        | KAwait => Some (set_ap_at s i APark)              (* AwaitConnect has no Err() pre-check *)
        | KRead | KWriteOff _ => if negb (done s) then Some (set_ap_at s i APark) else None
        end
      else None
  | ERet i RClosed =>
      match ap s i, akind s i with
      | APre, KAwait => None
      | APre, _ => if done s then Some (ret_caller s i RClosed) else None          (* Err() != nil *)
      | ASelect, _ => if done s then Some (ret_caller s i RClosed) else None       (* <-l.done *)
      | APark, KAwait => if done s then Some (ret_caller s i RClosed) else None    (* <-a.loop.Done() *)
      | _, _ => None
      end
  | ERet i RCtx =>
      if apc_is (ap s i) ASelect && ctx_cancelled s (khost (akind s i))
      then Some (ret_caller s i RCtx) else None
  | ERet i ROk =>
      if apc_is (ap s i) AWait && tdone s i then Some (ret_caller s i ROk) else None
  | ERet i RIo =>
      if apc_is (ap s i) APark then
        match akind s i with
        | KRead => if bufclosed s then Some (ret_caller s i RIo) else None
        | KWriteOff c => if wfree c || ioab s c then Some (ret_caller s i RIo) else None
        | _ => None
        end
      else None
  | TSend i =>
      match ap s i, lp s, akind s i with
      | ASelect, LIdle, KRun _ _ => Some (set_ntasks (set_lp (set_ap_at s i AWait) (LRun i)) (S (ntasks s)))
      | _, _, _ => None
      end
  (* ---------------- the loop: task bodies ---------------- *)
  | TBody i =>
      match lp s, body_of (akind s i) with
      | LRun j, Some b =>
          if Nat.eqb i j then
            match b with
            | BPlain => Some (set_lp s (LFin i))
            | BWrite c =>                                  (* no such candidate (any more): nothing to send *)
                if rpc_is (rp s c) RNone then Some (set_lp s (LFin i)) else None
            | BNotify => Some (set_lp (enqueue s) (LFin i))
            | BStart c =>
                if rpc_is (rp s c) RNone && Nat.ltb c NC then
                  let s1 := set_late_at (set_reg_at (set_rp_at s c RRead) c true) c (done s) in
                  let s2 := if fix_reg && done s then set_abort s1 c else s1 in
                  Some (set_lp s2 (LFin i))
                else Some (set_lp s (LFin i))            (* duplicate / refused candidate *)
            | BGather =>
                Some (set_lp (if gpc_is (gp s) GNone then set_gp s GRun else s) (LFin i))
            | _ => None
            end
          else None
      | _, _ => None
      end
  | EWriteStart i =>
      match lp s, akind s i with
      | LRun j, KRun _ (BWrite c) =>
          if Nat.eqb i j && negb (rpc_is (rp s c) RNone) then Some (set_lp s (LWrite i)) else None
      | _, _ => None
      end
  | EWriteEnd i =>
      match lp s, akind s i with
      | LWrite j, KRun _ (BWrite c) =>
          if Nat.eqb i j && (wfree c || ioab s c) then Some (set_lp s (LFin i)) else None
      | _, _ => None
      end
  | EHostStart i =>
      match lp s, akind s i with
      | LRun j, KRun _ BHost => if Nat.eqb i j then Some (set_lp s (LHost i)) else None
      | _, _ => None
      end
  | EHostEnd i =>
      (* the application code returns (it is not inside a Close: that would be LHostBusy) *)
      match lp s with
      | LHost j => if Nat.eqb i j then Some (set_lp s (LFin i)) else None
      | _ => None
      end
  | TDelBegin i =>
      match lp s, akind s i with
      | LRun j, KRun _ BDelAll => if Nat.eqb i j then Some (set_lp s (LDel (CtxTask i) 0)) else None
      | _, _ => None
      end
  | TDelSkip =>
      match lp s with
      | LDel x j => if Nat.ltb j NC && negb (reg s j) then Some (set_lp s (LDel x (S j))) else None
      | _ => None
      end
  | TDelAbort =>
      match lp s with
      | LDel x j => if Nat.ltb j NC && reg s j then Some (set_lp (set_abort s j) (LDelWait x j)) else None
      | _ => None
      end
  | TDelJoin =>
      match lp s with
      | LDelWait x j => if rpc_is (rp s j) RExited then Some (set_lp (set_reg_at s j false) (LDel x (S j))) else None
      | _ => None
      end
  | TDelEnd =>
      match lp s with
      | LDel x j => if Nat.leb NC j then Some (set_lp s (after_del x)) else None
      | _ => None
      end
  | TTaskDone =>
      match lp s with
      | LFin i => Some (set_lp (set_tdone_at s i true) LIdle)
      | _ => None
      end
  (* ---------------- the loop: closing ---------------- *)
  | TSeeDone =>
      match lp s with LIdle => if done s then Some (set_lp s LClosing) else None | _ => None end
  | EOnCloseStart =>
      match lp s with
      | LClosing => Some (set_oncloses (set_gcancel (set_lp s LOC1) true) (S (oncloses s)))
      | _ => None
      end
  | TGatherJoin =>
      match lp s with
      | LOC1 => if gpc_is (gp s) GNone || gpc_is (gp s) GDone then Some (set_lp s (LDel CtxClose 0)) else None
      | _ => None
      end
  | TBufClose =>
      match lp s with LOC4 => Some (set_lp (set_bufclosed s true) LOC5) | _ => None end
  | TEnqClosed =>
      match lp s with LOC5 => Some (set_lp (set_closedq (enqueue s) true) LOC6) | _ => None end
  | TCloseTLD =>
      match lp s with LOC6 => Some (set_lp (set_tld s true) LExited) | _ => None end
  (* ---------------- closers ---------------- *)
  | ECloseCall k g h =>
      if cpc_is (cp s k) CIdle && closer_host_ok h && host_free s h
      then Some (host_take (set_ckind_at (set_cp_at s k CCalled) k g h) h k true) else None
  | TOnceEnter k =>
      if cpc_is (cp s k) CCalled && once_is (once s) ONot
      then Some (set_cp_at (set_oowner (set_once s ORunning) k) k COnce1) else None
  | TOnceSeen k =>
      if cpc_is (cp s k) CCalled && once_is (once s) ODone then Some (set_cp_at s k CWaitTLD) else None
  | TCloseDone k =>
      if cpc_is (cp s k) COnce1 && negb (done s) then Some (set_cp_at (set_done s true) k CSnap) else None
  | TSnapshot k =>
      if cpc_is (cp s k) CSnap then Some (set_cp_at (set_snap_at s k (reg s)) k (CAbort 0)) else None
  | TAbortSkip k =>
      match cp s k with
      | CAbort j => if Nat.ltb j NC && negb (snap s k j) then Some (set_cp_at s k (CAbort (S j))) else None
      | _ => None
      end
  | TAbortIO k =>
      match cp s k with
      | CAbort j => if Nat.ltb j NC && snap s k j then Some (set_cp_at (set_abort s j) k (CAbort (S j))) else None
      | _ => None
      end
  | TAbortEnd k =>
      match cp s k with
      | CAbort j => if Nat.leb NC j then Some (set_cp_at s k COnceEnd) else None
      | _ => None
      end
  | TOnceLeave k =>
      if cpc_is (cp s k) COnceEnd then Some (set_cp_at (set_once s ODone) k CWaitTLD) else None
  | TSeeTLD k =>
      if cpc_is (cp s k) CWaitTLD && tld s then Some (set_cp_at s k CNotif) else None
  | TNotifClose k =>
      if cpc_is (cp s k) CNotif
      then Some (set_cp_at (set_hdone s true) k (if cgr s k then CNotifWait else CDone)) else None
  | TNotifJoin k =>
      if cpc_is (cp s k) CNotifWait && dpc_is (ndr s) DNone then Some (set_cp_at s k CDone) else None
  | ECloseRet k =>
      (* the return to the caller's host: releases a callback / task body that was waiting for it *)
      if cpc_is (cp s k) CDone then Some (host_release (set_cp_at s k CRet) (chost s k)) else None
  (* ---------------- candidates ---------------- *)
  | ERecvExit c =>
      if rpc_is (rp s c) RRead && ioab s c then Some (set_rp_at s c RExited) else None
  (* ---------------- notifier ---------------- *)
  | ENotifyStart =>
      if dpc_is (ndr s) DLoop && negb (Nat.eqb (nq s) 0)
      then Some (set_ndr (set_nq s (pred (nq s))) DHandler) else None
  | ENotifyEnd =>
      if dpc_is (ndr s) DHandler then Some (set_ndr s DLoop) else None
  | TDrainExit =>
      if dpc_is (ndr s) DLoop && Nat.eqb (nq s) 0 then Some (set_ndr s DNone) else None
  (* ---------------- gather goroutine ---------------- *)
  | TGatherIO =>
      if gpc_is (gp s) GRun && negb (Nat.eqb (gfuel s) 0)
      then Some (set_gp (set_gfuel s (pred (gfuel s))) GIO) else None
  | TGatherIODone =>
      if gpc_is (gp s) GIO then Some (set_gp s GRun) else None
  | EGatherDone =>
      if gpc_is (gp s) GRun then Some (set_gp s GDone) else None
  end.

Definition step (s s' : state) : Prop := exists l, lstep l s = Some s'.

Inductive steps : state -> state -> Prop :=
| steps_refl : forall s, steps s s
| steps_step : forall s s' s'', steps s s' -> step s' s'' -> steps s s''.

Definition reach (g0 : nat) (s : state) : Prop := steps (init g0) s.

(* running a label sequence *)
Fixpoint run (ls : list label) (s : state) : option state :=
  match ls with
  | [] => Some s
  | l :: ls' => match lstep l s with Some s' => run ls' s' | None => None end
  end.

End Step.
