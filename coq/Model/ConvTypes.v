(* forces extraction of the basic datatypes used by ocaml/conv.ml *)
From Coq Require Import ZArith NArith String Ascii.
Definition conv_witness (z : Z) (n : N) (k : nat) (s : string) (p : positive) := (z, n, k, s, p).
