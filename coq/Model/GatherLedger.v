(* C09: the ledger of every socket / mux connection / TURN client / relay allocation acquired while
   gathering.  Executable Gallina only (no proofs).

   A RESOURCE is open or closed, counts the Close calls made on it, and has a status: held by an
   in-flight gatherer ATTEMPT, owned by a live CANDIDATE, released, or leaked (its attempt ended
   without closing it).  An attempt is one pass of a gatherer of gather.go over one
   (address, transport) / (URL, bind address):
     host   gatherCandidatesLocal, udp branch: listenUDPInPortRange -> addCandidate
     tcpmux gatherCandidatesLocal, tcp branch: tcpMux.GetConnByUfrag -> addCandidate
     srflx  gatherCandidatesSrflx: listenUDPInPortRange -> STUN exchange (with the goroutine that
            closes the socket when the loop is done) -> addCandidate
     relay  gatherCandidatesRelay (UDP TURN): ListenPacket -> TURN client factory -> Listen ->
            Allocate -> the relayed address is accepted (not location-tracked, of a configured
            network type) or everything is released -> addRelayCandidates/createRelayCandidate -> addCandidate
   with the cancel/error exit of each step and the close calls gather.go makes on that exit.
   addCandidate is two steps (agent.go): the ctx.Err() check, then loop.Run's select, which either
   sends the task (run: duplicate -> closed, else started and owned by the candidate) or takes
   ctx.Done / loop done.  Candidates are removed (conn closed, relay onClose run) by Restart,
   updateConnectionState(Failed) and the loop's onClose; Close waits for the gather goroutine of
   the CURRENT cycle only (superseded cycles wind down on their own).

   A [variant] says which code is modelled: [v_srflx_close] = gatherCandidatesSrflx closes its socket
   when addCandidate fails (it does not in the pinned code); [v_recheck] = the addCandidate task
   re-checks the context on the loop (it does not in the pinned code).

   An attempt's context is cancelled iff a Restart happened after its cycle started (its
   generation differs from the agent's) or the agent is closed; that a cycle superseded by a
   second GatherCandidates never gathers is C18_cycle_no_overlap.

   Not modelled: UDP-mux sites (gatherCandidatesLocalUDPMux, gatherCandidatesSrflxUDPMux),
   gatherCandidatesSrflxMapped, TURN over TCP/TLS/DTLS, active TCP, address-rewrite fan-out
   (several candidates sharing one relay connection). *)
From Coq Require Import ZArith Bool String List.
From Ice Require Import Model.PrioSpec.
Import ListNotations.
Local Open Scope nat_scope.

Inductive akind := KHost | KTcpMux | KSrflx | KRelay.
Definition akind_eqb (a b : akind) : bool :=
  match a, b with KHost, KHost | KTcpMux, KTcpMux | KSrflx, KSrflx | KRelay, KRelay => true | _, _ => false end.

Inductive rstatus := RHeld (k : nat) | ROwned (c : nat) | RReleased | RLeaked.

Record res := mkRes {
  r_open : bool;
  r_calls : nat;          (* Close calls (TURN client: Close calls) *)
  r_gen : nat;            (* generation of the attempt that acquired it *)
  r_kind : akind;
  r_status : rstatus;
  r_mux : option nat      (* TCP-mux connections: the generation (ufrag) they were handed out under *)
}.

(* attempt pc: 0 not yet acquired; 1+stage holding resources; 100 passed the ctx check (task
   pending); 200 done *)
Record att := mkAtt {
  a_kind : akind;
  a_gen : nat;            (* generation of its gather cycle *)
  a_pc : nat;
  a_res : list nat;       (* resources it acquired, in order *)
  a_key : nat;            (* identity of the candidate it would publish (Equal candidates share it) *)
  a_ufrag : nat           (* the generation whose ufrag it read when it started (TCP mux key) *)
}.

Record cand := mkCand { c_live : bool; c_gen : nat; c_res : list nat; c_key : nat }.

Record led := mkLed {
  l_gen : nat;
  l_closed : bool;        (* Close was called (loop done) *)
  l_close_done : bool;    (* Close has returned *)
  l_failed : bool;        (* connection state Failed (until the next Restart) *)
  l_res : list res;
  l_atts : list att;
  l_cands : list cand
}.

Definition led_init : led := mkLed 0 false false false [] [] [].

Record variant := mkVariant { v_srflx_close : bool; v_recheck : bool }.
Definition pinned : variant := mkVariant false false.
Definition repaired : variant := mkVariant true true.

Definition pc_done := 200.
Definition pc_checked := 100.
(* the stage at which an attempt calls addCandidate *)
Definition ready_pc (k : akind) : nat :=
  match k with KHost => 1 | KTcpMux => 1 | KSrflx => 2 | KRelay => 5 end.

Fixpoint upd {A} (l : list A) (k : nat) (f : A -> A) : list A :=
  match l, k with
  | [], _ => []
  | x :: t, O => f x :: t
  | x :: t, S k' => x :: upd t k' f
  end.

(* one Close call on a resource that is held or owned: it is released *)
Definition release (r : res) : res :=
  match r_status r with
  | RHeld _ | ROwned _ => mkRes false (S (r_calls r)) (r_gen r) (r_kind r) RReleased (r_mux r)
  | _ => r
  end.
Definition leak (r : res) : res :=
  match r_status r with
  | RHeld _ => mkRes (r_open r) (r_calls r) (r_gen r) (r_kind r) RLeaked (r_mux r)
  | _ => r
  end.
(* a Close call that does not change who is responsible for the resource (the srflx watcher, the
   mux closing the connections of a ufrag) *)
Definition close_call (r : res) : res :=
  if r_open r then mkRes false (S (r_calls r)) (r_gen r) (r_kind r) (r_status r) (r_mux r) else r.
Definition own (c : nat) (r : res) : res := mkRes (r_open r) (r_calls r) (r_gen r) (r_kind r) (ROwned c) (r_mux r).
Fixpoint upd_all {A} (l : list A) (ids : list nat) (f : A -> A) : list A :=
  match ids with
  | [] => l
  | i :: t => upd_all (upd l i f) t f
  end.

Definition set_att (a : att) (pc : nat) (rs : list nat) : att := mkAtt (a_kind a) (a_gen a) pc rs (a_key a) (a_ufrag a).

Definition with_ra (s : led) (rs : list res) (ats : list att) : led :=
  mkLed (l_gen s) (l_closed s) (l_close_done s) (l_failed s) rs ats (l_cands s).

(* the failure exit of an attempt: every resource it holds gets its Close call, except that the
   pinned gatherCandidatesSrflx forgets its socket when addCandidate fails *)
Definition fail_exit (forget : bool) (s : led) (k : nat) (a : att) : led :=
  with_ra s (upd_all (l_res s) (a_res a) (if forget then leak else release)) (upd (l_atts s) k (fun a => set_att a pc_done (a_res a))).

Definition cancelled (s : led) (a : att) : bool := negb (Nat.eqb (a_gen a) (l_gen s)) || l_closed s.

(* removeUfragFromMux: the TCP mux closes the connections handed out under the current ufrag *)
Definition mux_remove (g : nat) (rs : list res) : list res :=
  map (fun r => match r_mux r with Some g' => if Nat.eqb g g' then close_call r else r | None => r end) rs.

Definition kill (c : cand) : cand := mkCand false (c_gen c) (c_res c) (c_key c).
(* deleteAllCandidates: every live candidate is closed (conn closed, relay onClose run) *)
Definition close_cands (cs : list cand) (rs : list res) : list res :=
  fold_left (fun rs c => if c_live c then upd_all rs (c_res c) release else rs) cs rs.
(* Restart / Failed: removeUfragFromMux, then deleteAllCandidates *)
Definition delete_all (s : led) : list res * list cand :=
  (close_cands (l_cands s) (mux_remove (l_gen s) (l_res s)), map kill (l_cands s)).
(* Close: the started candidates' connections are closed first (abortStartedCandidateIO), the loop's
   onClose then removes the ufrag from the mux and deletes the candidates *)
Definition delete_all_close (s : led) : list res * list cand :=
  (mux_remove (l_gen s) (close_cands (l_cands s) (l_res s)), map kill (l_cands s)).

Inductive action :=
| LSpawn (kind : akind) (gen : nat) (key : nat)   (* a gatherer of the cycle of generation gen starts an attempt *)
| LAcquire (k : nat) (ok : bool)                  (* listen / GetConnByUfrag / ListenPacket: socket or error *)
| LStep (k : nat) (ok : bool)                     (* srflx: STUN reply or failure; relay: factory, Listen, Allocate, address accepted *)
| LWatch (k : nat)                                (* srflx: the loop-done watcher closes the socket *)
| LAddCheck (k : nat)                             (* addCandidate: ctx.Err() check *)
| LAddRun (k : nat)                               (* loop.Run's select sends; the task runs *)
| LAddAbort (k : nat)                             (* loop.Run's select takes ctx.Done / loop done *)
| LRestart
| LFailed                                         (* updateConnectionState(Failed) *)
| LClose                                          (* Close called: loop done *)
| LCloseDone.                                     (* the loop's onClose ran; Close returns *)

Definition new_res (s : led) (k : nat) (a : att) : res :=
  mkRes true 0 (a_gen a) (a_kind a) (RHeld k) (if akind_eqb (a_kind a) KTcpMux then Some (a_ufrag a) else None).


Definition apply (v : variant) (x : action) (s : led) : option led :=
  match x with
  | LSpawn kind gen key =>
    if Nat.leb gen (l_gen s) && negb (l_close_done s && Nat.eqb gen (l_gen s))
    then Some (with_ra s (l_res s) (l_atts s ++ [mkAtt kind gen 0 [] key (l_gen s)]))
    else None
  | LAcquire k ok =>
    match nth_error (l_atts s) k with
    | Some a =>
      if negb (Nat.eqb (a_pc a) 0) then None
      else if ok
      then Some (with_ra s (l_res s ++ [new_res s k a])
                         (upd (l_atts s) k (fun a => set_att a 1 [length (l_res s)])))
      else Some (with_ra s (l_res s) (upd (l_atts s) k (fun a => set_att a pc_done [])))
    | None => None
    end
  | LStep k ok =>
    match nth_error (l_atts s) k with
    | Some a =>
      if Nat.leb 1 (a_pc a) && Nat.ltb (a_pc a) (ready_pc (a_kind a))
      then if ok
           then (* relay: the factory (pc 1) and Allocate (pc 3) create a resource *)
             if akind_eqb (a_kind a) KRelay && (Nat.eqb (a_pc a) 1 || Nat.eqb (a_pc a) 3)
             then Some (with_ra s (l_res s ++ [new_res s k a])
                                (upd (l_atts s) k (fun a => set_att a (S (a_pc a)) (a_res a ++ [length (l_res s)]))))
             else Some (with_ra s (l_res s) (upd (l_atts s) k (fun a => set_att a (S (a_pc a)) (a_res a))))
           else Some (fail_exit false s k a)
      else None
    | None => None
    end
  | LWatch k =>
    match nth_error (l_atts s) k with
    | Some a =>
      if akind_eqb (a_kind a) KSrflx && l_closed s && Nat.leb 1 (a_pc a) && negb (Nat.eqb (a_pc a) pc_done)
      then Some (with_ra s (upd_all (l_res s) (a_res a) close_call) (l_atts s))
      else None
    | None => None
    end
  | LAddCheck k =>
    match nth_error (l_atts s) k with
    | Some a =>
      if negb (Nat.eqb (a_pc a) (ready_pc (a_kind a))) then None
      else if cancelled s a
      then Some (fail_exit (akind_eqb (a_kind a) KSrflx && negb (v_srflx_close v)) s k a)
      else Some (with_ra s (l_res s) (upd (l_atts s) k (fun a => set_att a pc_checked (a_res a))))
    | None => None
    end
  | LAddRun k =>
    match nth_error (l_atts s) k with
    | Some a =>
      if Nat.eqb (a_pc a) pc_checked && negb (l_closed s) && negb (v_recheck v && cancelled s a)
      then if l_failed s || existsb (fun c => c_live c && Nat.eqb (c_key c) (a_key a)) (l_cands s)
           then (* Failed agent or duplicate: the task closes the candidate and its connection; Run returns nil *)
             Some (fail_exit false s k a)
           else Some (mkLed (l_gen s) (l_closed s) (l_close_done s) (l_failed s)
                            (upd_all (l_res s) (a_res a) (own (length (l_cands s))))
                            (upd (l_atts s) k (fun a => set_att a pc_done (a_res a)))
                            (l_cands s ++ [mkCand true (l_gen s) (a_res a) (a_key a)]))
      else None
    | None => None
    end
  | LAddAbort k =>
    match nth_error (l_atts s) k with
    | Some a =>
      if Nat.eqb (a_pc a) pc_checked && cancelled s a
      then Some (fail_exit (akind_eqb (a_kind a) KSrflx && negb (v_srflx_close v)) s k a)
      else None
    | None => None
    end
  | LRestart =>
    if l_closed s then None
    else let '(rs, cs) := delete_all s in Some (mkLed (S (l_gen s)) false false false rs (l_atts s) cs)
  | LFailed =>
    if l_closed s then None
    else if l_failed s then Some s
    else let '(rs, cs) := delete_all s in Some (mkLed (l_gen s) false false true rs (l_atts s) cs)
  | LClose =>
    Some (mkLed (l_gen s) true (l_close_done s) (l_failed s) (l_res s) (l_atts s) (l_cands s))
  | LCloseDone =>
    (* onClose waits for the gather goroutine of the current cycle *)
    if l_closed s && negb (l_close_done s)
       && forallb (fun a => negb (Nat.eqb (a_gen a) (l_gen s)) || Nat.eqb (a_pc a) pc_done) (l_atts s)
    then let '(rs, cs) := delete_all_close s in Some (mkLed (l_gen s) true true (l_failed s) rs (l_atts s) cs)
    else None
  end.

Definition step (v : variant) (s s' : led) : Prop := exists x, apply v x s = Some s'.
Inductive reach (v : variant) : led -> Prop :=
| reach_init : reach v led_init
| reach_step : forall s s', reach v s -> step v s s' -> reach v s'.

Definition quiescent (s : led) : bool := forallb (fun a => Nat.eqb (a_pc a) pc_done) (l_atts s).
Definition old_quiescent (s : led) : bool :=
  forallb (fun a => Nat.eqb (a_gen a) (l_gen s) || Nat.eqb (a_pc a) pc_done) (l_atts s).
Definition open_count (s : led) : nat := length (filter r_open (l_res s)).
Definition open_old (s : led) : nat := length (filter (fun r => r_open r && negb (Nat.eqb (r_gen r) (l_gen s))) (l_res s)).

(* ------------------------------------------------------------------ scripted scenarios
   A scenario is a list of EVENTS the harness forces in this order on the real agent (trap points
   inside the fakes).  [expand] resolves the hidden addCandidate steps deterministically: a trap
   never sits between the ctx check and the select. *)
Inductive ev :=
| EAcquire (ok : bool)                  (* of the latest attempt *)
| EStep (ok : bool)
| EAdd                                  (* the latest attempt reaches addCandidate *)
| EWatch                                (* (srflx) the watcher closes the socket before the read returns *)
| ERestart | EFailed | EClose | ECloseDone.

Definition last_att (s : led) : nat := pred (length (l_atts s)).

Definition run_ev (v : variant) (s : led) (e : ev) : option led :=
  let k := last_att s in
  match e with
  | EAcquire ok => apply v (LAcquire k ok) s
  | EStep ok => apply v (LStep k ok) s
  | EWatch => apply v (LWatch k) s
  | EAdd =>
    match apply v (LAddCheck k) s with
    | Some s1 =>
      match nth_error (l_atts s1) k with
      | Some a => if Nat.eqb (a_pc a) pc_checked then apply v (LAddRun k) s1 else Some s1
      | None => Some s1
      end
    | None => None
    end
  | ERestart => apply v LRestart s
  | EFailed => apply v LFailed s
  | EClose => apply v LClose s
  | ECloseDone => apply v LCloseDone s
  end.

(* attempts of a cycle that was superseded keep the generation they were spawned in: the scenario
   language spawns them with an explicit generation *)
Inductive sev := SEv (e : ev) | SAttemptGen (kind : akind) (gen key : nat) | SCheckpoint.

Definition res_obs (r : res) : Z * Z := ((if r_open r then 1 else 0)%Z, Z.of_nat (r_calls r)).
Definition checkpoint (s : led) : list (Z * Z) * Z :=
  (map res_obs (l_res s), Z.of_nat (length (filter c_live (l_cands s)))).

Fixpoint run_script (v : variant) (s : led) (sc : list sev) (acc : list (list (Z * Z) * Z))
  : option (list (list (Z * Z) * Z)) :=
  match sc with
  | [] => Some (rev acc)
  | SCheckpoint :: t => run_script v s t (checkpoint s :: acc)
  | SAttemptGen kind gen key :: t =>
    match apply v (LSpawn kind gen key) s with Some s' => run_script v s' t acc | None => None end
  | SEv e :: t =>
    match run_ev v s e with Some s' => run_script v s' t acc | None => None end
  end.

(* ------------------------------------------------------------------ the C09 MONITOR
   Observations: at each checkpoint the per-resource (open, close calls) tallies of the fakes, in
   acquisition order, and the number of local candidates.  [kinds]: the resource kinds in
   acquisition order (0 host 1 tcpmux 2 srflx 3 relay); [per_cand]: resources per live candidate
   of the scenario's site.  [phase] of a checkpoint: 1 gathering finished, agent running;
   2 after Restart and wind-down, before a new cycle; 3 after Close returned and wind-down. *)
Definition C09_checkpoint_checks (phase : Z) (per_cand : Z) (prev cur : list (Z * Z)) (ncands : Z) : checks :=
  let opens := Z.of_nat (length (filter (fun p => Z.eqb (fst p) 1) cur)) in
  [ ("never_reopened"%string,
       forallb (fun pq => negb (Z.eqb (fst (fst pq)) 0) || Z.eqb (fst (snd pq)) 0) (combine prev cur));
    ("tallies_monotone"%string,
       Nat.leb (length prev) (length cur)
       && forallb (fun pq => Z.leb (snd (fst pq)) (snd (snd pq))) (combine prev cur));
    ("closed_implies_called"%string, forallb (fun p => Z.eqb (fst p) 1 || Z.leb 1 (snd p)) cur);
    ("close_calls_bounded"%string, forallb (fun p => Z.leb (snd p) 2) cur);
    ("open_matches_candidates"%string,
       if Z.eqb phase 1 then Z.eqb opens (per_cand * ncands)%Z else true);
    ("zero_open_after_restart"%string, if Z.eqb phase 2 then Z.eqb opens 0 else true);
    ("zero_open_after_close"%string, if Z.eqb phase 3 then Z.eqb opens 0 && Z.eqb ncands 0 else true) ].

Fixpoint C09_run_checks (per_cand : Z) (prev : list (Z * Z)) (cps : list (Z * (list (Z * Z) * Z))) : checks :=
  match cps with
  | [] => []
  | (phase, (cur, nc)) :: t => C09_checkpoint_checks phase per_cand prev cur nc ++ C09_run_checks per_cand cur t
  end.
Definition C09_checks (per_cand : Z) (cps : list (Z * (list (Z * Z) * Z))) : checks := C09_run_checks per_cand [] cps.
