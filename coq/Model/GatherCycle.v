(* C11, gathering-cycle part: what the candidate stream carries for a history of gather cycles.

   Executable spec of the loop tasks that feed the candidate notifier, as they are in /repo:
     GatherCandidates   (agent.gatherCandidateCancel(); new cycle context)   [GStart]
     setGatheringState(ctx, Gathering)   -- dropped when ctx is already cancelled
     addCandidate(ctx, cand)             [GAdd]: ctx.Err() is checked before loop.Run and (since
                                          commit "re-check the gathering context inside the
                                          addCandidate task") again inside the task, which
                                          stamps the candidate with the CURRENT localUfrag and
                                          enqueues it
     Restart                             [GRestart]: cancels the cycle context, new ufrag
                                          generation, gatheringState := New
     setGatheringState(ctx, Complete)    [GFinish]: dropped when ctx is cancelled; enqueues the
                                          nil candidate on the edge to Complete
   Tasks are atomic here because they run on the task loop (C10_serial).
   [GTrap id ok]: an addCandidate of the current cycle whose context is cancelled by a Restart
   AFTER its ctx.Err() pre-check and before loop.Run's select.  Go's select may then still
   take the send branch (C10: TSend is enabled whether or not the context is cancelled):
   ok = true is that outcome, ok = false the <-ctx.Done() branch.  The flag [recheck] says
   whether the task re-checks ctx.Err() (as setGatheringState does): with it the task adds
   nothing and addCandidate returns the context's error.  recheck = true is /repo's current
   code; recheck = false is the code before that fix, kept to state what the defect was
   (Findings/F_C11_stale_candidate.v).
   No proofs in this file. *)
From Coq Require Import Arith Bool List String.
Import ListNotations.
From Ice Require Import Model.PrioSpec.

Inductive gop :=
| GStart
| GAdd (id : nat)
| GTrap (id : nat) (ok : bool)
| GRestart
| GFinish.

Inductive gstate := GNew | GGathering | GComplete.

Inductive gevent :=
| GCand (id cyc gen : nat)   (* candidate id, submitted by cycle cyc, carrying generation gen's ufrag *)
| GNil (cyc : nat).          (* the nil candidate, enqueued by cycle cyc's setGatheringState *)

Inductive gres := RAdded (b : bool) | RApplied (b : bool) | RNone.

Record gst := mk_g {
  g_gen : nat;            (* ufrag generation (number of Restarts) *)
  g_cyc : nat;            (* number of cycles started; the current cycle is g_cyc *)
  g_live : bool;          (* the current cycle's context is not cancelled *)
  g_state : gstate;
  g_cycgen : nat -> nat   (* ghost: generation in which cycle c was started *)
}.

Definition g_init : gst := mk_g 0 0 false GNew (fun _ => 0).

Definition gstate_eqb (a b : gstate) : bool :=
  match a, b with GNew, GNew | GGathering, GGathering | GComplete, GComplete => true | _, _ => false end.

Definition g_restart (s : gst) : gst := mk_g (S (g_gen s)) (g_cyc s) false GNew (g_cycgen s).

Definition gstep (recheck : bool) (s : gst) (o : gop) : gst * gres * list gevent :=
  match o with
  | GStart =>
      let c := S (g_cyc s) in
      (mk_g (g_gen s) c true GGathering (fun x => if Nat.eqb x c then g_gen s else g_cycgen s x), RNone, [])
  | GAdd id =>
      if g_live s then (s, RAdded true, [GCand id (g_cyc s) (g_gen s)])
      else (s, RAdded false, [])
  | GTrap id ok =>
      if g_live s then
        let s' := g_restart s in
        if ok && negb recheck then (s', RAdded true, [GCand id (g_cyc s) (g_gen s')])
        else (s', RAdded false, [])
      else (s, RAdded false, [])
  | GRestart => (g_restart s, RNone, [])
  | GFinish =>
      if g_live s then
        (mk_g (g_gen s) (g_cyc s) (g_live s) GComplete (g_cycgen s), RApplied true,
         if gstate_eqb (g_state s) GComplete then [] else [GNil (g_cyc s)])
      else (s, RApplied false, [])
  end.

Fixpoint grun (recheck : bool) (s : gst) (ops : list gop) : gst * list gres * list gevent :=
  match ops with
  | [] => (s, [], [])
  | o :: ops' =>
      let '(s1, r, ev) := gstep recheck s o in
      let '(s2, rs, evs) := grun recheck s1 ops' in
      (s2, r :: rs, ev ++ evs)
  end.

Definition gtrace (recheck : bool) (ops : list gop) : list gevent := snd (grun recheck g_init ops).

(* the harness only issues operations that the public API allows in that state: a cycle is
   started only from GNew (GatherCandidates refuses otherwise), adds / finish need a cycle *)
Fixpoint gwf (s : gst) (ops : list gop) : bool :=
  match ops with
  | [] => true
  | o :: ops' =>
      (match o with
       | GStart => gstate_eqb (g_state s) GNew
       | GAdd _ | GTrap _ _ | GFinish => Nat.ltb 0 (g_cyc s)
       | GRestart => true
       end) && gwf (fst (fst (gstep false s o))) ops'
  end.

(* ---- the monitor: the property over the observed candidate stream --------------------------- *)
(* [cycgen c]: the ufrag generation in which cycle c was started (known to the harness);
   [completed c]: the harness saw cycle c's setGatheringState(Complete) applied. *)
Definition is_nil_of (c : nat) (e : gevent) : bool := match e with GNil c' => Nat.eqb c c' | _ => false end.
Definition is_cand_of (c : nat) (e : gevent) : bool := match e with GCand _ c' _ => Nat.eqb c c' | _ => false end.

Fixpoint after_first (p : gevent -> bool) (l : list gevent) : list gevent :=
  match l with [] => [] | e :: l' => if p e then l' else after_first p l' end.

Definition gcount (p : gevent -> bool) (l : list gevent) : nat := List.length (filter p l).

Definition cand_carries_cycle_ufrag (cycgen : nat -> nat) (tr : list gevent) : bool :=
  forallb (fun e => match e with GCand _ c g => Nat.eqb g (cycgen c) | GNil _ => true end) tr.

Definition one_nil_per_completed_cycle (completed : list nat) (tr : list gevent) : bool :=
  forallb (fun c => Nat.eqb (gcount (is_nil_of c) tr) 1) completed.

Definition no_nil_for_other_cycles (ncyc : nat) (completed : list nat) (tr : list gevent) : bool :=
  forallb (fun c => if existsb (Nat.eqb c) completed then true else Nat.eqb (gcount (is_nil_of c) tr) 0)
          (seq 0 (S ncyc)).

Definition nil_after_cycle_candidates (ncyc : nat) (tr : list gevent) : bool :=
  forallb (fun c => Nat.eqb (gcount (is_cand_of c) (after_first (is_nil_of c) tr)) 0) (seq 0 (S ncyc)).

Definition C11_gather_checks (cycgen : nat -> nat) (ncyc : nat) (completed : list nat) (tr : list gevent) : checks :=
  [ ("candidate_carries_cycle_ufrag"%string, cand_carries_cycle_ufrag cycgen tr);
    ("one_nil_per_completed_cycle"%string, one_nil_per_completed_cycle completed tr);
    ("no_nil_for_cancelled_cycle"%string, no_nil_for_other_cycles ncyc completed tr);
    ("nil_after_cycle_candidates"%string, nil_after_cycle_candidates ncyc tr) ].

(* what the harness derives from its own script and the observed results: the cycles whose
   Complete was applied, and each cycle's generation *)
Fixpoint completed_cycles (s : gst) (ops : list gop) (rs : list gres) : list nat :=
  match ops, rs with
  | o :: ops', r :: rs' =>
      let s1 := fst (fst (gstep false s o)) in
      match o, r with
      | GFinish, RApplied true => g_cyc s :: completed_cycles s1 ops' rs'
      | _, _ => completed_cycles s1 ops' rs'
      end
  | _, _ => []
  end.

Definition dedup_nat (l : list nat) : list nat :=
  fold_right (fun x acc => if existsb (Nat.eqb x) acc then acc else x :: acc) [] l.
