(* C17: the RFC 8445 / RFC 6544 priority formulas, written independently of the code
   (literal tables), and the executable monitors that decide C17 on observed values. *)
From Coq Require Import ZArith Bool String List.
Import ListNotations.
Local Open Scope Z_scope.

(* enum encodings as in the Go source (checked against Gen/Consts.v in Proofs/PrioProofs.v) *)
Definition cand_types : list Z := [0; 1; 2; 3; 4].   (* unspecified host srflx prflx relay *)
Definition net_types : list Z := [1; 2; 3; 4].       (* udp4 udp6 tcp4 tcp6 *)
Definition tcp_types : list Z := [0; 1; 2; 3].       (* unspecified active passive so *)

Definition rfc_type_pref (ty : Z) : Z :=
  if ty =? 1 then 126 else if ty =? 3 then 110 else if ty =? 2 then 100 else 0.
Definition is_tcp (nt : Z) : bool := (nt =? 3) || (nt =? 4).
Definition default_offset : Z := 27.

Definition eff_offset (has_agent : bool) (off : Z) : Z := if has_agent then off else default_offset.

(* "reduced by the configured TCP offset", a preference being 0..126 *)
Definition spec_type_pref (ty nt : Z) (has_agent : bool) (off : Z) : Z :=
  let p := rfc_type_pref ty in
  if is_tcp nt then Z.max 0 (p - eff_offset has_agent off) else p.

(* RFC 6544 4.2 *)
Definition spec_direction_pref (ty tcp : Z) : Z :=
  if (ty =? 1) || (ty =? 4) then
    (if tcp =? 1 then 6 else if tcp =? 2 then 4 else if tcp =? 3 then 2 else 0)
  else if (ty =? 3) || (ty =? 2) then
    (if tcp =? 3 then 6 else if tcp =? 1 then 4 else if tcp =? 2 then 2 else 0)
  else 0.

Definition spec_relay_pref (proto : string) : Z :=
  if String.eqb proto "tls" then 0 else if String.eqb proto "tcp" then 1
  else if String.eqb proto "dtls" then 2 else 3.

Definition spec_local_pref (ty nt tcp relayPref : Z) : Z :=
  if ty =? 4 then relayPref
  else if is_tcp nt then 8192 * spec_direction_pref ty tcp + 8191
  else 65535.

Definition spec_priority (tp lp comp : Z) : Z := 2 ^ 24 * tp + 2 ^ 8 * lp + (256 - comp).

Definition spec_pair_priority (g d : Z) : Z :=
  (2 ^ 32 - 1) * Z.min g d + 2 * Z.max g d + (if Z.ltb d g then 1 else 0).

Definition mem (x : Z) (l : list Z) : bool := existsb (Z.eqb x) l.

(* Monitors are lists of named checks; a monitor holds when every check does.  The names of
   the failing checks are what bin/check reports (and what a known finding is keyed on). *)
Definition checks := list (string * bool).
Definition all_ok (c : checks) : bool := forallb snd c.
Definition failed (c : checks) : list string := map fst (filter (fun p => negb (snd p)) c).

(* Monitor for one observed candidate: inputs and the three observed values. *)
Definition C17_cand_checks (ty nt tcp : Z) (proto : string) (has_agent : bool) (off comp : Z)
           (tp lp prio : Z) : checks :=
  let in_dom := mem ty cand_types && mem nt net_types && mem tcp tcp_types
                && (0 <=? off) && (off <? 65536) && (0 <=? comp) && (comp <=? 65535) in
  if negb in_dom then [] else
  [ ("type_pref_formula"%string, tp =? spec_type_pref ty nt has_agent off);
    ("type_pref_range"%string, (0 <=? tp) && (tp <=? 126));
    ("local_pref_formula"%string, lp =? spec_local_pref ty nt tcp (spec_relay_pref proto));
    ("priority_range"%string, (0 <=? prio) && (prio <=? 2147483647));
    ("priority_positive"%string, if (1 <=? comp) && (comp <=? 255) then 1 <=? prio else true);
    ("priority_formula"%string, if comp <=? 256 then prio =? spec_priority tp lp comp else true) ].

Definition C17_cand_monitor ty nt tcp proto has_agent off comp tp lp prio : bool :=
  all_ok (C17_cand_checks ty nt tcp proto has_agent off comp tp lp prio).

(* Monitor for an observed pair priority, given the two candidate priorities (uint32). *)
Definition C17_pair_checks (controlling : bool) (l r : Z) (p : Z) : checks :=
  if negb ((0 <=? l) && (l <? 2 ^ 32) && (0 <=? r) && (r <? 2 ^ 32)) then [] else
  [ ("pair_formula"%string, p =? (if controlling then spec_pair_priority l r else spec_pair_priority r l));
    ("pair_range"%string, (0 <=? p) && (p <? 2 ^ 64)) ].

Definition C17_pair_monitor controlling l r p : bool := all_ok (C17_pair_checks controlling l r p).
