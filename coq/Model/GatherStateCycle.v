(* C18 (cycle part): the gathering-state machine of gather.go GatherCandidates / gatherCandidates,
   agent.go Restart / setGatheringState / addCandidate and the loop's onClose, as an
   interleaving transition system, plus an executable acceptor for scripted schedules and the
   cycle MONITOR.  Executable Gallina only (no proofs).

   One gather goroutine exists per ACCEPTED GatherCandidates call (ids = creation order, so the
   number of goroutines is unbounded).  Each atomic action below is one task on the agent's
   task loop (tasks are serial) or one step of a gather goroutine between two tasks. *)
From Coq Require Import ZArith Bool String List.
From Ice Require Import Model.PrioSpec.
Import ListNotations.
Local Open Scope Z_scope.

(* pc: 0 spawned (before its setGatheringState(Gathering) task)
       1 gathering (Gathering applied; gatherCandidatesInternal running)
       2 internal gathering finished (before its setGatheringState(Complete) task)
       3 finished (done channel closed) *)
Record gor := mkGor {
  g_pc : nat;
  g_cancelled : bool;     (* its context was cancelled *)
  g_gen : nat;            (* generation (number of Restarts before it was started) *)
  g_passed : bool;        (* an addCandidate of it passed the ctx.Err() check, task not yet run *)
  g_nils : nat;           (* nil candidates it caused *)
  g_sets : nat            (* applied state writes *)
}.

Record cyc := mkCyc {
  y_state : Z;                 (* gatheringState: 1 New 2 Gathering 3 Complete *)
  y_gen : nat;                 (* number of Restarts so far *)
  y_handler : bool;            (* OnCandidate handler installed *)
  y_closed : bool;
  y_gors : list gor;
  y_pubs : list (nat * nat)    (* (goroutine, generation at publication) for each published candidate *)
}.

Definition cyc_init : cyc := mkCyc 1 O false false [] [].

Fixpoint upd_gor (l : list gor) (k : nat) (f : gor -> gor) : list gor :=
  match l, k with
  | [], _ => []
  | g :: t, O => f g :: t
  | g :: t, S k' => g :: upd_gor t k' f
  end.
Definition cancel (g : gor) : gor := mkGor (g_pc g) true (g_gen g) (g_passed g) (g_nils g) (g_sets g).
Definition cancel_all (l : list gor) : list gor := map cancel l.
Definition set_pc (pc : nat) (g : gor) : gor := mkGor pc (g_cancelled g) (g_gen g) false (g_nils g) (g_sets g).
Definition set_passed (b : bool) (g : gor) : gor := mkGor (g_pc g) (g_cancelled g) (g_gen g) b (g_nils g) (g_sets g).

Inductive action :=
| AOnCandidate                      (* API: install the handler *)
| AGather                           (* API: GatherCandidates (its task on the loop) *)
| ARestart                          (* API: Restart (its task) *)
| AClose                            (* API: Close: loop closed, every context cancelled *)
| ASetGathering (k : nat)           (* goroutine k: its setGatheringState(Gathering) task, or loop closed *)
| AAddCheck (k : nat)               (* goroutine k: addCandidate's ctx.Err() check passes *)
| AAddRun (k : nat)                 (* goroutine k: loop.Run's select sends; the task publishes *)
| AAddAbort (k : nat)               (* goroutine k: loop.Run's select takes ctx.Done / loop done *)
| AInternalDone (k : nat)           (* goroutine k: gatherCandidatesInternal returned *)
| ASetComplete (k : nat).           (* goroutine k: its setGatheringState(Complete) task, or loop closed *)

Definition with_gors (s : cyc) (st : Z) (l : list gor) (pubs : list (nat * nat)) : cyc :=
  mkCyc st (y_gen s) (y_handler s) (y_closed s) l pubs.

(* [recheck]: does the addCandidate task re-check the gather context on the loop?  It does not in
   the pinned code (only setGatheringState does).
   The Z is the result reported to the caller of an API action: 0 ok, 1
   ErrMultipleGatherAttempted, 2 ErrNoOnCandidateHandler, 3 ErrClosed; hidden actions give 0. *)
Definition apply (recheck : bool) (a : action) (s : cyc) : option (cyc * Z) :=
  let gors := y_gors s in
  match a with
  | AOnCandidate => Some (mkCyc (y_state s) (y_gen s) true (y_closed s) gors (y_pubs s), 0)
  | AGather =>
    if y_closed s then Some (s, 3)
    else if negb (y_state s =? 1) then Some (s, 1)
    else if negb (y_handler s) then Some (s, 2)
    else Some (with_gors s (y_state s) (cancel_all gors ++ [mkGor 0 false (y_gen s) false 0 0]) (y_pubs s), 0)
  | ARestart =>
    if y_closed s then Some (s, 3)
    else Some (mkCyc 1 (S (y_gen s)) (y_handler s) false (cancel_all gors) (y_pubs s), 0)
  | AClose =>
    Some (mkCyc (y_state s) (y_gen s) (y_handler s) true (cancel_all gors) (y_pubs s), 0)
  | ASetGathering k =>
    match nth_error gors k with
    | Some g =>
      if negb (Nat.eqb (g_pc g) 0) then None
      else if g_cancelled g || y_closed s
      then Some (with_gors s (y_state s) (upd_gor gors k (set_pc 3)) (y_pubs s), 0)
      else Some (with_gors s 2
                   (upd_gor gors k (fun g => mkGor 1 false (g_gen g) false (g_nils g) (S (g_sets g))))
                   (y_pubs s), 0)
    | None => None
    end
  | AAddCheck k =>
    match nth_error gors k with
    | Some g =>
      if Nat.eqb (g_pc g) 1 && negb (g_cancelled g) && negb (g_passed g) && negb (y_closed s)
      then Some (with_gors s (y_state s) (upd_gor gors k (set_passed true)) (y_pubs s), 0)
      else None
    | None => None
    end
  | AAddRun k =>
    match nth_error gors k with
    | Some g =>
      if g_passed g && negb (y_closed s) && negb (recheck && g_cancelled g)
      then Some (with_gors s (y_state s) (upd_gor gors k (set_passed false)) ((k, y_gen s) :: y_pubs s), 0)
      else None
    | None => None
    end
  | AAddAbort k =>
    match nth_error gors k with
    | Some g =>
      if g_passed g && (g_cancelled g || y_closed s)
      then Some (with_gors s (y_state s) (upd_gor gors k (set_passed false)) (y_pubs s), 0)
      else None
    | None => None
    end
  | AInternalDone k =>
    match nth_error gors k with
    | Some g =>
      if Nat.eqb (g_pc g) 1 && negb (g_passed g)
      then Some (with_gors s (y_state s) (upd_gor gors k (set_pc 2)) (y_pubs s), 0)
      else None
    | None => None
    end
  | ASetComplete k =>
    match nth_error gors k with
    | Some g =>
      if negb (Nat.eqb (g_pc g) 2) then None
      else if g_cancelled g || y_closed s
      then Some (with_gors s (y_state s) (upd_gor gors k (set_pc 3)) (y_pubs s), 0)
      else Some (with_gors s 3
                   (upd_gor gors k (fun g => mkGor 3 false (g_gen g) false
                                               (if y_state s =? 3 then g_nils g else S (g_nils g))
                                               (S (g_sets g))))
                   (y_pubs s), 0)
    | None => None
    end
  end.

(* the transition system: every interleaving of API calls and goroutine steps *)
Definition step (recheck : bool) (s s' : cyc) : Prop := exists a r, apply recheck a s = Some (s', r).
Inductive reach (recheck : bool) : cyc -> Prop :=
| reach_init : reach recheck cyc_init
| reach_step : forall s s', reach recheck s -> step recheck s s' -> reach recheck s'.

(* --- executable acceptor for scripted schedules --------------------------------------
   The harness drives the real agent from one goroutine and controls the gather goroutines
   with a gate inside the fake Net's Interfaces() (reached from gatherCandidatesLocal, i.e.
   with pc = 1).  Script operations:
     0 OnCandidate   1 GatherCandidates   2 Restart   3 GetGatheringState
     4 settle with the gate closed: every gather goroutine is parked at the gate or done
     5 settle with the gate open: every gather goroutine is done
     6 open the gate, Close
   Observations: API result code; for 3 the state (0 when closed); for 4/5
   "state nils_total parked local_candidates".  The acceptor keeps the set of model states
   compatible with the observations so far, closed under hidden actions (tau-closure).  While the
   gate is closed a goroutine stays at pc 1.  Candidate publication is not part of the acceptor's
   alphabet (the add actions do not change what a script observes) except through the number of
   local candidates, which is [n] after a completed cycle and 0 otherwise when no stale
   publication happened. *)
Record astate := mkAstate { t_cyc : cyc; t_open : bool }.

Definition hidden_succ (recheck : bool) (s : astate) : list astate :=
  let ks := seq 0 (length (y_gors (t_cyc s))) in
  let acts := flat_map (fun k =>
      [ASetGathering k] ++ (if t_open s then [AInternalDone k; ASetComplete k] else [])) ks in
  flat_map (fun a => match apply recheck a (t_cyc s) with
                     | Some (c, _) => [mkAstate c (t_open s)]
                     | None => [] end) acts.

Definition gor_eqb (a b : gor) : bool :=
  Nat.eqb (g_pc a) (g_pc b) && Bool.eqb (g_cancelled a) (g_cancelled b) && Nat.eqb (g_gen a) (g_gen b)
  && Bool.eqb (g_passed a) (g_passed b) && Nat.eqb (g_nils a) (g_nils b) && Nat.eqb (g_sets a) (g_sets b).
Fixpoint gors_eqb (x y : list gor) : bool :=
  match x, y with
  | [], [] => true
  | a :: x', b :: y' => gor_eqb a b && gors_eqb x' y'
  | _, _ => false
  end.
Definition astate_eqb (a b : astate) : bool :=
  (y_state (t_cyc a) =? y_state (t_cyc b)) && Nat.eqb (y_gen (t_cyc a)) (y_gen (t_cyc b))
  && Bool.eqb (y_handler (t_cyc a)) (y_handler (t_cyc b)) && Bool.eqb (y_closed (t_cyc a)) (y_closed (t_cyc b))
  && gors_eqb (y_gors (t_cyc a)) (y_gors (t_cyc b)) && Bool.eqb (t_open a) (t_open b).

Definition add_new (l : list astate) (s : astate) : list astate :=
  if existsb (astate_eqb s) l then l else l ++ [s].

(* Partial-order reduction: the first hidden step of a goroutine whose context was cancelled before
   it started (its setGatheringState(Gathering) is dropped and it ends) commutes with everything
   the scripts observe, so it is fired eagerly ([norm]) instead of being explored in every order.
   (Steps that depend on the gate are NOT reduced: where a cancelled goroutine stands when the gate
   closes is observable as "parked".) *)
Definition cancelled_acts (s : astate) : list action :=
  flat_map (fun k =>
    match nth_error (y_gors (t_cyc s)) k with
    | Some g =>
      if g_cancelled g || y_closed (t_cyc s)
      then [ASetGathering k]
      else []
    | None => []
    end) (seq 0 (length (y_gors (t_cyc s)))).
Fixpoint first_app (recheck : bool) (s : astate) (acts : list action) : option astate :=
  match acts with
  | [] => None
  | a :: t => match apply recheck a (t_cyc s) with
              | Some (c, _) => Some (mkAstate c (t_open s))
              | None => first_app recheck s t
              end
  end.
Fixpoint norm_fuel (recheck : bool) (fuel : nat) (s : astate) : astate :=
  match fuel with
  | O => s
  | S f => match first_app recheck s (cancelled_acts s) with
           | Some s' => norm_fuel recheck f s'
           | None => s
           end
  end.
Definition norm (recheck : bool) (s : astate) : astate :=
  norm_fuel recheck (3 * S (length (y_gors (t_cyc s)))) s.

Fixpoint closure (recheck : bool) (fuel : nat) (l : list astate) : list astate :=
  match fuel with
  | O => l
  | S f =>
    let l' := fold_left add_new (map (norm recheck) (flat_map (hidden_succ recheck) l)) l in
    if Nat.eqb (length l') (length l) then l else closure recheck f l'
  end.
Definition closure_fuel (l : list astate) : nat :=
  S (fold_left Nat.max (map (fun s => 4 * S (length (y_gors (t_cyc s))))%nat l) O).
Definition tau (recheck : bool) (l : list astate) : list astate :=
  closure recheck (closure_fuel l) (fold_left add_new (map (norm recheck) l) []).

Definition quiescent (recheck : bool) (s : astate) : bool :=
  match hidden_succ recheck s with [] => true | _ => false end.

Definition nils_total (c : cyc) : Z := Z.of_nat (fold_left Nat.add (map g_nils (y_gors c)) O).
Definition parked (c : cyc) : Z :=
  Z.of_nat (length (filter (fun g => Nat.eqb (g_pc g) 1) (y_gors c))).
Definition obs_state (c : cyc) : Z := if y_closed c then 0 else y_state c.
Definition obs_local (n : Z) (c : cyc) : Z := if y_closed c then 0 else if y_state c =? 3 then n else 0.

Definition api_step (recheck : bool) (a : action) (res : Z) (l : list astate) : list astate :=
  flat_map (fun s => match apply recheck a (t_cyc s) with
                     | Some (c, r) => if r =? res then [mkAstate c (t_open s)] else []
                     | None => [] end) (tau recheck l).

Definition set_gate (o : bool) (l : list astate) : list astate := map (fun s => mkAstate (t_cyc s) o) l.

Definition settle_ok (recheck : bool) (n st nl pk lc : Z) (s : astate) : bool :=
  quiescent recheck s && (obs_state (t_cyc s) =? st) && (nils_total (t_cyc s) =? nl)
  && (parked (t_cyc s) =? pk) && (obs_local n (t_cyc s) =? lc).

(* one scripted operation with its observation; returns the compatible states *)
Definition accept_op (recheck : bool) (n : Z) (op : Z) (obs : list Z) (l : list astate) : list astate :=
  match op, obs with
  | 0, [r] => api_step recheck AOnCandidate r l
  | 1, [r] => api_step recheck AGather r l
  | 2, [r] => api_step recheck ARestart r l
  | 6, [r] => api_step recheck AClose r (set_gate true l)
  | 3, [st] => filter (fun s => obs_state (t_cyc s) =? st) (tau recheck l)
  | 4, [st; nl; pk; lc] =>
    (* hidden steps taken while the gate was still in its previous position come first *)
    filter (settle_ok recheck n st nl pk lc) (tau recheck (set_gate false (tau recheck l)))
  | 5, [st; nl; pk; lc] => filter (settle_ok recheck n st nl pk lc) (tau recheck (set_gate true l))
  | _, _ => []
  end.

Definition accept_init : list astate := [mkAstate cyc_init true].

(* the observation the model itself predicts for an operation when exactly one state is
   compatible (used to print the model side of a disagreement) *)
Definition predict_op (recheck : bool) (n : Z) (op : Z) (l : list astate) : list (list Z) :=
  let dedup := fold_left (fun acc o => if existsb (fun o' => if list_eq_dec Z.eq_dec o o' then true else false) acc
                                        then acc else acc ++ [o]) in
  match op with
  | 0 => dedup (flat_map (fun s => match apply recheck AOnCandidate (t_cyc s) with Some (_, r) => [[r]] | None => [] end) (tau recheck l)) []
  | 1 => dedup (flat_map (fun s => match apply recheck AGather (t_cyc s) with Some (_, r) => [[r]] | None => [] end) (tau recheck l)) []
  | 2 => dedup (flat_map (fun s => match apply recheck ARestart (t_cyc s) with Some (_, r) => [[r]] | None => [] end) (tau recheck l)) []
  | 6 => [[0]]
  | 3 => dedup (map (fun s => [obs_state (t_cyc s)]) (tau recheck l)) []
  | 4 => dedup (map (fun s => [obs_state (t_cyc s); nils_total (t_cyc s); parked (t_cyc s); obs_local n (t_cyc s)])
                    (filter (quiescent recheck) (tau recheck (set_gate false (tau recheck l))))) []
  | 5 => dedup (map (fun s => [obs_state (t_cyc s); nils_total (t_cyc s); parked (t_cyc s); obs_local n (t_cyc s)])
                    (filter (quiescent recheck) (tau recheck (set_gate true l)))) []
  | _ => []
  end.

(* --- the cycle MONITOR: the property over the scripted observations alone -----------------
   It follows only what the API calls returned and what the settle points showed. *)
Record cmon := mkCmon {
  m_known : option Z;       (* the state shown by the last settle, while nothing can have changed it *)
  m_nils : Z;               (* nil candidates counted at the last settle *)
  m_acc_era : Z;            (* GatherCandidates calls accepted since the last Restart (or creation) *)
  m_eras : Z;               (* eras (stretches between Restarts) with at least one accepted call *)
  m_left_new : bool;        (* this era, a settle or GetGatheringState showed Gathering or Complete *)
  m_closed : bool;
  m_checks : checks
}.
Definition cmon_init : cmon := mkCmon (Some 1) 0 0 0 false false [].

Definition settle_checks (m : cmon) (n st nl pk lc : Z) (gate_open : bool) : checks :=
  if st =? 0 then [("closed_state_only_after_close"%string, m_closed m)] else
  [ ("at_most_one_nil_per_cycle"%string, nl <=? m_eras m);
    ("nils_monotone"%string, m_nils m <=? nl);
    ("restart_returns_to_new"%string, if m_acc_era m =? 0 then st =? 1 else true);
    ("no_overlapping_cycles"%string,
       pk <=? (if 0 <? m_acc_era m then 1 else 0) + (m_eras m - (if 0 <? m_acc_era m then 1 else 0)));
    ("results_not_mixed"%string, if st =? 3 then lc =? n else lc =? 0) ]
  ++ (if gate_open
      then [ ("cycle_completes"%string, if 0 <? m_acc_era m then st =? 3 else true);
             ("all_wound_down"%string, pk =? 0) ]
      else [ ("gathering_while_parked"%string,
                if (0 <? m_acc_era m) && negb (st =? 3) then (st =? 2) else true) ]).

Definition cmon_step (n : Z) (m : cmon) (op : Z) (obs : list Z) : cmon :=
  match op, obs with
  | 1, [r] =>
    let c := [("refused_after_leaving_new"%string, if m_left_new m then negb (r =? 0) else true);
              ("closed_refuses"%string, if m_closed m then r =? 3 else negb (r =? 3))] in
    if r =? 0
    then mkCmon None (m_nils m) (m_acc_era m + 1) (if m_acc_era m =? 0 then m_eras m + 1 else m_eras m)
                (m_left_new m) (m_closed m) (m_checks m ++ c)
    else mkCmon (m_known m) (m_nils m) (m_acc_era m) (m_eras m) (m_left_new m) (m_closed m) (m_checks m ++ c)
  | 2, [r] =>
    let c := [("closed_refuses"%string, if m_closed m then r =? 3 else r =? 0)] in
    if r =? 0 then mkCmon (Some 1) (m_nils m) 0 (m_eras m) false (m_closed m) (m_checks m ++ c)
    else mkCmon (m_known m) (m_nils m) (m_acc_era m) (m_eras m) (m_left_new m) (m_closed m) (m_checks m ++ c)
  | 3, [st] =>
    let c := [("state_stable"%string,
               if st =? 0 then m_closed m else match m_known m with Some k => st =? k | None => true end)] in
    mkCmon (m_known m) (m_nils m) (m_acc_era m) (m_eras m)
           (m_left_new m || ((st =? 2) || (st =? 3))) (m_closed m) (m_checks m ++ c)
  | 4, [st; nl; pk; lc] =>
    mkCmon (Some st) nl (m_acc_era m) (m_eras m) (m_left_new m || ((st =? 2) || (st =? 3))) (m_closed m)
           (m_checks m ++ settle_checks m n st nl pk lc false)
  | 5, [st; nl; pk; lc] =>
    mkCmon (Some st) nl (m_acc_era m) (m_eras m) (m_left_new m || ((st =? 2) || (st =? 3))) (m_closed m)
           (m_checks m ++ settle_checks m n st nl pk lc true)
  | 6, [r] => mkCmon (Some 0) (m_nils m) (m_acc_era m) (m_eras m) (m_left_new m) true (m_checks m)
  | _, _ => m
  end.

(* fold over a whole script; the result is the list of named checks *)
Fixpoint cmon_run (n : Z) (m : cmon) (script : list (Z * list Z)) : checks :=
  match script with
  | [] => m_checks m
  | (op, obs) :: t => cmon_run n (cmon_step n m op obs) t
  end.
Definition C18_cycle_checks (n : Z) (script : list (Z * list Z)) : checks := cmon_run n cmon_init script.

Fixpoint accept_run (recheck : bool) (n : Z) (l : list astate) (script : list (Z * list Z)) : bool :=
  match script with
  | [] => match l with [] => false | _ => true end
  | (op, obs) :: t => accept_run recheck n (accept_op recheck n op obs l) t
  end.
