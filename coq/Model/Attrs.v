(* C16 (second half): the ICE STUN attribute codecs
   priority.go (PriorityAttr), icecontrol.go (tiebreaker, AttrControlled, AttrControlling,
   AttrControl), usecandidate.go, renomination.go (NominationAttribute, NominationSetter),
   sped.go (DtlsInStunAttribute, DtlsInStunAckAttribute).

   A STUN message is, for these codecs, its ordered attribute list (type, value bytes):
   stun.Message.Add appends, Get returns the FIRST attribute of a type, Contains tests presence
   (pion/stun is trusted to implement that; the harness goes through real stun.Message values,
   encoded to bytes and decoded again).  Bytes are Z in 0..255.  No proofs here. *)
From Coq Require Import ZArith Bool String List.
From Ice Require Import Model.PrioSpec Model.CandVariant.
Import ListNotations.
Local Open Scope Z_scope.

Definition bytes := list Z.
Definition msg := list (Z * bytes).

Definition AttrPriority : Z := 36.            (* 0x0024 *)
Definition AttrUseCandidate : Z := 37.        (* 0x0025 *)
Definition AttrICEControlled : Z := 32809.    (* 0x8029 *)
Definition AttrICEControlling : Z := 32810.   (* 0x802A *)
Definition AttrDtlsInStun : Z := 49264.       (* 0xC070 *)
Definition AttrDtlsInStunAck : Z := 49265.    (* 0xC071 *)

Inductive aerr := A_not_found | A_size.
Inductive ares (A : Type) := AOk (a : A) | AErr (e : aerr).
Arguments AOk {A} a.
Arguments AErr {A} e.

Fixpoint get (m : msg) (t : Z) : option bytes :=
  match m with
  | [] => None
  | (t', v) :: r => if t' =? t then Some v else get r t
  end.
Definition contains (m : msg) (t : Z) : bool := match get m t with Some _ => true | None => false end.
Definition add (m : msg) (t : Z) (v : bytes) : msg := m ++ [(t, v)].

(* binary.BigEndian.PutUintNN / UintNN *)
Fixpoint be_bytes (n : nat) (v : Z) : bytes :=
  match n with
  | O => []
  | S k => (v / 256 ^ Z.of_nat k) mod 256 :: be_bytes k v
  end.
Fixpoint be_value_acc (acc : Z) (b : bytes) : Z :=
  match b with [] => acc | x :: r => be_value_acc (acc * 256 + x) r end.
Definition be_value (b : bytes) : Z := be_value_acc 0 b.

Definition len (b : bytes) : Z := Z.of_nat (List.length b).

(* stun.CheckSize *)
Definition fixed_size_get (m : msg) (t : Z) (size : Z) : ares Z :=
  match get m t with
  | None => AErr A_not_found
  | Some v => if len v =? size then AOk (be_value v) else AErr A_size
  end.

(* PRIORITY (uint32) *)
Definition priority_add (p : Z) (m : msg) : msg := add m AttrPriority (be_bytes 4 p).
Definition priority_get (m : msg) : ares Z := fixed_size_get m AttrPriority 4.

(* tiebreaker as attribute t (uint64) *)
Definition tiebreaker_add (t v : Z) (m : msg) : msg := add m t (be_bytes 8 v).
Definition tiebreaker_get (t : Z) (m : msg) : ares Z := fixed_size_get m t 8.

(* AttrControl {Role, Tiebreaker}; Role: Controlling = 0, Controlled = 1 *)
Definition control_add (role v : Z) (m : msg) : msg :=
  if role =? 0 then tiebreaker_add AttrICEControlling v m else tiebreaker_add AttrICEControlled v m.
Definition control_get (m : msg) : ares (Z * Z) :=
  if contains m AttrICEControlling then
    match tiebreaker_get AttrICEControlling m with AOk v => AOk (0, v) | AErr e => AErr e end
  else if contains m AttrICEControlled then
    match tiebreaker_get AttrICEControlled m with AOk v => AOk (1, v) | AErr e => AErr e end
  else AErr A_not_found.

(* USE-CANDIDATE *)
Definition use_candidate_add (m : msg) : msg := add m AttrUseCandidate [].
Definition use_candidate_is_set (m : msg) : bool := contains m AttrUseCandidate.

(* nomination (attribute type t, uint32 value, 24 bits on the wire) *)
Definition nomination_add (t v : Z) (m : msg) : msg :=
  add m t [0; (v / 65536) mod 256; (v / 256) mod 256; v mod 256].
Definition nomination_size_ok (l : Z) : bool :=
  if fix_nomination_size then l =? 4 else negb (l <? 4).
Definition nomination_get (t : Z) (m : msg) : ares Z :=
  match get m t with
  | None => AErr A_not_found
  | Some v =>
    if negb (nomination_size_ok (len v)) then AErr A_size
    else AOk (nth 1 v 0 * 65536 + nth 2 v 0 * 256 + nth 3 v 0)
  end.

(* DTLS-in-STUN: opaque bytes *)
Definition dtls_add (d : bytes) (m : msg) : msg := add m AttrDtlsInStun d.
Definition dtls_get (m : msg) : ares bytes :=
  match get m AttrDtlsInStun with None => AErr A_not_found | Some v => AOk v end.

(* DTLS-in-STUN-ACK: up to four uint32 *)
Definition ack_add (a : list Z) (m : msg) : ares msg :=
  if 4 <? Z.of_nat (List.length a) then AErr A_size
  else AOk (add m AttrDtlsInStunAck (flat_map (be_bytes 4) a)).
Fixpoint chunks4 (fuel : nat) (b : bytes) : list Z :=
  match fuel with
  | O => []
  | S f => match b with
           | b0 :: b1 :: b2 :: b3 :: r => be_value [b0; b1; b2; b3] :: chunks4 f r
           | _ => []
           end
  end.
Definition ack_get (m : msg) : ares (list Z) :=
  match get m AttrDtlsInStunAck with
  | None => AErr A_not_found
  | Some v =>
    if (16 <? len v) || negb (len v mod 4 =? 0) then AErr A_size
    else AOk (chunks4 (List.length v) v)
  end.

(* ---------------------------------------------------------------- one harness case:
   a message with the attributes [pre], optionally one AddTo, then GetFrom *)
Inductive akind :=
| K_prio | K_controlling | K_controlled | K_control | K_usec | K_nom (t : Z) | K_dtls | K_ack.

(* the encode argument: numbers (prio: [v]; controlling/controlled: [v]; control: [role; v];
   nom: [v]; ack: values) or bytes (dtls) *)
Definition encode (k : akind) (args : list Z) (m : msg) : ares msg :=
  match k with
  | K_prio => AOk (priority_add (nth 0 args 0) m)
  | K_controlling => AOk (tiebreaker_add AttrICEControlling (nth 0 args 0) m)
  | K_controlled => AOk (tiebreaker_add AttrICEControlled (nth 0 args 0) m)
  | K_control => AOk (control_add (nth 0 args 0) (nth 1 args 0) m)
  | K_usec => AOk (use_candidate_add m)
  | K_nom t => AOk (nomination_add t (nth 0 args 0) m)
  | K_dtls => AOk (dtls_add args m)
  | K_ack => ack_add args m
  end.

(* decoded value as a list of numbers (usec: [0/1], never an error) *)
Definition decode (k : akind) (m : msg) : ares (list Z) :=
  let one r := match r with AOk v => AOk [v] | AErr e => AErr e end in
  match k with
  | K_prio => one (priority_get m)
  | K_controlling => one (tiebreaker_get AttrICEControlling m)
  | K_controlled => one (tiebreaker_get AttrICEControlled m)
  | K_control => match control_get m with AOk (r, v) => AOk [r; v] | AErr e => AErr e end
  | K_usec => AOk [if use_candidate_is_set m then 1 else 0]
  | K_nom t => one (nomination_get t m)
  | K_dtls => dtls_get m
  | K_ack => ack_get m
  end.

Inductive attr_obs :=
| AO_panic
| AO_enc_err (e : aerr)                          (* AddTo refused *)
| AO_dec (m : msg) (r : ares (list Z)).          (* the message as decoded from its bytes, GetFrom's result *)

Definition attr_observe (k : akind) (pre : msg) (enc : option (list Z)) : attr_obs :=
  match enc with
  | None => AO_dec pre (decode k pre)
  | Some args =>
    match encode k args pre with
    | AErr e => AO_enc_err e
    | AOk m => AO_dec m (decode k m)
    end
  end.

(* ---------------------------------------------------------------- monitor *)

Fixpoint zlist_eqb (a b : list Z) : bool :=
  match a, b with
  | [], [] => true
  | x :: a', y :: b' => (x =? y) && zlist_eqb a' b'
  | _, _ => false
  end.

(* the attribute type GetFrom reads for a kind, given the message (control looks for either) *)
Definition kind_type (k : akind) (m : msg) : Z :=
  match k with
  | K_prio => AttrPriority | K_controlling => AttrICEControlling | K_controlled => AttrICEControlled
  | K_control => if contains m AttrICEControlling then AttrICEControlling else AttrICEControlled
  | K_usec => AttrUseCandidate | K_nom t => t | K_dtls => AttrDtlsInStun | K_ack => AttrDtlsInStunAck
  end.

(* the size rule of the wire format *)
Definition size_valid (k : akind) (l : Z) : bool :=
  match k with
  | K_prio => l =? 4
  | K_controlling | K_controlled | K_control => l =? 8
  | K_usec => true      (* presence flag: there is no decoder that could reject *)
  | K_nom _ => l =? 4
  | K_dtls => true
  | K_ack => (l <=? 16) && (l mod 4 =? 0)
  end.

(* the value the wire bytes denote *)
Definition denoted (k : akind) (m : msg) (v : bytes) : list Z :=
  match k with
  | K_prio | K_controlling | K_controlled => [be_value v]
  | K_control => [if contains m AttrICEControlling then 0 else 1; be_value v]
  | K_usec => [1]
  | K_nom _ => [be_value (skipn 1 v)]
  | K_dtls => v
  | K_ack => chunks4 (List.length v) v
  end.

(* the value AddTo was given, as GetFrom must return it *)
Definition expected (k : akind) (args : list Z) : list Z :=
  match k with
  | K_nom _ => [nth 0 args 0 mod 16777216]
  | K_usec => [1]
  | _ => args
  end.

Definition in_range_args (k : akind) (args : list Z) : bool :=
  match k with
  | K_prio => Nat.eqb (List.length args) 1 && (0 <=? nth 0 args 0) && (nth 0 args 0 <? 2 ^ 32)
  | K_controlling | K_controlled => Nat.eqb (List.length args) 1 && (0 <=? nth 0 args 0) && (nth 0 args 0 <? 2 ^ 64)
  | K_control => Nat.eqb (List.length args) 2 && ((nth 0 args 0 =? 0) || (nth 0 args 0 =? 1))
                 && (0 <=? nth 1 args 0) && (nth 1 args 0 <? 2 ^ 64)
  | K_usec => true
  | K_nom _ => Nat.eqb (List.length args) 1 && (0 <=? nth 0 args 0) && (nth 0 args 0 <? 2 ^ 32)
  | K_dtls => forallb (fun x => (0 <=? x) && (x <? 256)) args
  | K_ack => forallb (fun x => (0 <=? x) && (x <? 2 ^ 32)) args
  end.

Definition C16_attr_checks (k : akind) (pre : msg) (enc : option (list Z)) (o : attr_obs) : checks :=
  match o with
  | AO_panic => [("no_panic"%string, false)]
  | AO_enc_err _ =>
    (* only an ACK list of more than four values may be refused *)
    [("attr_encode_refused"%string,
      match k, enc with K_ack, Some a => 4 <? Z.of_nat (List.length a) | _, _ => false end)]
  | AO_dec m r =>
    let t := kind_type k m in
    (* sizes: GetFrom succeeds exactly on a present attribute of valid size, and then returns
       the value its bytes denote *)
    (match get m t, r with
     | None, AErr _ => match k with K_usec => [("attr_presence"%string, false)] | _ => [] end
     | None, AOk v => match k with
                      | K_usec => [("attr_presence"%string, zlist_eqb v [0])]
                      | _ => [("attr_absent_rejected"%string, false)]
                      end
     | Some v, AErr _ => [("attr_valid_size_accepted"%string, negb (size_valid k (len v)))]
     | Some v, AOk x => [("attr_wrong_size_rejected"%string, size_valid k (len v));
                         ("attr_value"%string, negb (size_valid k (len v)) || zlist_eqb x (denoted k m v))]
     end)
    ++
    (* round trip: what was encoded is what is decoded (when no earlier attribute of the
       type shadows it) *)
    (match enc with
     | Some args =>
       if in_range_args k args && negb (contains pre (kind_type k m))
          && match k with K_control => negb (contains pre AttrICEControlling) && negb (contains pre AttrICEControlled) | _ => true end
       then [("attr_roundtrip"%string, match r with AOk x => zlist_eqb x (expected k args) | AErr _ => false end)]
       else []
     | None => []
     end)
  end.
