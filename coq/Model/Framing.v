(* C14: ICE-TCP framing (RFC 4571, two-byte big-endian length prefix).
   Executable Gallina only (no proofs).

   What is modelled, function by function (sources: /repo/tcp_mux.go, tcp_packet_conn.go, active_tcp.go):
     conn_read              one call of net.Conn.Read on a byte stream that arrives in arbitrary chunks
     read_loop              the two loops `for bytesRead < N { n, err = conn.Read(buf[bytesRead:N]) ... }`
     read_packet            readStreamingPacket
     read_all               the reader loops that call it until the first error
                            (tcpPacketConn.startReading, the reader goroutine of newActiveTCPConn,
                             and - for a single packet, buffer 512 - TCPMuxDefault.handleConn)
     write_streaming_packet writeStreamingPacket
     buffered_write         bufferedConn.Write + bufferedConn.writeProcess (TCPMuxParams.WriteBufferSize > 0)
     pc_*                   tcpPacketConn.startReading/ReadFrom/WriteTo with one attached TCP conn
     act_*                  the reader/writer loops of activeTCPConn and its ReadFrom/WriteTo
   plus the specification side (frame, the chunk-free parser parse_all) and the monitors.

   Bytes are [ascii] (exactly 256 values).  Lengths are [nat]; the 16-bit header is an [N].
   Error codes ([Z]): 0 io.EOF, 1 io.ErrShortBuffer, 8 io.ErrClosedPipe, 9 any other library error
   (packetio "packet too big", the error of a fixed writeStreamingPacket), >= 10 errors scripted by
   the environment (the fake net.Conn of the harness). *)
From Coq Require Import ZArith NArith Bool String Ascii List Arith.
From Ice Require Import Model.PrioSpec Gen.Consts.
Import ListNotations.
Local Open Scope nat_scope.

Definition bytes := list ascii.

Definition err_eof : Z := 0%Z.
Definition err_short_buffer : Z := 1%Z.
Definition err_closed_pipe : Z := 8%Z.
Definition err_other : Z := 9%Z.

(* constants come from the generated file (regenerated from the Go source on every run) *)
Definition hdr_len : nat := Z.to_nat streamingPacketHeaderLen.
Definition mtu : nat := Z.to_nat receiveMTU.
Definition max_uint16 : N := 65535%N.

(* ---------- byte-level helpers ---------------------------------------------------------- *)

Fixpoint bytes_eqb (a b : bytes) : bool :=
  match a, b with
  | [], [] => true
  | x :: a', y :: b' => Ascii.eqb x y && bytes_eqb a' b'
  | _, _ => false
  end.

Fixpoint pkts_eqb (a b : list bytes) : bool :=
  match a, b with
  | [], [] => true
  | x :: a', y :: b' => bytes_eqb x y && pkts_eqb a' b'
  | _, _ => false
  end.

(* a is a prefix of b *)
Fixpoint pkts_prefix (a b : list bytes) : bool :=
  match a, b with
  | [], _ => true
  | x :: a', y :: b' => bytes_eqb x y && pkts_prefix a' b'
  | _ :: _, [] => false
  end.

(* a is a subsequence of b (same order) *)
Fixpoint pkts_subseq (a b : list bytes) : bool :=
  match b with
  | [] => match a with [] => true | _ => false end
  | y :: b' => match a with
               | [] => true
               | x :: a' => if bytes_eqb x y then pkts_subseq a' b' else pkts_subseq a b'
               end
  end.

Definition is_nil {A} (l : list A) : bool := match l with [] => true | _ => false end.

(* binary.BigEndian.PutUint16 / Uint16 *)
Definition put_uint16 (v : N) : bytes :=
  [ascii_of_N ((v / 256) mod 256); ascii_of_N (v mod 256)].
Definition get_uint16 (h : bytes) : N :=
  match h with
  | a :: b :: _ => (N_of_ascii a * 256 + N_of_ascii b)%N
  | _ => 0%N
  end.
(* Go: uint16(len(buf)) - the conversion wraps *)
Definition uint16_of_len (n : nat) : N := (N.of_nat n mod 65536)%N.

(* ---------- the environment: a TCP byte stream as the reader sees it ---------------------- *)

(* [chunks]: what successive Read calls can return at most (a Read never crosses a chunk
   boundary; a Read asking for less than the head chunk leaves the remainder as the new head).
   All chunks are non-empty for a well-formed stream ((0, nil) reads are outside the io.Reader
   contract of a net.Conn; an empty chunk makes conn_read return no data and the loops burn fuel,
   as the Go loops would spin).
   [tail], [ferr]: after the chunks the conn fails with [ferr] forever; if [tail] is non-empty
   the bytes of [tail] are handed out together with the error by the Read that exhausts them
   (n > 0 and err != nil in one call: allowed by io.Reader, not done by net.TCPConn).
   [reqs]: log of the sizes requested by the Read calls so far (latest first). *)
Record stream := mkStream { chunks : list bytes; tail : bytes; ferr : Z; reqs : list nat }.

Inductive rres := RData (d : bytes) | RErr (e : Z).

(* one conn.Read(p) with len(p) = k *)
Definition conn_read (k : nat) (s : stream) : rres * stream :=
  match chunks s with
  | c :: cs =>
      (RData (firstn k c),
       mkStream (match skipn k c with [] => cs | r => r :: cs end) (tail s) (ferr s) (k :: reqs s))
  | [] =>
      match skipn k (tail s) with
      | [] => (RErr (ferr s), mkStream [] [] (ferr s) (k :: reqs s))  (* (len tail, err): callers drop n *)
      | r => (RData (firstn k (tail s)), mkStream [] r (ferr s) (k :: reqs s))
      end
  end.

Definition stream_len (s : stream) : nat := length (concat (chunks s)) + length (tail s).

(* ---------- readStreamingPacket ---------------------------------------------------------- *)

Inductive lres := LDone (d : bytes) | LErr (e : Z) | LStuck.

(* for bytesRead < need { n, err = conn.Read(buf[bytesRead:need]); if err != nil { return 0, err }; bytesRead += n }
   [acc]: the pieces copied into buf so far, latest first (the loop is written with an accumulator
   so that the extracted code runs in constant stack).
   Fuel: every Read on a well-formed stream returns at least one byte, so [need] iterations suffice;
   LStuck (out of fuel) is excluded for well-formed streams by Proofs.FramingProofs.read_loop_spec. *)
Fixpoint read_loop (fuel need : nat) (acc : list bytes) (s : stream) : lres * stream :=
  match need with
  | 0 => (LDone (concat (rev_append acc [])), s)
  | _ =>
    match fuel with
    | 0 => (LStuck, s)
    | S f =>
      match conn_read need s with
      | (RErr e, s1) => (LErr e, s1)
      | (RData d, s1) => read_loop f (need - length d) (d :: acc) s1
      end
    end
  end.

(* result of readStreamingPacket(conn, buf) with cap(buf) = cap:
   POk d     = (len d, nil) and buf[:n] = d
   PShort n  = (n, io.ErrShortBuffer)   header consumed, body left in the stream
   PErr e    = (0, e)
   PStuck    = would not return *)
Inductive pres := POk (d : bytes) | PShort (len : nat) | PErr (e : Z) | PStuck.

Definition read_packet (cap : nat) (s : stream) : pres * stream :=
  match read_loop hdr_len hdr_len [] s with
  | (LErr e, s1) => (PErr e, s1)
  | (LStuck, s1) => (PStuck, s1)
  | (LDone h, s1) =>
      let len := N.to_nat (get_uint16 h) in
      if cap <? len then (PShort len, s1)
      else match read_loop len len [] s1 with
           | (LErr e, s2) => (PErr e, s2)
           | (LStuck, s2) => (PStuck, s2)
           | (LDone b, s2) => (POk b, s2)
           end
  end.

(* the reader loops: read packets until the first result that is not a packet.
   Fuel: a successful packet consumes at least the header, so S (stream_len s) iterations suffice
   (Proofs.FramingProofs.read_all_refines excludes PStuck-by-fuel for well-formed streams). *)
Fixpoint read_all (fuel cap : nat) (s : stream) : list bytes * pres * stream :=
  match fuel with
  | 0 => ([], PStuck, s)
  | S f =>
    match read_packet cap s with
    | (POk b, s1) => let '(ps, fin, s2) := read_all f cap s1 in (b :: ps, fin, s2)
    | (r, s1) => ([], r, s1)
    end
  end.

Definition read_fuel (s : stream) : nat := S (stream_len s).

(* ---------- specification side ------------------------------------------------------------ *)

(* RFC 4571 frame of a packet; none when the length does not fit 16 bits *)
Definition frame (p : bytes) : option bytes :=
  if (N.of_nat (length p) <=? max_uint16)%N then Some (put_uint16 (N.of_nat (length p)) ++ p) else None.

Definition frame_raw (p : bytes) : bytes := put_uint16 (N.of_nat (length p)) ++ p.

(* chunk-free reading of one frame from a flat byte string that ends with error e *)
Definition parse_one (cap : nat) (bs : bytes) (e : Z) : pres * bytes :=
  if length bs <? 2 then (PErr e, [])
  else
    let len := N.to_nat (get_uint16 (firstn 2 bs)) in
    if cap <? len then (PShort len, skipn 2 bs)
    else if length bs - 2 <? len then (PErr e, [])
    else (POk (firstn len (skipn 2 bs)), skipn (2 + len) bs).

Fixpoint parse_all (fuel cap : nat) (bs : bytes) (e : Z) : list bytes * pres * bytes :=
  match fuel with
  | 0 => ([], PStuck, bs)
  | S f =>
    match parse_one cap bs e with
    | (POk b, rest) => let '(ps, fin, r) := parse_all f cap rest e in (b :: ps, fin, r)
    | (r, rest) => ([], r, rest)
    end
  end.

(* the bytes of a stream that can be delivered without the final error *)
Definition content (s : stream) : bytes := concat (chunks s) ++ removelast (tail s).

(* ---------- implementation variants -------------------------------------------------------- *)

(* Three places where the pinned code departs from the property; each has the current behaviour and
   the behaviour after the proposed fix.  The theorems are stated with hypotheses on the variant;
   [current] is the pinned source; the correspondence driver reports which variant the implementation
   exhibits (ocaml/framing_main.ml), the monitors do not depend on it.
     v_reject_oversize : writeStreamingPacket returns an error, writing nothing, when len > 0xFFFF
                         (current: false - the header wraps modulo 65536 and everything is written)
     v_wproc_buf       : size of bufferedConn.writeProcess's pktBuf (current: receiveMTU, so frames of
                         payloads 8191.. are dropped silently by packetio.Buffer.Read/ErrShortBuffer)
     v_readfrom_len    : tcpPacketConn.ReadFrom compares the packet with len(b) (current: cap(b))
     v_act_close       : activeTCPConn's reader goroutine closes the conn when readStreamingPacket fails
                         (current: false - it just exits) *)
Record variant := mkVariant { v_reject_oversize : bool; v_wproc_buf : nat; v_readfrom_len : bool; v_act_close : bool }.
Definition current : variant := mkVariant false mtu false false.

(* ---------- writeStreamingPacket ------------------------------------------------------------ *)

(* result: the buffers passed to conn.Write (in order), n, err.  [werr]: the error the conn's Write
   returns (None: it accepts the whole buffer). *)
Definition write_streaming_packet (v : variant) (werr : option Z) (p : bytes)
  : list bytes * nat * option Z :=
  if v_reject_oversize v && (max_uint16 <? N.of_nat (length p))%N then ([], 0, Some err_other)
  else
    let buf := put_uint16 (uint16_of_len (length p)) ++ p in
    match werr with
    | Some e => ([buf], 0, Some e)
    | None => ([buf], length buf - hdr_len, None)
    end.

(* bufferedConn: Write stores the frame in a packetio.Buffer (packets of 65536 bytes and more are
   refused); writeProcess reads it back into pktBuf and writes it to the TCP conn; a frame larger
   than pktBuf is discarded by packetio.Buffer.Read (io.ErrShortBuffer, logged).
   Result: error of Write, what reaches the TCP conn.  The size limit (ErrFull) is not modelled:
   the harness stays far below it. *)
Definition buffered_write (v : variant) (f : bytes) : option Z * list bytes :=
  if (65536 <=? N.of_nat (length f))%N then (Some err_other, [])
  else (None, if length f <=? v_wproc_buf v then [f] else []).

(* tcpPacketConn.WriteTo for the (single) attached conn; wbuf = TCPMuxParams.WriteBufferSize *)
Definition pc_write_to (v : variant) (wbuf : nat) (p : bytes) : list bytes * nat * option Z :=
  match wbuf with
  | 0 => write_streaming_packet v None p
  | _ =>
    if v_reject_oversize v && (max_uint16 <? N.of_nat (length p))%N then ([], 0, Some err_other)
    else
      let buf := put_uint16 (uint16_of_len (length p)) ++ p in
      match buffered_write v buf with
      | (Some e, w) => (w, 0, Some e)
      | (None, w) => (w, length buf - hdr_len, None)
      end
  end.

Fixpoint pc_write_all (v : variant) (wbuf : nat) (ps : list bytes) : list bytes * list (nat * option Z) :=
  match ps with
  | [] => ([], [])
  | p :: ps' =>
      let '(w, n, e) := pc_write_to v wbuf p in
      let '(ws, rs) := pc_write_all v wbuf ps' in
      (w ++ ws, (n, e) :: rs)
  end.

(* ---------- tcpPacketConn read side ---------------------------------------------------------- *)

Definition pres_err (r : pres) : Z :=
  match r with PShort _ => err_short_buffer | PErr e => e | _ => (-1)%Z end.

(* what startReading hands to recvChan: every packet, then the error (single conn: `last` is true),
   after closing the conn *)
Inductive ev := EvPkt (d : bytes) | EvErr (e : Z).

Definition pc_reader (s : stream) : list ev * stream :=
  let '(ps, fin, s') := read_all (read_fuel s) mtu s in
  (map EvPkt ps ++ [EvErr (pres_err fin)], s').

(* startReading leaves its loop only through `removeConn(conn)`, which closes the TCP conn, before the
   error is handed to recvChan: whenever ReadFrom has returned the terminal error the conn is closed *)
Definition pc_conn_closed_after_error : bool := true.

(* ReadFrom(b) with len(b) = blen, cap(b) = bcap, on a zeroed b; RFOk n d: (n, nil) and b[:n] = d *)
Inductive rfres := RFOk (n : nat) (d : bytes) | RFErr (e : Z) | RFTrunc (d : bytes) (e : Z).

Definition zero_byte : ascii := Ascii.zero.

Definition pc_read_from (v : variant) (blen bcap : nat) (e : ev) : rfres :=
  match e with
  | EvErr c => RFErr c
  | EvPkt d =>
      if (if v_readfrom_len v then blen else bcap) <? length d then RFErr err_short_buffer
      else RFOk (length d) (firstn blen d ++ repeat zero_byte (length d - blen))
  end.

Definition pc_read_all (v : variant) (blen bcap : nat) (s : stream) : list rfres * stream :=
  let '(evs, s') := pc_reader s in (map (pc_read_from v blen bcap) evs, s').

(* ---------- activeTCPConn ------------------------------------------------------------------- *)

(* reader goroutine: readStreamingPacket(conn, buff[receiveMTU]) into readBuffer until the first
   error; ReadFrom(b) = packetio.Buffer.Read: min(len, len b) bytes, io.ErrShortBuffer when cut.
   After the reader stops nothing more arrives: ReadFrom blocks (observation "blocked") unless the
   variant closes the conn (then io.ErrClosedPipe / EOF); the harness reports what it sees. *)
Definition act_read_from (blen : nat) (d : bytes) : rfres :=
  if blen <? length d then RFTrunc (firstn blen d) err_short_buffer else RFOk (length d) d.

(* after the reader loop ended (any error, EOF included): does the conn report it (ReadFrom fails once
   the received packets are drained, and the TCP conn is closed)?  pinned: no, the goroutine just exits *)
Definition act_reports_end (v : variant) : bool := v_act_close v.

Definition act_read_all (blen : nat) (s : stream) : list rfres * pres * stream :=
  let '(ps, fin, s') := read_all (read_fuel s) mtu s in (map (act_read_from blen) ps, fin, s').

(* writer: WriteTo(p) = writeBuffer.Write (refuses 65536 and more); the loop reads into buff[receiveMTU]:
   a larger packet gives ErrShortBuffer, the loop ends and the conn is closed; everything after is lost.
   Result: per packet (n, err) of WriteTo, the conn writes, whether the loop ended (conn closed). *)
Fixpoint act_write_loop (v : variant) (ps : list bytes) : list bytes * bool :=
  match ps with
  | [] => ([], false)
  | p :: ps' =>
      if mtu <? length p then ([], true)
      else
        let '(w, _, e) := write_streaming_packet v None p in
        match e with
        | Some _ => (w, true)
        | None => let '(ws, c) := act_write_loop v ps' in (w ++ ws, c)
        end
  end.

Definition act_write_to (p : bytes) : nat * option Z :=
  if (65536 <=? N.of_nat (length p))%N then (0, Some err_other) else (length p, None).

Definition act_write_all (v : variant) (ps : list bytes) : list (nat * option Z) * list bytes * bool :=
  let accepted := filter (fun p => (N.of_nat (length p) <? 65536)%N) ps in
  let '(ws, c) := act_write_loop v accepted in
  (map act_write_to ps, ws, c).

(* ---------- monitors: the property over observations ----------------------------------------- *)

Definition pres_eqb (a b : pres) : bool :=
  match a, b with
  | POk x, POk y => bytes_eqb x y
  | PShort x, PShort y => x =? y
  | PErr x, PErr y => Z.eqb x y
  | PStuck, PStuck => true
  | _, _ => false
  end.

Definition opt_is_none {A} (o : option A) : bool := match o with None => true | _ => false end.
Definition opt_z_eqb (a b : option Z) : bool :=
  match a, b with None, None => true | Some x, Some y => Z.eqb x y | _, _ => false end.

Definition list_max (l : list nat) : nat := fold_right Nat.max 0 l.

(* (1) readStreamingPacket called until its first error on a stream with bytes [body] in some
   chunking, then [tl] delivered with the error [e]; observed: the packets, the final result,
   how many bytes the conn handed out, how many Read calls, the largest request. *)
Definition C14_read_checks (cap : nat) (body tl : bytes) (e : Z)
           (panic : bool) (pkts : list bytes) (fin : pres) (consumed nreads maxreq : nat) : checks :=
  let full := body ++ tl in
  let '(spkts, sfin, srest) := parse_all (S (length full)) cap full e in
  let clean := is_nil tl in
  let complete := pkts_eqb pkts spkts in
  [ ("no_panic"%string, negb panic);
    ("never_merged_split_or_fabricated"%string, pkts_prefix pkts spkts);
    ("all_frames_delivered"%string, if clean then complete else true);
    ("final_result"%string,
       (complete && pres_eqb fin sfin) || (negb clean && pres_eqb fin (PErr e)));
    ("consumed_at_most_header_plus_len"%string,
       if complete && pres_eqb fin sfin then
         (if clean then consumed =? length full - length srest else consumed <=? length full)
       else consumed <=? length full);
    ("reads_bounded"%string, (maxreq <=? Nat.max 2 cap) && (nreads <=? consumed + 1)) ].

(* (2) one writeStreamingPacket(conn, p) on a conn whose Write returns werr *)
Definition C14_write_checks (p : bytes) (werr : option Z)
           (panic : bool) (n : nat) (err : option Z) (writes : list bytes) : checks :=
  match frame p with
  | Some f =>
    [ ("no_panic"%string, negb panic);
      ("single_write"%string, length writes =? 1);
      ("length_header"%string,
         match writes with w :: _ => bytes_eqb (firstn 2 w) (put_uint16 (N.of_nat (length p))) | [] => false end);
      ("payload_intact"%string,
         match writes with w :: _ => bytes_eqb (skipn 2 w) p | [] => false end);
      ("result"%string,
         match werr with
         | None => (n =? length p) && opt_is_none err
         | Some x => (n =? 0) && opt_z_eqb err (Some x)
         end) ]
  | None =>
    [ ("no_panic"%string, negb panic);
      ("oversize_is_error"%string, negb (opt_is_none err));
      ("oversize_writes_nothing"%string, is_nil writes);
      ("oversize_n_zero"%string, n =? 0) ]
  end.

(* (3) tcpPacketConn.ReadFrom (len b = blen, cap b = bcap) until the terminal error, over a stream *)
Fixpoint rf_walk (blen : nat) (dirty : bool) (e : Z) (obs : list rfres) (sp : list bytes) (sfin : Z) : bool :=
  match obs with
  | [] => false
  | o :: obs' =>
    match sp with
    | [] => match o with RFErr c => is_nil obs' && (Z.eqb c sfin || (dirty && Z.eqb c e)) | _ => false end
    | p :: sp' =>
      match o with
      | RFOk n d => bytes_eqb d p && rf_walk blen dirty e obs' sp' sfin
      | RFErr c =>
          if is_nil obs' && dirty && Z.eqb c e then true
          else Z.eqb c err_short_buffer && (blen <? length p) && rf_walk blen dirty e obs' sp' sfin
      | RFTrunc _ _ => false
      end
    end
  end.

Definition rf_n_ok (blen : nat) (o : rfres) : bool :=
  match o with RFOk n d => (n <=? blen) && (n =? length d) | _ => true end.

Definition C14_pc_read_checks (blen bcap : nat) (body tl : bytes) (e : Z)
           (hang : bool) (obs : list rfres) (closed : bool) : checks :=
  let full := body ++ tl in
  let '(spkts, sfin, _) := parse_all (S (length full)) mtu full e in
  [ ("no_panic_no_hang"%string, negb hang);
    ("packets_in_order_intact"%string, rf_walk blen (negb (is_nil tl)) e obs spkts (pres_err sfin));
    ("n_within_buffer"%string, forallb (rf_n_ok blen) obs);
    ("conn_closed_after_error"%string, closed) ].

(* (4) tcpPacketConn.WriteTo for a list of packets; observed: (n, err) per packet, the conn writes *)
Fixpoint accepted (ps : list bytes) (rs : list (nat * option Z)) : list bytes :=
  match ps, rs with
  | p :: ps', (_, None) :: rs' => p :: accepted ps' rs'
  | _ :: ps', _ :: rs' => accepted ps' rs'
  | _, _ => []
  end.

(* the frames of the packets that have one *)
Fixpoint frames_of (ps : list bytes) : list bytes :=
  match ps with
  | [] => []
  | p :: ps' => match frame p with Some f => f :: frames_of ps' | None => frames_of ps' end
  end.

Definition wr_result_ok (p : bytes) (r : nat * option Z) : bool :=
  match r with
  | (n, None) => n =? length p
  | (n, Some _) => n =? 0
  end.

Definition oversize_rejected (p : bytes) (r : nat * option Z) : bool :=
  match frame p, r with
  | None, (_, None) => false
  | _, _ => true
  end.

Fixpoint forallb2 {A B} (f : A -> B -> bool) (a : list A) (b : list B) : bool :=
  match a, b with
  | [], [] => true
  | x :: a', y :: b' => f x y && forallb2 f a' b'
  | _, _ => false
  end.

Definition C14_pc_write_checks (wbuf : nat) (ps : list bytes)
           (hang : bool) (rs : list (nat * option Z)) (writes : list bytes) : checks :=
  let acc := accepted ps rs in
  [ ("no_panic_no_hang"%string, negb hang);
    ("oversize_is_error"%string, forallb2 oversize_rejected ps rs);
    ("result_n"%string, forallb2 wr_result_ok ps rs);
    (* every buffer written to the TCP conn is the frame of an accepted packet, in order ... *)
    ("writes_are_frames_in_order"%string, pkts_subseq writes (frames_of acc));
    (* ... and every accepted packet up to the MTU (any accepted packet without write buffering) is written *)
    ("mtu_packets_delivered"%string,
       pkts_subseq (frames_of (filter (fun p => (wbuf =? 0) || (length p <=? mtu)) acc)) writes) ].

(* (5) composition: WriteTo on one tcpPacketConn, the written bytes re-chunked, ReadFrom on another
   (buffer len = cap = bcap); the stream ends with EOF *)
Fixpoint rf_oks (obs : list rfres) : list bytes :=
  match obs with
  | [] => []
  | RFOk _ d :: r => d :: rf_oks r
  | _ :: r => rf_oks r
  end.

Definition fits (bcap : nat) (p : bytes) : bool := (length p <=? mtu) && (length p <=? bcap).

Definition C14_pipe_checks (bcap : nat) (ps : list bytes)
           (hang : bool) (rs : list (nat * option Z)) (obs : list rfres) : checks :=
  let acc := accepted ps rs in
  [ ("no_panic_no_hang"%string, negb hang);
    ("oversize_is_error"%string, forallb2 oversize_rejected ps rs);
    ("never_merged_split_or_fabricated"%string, pkts_subseq (rf_oks obs) acc);
    ("received_equals_sent"%string,
       if forallb (fits bcap) ps then
         pkts_eqb (rf_oks obs) ps && (length obs =? S (length ps))
         && match last obs (RFOk 0 []) with RFErr c => Z.eqb c err_eof | _ => false end
       else true) ].

(* (6) activeTCPConn.ReadFrom (len b = blen) over a stream; after the packets the harness observes
   what the failed stream turns into: an error from ReadFrom / the conn closed towards the peer
   ([ended] = true), or nothing at all within its patience ([ended] = false). *)
Fixpoint act_walk (blen : nat) (obs : list rfres) (sp : list bytes) : bool :=
  match obs, sp with
  | [], [] => true
  | RFOk n d :: obs', p :: sp' => (length p <=? blen) && bytes_eqb d p && act_walk blen obs' sp'
  | RFTrunc d c :: obs', p :: sp' =>
      (blen <? length p) && bytes_eqb d (firstn blen p) && Z.eqb c err_short_buffer && act_walk blen obs' sp'
  | _, _ => false
  end.

Definition C14_act_read_checks (blen : nat) (body : bytes) (e : Z)
           (hang : bool) (obs : list rfres) (ended : bool) : checks :=
  let '(spkts, sfin, _) := parse_all (S (length body)) mtu body e in
  (* the peer closed exactly at a frame boundary: nothing is required of the conn *)
  let clean := length (concat (map frame_raw spkts)) =? length body in
  [ ("no_panic_no_hang"%string, negb hang);
    ("packets_in_order_intact"%string, act_walk blen obs spkts);
    ("error_or_closure_after_bad_stream"%string, clean || ended) ].

(* (7) activeTCPConn.WriteTo for a list of packets: (n, err) per packet, what the peer receives
   (flat bytes), whether the peer saw the conn closed *)
(* rx is the concatenation of the frames of a prefix of acc *)
Fixpoint frames_prefix_bytes (acc : list bytes) (rx : bytes) : bool :=
  match acc with
  | [] => is_nil rx
  | p :: acc' =>
    is_nil rx ||
    match frame p with
    | Some f => bytes_eqb (firstn (length f) rx) f && frames_prefix_bytes acc' (skipn (length f) rx)
    | None => false
    end
  end.

Definition C14_act_write_checks (ps : list bytes)
           (hang : bool) (rs : list (nat * option Z)) (rx : bytes) (closed : bool) : checks :=
  let acc := accepted ps rs in
  [ ("no_panic_no_hang"%string, negb hang);
    ("oversize_is_error"%string, forallb2 oversize_rejected ps rs);
    ("result_n"%string, forallb2 wr_result_ok ps rs);
    ("received_is_prefix_of_frames"%string, frames_prefix_bytes acc rx);
    ("mtu_packets_delivered_or_closed"%string,
       if forallb (fun p => length p <=? mtu) acc
       then bytes_eqb rx (concat (map frame_raw acc))
       else closed) ].
