(* Observations of the agent core: what the correspondence check compares and what the monitors
   read.  [snap_of_state] is the projection of the model state onto the observables the harness
   reads from the implementation (VerifSnap + public getters). *)
From Coq Require Import ZArith Bool List.
From Ice Require Import Model.AgentTypes Model.AgentCore Gen.Consts.
Import ListNotations.
Local Open Scope Z_scope.

Definition grid : Z := 100000000. (* 100 ms in ns: granularity of observed ages *)

Record psnap := mkPsnap {
  ps_id : Z;
  ps_lh : Z;
  ps_rtyp : Z;
  ps_rnet : Z;
  ps_raddr : addr;
  ps_rtcp : Z;
  ps_rrel : option (Z * Z);
  ps_state : Z;
  ps_nominated : bool;
  ps_nom_on_succ : bool;
  ps_reqcount : Z;
  ps_prio : Z;
  ps_ctl : bool;
  ps_req_sent : Z;
  ps_req_recv : Z;
  ps_resp_sent : Z;
  ps_resp_recv : Z;
  ps_pkts_sent : Z;
  ps_bytes_sent : Z;
  ps_pkts_recv : Z;
  ps_bytes_recv : Z
}.
Record rsnap := mkRsnap {
  rs_typ : Z;
  rs_net : Z;
  rs_addr : addr;
  rs_tcp : Z;
  rs_rel : option (Z * Z);
  rs_prio : Z;
  rs_age : option Z
}.
Record qsnap := mkQsnap {
  qs_tx : Z;
  qs_dst : addr;
  qs_net : Z;
  qs_use : bool;
  qs_nom : option Z;
  qs_age : Z
}.
Record snap := mkSnap {
  sn_conn : Z;
  sn_ctl : bool;
  sn_selected : option Z;
  sn_nominated : option Z;
  sn_last_nom : option Z;
  sn_next_pair : Z;
  sn_lufrag : Z;
  sn_rufrag : Z;
  sn_lpwd : Z;
  sn_rpwd : Z;
  sn_closed : bool;
  sn_pending : list qsnap;
  sn_locals : list Z;
  sn_remotes : list rsnap;
  sn_pairs : list psnap;
  sn_bytes_sent : Z;
  sn_bytes_recv : Z;
  sn_index_ok : bool;
  sn_selected_listed : bool
}.

Definition psnap_of (p : pair) : psnap :=
  mkPsnap (p_id p) (c_h (p_loc p)) (c_typ (p_rem p)) (c_net (p_rem p)) (c_addr (p_rem p)) (c_tcp (p_rem p)) (c_rel (p_rem p))
          (p_state p) (p_nominated p) (p_nom_on_succ p) (p_reqcount p) (pair_priority p) (p_ctl p)
          (p_req_sent p) (p_req_recv p) (p_resp_sent p) (p_resp_recv p)
          (p_pkts_sent p) (p_bytes_sent p) (p_pkts_recv p) (p_bytes_recv p).

Definition age_units (now ts : Z) : Z := (now - ts) / grid.

Definition rsnap_of (s : state) (c : cand) : rsnap :=
  mkRsnap (c_typ c) (c_net c) (c_addr c) (c_tcp c) (c_rel c) (c_prio c)
          (match assoc_get (c_h c) (s_lastrecv s) with
           | Some t => Some (age_units (s_now s) t)
           | None => None
           end).

Definition qsnap_of (s : state) (q : pending) : qsnap :=
  mkQsnap (q_tx q) (q_dst q) (q_net q) (q_use q) (q_nom q) (if s_closed s then 0 else age_units (s_now s) (q_ts q)).

Definition snap_of_state (s : state) : snap :=
  mkSnap (s_conn s) (s_ctl s) (s_selected s)
         (if s_ctl s then match s_nominated s with Some p => Some (p_id p) | None => None end else None)
         (if s_ctl s then None else s_last_nom s)
         (s_next_pair s) (s_lufrag s) (s_rufrag s) (s_lpwd s) (s_rpwd s) (s_closed s)
         (map (qsnap_of s) (s_pending s))
         (map c_h (s_locals s))
         (map (rsnap_of s) (s_remotes s))
         (map psnap_of (s_checklist s))
         (s_bytes_sent s) (s_bytes_recv s)
         true
         (match s_selected s with
          | Some id => existsb (fun p => p_id p =? id) (s_checklist s)
          | None => true
          end).

(* canonical order of the outputs of one operation: datagrams in emission order, then the three
   callback streams (each in order), then closes, deliveries and API results *)
Definition out_rank (o : out) : Z :=
  match o with
  | OSend _ _ _ | OData _ _ _ => 0
  | OState _ => 1
  | OSelected _ => 2
  | OCand _ => 3
  | OClosedCand _ => 4
  | ODeliver _ => 5
  | ORet _ => 6
  end.
Definition canon_outs (l : list out) : list out :=
  flat_map (fun r => filter (fun o => out_rank o =? r) l) [0; 1; 2; 3; 4; 5; 6].

(* one observed step *)
Definition obs := (op * list out * snap)%type.
Definition model_trace (cfg : config) (lufrag lpwd : Z) (ops : list op) : list obs :=
  snd (fold_left (fun '(s, tr) o =>
                    let '(s', os) := step cfg s o in (s', tr ++ [(o, canon_outs os, snap_of_state s')]))
                 ops (init lufrag lpwd, [])).
