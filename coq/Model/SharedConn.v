(* C13, first half: reference-counted handles on one underlying per-ufrag connection
   (shared_packet_conn.go: newSharedPacketConn / Close / readContext / WriteTo; the counter is
   udpMuxedConn.refs or tcpPacketConn.refs).

   Layer C interleaving model: any number of handles and of readers, one rule per atomic
   action of sharedPacketConn.Close (closeOnce won; cancel(); refs.Add(-1); underlying.Close()),
   of newSharedPacketConn (refs.Add(1)), of SetReadDeadline (per handle: none / far in the future /
   in the past) and of a blocked read (packet / own context cancelled / underlying closed / own
   deadline already expired).  A read with a deadline parks with a context DERIVED FROM the handle's
   context (readContext: context.WithDeadline(s.ctx, ...)), so the handle's Close fails it like any
   other pending read; far deadlines are taken not to expire within a history.

   Scope (the property quantifies over read/write/close/abort/cancel among the handles of a
   connection): a further handle is only requested while the requester itself holds an open
   handle on the same underlying (or it is the very first handle).  GetConn racing with the
   LAST Close is outside this model (it would hand out a handle on a closed connection); the
   mux closing all its connections (UDPMuxDefault.Close) is outside as well.

   Definitions only; the proofs are in Proofs/SharedConnProofs.v. *)
From Coq Require Import ZArith Bool List Arith String.
From Ice Require Import Model.PrioSpec.
Import ListNotations.
Local Open Scope Z_scope.

Inductive hpc :=
| HNone                      (* not handed out yet *)
| HOpen
| HClosing                   (* closeOnce.Do entered (fired); next: s.cancel() *)
| HCancelled                 (* own context cancelled; next: s.refs.Add(-1) *)
| HDecd (v : Z)              (* Add returned v; next: if v <= 0 { underlying.Close() } *)
| HClosed.

Inductive rres := ROk | RClosedPipe | REOF | RTimeout.
(* the read deadline configured on a handle (SetReadDeadline): none, far in the future (does not
   expire within a history) or already in the past *)
Inductive dlk := DNone | DFuture | DPast.
Inductive rpc := RIdle
  | RWait (h : nat)        (* parked in the underlying with the handle's context, or with a deadline
                              context DERIVED FROM it (context.WithDeadline(s.ctx, future)) *)
  | RWaitPast (h : nat)    (* the deadline context was already expired when the read started *)
  | RRet (h : nat) (r : rres).

Record state := {
  refs : Z;                        (* the shared atomic.Int32 *)
  hpcs : nat -> hpc;
  cancelled : nat -> bool;         (* the handle's own context *)
  ucloses : nat;                   (* calls of underlying.Close() so far *)
  rds : nat -> rpc;                (* readers blocked in / returned from ReadFrom on a handle *)
  rdl : nat -> dlk;                (* the handle's readDeadline *)
  (* ghost *)
  live : list nat;                 (* handles that still hold their reference *)
  pend : option nat;               (* the handle whose decrement reached zero and that has not closed the underlying yet *)
  created : nat
}.

Definition upd {A} (f : nat -> A) (i : nat) (v : A) : nat -> A := fun k => if Nat.eqb k i then v else f k.
Definition remove_nat (i : nat) (l : list nat) : list nat := filter (fun k => negb (Nat.eqb k i)) l.

Definition init : state :=
  {| refs := 0; hpcs := fun _ => HNone; cancelled := fun _ => false; ucloses := 0; rds := fun _ => RIdle;
     rdl := fun _ => DNone; live := []; pend := None; created := 0 |}.

Definition holds_ref (p : hpc) : bool := match p with HOpen | HClosing | HCancelled => true | _ => false end.
Definition past_cancel (p : hpc) : bool := match p with HCancelled | HDecd _ | HClosed => true | _ => false end.
Definition settled (p : hpc) : bool := match p with HNone | HClosed => true | _ => false end.

Inductive label :=
| LNew (h : nat) | LCloseBegin (h : nat) | LCancel (h : nat) | LDec (h : nat) (v : Z)
| LUClose (h : nat) | LNoUClose (h : nat) | LCloseAgain (h : nat)
| LSetDeadline (h : nat) (d : dlk)
| LRead (k h : nat) | LReadRet (k h : nat) (r : rres) | LReadDone (k : nat).

(* the handle a step belongs to (readers act on their own behalf) *)
Definition actor (l : label) : option nat :=
  match l with
  | LNew h | LCloseBegin h | LCancel h | LDec h _ | LUClose h | LNoUClose h | LCloseAgain h
  | LSetDeadline h _ => Some h
  | _ => None
  end.

Definition set_h (s : state) (h : nat) (p : hpc) : state :=
  {| refs := refs s; hpcs := upd (hpcs s) h p; cancelled := cancelled s; ucloses := ucloses s; rds := rds s;
     rdl := rdl s; live := live s; pend := pend s; created := created s |}.
Definition set_r (s : state) (k : nat) (p : rpc) : state :=
  {| refs := refs s; hpcs := hpcs s; cancelled := cancelled s; ucloses := ucloses s; rds := upd (rds s) k p;
     rdl := rdl s; live := live s; pend := pend s; created := created s |}.

Inductive step : state -> label -> state -> Prop :=
(* newSharedPacketConn: refs.Add(1).  h0 is the open handle the requester holds. *)
| h_new s h h0 : hpcs s h = HNone -> (created s = O \/ hpcs s h0 = HOpen) ->
    step s (LNew h)
      {| refs := refs s + 1; hpcs := upd (hpcs s) h HOpen; cancelled := cancelled s; ucloses := ucloses s;
         rds := rds s; rdl := rdl s; live := h :: live s; pend := pend s; created := S (created s) |}
(* Close: s.closeOnce.Do(func() { fired = true; ... *)
| h_close_begin s h : hpcs s h = HOpen -> step s (LCloseBegin h) (set_h s h HClosing)
(* s.cancel() *)
| h_cancel s h : hpcs s h = HClosing ->
    step s (LCancel h)
      {| refs := refs s; hpcs := upd (hpcs s) h HCancelled; cancelled := upd (cancelled s) h true;
         ucloses := ucloses s; rds := rds s; rdl := rdl s; live := live s; pend := pend s; created := created s |}
(* s.refs.Add(-1) *)
| h_dec s h : hpcs s h = HCancelled ->
    step s (LDec h (refs s - 1))
      {| refs := refs s - 1; hpcs := upd (hpcs s) h (HDecd (refs s - 1)); cancelled := cancelled s;
         ucloses := ucloses s; rds := rds s; rdl := rdl s; live := remove_nat h (live s);
         pend := (if (refs s - 1 <=? 0) then Some h else pend s); created := created s |}
(* if ... <= 0 { err = s.underlying.Close() } *)
| h_uclose s h v : hpcs s h = HDecd v -> v <= 0 ->
    step s (LUClose h)
      {| refs := refs s; hpcs := upd (hpcs s) h HClosed; cancelled := cancelled s; ucloses := S (ucloses s);
         rds := rds s; rdl := rdl s; live := live s; pend := None; created := created s |}
| h_no_uclose s h v : hpcs s h = HDecd v -> 0 < v -> step s (LNoUClose h) (set_h s h HClosed)
(* a second Close() on the same handle: closeOnce does not fire, returns nil *)
| h_close_again s h : hpcs s h <> HNone -> hpcs s h <> HOpen -> step s (LCloseAgain h) s
(* SetReadDeadline: refused (io.ErrClosedPipe) once the own context is cancelled, else stored *)
| h_set_deadline s h d : hpcs s h <> HNone -> cancelled s h = false ->
    step s (LSetDeadline h d)
      {| refs := refs s; hpcs := hpcs s; cancelled := cancelled s; ucloses := ucloses s; rds := rds s;
         rdl := upd (rdl s) h d; live := live s; pend := pend s; created := created s |}
(* ReadFrom on handle h: readContext fails at once when the own context is cancelled; otherwise the
   read parks with the handle's context or a deadline context derived from it *)
| r_call_closed s k h : rds s k = RIdle -> hpcs s h <> HNone -> cancelled s h = true ->
    step s (LRead k h) (set_r s k (RRet h RClosedPipe))
| r_call s k h : rds s k = RIdle -> hpcs s h <> HNone -> cancelled s h = false -> rdl s h <> DPast ->
    step s (LRead k h) (set_r s k (RWait h))
| r_call_past s k h : rds s k = RIdle -> hpcs s h <> HNone -> cancelled s h = false -> rdl s h = DPast ->
    step s (LRead k h) (set_r s k (RWaitPast h))
(* expired deadline: a queued datagram is still returned, else os.ErrDeadlineExceeded (io.EOF if the
   underlying is closed) *)
| r_data_past s k h : rds s k = RWaitPast h -> step s (LReadRet k h ROk) (set_r s k (RRet h ROk))
| r_timeout s k h : rds s k = RWaitPast h -> step s (LReadRet k h RTimeout) (set_r s k (RRet h RTimeout))
| r_eof_past s k h : rds s k = RWaitPast h -> (0 < ucloses s)%nat ->
    step s (LReadRet k h REOF) (set_r s k (RRet h REOF))
| r_data s k h : rds s k = RWait h -> step s (LReadRet k h ROk) (set_r s k (RRet h ROk))
| r_cancel s k h : rds s k = RWait h -> cancelled s h = true ->      (* ctx.Done(): context.Canceled -> io.ErrClosedPipe *)
    step s (LReadRet k h RClosedPipe) (set_r s k (RRet h RClosedPipe))
| r_eof s k h : rds s k = RWait h -> (0 < ucloses s)%nat ->           (* closedChan: io.EOF *)
    step s (LReadRet k h REOF) (set_r s k (RRet h REOF))
| r_done s k h r : rds s k = RRet h r -> step s (LReadDone k) (set_r s k RIdle).

Inductive reach : state -> Prop :=
| reach_init : reach init
| reach_step s l s' : reach s -> step s l s' -> reach s'.

(* outcome of WriteTo on a handle in a state (WriteTo: ctx.Err() != nil -> io.ErrClosedPipe,
   else the underlying's WriteTo, which fails once the underlying is closed) *)
Inductive wres := WOk | WClosedPipe | WUnderlyingClosed.
Definition write_outcome (s : state) (h : nat) : wres :=
  if cancelled s h then WClosedPipe else if Nat.ltb 0 (ucloses s) then WUnderlyingClosed else WOk.

(* ========================================================================================
   Sequential (API-level) view used by the correspondence check: the harness drives handles
   with whole operations; [pclose] closes several handles concurrently and reports when all
   Close calls have returned.  Handles are numbered in creation order. *)
Inductive sc_op :=
| ONew
| OClose (h : nat)
| OPClose (hs : list nat)
| OPCloseW (hs ws : list nat)  (* close hs concurrently while each handle of ws (not in hs) is written once *)
| OWrite (h : nat)
| ODeadline (h d : nat)      (* SetReadDeadline on h: 0 none, 1 far in the future, 2 in the past *)
| ORStart (h : nat)          (* start a blocking ReadFrom on h in its own goroutine *)
| ORPoll (h : nat)           (* has that read returned, and how *)
| ODeliver.                  (* the mux queues one datagram (numbered 1, 2, ...) on the underlying *)

(* read slot of a handle *)
Inductive rslot := RNone | RBlocked
  | RData (k : nat)          (* datagram number k was handed to the read *)
  | RGot (r : rres)          (* a failure: RClosedPipe, REOF, RTimeout *)
  | REither.   (* a datagram was handed to the read and the handle was closed before the result was collected:
                  data, io.ErrClosedPipe or io.EOF *)
Record fstate := { fclosed : list bool;           (* per created handle: Close was called *)
                   fcloses : nat;
                   fread : list rslot;
                   fqueued : list nat;            (* datagrams queued on the underlying, not yet read (FIFO) *)
                   fdelivs : nat;                 (* datagrams delivered so far *)
                   fdl : list nat }.              (* per handle: read deadline 0 / 1 / 2 *)
Definition finit : fstate := {| fclosed := []; fcloses := 0; fread := []; fqueued := []; fdelivs := 0; fdl := [] |}.
Definition set_fread (s : fstate) (rd : list rslot) : fstate :=
  {| fclosed := fclosed s; fcloses := fcloses s; fread := rd; fqueued := fqueued s; fdelivs := fdelivs s; fdl := fdl s |}.
Definition set_fqueued (s : fstate) (q : list nat) : fstate :=
  {| fclosed := fclosed s; fcloses := fcloses s; fread := fread s; fqueued := q; fdelivs := fdelivs s; fdl := fdl s |}.
Definition set_fdelivs (s : fstate) (n : nat) : fstate :=
  {| fclosed := fclosed s; fcloses := fcloses s; fread := fread s; fqueued := fqueued s; fdelivs := n; fdl := fdl s |}.
Definition set_fdl (s : fstate) (l : list nat) : fstate :=
  {| fclosed := fclosed s; fcloses := fcloses s; fread := fread s; fqueued := fqueued s; fdelivs := fdelivs s; fdl := l |}.

Fixpoint set_nth {A} (l : list A) (n : nat) (v : A) : list A :=
  match l, n with
  | [], _ => []
  | _ :: t, O => v :: t
  | x :: t, S n' => x :: set_nth t n' v
  end.

Definition all_closed (l : list bool) : bool := forallb (fun b => b) l.

(* observation tokens are small numbers: see ocaml/sharedconn_main.ml *)
Definition res_code (r : rres) : Z := match r with ROk => 1 | RClosedPipe => 2 | REOF => 3 | RTimeout => 5 end.

(* close handle h (if it exists and is open): its blocked read returns ErrClosedPipe (whatever read
   deadline it was started with); the last one closes the underlying. *)
Definition f_close (s : fstate) (h : nat) : fstate :=
  match nth_error (fclosed s) h with
  | Some false =>
    let cl := set_nth (fclosed s) h true in
    let rd := match nth_error (fread s) h with
              | Some RBlocked => set_nth (fread s) h (RGot RClosedPipe)
              | Some (RData _) => set_nth (fread s) h REither
              | _ => fread s end in
    {| fclosed := cl; fcloses := (if all_closed cl then S (fcloses s) else fcloses s); fread := rd;
       fqueued := fqueued s; fdelivs := fdelivs s; fdl := fdl s |}
  | _ => s
  end.

(* first blocked reader, if any *)
Fixpoint first_blocked (l : list rslot) (n : nat) : option nat :=
  match l with
  | [] => None
  | RBlocked :: _ => Some n
  | _ :: t => first_blocked t (S n)
  end.
Fixpoint count_blocked (l : list rslot) : nat :=
  match l with [] => O | RBlocked :: t => S (count_blocked t) | _ :: t => count_blocked t end.

Definition memn (x : nat) (l : list nat) : bool := existsb (Nat.eqb x) l.
(* how many handles of ws, not in hs, are already closed *)
Definition closed_among (cl : list bool) (hs ws : list nat) : nat :=
  List.length (filter (fun w => negb (memn w hs) && match nth_error cl w with Some true => true | _ => false end) ws).

Definition existing_among (cl : list bool) (hs ws : list nat) : nat :=
  List.length (filter (fun w => negb (memn w hs) && match nth_error cl w with Some _ => true | _ => false end) ws).

(* result: new state and the observation (a list of numbers) *)
Definition sc_apply (s : fstate) (o : sc_op) : fstate * list Z :=
  match o with
  | ONew =>
    (* only meaningful while a handle is open or none was created (scope of the model) *)
    ({| fclosed := fclosed s ++ [false]; fcloses := fcloses s; fread := fread s ++ [RNone]; fqueued := fqueued s;
        fdelivs := fdelivs s; fdl := fdl s ++ [O] |},
     [Z.of_nat (List.length (fclosed s)); Z.of_nat (fcloses s)])
  | OClose h => let s' := f_close s h in (s', [0; Z.of_nat (fcloses s')])
  | OPClose hs => let s' := fold_left f_close hs s in (s', [0; Z.of_nat (fcloses s')])
  | OPCloseW hs ws =>
    let s' := fold_left f_close hs s in
    (s', [0; Z.of_nat (fcloses s');
          Z.of_nat (if Nat.ltb 0 (fcloses s) then existing_among (fclosed s) hs ws else closed_among (fclosed s) hs ws)])
  | OWrite h =>
    match nth_error (fclosed s) h with
    | Some false => (s, [if Nat.ltb 0 (fcloses s) then 1 else 0])   (* 1 only out of scope: handle on a closed underlying *)
    | Some true => (s, [1])
    | None => (s, [9])
    end
  | ODeadline h d =>
    match nth_error (fclosed s) h, nth_error (fread s) h with
    | Some false, Some RNone => (set_fdl s (set_nth (fdl s) h d), [0])
    | Some true, Some RNone => (s, [1])          (* io.ErrClosedPipe, nothing stored *)
    | _, _ => (s, [9])               (* no such handle, or refused by the harness: a read is in progress on it *)
    end
  | ORStart h =>
    match nth_error (fclosed s) h, nth_error (fread s) h with
    | Some true, Some RNone => (set_fread s (set_nth (fread s) h (RGot RClosedPipe)), [0])
    | Some false, Some RNone =>
      if Nat.ltb 0 (fcloses s) then   (* out of scope: handle on a closed underlying reads io.EOF *)
        (set_fread s (set_nth (fread s) h (RGot REOF)), [0])
      else
      match fqueued s with
      | k :: q => (set_fqueued (set_fread s (set_nth (fread s) h (RData k))) q, [0])
      | [] =>
        match nth_error (fdl s) h with
        | Some 2%nat => (set_fread s (set_nth (fread s) h (RGot RTimeout)), [0])   (* deadline in the past *)
        | _ => (set_fread s (set_nth (fread s) h RBlocked), [0])                   (* none, or far in the future *)
        end
      end
    | _, _ => (s, [9])
    end
  | ORPoll h =>
    match nth_error (fread s) h with
    | Some RBlocked => (s, [0])
    | Some (RData k) => (set_fread s (set_nth (fread s) h RNone), [1; Z.of_nat k])
    | Some (RGot r) => (set_fread s (set_nth (fread s) h RNone), [res_code r])
    | Some REither => (set_fread s (set_nth (fread s) h RNone), [7])
    | _ => (s, [9])
    end
  | ODeliver =>
    if Nat.leb 2 (count_blocked (fread s)) then (s, [9]) else
    if (match fclosed s with [] => false | _ => all_closed (fclosed s) end) then (s, [0]) else
    let k := S (fdelivs s) in
    match first_blocked (fread s) 0 with
    | Some h => (set_fdelivs (set_fread s (set_nth (fread s) h (RData k))) k, [0])
    | None => (set_fdelivs (set_fqueued s (fqueued s ++ [k])) k, [0])
    end
  end.

Fixpoint sc_run (s : fstate) (ops : list sc_op) : list (list Z) :=
  match ops with
  | [] => []
  | o :: tl => let r := sc_apply s o in snd r :: sc_run (fst r) tl
  end.

(* ---- the monitor: the property on the observations ----------------------------------------
   Its own bookkeeping: on which handles Close has been called and how many datagrams had been
   delivered by then, whether a handle's current read was started after that, the handle's read
   deadline and whether its current read was started with the deadline in the past, and whether the
   history left the scope of the property (a handle requested after every existing one was closed). *)
Record mstate := { mcl : list bool; mlate : list bool; mscope : bool;
                   mdl : list nat; mto : list bool; mdelivs : nat; mclosedat : list nat }.
Definition minit : mstate :=
  {| mcl := []; mlate := []; mscope := true; mdl := []; mto := []; mdelivs := 0; mclosedat := [] |}.

(* Close on h: remember how many datagrams had been delivered when it was closed first *)
Definition mark_close (m : mstate) (h : nat) : mstate :=
  match nth_error (mcl m) h with
  | Some false => {| mcl := set_nth (mcl m) h true; mlate := mlate m; mscope := mscope m; mdl := mdl m; mto := mto m;
                     mdelivs := mdelivs m; mclosedat := set_nth (mclosedat m) h (mdelivs m) |}
  | _ => m
  end.

Definition mark (m : mstate) (o : sc_op) (obs : list Z) : mstate :=
  match o with
  | ONew => {| mcl := mcl m ++ [false]; mlate := mlate m ++ [false];
               mscope := mscope m && (match mcl m with [] => true | _ => negb (all_closed (mcl m)) end);
               mdl := mdl m ++ [O]; mto := mto m ++ [false]; mdelivs := mdelivs m; mclosedat := mclosedat m ++ [O] |}
  | OClose h => mark_close m h
  | OPClose hs | OPCloseW hs _ => fold_left mark_close hs m
  | ODeadline h d =>
    match obs with
    | [0] => {| mcl := mcl m; mlate := mlate m; mscope := mscope m; mdl := set_nth (mdl m) h d; mto := mto m;
                mdelivs := mdelivs m; mclosedat := mclosedat m |}
    | _ => m
    end
  | ORStart h =>
    match obs with
    | [0] => {| mcl := mcl m;
                mlate := (match nth_error (mcl m) h with Some b => set_nth (mlate m) h b | None => mlate m end);
                mscope := mscope m; mdl := mdl m;
                mto := set_nth (mto m) h (match nth_error (mdl m) h with Some 2%nat => true | _ => false end);
                mdelivs := mdelivs m; mclosedat := mclosedat m |}
    | _ => m           (* refused: the handle already has a read in progress *)
    end
  | ODeliver =>
    match obs with
    | [0] => if (match mcl m with [] => false | _ => all_closed (mcl m) end) then m else
             {| mcl := mcl m; mlate := mlate m; mscope := mscope m; mdl := mdl m; mto := mto m;
                mdelivs := S (mdelivs m); mclosedat := mclosedat m |}
    | _ => m
    end
  | _ => m
  end.

Definition closes_ok (cl : list bool) (closes : Z) : bool :=
  match cl with
  | [] => closes =? 0
  | _ => if all_closed cl then closes =? 1 else closes =? 0
  end.

Definition is_true (o : option bool) : bool := match o with Some true => true | _ => false end.

(* checks for one operation, given the bookkeeping BEFORE it ([m]) and AFTER it ([m']) *)
Definition sc_op_checks (m m' : mstate) (o : sc_op) (obs : list Z) : checks :=
  let closes_check c :=
    if mscope m' then [("underlying_closed_exactly_when_last_handle_closed"%string, closes_ok (mcl m') c)] else [] in
  match o, obs with
  | ONew, [_; c] => closes_check c
  | OClose _, [e; c] | OPClose _, [e; c] => ("close_returns_nil"%string, e =? 0) :: closes_check c
  | OPCloseW hs ws, [e; c; nf] =>
    ("close_returns_nil"%string, e =? 0) :: closes_check c ++
    (if mscope m then [("sibling_write_ok"%string, nf =? Z.of_nat (closed_among (mcl m) hs ws))] else [])
  | OWrite h, [r] =>
    match nth_error (mcl m) h with
    | Some false => if mscope m then [("sibling_write_ok"%string, r =? 0)] else []
    | Some true => [("closed_handle_write_fails"%string, r =? 1)]
    | None => []
    end
  | ORPoll h, r :: rest =>
    let past := is_true (nth_error (mto m) h) in
    match nth_error (mcl m) h, nth_error (mlate m) h with
    | Some false, _ =>
      (* an open handle's read is parked or returns data; with the deadline already in the past it
         returns data or a timeout, and does not stay parked *)
      if mscope m then
        [("sibling_read_undisturbed"%string,
          if past then (r =? 1) || (r =? 5) || (r =? 9) else (r =? 0) || (r =? 1) || (r =? 9))]
      else []
    | Some true, Some true => [("closed_handle_read_fails"%string, (r =? 2) || (r =? 9))]
    | Some true, _ =>
      (* a read pending when its handle was closed has failed (whatever deadline it carries), or had
         received a datagram delivered BEFORE the Close *)
      [("closed_handle_read_fails"%string,
        (r =? 2) || (r =? 3) || (r =? 1) || (r =? 9) || (r =? 7) || (past && (r =? 5)));
       ("closed_handle_read_takes_no_later_data"%string,
        if r =? 1 then
          match rest, nth_error (mclosedat m) h with
          | k :: _, Some n => k <=? Z.of_nat n
          | _, _ => false
          end
        else true)]
    | None, _ => []
    end
  | ONew, _ | OClose _, _ | OPClose _, _ | OPCloseW _ _, _ | OWrite _, _ | ORPoll _, _ => [("malformed_observation"%string, false)]
  | _, _ => []
  end.

Fixpoint C13_sc_checks_from (m : mstate) (ops : list sc_op) (obs : list (list Z)) : checks :=
  match ops, obs with
  | o :: ops', ob :: obs' =>
    let m' := mark m o ob in
    sc_op_checks m m' o ob ++ C13_sc_checks_from m' ops' obs'
  | [], [] => []
  | _, _ => [("malformed_observation"%string, false)]
  end.
Definition C13_sc_checks (ops : list sc_op) (obs : list (list Z)) : checks := C13_sc_checks_from minit ops obs.
Definition C13_sc_monitor ops obs : bool := all_ok (C13_sc_checks ops obs).
