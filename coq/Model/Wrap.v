(* Go fixed-width integer wrap-around, made explicit in the generated definitions. *)
From Coq Require Import ZArith.
Local Open Scope Z_scope.

Definition wrap (bits : Z) (x : Z) : Z := x mod (2 ^ bits).
(* two's-complement wrap for signed types narrower than 64 bits *)
Definition swrap (bits : Z) (x : Z) : Z :=
  let m := 2 ^ bits in
  let r := x mod m in
  if Z.ltb r (2 ^ (bits - 1)) then r else r - m.
