(* Pair-level monitor for two agents wired through a network (C01; the convergence halves of C05 and
   C20).  It reads only what the harness observed: the topology it imposed, the final state and
   selection of each agent, and whether either ever reported Connected / a selected pair. *)
From Coq Require Import ZArith Bool List String.
From Ice Require Import Model.PrioSpec Model.AgentTypes Gen.Consts.
Import ListNotations.
Local Open Scope Z_scope.

Record endpoint := mkEndpoint { ep_h : Z; ep_pub : addr }.

Record pair_summary := mkPairSummary {
  su_a : list endpoint;              (* A's sockets: local handle, address the peer sees / sends to *)
  su_b : list endpoint;
  su_links : list (list (bool * bool)); (* per A endpoint i, per B endpoint j: (A_i -> B_j delivered, B_j -> A_i delivered) *)
  su_renom : bool; su_restarted : bool; su_same_role : bool;
  su_tb_a : Z; su_tb_b : Z; su_lossy : Z; su_nrenom : Z;
  su_last_nom : option (bool * Z * addr) (* side that renominated (true = A), its local handle, remote address *)
}.

Record side_final := mkSideFinal { sf_conn : Z; sf_ctl : bool; sf_sel : option (Z * addr) }.

Fixpoint index_of (h : Z) (l : list endpoint) (i : nat) : option nat :=
  match l with
  | [] => None
  | e :: t => if ep_h e =? h then Some i else index_of h t (S i)
  end.
Fixpoint index_of_pub (a : addr) (l : list endpoint) (i : nat) : option nat :=
  match l with
  | [] => None
  | e :: t => if addr_eqb (ep_pub e) a then Some i else index_of_pub a t (S i)
  end.

Definition link (su : pair_summary) (i j : nat) : bool * bool :=
  nth j (nth i (su_links su) []) (false, false).

Definition bidirectional (su : pair_summary) : bool :=
  existsb (fun row => existsb (fun l => fst l && snd l) row) (su_links su).

(* the (A index, B index) pair a side's selection denotes *)
Definition sel_indices_a (su : pair_summary) (f : side_final) : option (nat * nat) :=
  match sf_sel f with
  | Some (lh, raddr) =>
    match index_of lh (su_a su) 0, index_of_pub raddr (su_b su) 0 with
    | Some i, Some j => Some (i, j)
    | _, _ => None
    end
  | None => None
  end.
Definition sel_indices_b (su : pair_summary) (f : side_final) : option (nat * nat) :=
  match sf_sel f with
  | Some (lh, raddr) =>
    match index_of_pub raddr (su_a su) 0, index_of lh (su_b su) 0 with
    | Some i, Some j => Some (i, j)
    | _, _ => None
    end
  | None => None
  end.

Definition nat_pair_eqb (x y : nat * nat) : bool := Nat.eqb (fst x) (fst y) && Nat.eqb (snd x) (snd y).

Definition C01_checks (su : pair_summary) (fa fb : side_final)
           (ever_conn_a ever_sel_a ever_conn_b ever_sel_b : bool) : checks :=
  let bidir := bidirectional su in
  [ ("C01.no_bidirectional_pair_never_connected"%string,
     bidir || (negb ever_conn_a && negb ever_sel_a && negb ever_conn_b && negb ever_sel_b));
    ("C01.both_connected"%string,
     negb bidir || ((sf_conn fa =? ConnectionStateConnected) && (sf_conn fb =? ConnectionStateConnected)));
    ("C01.mirror_image"%string,
     match sf_sel fa, sf_sel fb with
     | Some _, Some _ =>
       match sel_indices_a su fa, sel_indices_b su fb with
       | Some x, Some y => nat_pair_eqb x y
       | _, _ => false
       end
     | _, _ => true
     end);
    ("C01.selected_pair_is_reachable_both_ways"%string,
     (match sel_indices_a su fa with
      | Some (i, j) => let l := link su i j in fst l && snd l
      | None => match sf_sel fa with Some _ => false | None => true end
      end) &&
     (match sel_indices_b su fb with
      | Some (i, j) => let l := link su i j in fst l && snd l
      | None => match sf_sel fb with Some _ => false | None => true end
      end));
    ("C05.opposite_roles"%string,
     negb bidir || (su_tb_a su =? su_tb_b su) || negb (Bool.eqb (sf_ctl fa) (sf_ctl fb)));
    ("C20.quiescent_agreement"%string,
     match su_last_nom su with
     | Some (side_a, lh, raddr) =>
       if su_restarted su then true else
       let f := if side_a then fa else fb in
       (* the nominating side is on the pair of the highest value it issued, and the other side is on
          the same pair (seen from its end) *)
       match sf_sel f with
       | Some (h, a) => (h =? lh) && addr_eqb a raddr
       | None => false
       end &&
       match sel_indices_a su fa, sel_indices_b su fb with
       | Some x, Some y => nat_pair_eqb x y
       | _, _ => false
       end
     | None => true
     end) ].
