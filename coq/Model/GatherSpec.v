(* C18: what gathering may and must produce, as a function of configuration x interface table x
   environment.  Executable Gallina only (no proofs).

   Part 1  addresses and their classes (netip.AddrFromSlice/Unmap, IsLoopback, link-local,
           isSupportedIPv6Partial), hand-modelled on byte lists and compared differentially.
   Part 2  net.go localInterfaces (the filter pipeline) and its declarative counterpart.
   Part 3  net.go listenUDPInPortRange (the cyclic port scan, faithfully, and its abstraction
           "some free port of the range, or failure").
   Part 4  gather.go gatherCandidatesInternal / gatherCandidatesLocal / gatherCandidatesSrflx /
           gatherCandidatesRelay as a function producing candidate DESCRIPTIONS (ports abstracted
           to a port specification).  A [variant] says which of two code variants is modelled:
           the pinned one (host/srflx gatherers take the raw network-type list; the host gatherer
           pairs every address with every enabled transport) or the repaired one.
   Part 5  observations, the correspondence relation and the C18 MONITOR (named checks that
           state the property over what the implementation published).
   (The gathering-state machine is in Model/GatherStateCycle.v.) *)
From Coq Require Import ZArith Bool String List.
From Ice Require Import Model.PrioSpec Gen.Names Gen.Prio.
Import ListNotations.
Local Open Scope Z_scope.

(* ------------------------------------------------------------------ Part 1: addresses *)

Definition bytes := list Z.
Record addr := mkAddr { a6 : bool; ab : bytes }.   (* canonical: 4 bytes (a6=false) or 16 bytes *)

Fixpoint bytes_eqb (x y : bytes) : bool :=
  match x, y with
  | [], [] => true
  | a :: x', b :: y' => (a =? b) && bytes_eqb x' y'
  | _, _ => false
  end.
Definition addr_eqb (a b : addr) : bool := Bool.eqb (a6 a) (a6 b) && bytes_eqb (ab a) (ab b).

Definition byte_at (b : bytes) (i : nat) : Z := nth i b 0.
Definition all_zero (l : bytes) : bool := forallb (Z.eqb 0) l.

(* netip.AddrFromSlice + Unmap: 4 bytes -> IPv4; 16 bytes -> IPv6 unless ::ffff:a.b.c.d *)
Definition is_v4mapped (b : bytes) : bool :=
  all_zero (firstn 10 b) && (byte_at b 10 =? 255) && (byte_at b 11 =? 255).
Definition parse_ip (b : bytes) : option addr :=
  if Nat.eqb (length b) 4 then Some (mkAddr false b)
  else if Nat.eqb (length b) 16 then
    (if is_v4mapped b then Some (mkAddr false (skipn 12 b)) else Some (mkAddr true b))
  else None.

Definition v6_loopback : bytes := [0;0;0;0;0;0;0;0;0;0;0;0;0;0;0;1].
Definition is_loopback (a : addr) : bool :=
  if a6 a then bytes_eqb (ab a) v6_loopback else byte_at (ab a) 0 =? 127.
Definition is_unspec (a : addr) : bool := all_zero (ab a).

(* net.go isSupportedIPv6Partial, on the 16-byte slice *)
Definition supported_v6_partial (b : bytes) : bool :=
  negb (negb (Nat.eqb (length b) 16)
        || all_zero (firstn 12 b)
        || ((byte_at b 0 =? 254) && (Z.land (byte_at b 1) 192 =? 192))).

(* the classes the property names, written from the RFC prefixes *)
Definition v6_linklocal (a : addr) : bool :=          (* fe80::/10 unicast, ffx2::/16 multicast *)
  a6 a && (((byte_at (ab a) 0 =? 254) && (Z.land (byte_at (ab a) 1) 192 =? 128))
           || ((byte_at (ab a) 0 =? 255) && (Z.land (byte_at (ab a) 1) 15 =? 2))).
Definition v6_sitelocal (a : addr) : bool :=          (* fec0::/10 *)
  a6 a && (byte_at (ab a) 0 =? 254) && (192 <=? byte_at (ab a) 1).
Definition v6_v4compatible (a : addr) : bool :=       (* ::a.b.c.d (96 zero bits) *)
  a6 a && all_zero (firstn 12 (ab a)).
Definition bad_class (a : addr) : bool := v6_linklocal a || v6_sitelocal a || v6_v4compatible a.

(* gather.go shouldFilterLocationTrackedIP *)
Definition location_tracked (a : addr) : bool := v6_linklocal a.

(* ------------------------------------------------------------------ Part 2: localInterfaces *)

Record iface := mkIface { if_name : string; if_up : bool; if_lo : bool; if_addrs : list bytes }.

Record cfg := mkCfg {
  c_ctypes : list Z;                 (* candidate types, as configured *)
  c_ntypes : list Z;                 (* network types after sanitizeTransportNetworkTypes; [] = all *)
  c_pmin : Z; c_pmax : Z;
  c_lo : bool;                       (* includeLoopback *)
  c_mdns : bool;                     (* MulticastDNSModeQueryAndGather *)
  c_mdns_name : string;
  c_iff : option (string -> bool);   (* interface filter *)
  c_ipf : option (addr -> bool);     (* IP filter *)
  c_tcpmux : bool;                   (* a TCP mux is configured (listening on every address) *)
  c_urls : list Z                    (* URL kinds, see below *)
}.

Definition opt_filter {A} (f : option (A -> bool)) (x : A) : bool :=
  match f with None => true | Some g => g x end.
Definition has_filters (c : cfg) : bool :=
  match c_iff c, c_ipf c with None, None => false | _, _ => true end.

Definition fam_requested (nts : list Z) : bool * bool :=
  match nts with
  | [] => (true, true)
  | _ => (existsb NetworkType_IsIPv4 nts, existsb NetworkType_IsIPv6 nts)
  end.

Definition addr_accept (c : cfg) (nts : list Z) (raw : bytes) : option addr :=
  match parse_ip raw with
  | None => None
  | Some a =>
    if is_loopback a && negb (c_lo c) then None
    else if a6 a then
      (if negb (snd (fam_requested nts)) then None
       else if negb (supported_v6_partial (ab a)) then None
       else if opt_filter (c_ipf c) a then Some a else None)
    else if negb (fst (fam_requested nts)) then None
    else if opt_filter (c_ipf c) a then Some a else None
  end.

Definition iface_accept (c : cfg) (i : iface) : bool :=
  if_up i && negb (if_lo i && negb (c_lo c)) && opt_filter (c_iff c) (if_name i).

Fixpoint filter_map {A B} (f : A -> option B) (l : list A) : list B :=
  match l with
  | [] => []
  | x :: t => match f x with Some y => y :: filter_map f t | None => filter_map f t end
  end.

Definition local_addrs (c : cfg) (nts : list Z) (ifs : list iface) : list (addr * string) :=
  flat_map (fun i =>
    if iface_accept c i
    then filter_map (fun raw => option_map (fun a => (a, if_name i)) (addr_accept c nts raw)) (if_addrs i)
    else []) ifs.
(* the filtered interface list (those with at least one accepted address) *)
Definition local_ifaces (c : cfg) (nts : list Z) (ifs : list iface) : list string :=
  flat_map (fun i =>
    if iface_accept c i
    then match filter_map (addr_accept c nts) (if_addrs i) with [] => [] | _ => [if_name i] end
    else []) ifs.

(* declarative: "sits on an interface and address accepted by the interface/IP filters and the
   loopback setting" *)
Definition on_accepted_iface (c : cfg) (ifs : list iface) (a : addr) : bool :=
  existsb (fun i =>
    if_up i && (negb (if_lo i) || c_lo c) && opt_filter (c_iff c) (if_name i)
    && existsb (fun raw => match parse_ip raw with Some a' => addr_eqb a a' | None => false end) (if_addrs i)) ifs.
Definition accepted_addr (c : cfg) (ifs : list iface) (a : addr) : bool :=
  on_accepted_iface c ifs a && (negb (is_loopback a) || c_lo c) && opt_filter (c_ipf c) a.

(* ------------------------------------------------------------------ Part 3: the port scan *)

Inductive verdict := VOk | VBusy | VUnavail.

(* the loop of listenUDPInPortRange; returns the ports tried, in order, and the result *)
Fixpoint scan (fuel : nat) (look : Z -> verdict) (lo hi cur start : Z) : list Z * option Z :=
  match fuel with
  | O => ([], None)
  | S f =>
    match look cur with
    | VOk => ([cur], Some cur)
    | VUnavail => ([cur], None)
    | VBusy =>
      let nxt := if cur + 1 >? hi then lo else cur + 1 in
      if nxt =? start then ([cur], None)
      else let '(tr, r) := scan f look lo hi nxt start in (cur :: tr, r)
    end
  end.

Definition eff_range (pmin pmax : Z) : Z * Z :=
  (if pmin =? 0 then 1024 else pmin, if pmax =? 0 then 65535 else pmax).

Inductive lresult := LEphemeral | LPort (p : Z) | LFail.
Definition listen_in_range (look : Z -> verdict) (pmin pmax start : Z) : list Z * lresult :=
  if (pmin =? 0) && (pmax =? 0) then
    ([0], match look 0 with VOk => LEphemeral | _ => LFail end)
  else
    let '(lo, hi) := eff_range pmin pmax in
    if lo >? hi then ([], LFail)
    else let '(tr, r) := scan (Z.to_nat (hi - lo + 1)) look lo hi start start in
         (tr, match r with Some p => LPort p | None => LFail end).

(* abstraction used by the gather model: which ports may come out *)
Inductive pspec := PAny | PRange (lo hi : Z) | PExact (p : Z).
Definition port_ok (ps : pspec) (p : Z) : bool :=
  match ps with PAny => true | PRange lo hi => (lo <=? p) && (p <=? hi) | PExact q => p =? q end.

Fixpoint zrange (lo : Z) (n : nat) : list Z :=
  match n with O => [] | S k => lo :: zrange (lo + 1) k end.

(* environment: per bind address, is it unavailable (EADDRNOTAVAIL) / which ports are busy *)
Record env := mkEnv {
  e_unavail : addr -> bool;
  e_busy : addr -> Z -> bool;
  e_server : bool -> option addr;    (* STUN/TURN server address per family (is6) or unresolvable *)
  e_reply : bool -> option addr;     (* reflexive address the server reports per family; None = silence *)
  e_relayed : option addr;           (* relayed address the TURN server allocates; None = failure *)
  e_tcpmux_port : Z
}.
Definition look_of (e : env) (b : addr) (p : Z) : verdict :=
  if e_unavail e b then VUnavail else if e_busy e b p then VBusy else VOk.

Definition listen_spec (e : env) (b : addr) (pmin pmax : Z) : option pspec :=
  if e_unavail e b then None
  else if (pmin =? 0) && (pmax =? 0) then (if e_busy e b 0 then None else Some PAny)
  else let '(lo, hi) := eff_range pmin pmax in
       if lo >? hi then None
       else if existsb (fun p => negb (e_busy e b p)) (zrange lo (Z.to_nat (hi - lo + 1)))
            then Some (PRange lo hi) else None.

(* ------------------------------------------------------------------ Part 4: the gatherers *)

Inductive transport := TUdp | TTcp.
Definition nt_of (t : transport) (is6 : bool) : Z :=
  match t, is6 with TUdp, false => 1 | TUdp, true => 2 | TTcp, false => 3 | TTcp, true => 4 end.
Definition all_nts : list Z := [1; 2; 3; 4].
Definition eff_nts (nts : list Z) : list Z := match nts with [] => all_nts | _ => nts end.

(* URL kinds: 0 stun (udp)  1 stuns (tcp)  2 turn?transport=udp  3 turn?transport=tcp
   4 turns?transport=udp (dtls)  5 turns?transport=tcp (tls); TURN URLs carry credentials *)
Definition url_srflx (k : Z) : bool := (k =? 0) || (k =? 2).       (* urlSupportsSrflxGathering *)
Definition url_turn (k : Z) : bool := (2 <=? k) && (k <=? 5).
Definition url_udp (k : Z) : bool := (k =? 0) || (k =? 2) || (k =? 4).

Record variant := mkVariant {
  v_eff : bool;      (* host and srflx gatherers receive the EFFECTIVE network types (all when empty) *)
  v_famgate : bool;  (* the host gatherer skips (address, transport) pairs whose type is not enabled *)
  v_relaygate : bool (* a relay candidate whose network type is not enabled is dropped *)
}.
Definition pinned : variant := mkVariant false false false.
Definition repaired : variant := mkVariant true true true.

Inductive disp := DIP (a : addr) | DName (s : string).

Record cdesc := mkCdesc {
  d_type : Z; d_nt : Z; d_disp : disp; d_port : pspec;
  d_base : option (addr * pspec);     (* related address of reflexive/relay candidates *)
  d_pub : bool;                       (* published (not held back by the location-tracking filter) *)
  d_sock : option addr                (* bind address of the socket the agent opened for it *)
}.

Definition gather_nts (v : variant) (c : cfg) : list Z :=
  if v_eff v then eff_nts (c_ntypes c) else c_ntypes c.

Definition host_transports (nts : list Z) : list transport :=
  (if existsb (fun t => negb (NetworkType_IsTCP t)) nts then [TUdp] else [])
  ++ (if existsb NetworkType_IsTCP nts then [TTcp] else []).

Definition host_disp (c : cfg) (a : addr) : disp := if c_mdns c then DName (c_mdns_name c) else DIP a.
Definition host_pub (c : cfg) (a : addr) : bool := if c_mdns c then true else negb (location_tracked a).

Definition host_one (v : variant) (c : cfg) (e : env) (nts : list Z) (a : addr) (t : transport) : list cdesc :=
  if v_famgate v && negb (mem (nt_of t (a6 a)) nts) then []
  else match t with
  | TTcp =>
    if c_tcpmux c
    then [mkCdesc 1 (nt_of TTcp (a6 a)) (host_disp c a) (PExact (e_tcpmux_port e)) None (host_pub c a) None]
    else []
  | TUdp =>
    match listen_spec e a (c_pmin c) (c_pmax c) with
    | Some ps => [mkCdesc 1 (nt_of TUdp (a6 a)) (host_disp c a) ps None (host_pub c a) (Some a)]
    | None => []
    end
  end.

Definition host_model (v : variant) (c : cfg) (ifs : list iface) (e : env) : list cdesc :=
  let nts := gather_nts v c in
  flat_map (fun ai => flat_map (host_one v c e nts (fst ai)) (host_transports nts)) (local_addrs c nts ifs).

Definition wild (is6 : bool) : addr :=
  mkAddr is6 (if is6 then [0;0;0;0;0;0;0;0;0;0;0;0;0;0;0;0] else [0;0;0;0]).

Definition srflx_binds (c : cfg) (nts : list Z) (ifs : list iface) (nt : Z) : list addr :=
  if has_filters c
  then filter (fun a => Bool.eqb (a6 a) (NetworkType_IsIPv6 nt)) (map fst (local_addrs c nts ifs))
  else [wild (NetworkType_IsIPv6 nt)].

Definition srflx_one (c : cfg) (e : env) (nt : Z) (b : addr) : list cdesc :=
  let is6 := NetworkType_IsIPv6 nt in
  match e_server e is6 with
  | None => []
  | Some srv =>
    if location_tracked srv then []
    else match listen_spec e b (c_pmin c) (c_pmax c) with
    | None => []
    | Some ps =>
      match e_reply e is6 with
      | None => []
      | Some m => [mkCdesc 2 (nt_of TUdp (a6 m)) (DIP m) PAny (Some (b, ps)) true (Some b)]
      end
    end
  end.

Definition srflx_model (v : variant) (c : cfg) (ifs : list iface) (e : env) : list cdesc :=
  let nts := gather_nts v c in
  flat_map (fun nt =>
    if NetworkType_IsTCP nt then []
    else flat_map (fun k =>
      if url_srflx k then flat_map (srflx_one c e nt) (srflx_binds c nts ifs nt) else []) (c_urls c)) nts.

(* relay: UDP TURN over IPv4 only ("IPv6 TURN support is not finished"); TCP/TLS/DTLS transports
   need a dialled connection, which the environment of the model does not provide *)
Definition relay_binds (c : cfg) (ifs : list iface) : list addr :=
  if has_filters c
  then filter (fun a => negb (a6 a)) (map fst (local_addrs c (c_ntypes c) ifs))
  else [wild false].

Definition relay_one (v : variant) (c : cfg) (e : env) (b : addr) : list cdesc :=
  if e_unavail e b || e_busy e b 0 then []
  else match e_relayed e with
  | None => []
  | Some r =>
    if location_tracked r then []
    else if v_relaygate v && negb (mem (nt_of TUdp (a6 r)) (eff_nts (c_ntypes c))) then []
    else [mkCdesc 4 (nt_of TUdp (a6 r)) (DIP r) PAny (Some (b, PAny)) true (Some b)]
  end.

Definition relay_model (v : variant) (c : cfg) (ifs : list iface) (e : env) : list cdesc :=
  if has_filters c && match local_addrs c (c_ntypes c) ifs with [] => true | _ => false end then []
  else if negb (existsb NetworkType_IsUDP (eff_nts (c_ntypes c))) then []
  else flat_map (fun k =>
    if (k =? 2) then flat_map (relay_one v c e) (relay_binds c ifs) else []) (c_urls c).

Definition gather_model (v : variant) (c : cfg) (ifs : list iface) (e : env) : list cdesc :=
  flat_map (fun t =>
    if t =? 1 then host_model v c ifs e
    else if t =? 2 then srflx_model v c ifs e
    else if t =? 4 then relay_model v c ifs e
    else []) (c_ctypes c).

(* ------------------------------------------------------------------ Part 5: observations, monitor *)

Record ocand := mkOcand {
  o_type : Z; o_nt : Z; o_disp : disp; o_port : Z;
  o_base : option (addr * Z)
}.
Record osock := mkOsock { s_addr : addr; s_port : Z }.   (* own UDP sockets seen by the fake Net *)

Definition disp_eqb (x y : disp) : bool :=
  match x, y with
  | DIP a, DIP b => addr_eqb a b
  | DName s, DName t => String.eqb s t
  | _, _ => false
  end.

Definition match_base (ob : option (addr * Z)) (db : option (addr * pspec)) : bool :=
  match ob, db with
  | None, None => true
  | Some (a, p), Some (b, ps) => addr_eqb a b && port_ok ps p
  | _, _ => false
  end.
Definition match_cand (o : ocand) (d : cdesc) : bool :=
  (o_type o =? d_type d) && (o_nt o =? d_nt d) && disp_eqb (o_disp o) (d_disp d)
  && port_ok (d_port d) (o_port o) && match_base (o_base o) (d_base d).

(* the socket the candidate [o] lives on, when its description says the agent opened one *)
Definition sock_port (o : ocand) : Z :=
  match o_base o with Some (_, p) => p | None => o_port o end.
Definition sock_seen (socks : list osock) (o : ocand) (d : cdesc) : bool :=
  match d_sock d with
  | None => true
  | Some b => existsb (fun s => addr_eqb (s_addr s) b && (s_port s =? sock_port o)) socks
  end.

(* correspondence: the published set equals the model's published set (ports within their
   specification), and every own socket of a published candidate is in the fake's table *)
Definition corresponds (descs : list cdesc) (pub : list ocand) (socks : list osock) : bool :=
  forallb (fun o => existsb (fun d => d_pub d && match_cand o d && sock_seen socks o d) descs) pub
  && forallb (fun d => negb (d_pub d) || existsb (fun o => match_cand o d) pub) descs.

(* --- the monitor: the property over observations --- *)
Definition in_cfg_range (c : cfg) (p : Z) : bool :=
  if (c_pmin c =? 0) && (c_pmax c =? 0) then true
  else let '(lo, hi) := eff_range (c_pmin c) (c_pmax c) in (lo <=? p) && (p <=? hi).

Definition is_udp_nt (nt : Z) : bool := (nt =? 1) || (nt =? 2).
Definition nt_is6 (nt : Z) : bool := (nt =? 2) || (nt =? 4).

(* own socket of a host candidate: a socket with the candidate's port on an accepted address
   of the candidate's family (and on the candidate's own address when the IP is shown) *)
Definition host_socket_ok (c : cfg) (ifs : list iface) (socks : list osock) (o : ocand) : bool :=
  existsb (fun s =>
    (s_port s =? o_port o) && Bool.eqb (a6 (s_addr s)) (nt_is6 (o_nt o))
    && accepted_addr c ifs (s_addr s)
    && match o_disp o with DIP a => addr_eqb a (s_addr s) | DName _ => true end) socks.

Definition base_ok (c : cfg) (ifs : list iface) (o : ocand) : bool :=
  match o_base o with
  | None => false
  | Some (b, p) => (accepted_addr c ifs b || (is_unspec b && negb (has_filters c)))
  end.

(* has the (address, transport) pair a listener? *)
Definition has_listener (c : cfg) (e : env) (a : addr) (t : transport) : bool :=
  match t with
  | TTcp => c_tcpmux c
  | TUdp => match listen_spec e a (c_pmin c) (c_pmax c) with Some _ => true | None => false end
  end.

(* an interface address is eligible when it is accepted and of none of the excluded classes *)
Definition eligible (c : cfg) (ifs : list iface) (a : addr) : bool :=
  accepted_addr c ifs a
  && (negb (a6 a) || (negb (v6_sitelocal a) && negb (v6_v4compatible a) && (c_mdns c || negb (v6_linklocal a)))).

Definition all_addrs (ifs : list iface) : list addr :=
  flat_map (fun i => filter_map parse_ip (if_addrs i)) ifs.

Definition complete_for (c : cfg) (ifs : list iface) (e : env) (pub : list ocand) : bool :=
  negb (mem 1 (c_ctypes c)) ||
  forallb (fun a =>
    negb (eligible c ifs a) ||
    forallb (fun t =>
      negb (mem (nt_of t (a6 a)) (eff_nts (c_ntypes c))) || negb (has_listener c e a t) ||
      existsb (fun o => (o_type o =? 1) && (o_nt o =? nt_of t (a6 a)) && disp_eqb (o_disp o) (host_disp c a)) pub)
      [TUdp; TTcp]) (all_addrs ifs).

Definition C18_gather_checks (c : cfg) (ifs : list iface) (e : env)
           (pub : list ocand) (socks : list osock) : checks :=
  [ ("type_enabled"%string, forallb (fun o => mem (o_type o) (c_ctypes c)) pub);
    ("nettype_enabled_host"%string,
       forallb (fun o => negb (o_type o =? 1) || mem (o_nt o) (eff_nts (c_ntypes c))) pub);
    ("nettype_enabled_srflx"%string,
       forallb (fun o => negb (o_type o =? 2) || mem (o_nt o) (eff_nts (c_ntypes c))) pub);
    ("nettype_enabled_relay"%string,
       forallb (fun o => (o_type o =? 1) || (o_type o =? 2) || mem (o_nt o) (eff_nts (c_ntypes c))) pub);
    ("addr_class"%string,
       forallb (fun o => match o_disp o with DIP a => negb (bad_class a) | DName _ => true end) pub);
    ("mdns_name"%string,
       forallb (fun o => negb (o_type o =? 1) ||
                  (if c_mdns c then disp_eqb (o_disp o) (DName (c_mdns_name c))
                   else match o_disp o with DIP _ => true | DName _ => false end)) pub);
    ("own_socket_accepted"%string,
       forallb (fun o =>
         if (o_type o =? 1) && is_udp_nt (o_nt o) then host_socket_ok c ifs socks o
         else if o_type o =? 2 then base_ok c ifs o else true) pub);
    ("port_in_range"%string,
       forallb (fun o =>
         if (o_type o =? 1) && is_udp_nt (o_nt o) then in_cfg_range c (o_port o)
         else if o_type o =? 2 then match o_base o with Some (_, p) => in_cfg_range c p | None => false end
         else true) pub);
    ("complete"%string, complete_for c ifs e pub) ].

(* GetLocalCandidates must show the same set as the OnCandidate stream of a finished cycle *)
Definition same_set (xs ys : list ocand) : bool :=
  let eqo a b := (o_type a =? o_type b) && (o_nt a =? o_nt b) && disp_eqb (o_disp a) (o_disp b)
                 && (o_port a =? o_port b)
                 && match o_base a, o_base b with
                    | None, None => true
                    | Some (x, p), Some (y, q) => addr_eqb x y && (p =? q)
                    | _, _ => false end in
  forallb (fun a => existsb (eqo a) ys) xs && forallb (fun b => existsb (fun a => eqo a b) xs) ys.

(* a finished, undisturbed cycle: GatherCandidates accepted (ret 0), state Complete (3), one nil *)
Definition C18_finish_checks (ret state nils : Z) (pub loc : list ocand) : checks :=
  [ ("gather_accepted"%string, ret =? 0);
    ("state_complete"%string, state =? 3);
    ("one_nil"%string, nils =? 1);
    ("local_equals_published"%string, same_set pub loc) ].

