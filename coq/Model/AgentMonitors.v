(* Executable monitors for the agent-core properties (C02-C07, C20).  A monitor reads the
   OBSERVATIONS of one agent (operation, canonical outputs, snapshot after) -- never the model
   state -- and states the property over them as named checks.  bin/check evaluates them on the
   implementation's observations; Proofs/ shows the model's own observations pass them.
   The monitor keeps a little history ([mstate]) where the property needs one. *)
From Coq Require Import ZArith Bool List String.
From Ice Require Import Model.PrioSpec Model.AgentTypes Model.AgentCore Model.AgentObs Gen.Consts.
Import ListNotations.
Local Open Scope Z_scope.

(* ---- boolean equalities on observations ------------------------------------------------- *)
Definition opt_eqb {A} (e : A -> A -> bool) (x y : option A) : bool :=
  match x, y with Some a, Some b => e a b | None, None => true | _, _ => false end.
Fixpoint list_eqb {A} (e : A -> A -> bool) (x y : list A) : bool :=
  match x, y with
  | [], [] => true
  | a :: x', b :: y' => e a b && list_eqb e x' y'
  | _, _ => false
  end.
Definition pair_zz_eqb (x y : Z * Z) : bool := (fst x =? fst y) && (snd x =? snd y).

Definition psnap_eqb (a b : psnap) : bool :=
  (ps_id a =? ps_id b) && (ps_lh a =? ps_lh b) && (ps_rtyp a =? ps_rtyp b) && (ps_rnet a =? ps_rnet b)
  && addr_eqb (ps_raddr a) (ps_raddr b) && (ps_rtcp a =? ps_rtcp b) && opt_eqb pair_zz_eqb (ps_rrel a) (ps_rrel b)
  && (ps_state a =? ps_state b) && Bool.eqb (ps_nominated a) (ps_nominated b)
  && Bool.eqb (ps_nom_on_succ a) (ps_nom_on_succ b) && (ps_reqcount a =? ps_reqcount b) && (ps_prio a =? ps_prio b)
  && Bool.eqb (ps_ctl a) (ps_ctl b) && (ps_req_sent a =? ps_req_sent b) && (ps_req_recv a =? ps_req_recv b)
  && (ps_resp_sent a =? ps_resp_sent b) && (ps_resp_recv a =? ps_resp_recv b)
  && (ps_pkts_sent a =? ps_pkts_sent b) && (ps_bytes_sent a =? ps_bytes_sent b)
  && (ps_pkts_recv a =? ps_pkts_recv b) && (ps_bytes_recv a =? ps_bytes_recv b).

(* remote candidate identity (what Candidate.Equal compares) and full equality incl. liveness age *)
Definition rsnap_same (a b : rsnap) : bool :=
  (rs_typ a =? rs_typ b) && (rs_net a =? rs_net b) && addr_eqb (rs_addr a) (rs_addr b)
  && (rs_tcp a =? rs_tcp b) && opt_eqb pair_zz_eqb (rs_rel a) (rs_rel b).
Definition rsnap_eqb (a b : rsnap) : bool :=
  rsnap_same a b && (rs_prio a =? rs_prio b) && opt_eqb Z.eqb (rs_age a) (rs_age b).
Definition qsnap_eqb (a b : qsnap) : bool :=
  (qs_tx a =? qs_tx b) && addr_eqb (qs_dst a) (qs_dst b) && (qs_net a =? qs_net b)
  && Bool.eqb (qs_use a) (qs_use b) && opt_eqb Z.eqb (qs_nom a) (qs_nom b) && (qs_age a =? qs_age b).

(* the remote lists are compared as multisets (the implementation keeps them per network type) *)
Fixpoint remove_first {A} (e : A -> A -> bool) (x : A) (l : list A) : option (list A) :=
  match l with
  | [] => None
  | y :: t => if e x y then Some t else
              match remove_first e x t with Some t' => Some (y :: t') | None => None end
  end.
Fixpoint perm_eqb {A} (e : A -> A -> bool) (x y : list A) : bool :=
  match x with
  | [] => match y with [] => true | _ => false end
  | a :: x' => match remove_first e a y with Some y' => perm_eqb e x' y' | None => false end
  end.

Definition snap_eqb (a b : snap) : bool :=
  (sn_conn a =? sn_conn b) && Bool.eqb (sn_ctl a) (sn_ctl b)
  && opt_eqb Z.eqb (sn_selected a) (sn_selected b) && opt_eqb Z.eqb (sn_nominated a) (sn_nominated b)
  && opt_eqb Z.eqb (sn_last_nom a) (sn_last_nom b) && (sn_next_pair a =? sn_next_pair b)
  && (sn_lufrag a =? sn_lufrag b) && (sn_rufrag a =? sn_rufrag b) && (sn_lpwd a =? sn_lpwd b) && (sn_rpwd a =? sn_rpwd b)
  && Bool.eqb (sn_closed a) (sn_closed b)
  && list_eqb qsnap_eqb (sn_pending a) (sn_pending b)
  && perm_eqb Z.eqb (sn_locals a) (sn_locals b)
  && perm_eqb rsnap_eqb (sn_remotes a) (sn_remotes b)
  && list_eqb psnap_eqb (sn_pairs a) (sn_pairs b)
  && (sn_bytes_sent a =? sn_bytes_sent b) && (sn_bytes_recv a =? sn_bytes_recv b).

(* everything but liveness ages of remotes and the pending list *)
Definition snap_same_selection (a b : snap) : bool :=
  (sn_conn a =? sn_conn b) && Bool.eqb (sn_ctl a) (sn_ctl b)
  && opt_eqb Z.eqb (sn_selected a) (sn_selected b)
  && list_eqb psnap_eqb (sn_pairs a) (sn_pairs b)
  && perm_eqb rsnap_same (sn_remotes a) (sn_remotes b)
  && perm_eqb Z.eqb (sn_locals a) (sn_locals b).

Definition payload_eqb (a b : payload) : bool :=
  (pl_id a =? pl_id b) && (pl_len a =? pl_len b) && Bool.eqb (pl_stun a) (pl_stun b).

(* ---- monitor state --------------------------------------------------------------------------- *)
Record sent_req := mkSent { sr_tx : Z; sr_lh : Z; sr_dst : addr; sr_use : bool; sr_nom : bool }.
Record nom_req := mkNomReq { nr_lh : Z; nr_src : addr; nr_valued : bool; nr_value : Z }.

Record mstate := mkMstate {
  ms_prev : snap;
  ms_sent : list sent_req;          (* requests the agent emitted (this generation) *)
  ms_nomreq : list nom_req;         (* authenticated nominating requests received per (local, source) *)
  ms_locals : list cand;            (* local candidates handed to the agent and still listed *)
  ms_queue : list payload;          (* data the reader is owed, in order *)
  ms_now : Z;
  ms_started : bool;
  ms_tick_last : Z;                 (* state at the end of the previous tick *)
  ms_check_since : Z;               (* time of the first tick of the current checking phase *)
  ms_wf : bool                      (* every inbound so far arrived on a socket of its own family, after Start *)
}.

Definition is_some {A} (x : option A) : bool := match x with Some _ => true | None => false end.

Definition local_of (ms : mstate) (lh : Z) : option cand := find (fun c => c_h c =? lh) (ms_locals ms).
Definition local_listed (sn : snap) (lh : Z) : bool := existsb (Z.eqb lh) (sn_locals sn).

Definition outs_wire (outs : list out) : list out :=
  filter (fun o => match o with OSend _ _ _ | OData _ _ _ => true | _ => false end) outs.
Definition outs_states (outs : list out) : list Z :=
  flat_map (fun o => match o with OState st => [st] | _ => [] end) outs.
Definition outs_rets (outs : list out) : list ret :=
  flat_map (fun o => match o with ORet r => [r] | _ => [] end) outs.
Definition outs_delivered (outs : list out) : list payload :=
  flat_map (fun o => match o with ODeliver p => [p] | _ => [] end) outs.
Definition ret_is (outs : list out) (f : ret -> bool) : bool :=
  match outs_rets outs with [r] => f r | _ => false end.
Definition is_ok (r : ret) : bool := match r with ROk => true | _ => false end.

Definition known_remote (sn : snap) (net : Z) (src : addr) : bool :=
  existsb (fun r => (rs_net r =? net) && addr_eqb (rs_addr r) src) (sn_remotes sn).
Definition blocked (cfg : config) (a : addr) : bool := existsb (Z.eqb (a_ip a)) (cf_blocked_ips cfg).

Definition auth_request (sn : snap) (m : msg) : bool :=
  match m_user m, m_key m with
  | Some (a, b), Some k => (a =? sn_lufrag sn) && (b =? sn_rufrag sn) && (k =? sn_lpwd sn)
  | _, _ => false
  end.
Definition auth_response (sn : snap) (m : msg) : bool :=
  match m_key m with Some k => k =? sn_rpwd sn | None => false end.

Definition pair_in (sn : snap) (id : Z) : option psnap := find (fun p => ps_id p =? id) (sn_pairs sn).
Definition pair_at (sn : snap) (lh net : Z) (src : addr) : option psnap :=
  find (fun p => (ps_lh p =? lh) && (ps_rnet p =? net) && addr_eqb (ps_raddr p) src) (sn_pairs sn).

Definition unexpired (cfg : config) (q : qsnap) : bool :=
  qs_age q * grid + cf_eps cfg <? maxBindingRequestTimeout.

Definition family_ok (l : cand) (src : addr) : bool :=
  Bool.eqb (a_v6 src) ((c_net l =? NetworkTypeUDP6) || (c_net l =? NetworkTypeTCP6)).

(* the documented silence -> state rule (independent of the code) *)
Definition spec_silence_state (td tf cur d : Z) : Z :=
  let disconnected := negb (td =? 0) && (td <? d) in
  let failed := negb (tf =? 0) && (td + tf <? d) in
  if failed then
    (if disconnected && negb (cur =? ConnectionStateDisconnected) && negb (cur =? ConnectionStateFailed)
     then ConnectionStateDisconnected else ConnectionStateFailed)
  else if disconnected then ConnectionStateDisconnected
  else ConnectionStateConnected.

Definition spec_checking_deadline (cfg : config) : Z :=
  if cf_failed_timeout cfg =? 0 then 0
  else (if cf_lite cfg && negb (cf_disc_explicit cfg) then defaultDisconnectedTimeout else cf_disc_timeout cfg)
       + cf_failed_timeout cfg.

(* the documented lifecycle graph *)
Definition edge_ok (cfg : config) (o : op) (a b : Z) : bool :=
  let restart := match o with Restart _ _ => true | _ => false end in
  if a =? ConnectionStateClosed then false
  else if b =? ConnectionStateClosed then true
  else if b =? ConnectionStateChecking then
    (a =? ConnectionStateNew)
    || (restart && ((a =? ConnectionStateConnected) || (a =? ConnectionStateDisconnected) || (a =? ConnectionStateFailed)))
  else if b =? ConnectionStateConnected then (a =? ConnectionStateChecking) || (a =? ConnectionStateDisconnected)
  else if b =? ConnectionStateDisconnected then (a =? ConnectionStateConnected)
  else if b =? ConnectionStateFailed then
    (a =? ConnectionStateChecking) || (a =? ConnectionStateDisconnected)
    || ((a =? ConnectionStateConnected) && (cf_disc_timeout cfg =? 0))
  else false.

Fixpoint chain_ok (f : Z -> Z -> bool) (a : Z) (l : list Z) : bool :=
  match l with
  | [] => true
  | b :: t => f a b && chain_ok f b t
  end.

Definition wiped (sn : snap) : bool :=
  match sn_pairs sn, sn_pending sn, sn_selected sn, sn_locals sn, sn_remotes sn with
  | [], [], None, [], [] => true
  | _, _, _, _, _ => false
  end.

Fixpoint nodup_by {A} (e : A -> A -> bool) (l : list A) : bool :=
  match l with
  | [] => true
  | x :: t => negb (existsb (e x) t) && nodup_by e t
  end.

Definition psnap_same_pair (a b : psnap) : bool :=
  (ps_lh a =? ps_lh b) && (ps_rtyp a =? ps_rtyp b) && (ps_rnet a =? ps_rnet b) && addr_eqb (ps_raddr a) (ps_raddr b)
  && (ps_rtcp a =? ps_rtcp b) && opt_eqb pair_zz_eqb (ps_rrel a) (ps_rrel b).

Definition remote_of_pair_listed (sn : snap) (p : psnap) : bool :=
  existsb (fun r => (rs_typ r =? ps_rtyp p) && (rs_net r =? ps_rnet p) && addr_eqb (rs_addr r) (ps_raddr p)
                    && (rs_tcp r =? ps_rtcp p) && opt_eqb pair_zz_eqb (rs_rel r) (ps_rrel p)) (sn_remotes sn).

Definition best_prio_succeeded (sn : snap) : option Z :=
  fold_left (fun acc p => if ps_state p =? CandidatePairStateSucceeded then
                            match acc with None => Some (ps_prio p) | Some b => Some (Z.max b (ps_prio p)) end
                          else acc) (sn_pairs sn) None.

Definition data_counters_same (a b : psnap) : bool :=
  (ps_pkts_sent a =? ps_pkts_sent b) && (ps_bytes_sent a =? ps_bytes_sent b)
  && (ps_pkts_recv a =? ps_pkts_recv b) && (ps_bytes_recv a =? ps_bytes_recv b).

Definition ck (n : string) (b : bool) : string * bool := (n, b).

(* ---- the checks of one step ---------------------------------------------------------------------- *)
Definition step_checks (cfg : config) (ms : mstate) (o : op) (outs : list out) (sn : snap) : checks :=
  let prev := ms_prev ms in
  let live := negb (sn_closed prev) in
  let sel_changed := negb (opt_eqb Z.eqb (sn_selected prev) (sn_selected sn)) in
  (* --- C04: on every step --- *)
  let sts := outs_states outs in
  let c04 :=
    [ ck "C04.notifications_are_transitions"
         (chain_ok (fun a b => negb (a =? b)) (sn_conn prev) sts && (last sts (sn_conn prev) =? sn_conn sn));
      ck "C04.lifecycle_edge"
         (chain_ok (fun a b => edge_ok cfg o a b
                               || ((a =? ConnectionStateFailed) && (b =? ConnectionStateConnected))
                               || negb (ms_wf ms)) (sn_conn prev) sts);
      ck "C04.failed_never_leaves_without_restart"
         (chain_ok (fun a b => negb ((a =? ConnectionStateFailed) && (b =? ConnectionStateConnected))) (sn_conn prev) sts);
      ck "C04.connected_needs_selection"
         (if (sn_conn sn =? ConnectionStateConnected) || (sn_conn sn =? ConnectionStateDisconnected)
          then is_some (sn_selected sn) else true);
      ck "C04.failed_after_release"
         (if existsb (Z.eqb ConnectionStateFailed) sts then wiped sn else true) ] in
  (* --- C06: on every step --- *)
  let c06 :=
    if sn_closed sn then [] else
    [ (* judged at the step that introduces a duplicate; the one known way to get one (two distinct
         peer-reflexive remotes on one transport address superseded by one signalled candidate) has its own name *)
      ck (match o with
          | AddRemote c =>
            if 2 <=? Z.of_nat (List.length (filter (fun r => (rs_typ r =? CandidateTypePeerReflexive) && (rs_net r =? c_net c)
                                                        && addr_eqb (rs_addr r) (c_addr c) && (rs_tcp r =? c_tcp c))
                                              (sn_remotes prev)))
            then "C06.no_duplicate_pairs.two_prflx_superseded"%string else "C06.no_duplicate_pairs"%string
          | _ => "C06.no_duplicate_pairs"%string
          end)
         (negb (nodup_by psnap_same_pair (sn_pairs prev)) || nodup_by psnap_same_pair (sn_pairs sn));
      ck "C06.pair_ids_unique" (nodup_by (fun a b => ps_id a =? ps_id b) (sn_pairs sn)
                                && forallb (fun p => (1 <=? ps_id p) && (ps_id p <=? sn_next_pair sn)) (sn_pairs sn));
      ck "C06.pair_ids_never_reused"
         ((sn_next_pair prev <=? sn_next_pair sn)
          && forallb (fun p => is_some (pair_in prev (ps_id p)) || (sn_next_pair prev <? ps_id p)) (sn_pairs sn));
      ck "C06.pair_id_stable"
         (forallb (fun p => match pair_in prev (ps_id p) with
                            | Some q => (ps_lh p =? ps_lh q) && (ps_rnet p =? ps_rnet q) && addr_eqb (ps_raddr p) (ps_raddr q)
                            | None => true
                            end) (sn_pairs sn));
      ck "C06.pairs_from_current_candidates"
         (forallb (fun p => local_listed sn (ps_lh p) && remote_of_pair_listed sn p) (sn_pairs sn));
      ck "C06.pair_same_network_type"
         (negb (ms_wf ms) ||
          forallb (fun p => match find (fun c => c_h c =? ps_lh p) (ms_locals ms ++ match o with AddLocal c => [c] | _ => [] end) with
                            | Some l => c_net l =? ps_rnet p
                            | None => true
                            end) (sn_pairs sn));
      ck "C06.selected_listed"
         (sn_selected_listed sn && sn_index_ok sn &&
          match sn_selected sn with Some id => is_some (pair_in sn id) | None => true end);
      ck "C06.remotes_deduplicated" (nodup_by rsnap_same (sn_remotes sn));
      ck "C06.remotes_filtered"
         (forallb (fun r => negb (rs_tcp r =? TCPTypeActive) && negb (blocked cfg (rs_addr r))) (sn_remotes sn));
      ck "C06.restart_leaves_no_residue"
         (match o with Restart _ _ => if ret_is outs is_ok then wiped sn else true | _ => true end);
      (* entering Failed releases pairs, candidates, selection and outstanding transactions, and nothing
         of them comes back while the agent stays Failed *)
      ck "C06.failed_leaves_no_residue"
         (if existsb (Z.eqb ConnectionStateFailed) sts || ((sn_conn prev =? ConnectionStateFailed) && (sn_conn sn =? ConnectionStateFailed))
          then wiped sn else true) ] in
  let c06s :=
    match o with
    | AddRemote c =>
      if live && ret_is outs is_ok && negb (c_typ c =? CandidateTypePeerReflexive) then
        [ ck "C06.prflx_supersession"
             (forallb (fun q =>
                if (ps_rtyp q =? CandidateTypePeerReflexive) && (ps_rnet q =? c_net c) && addr_eqb (ps_raddr q) (c_addr c)
                   && (ps_rtcp q =? c_tcp c)
                   && negb (existsb (fun r => (rs_typ r =? c_typ c) && (rs_net r =? c_net c) && addr_eqb (rs_addr r) (c_addr c)
                                              && (rs_tcp r =? c_tcp c) && opt_eqb pair_zz_eqb (rs_rel r) (c_rel c)) (sn_remotes prev))
                then match pair_in sn (ps_id q) with
                     | Some p => (ps_lh p =? ps_lh q) && (ps_state p =? ps_state q) && (ps_prio p =? ps_prio q)
                                 && Bool.eqb (ps_nominated p) (ps_nominated q || opt_eqb Z.eqb (sn_selected prev) (Some (ps_id q)))
                                 && Bool.eqb (ps_nom_on_succ p) (ps_nom_on_succ q)
                                 && (ps_reqcount p =? ps_reqcount q) && (ps_req_sent p =? ps_req_sent q)
                                 && (ps_req_recv p =? ps_req_recv q) && (ps_resp_sent p =? ps_resp_sent q)
                                 && (ps_resp_recv p =? ps_resp_recv q) && data_counters_same p q
                                 && (ps_rtyp p =? c_typ c)
                     | None => false
                     end
                else true) (sn_pairs prev)
              && opt_eqb Z.eqb (sn_selected prev) (sn_selected sn)) ]
      else []
    | _ => []
    end in
  (* --- counters: on every step (C07) --- *)
  (* accepted by the socket = what appeared on the wire (a refused send leaves nothing there) *)
  let written := match o with
                 | Write _ | WriteToPair _ _ =>
                   fold_left (fun a w => match w with OData _ _ q => a + (if 0 <? pl_len q then pl_len q else 0) | _ => a end) outs 0
                 | _ => 0
                 end in
  let c07c :=
    [ ck "C07.conn_bytes_sent"
         (sn_bytes_sent sn - sn_bytes_sent prev =? match o with Write _ => written | _ => 0 end);
      ck "C07.conn_bytes_received"
         (sn_bytes_recv sn - sn_bytes_recv prev =? fold_left (fun a p => a + pl_len p) (outs_delivered outs) 0);
      ck "C07.data_only_by_write"
         (match o with
          | Write _ | WriteToPair _ _ => true
          | _ => negb (existsb (fun w => match w with OData _ _ _ => true | _ => false end) outs)
          end);
      ck "C07.deliver_only_by_read"
         (match o with Read => true | _ => match outs_delivered outs with [] => true | _ => false end end) ] in
  (* --- operation-specific --- *)
  let specific :=
    match o with
    | InStun lh src m =>
      if negb live || negb (local_listed prev lh) then
        [ ck "C02.dead_socket_inert" (match outs with [] => snap_eqb prev sn | _ => false end) ]
      else
      let lnet := match local_of ms lh with Some l => c_net l | None => 0 end in
      let inert := match outs with [] => snap_eqb prev sn | _ => false end in
      let binding := m_method m =? 1 in
      let c02 :=
        if (m_class m =? 0) && binding && negb (auth_request prev m) then [ ck "C02.bad_request_inert" inert ]
        else if (m_class m =? 2) && binding && (negb (auth_response prev m) || negb (known_remote prev lnet src)) then
          [ ck "C02.bad_response_inert" inert ]
        else if (m_class m =? 3) || negb binding then [ ck "C02.other_classes_inert" inert ]
        else if m_class m =? 1 then
          [ ck "C02.indication_refreshes_at_most_liveness"
               (match outs with [] => snap_same_selection prev sn && list_eqb qsnap_eqb (sn_pending prev) (sn_pending sn)
                                      && (known_remote prev lnet src || snap_eqb prev sn)
                           | _ => false end) ]
        else if m_class m =? 2 then
          (* still outstanding: in the agent's transaction table, unexpired, AND written by the agent in the
             current generation (ghost log of the requests observed on the wire since the last Restart) *)
          if existsb (fun q => (qs_tx q =? m_tx m) && addr_eqb (qs_dst q) src && (qs_net q =? lnet) && unexpired cfg q)
                     (sn_pending prev)
             && existsb (fun r => (sr_tx r =? m_tx m) && addr_eqb (sr_dst r) src) (ms_sent ms)
          then []
          else [ ck "C02.response_needs_live_matching_tx"
                    (match outs with [] => snap_same_selection prev sn
                                           && forallb (fun q => existsb (qsnap_eqb q) (sn_pending prev)) (sn_pending sn)
                                | _ => false end) ]
        else [] in
      let accepted_req := (m_class m =? 0) && binding && auth_request prev m
                          && (known_remote prev lnet src || negb (blocked cfg src)) in
      let conflict := match m_ctl m with Some (r, _) => Bool.eqb r (sn_ctl prev) | None => false end in
      let c05 :=
        if accepted_req && conflict then
          let tb := match m_ctl m with Some (_, t) => t | None => 0 end in
          let keep := (sn_ctl prev && (tb <=? cf_tiebreaker cfg)) || (negb (sn_ctl prev) && (cf_tiebreaker cfg <? tb)) in
          [ ck "C05.decision"
               (if keep then
                  Bool.eqb (sn_ctl sn) (sn_ctl prev) &&
                  match outs with
                  | [OSend h d r] => (h =? lh) && addr_eqb d src && (m_class r =? 3) && (m_tx r =? m_tx m)
                                     && opt_eqb Z.eqb (m_err r) (Some 487) && opt_eqb Z.eqb (m_key r) (Some (sn_lpwd prev))
                  | _ => false
                  end
                else Bool.eqb (sn_ctl sn) (negb (sn_ctl prev)) && match outs with [] => true | _ => false end);
            ck "C05.not_a_connectivity_check"
               (opt_eqb Z.eqb (sn_selected prev) (sn_selected sn) && (sn_conn prev =? sn_conn sn)
                && forallb (fun p => match pair_in prev (ps_id p) with
                                     | Some q => (ps_state p =? ps_state q) && Bool.eqb (ps_nominated p) (ps_nominated q)
                                                 && Bool.eqb (ps_nom_on_succ p) (ps_nom_on_succ q)
                                     | None => negb (ps_state p =? CandidatePairStateSucceeded) && negb (ps_nominated p)
                                               && negb (ps_nom_on_succ p)
                                     end) (sn_pairs sn)) ]
        else [] in
      (* C03 / C20 on accepted traffic *)
      let full := negb (cf_lite cfg) in
      let resp_ok := (m_class m =? 2) && binding && auth_response prev m && known_remote prev lnet src in
      let got_resp := existsb (fun p => match pair_in prev (ps_id p) with
                                        | Some q => ps_resp_recv q <? ps_resp_recv p
                                        | None => 0 <? ps_resp_recv p
                                        end) (sn_pairs sn) in
      let c03r :=
        if resp_ok && (got_resp || sel_changed) then
          [ ck "C03.response_matches_sent_request"
               (existsb (fun r => (sr_tx r =? m_tx m) && addr_eqb (sr_dst r) src) (ms_sent ms));
            ck "C03.check_of_its_own"
               (existsb (fun r => (sr_tx r =? m_tx m) && addr_eqb (sr_dst r) src && (sr_lh r =? lh)) (ms_sent ms)) ]
        else [] in
      let c03s :=
        if sel_changed && live then
          match sn_selected sn with
          | None => []
          | Some id =>
            match pair_in sn id with
            | None => [ ck "C03.selected_is_validated" false ]
            | Some p =>
              let nominating_now := (m_class m =? 0) && accepted_req && negb conflict
                                    && (m_use m || is_some (m_nom m)) && (ps_lh p =? lh) && addr_eqb (ps_raddr p) src in
              let nominated_before := existsb (fun n => (nr_lh n =? ps_lh p) && addr_eqb (nr_src n) (ps_raddr p)) (ms_nomreq ms) in
              [ ck "C03.selected_is_validated"
                   (if full then (ps_state p =? CandidatePairStateSucceeded) && (1 <=? ps_resp_recv p) && ps_nominated p
                    else (ps_state p =? CandidatePairStateSucceeded) && ps_nominated p);
                ck "C03.selected_was_nominated"
                   (if sn_ctl prev then
                      resp_ok && (ps_lh p =? lh) && addr_eqb (ps_raddr p) src
                      && existsb (fun r => (sr_tx r =? m_tx m) && sr_use r) (ms_sent ms)
                    else nominating_now || (resp_ok && (ps_lh p =? lh) && addr_eqb (ps_raddr p) src && nominated_before));
                ck "C03.no_downward_switch"
                   (if negb (sn_ctl prev) && (full || cf_check_prio cfg) then
                      match sn_selected prev with
                      | Some old =>
                        match pair_in prev old with
                        | Some q =>
                          let valued := if m_class m =? 0 then is_some (m_nom m)
                                        else existsb (fun n => (nr_lh n =? ps_lh p) && addr_eqb (nr_src n) (ps_raddr p) && nr_valued n)
                                                     (ms_nomreq ms) in
                          valued || (ps_prio q <=? ps_prio p)
                        | None => true
                        end
                      | None => true
                      end
                    else true) ]
            end
          end
        else [] in
      let c20 :=
        if cf_renomination cfg || is_some (m_nom m) then
          let ctl_side := sn_ctl prev || sn_ctl sn in
          (if ctl_side then [] else
           [ ck "C20.accepted_values_increase"
                (match sn_last_nom prev, sn_last_nom sn with
                 | Some a, Some b => (a =? b) || ((a <? b) && accepted_req && opt_eqb Z.eqb (m_nom m) (Some b))
                 | None, Some b => accepted_req && opt_eqb Z.eqb (m_nom m) (Some b)
                 | Some _, None => false
                 | None, None => true
                 end) ])
          ++
          (if accepted_req && negb conflict && negb (sn_ctl prev) then
             match m_nom m with
             | Some v =>
               let fresh := match sn_last_nom prev with Some a => a <? v | None => true end in
               if negb fresh then [ ck "C20.stale_value_never_switches" (negb sel_changed) ]
               else
                 match pair_at prev lh lnet src with
                 | Some q =>
                   if (ps_state q =? CandidatePairStateSucceeded) || cf_lite cfg
                   then [ ck "C20.switch_when_valid" (opt_eqb Z.eqb (sn_selected sn) (Some (ps_id q))) ]
                   else []
                 | None => if cf_lite cfg then [ ck "C20.switch_when_valid" (is_some (sn_selected sn)) ] else []
                 end
             | None => []
             end
           else [])
          ++
          (* deferred acceptance: the response that validates a pair nominated with the highest accepted value *)
          (if resp_ok && negb (sn_ctl prev) && got_resp then
             match pair_at sn lh lnet src with
             | Some p =>
               if existsb (fun n => (nr_lh n =? lh) && addr_eqb (nr_src n) src && nr_valued n
                                    && opt_eqb Z.eqb (sn_last_nom prev) (Some (nr_value n))) (ms_nomreq ms)
                  && (ps_state p =? CandidatePairStateSucceeded)
                  && match pair_in prev (ps_id p) with Some q => negb (ps_state q =? CandidatePairStateSucceeded) | None => true end
               then [ ck "C20.deferred_latest_nomination_wins" (opt_eqb Z.eqb (sn_selected sn) (Some (ps_id p))) ]
               else []
             | None => []
             end
           else [])
        else [] in
      (* a controlled agent consumes a deferred nomination when the pair's check is answered: it cannot be
         replayed by a later response against a newer nomination *)
      let c20c :=
        if resp_ok && negb (sn_ctl prev) then
          [ ck "C20.deferred_nomination_consumed"
               (forallb (fun p => match pair_in prev (ps_id p) with
                                  | Some q => if ps_resp_recv q <? ps_resp_recv p then negb (ps_nom_on_succ p) else true
                                  | None => true
                                  end) (sn_pairs sn)) ]
        else [] in
      (* a response that validates a pair may move the selection to it on the strength of a valued nomination only
         if that value is still the latest accepted one (an overtaken deferred renomination never switches) *)
      let c20s :=
        if resp_ok && negb (sn_ctl prev) && sel_changed then
          match sn_selected sn with
          | Some id =>
            match pair_in sn id with
            | Some p =>
              let vals := map nr_value (filter (fun n => (nr_lh n =? ps_lh p) && addr_eqb (nr_src n) (ps_raddr p) && nr_valued n) (ms_nomreq ms)) in
              match vals with
              | [] => []
              | _ => [ ck "C20.stale_deferred_never_switches" (opt_eqb Z.eqb (sn_last_nom prev) (Some (fold_left Z.max vals 0))) ]
              end
            | None => []
            end
          | None => []
          end
        else [] in
      c02 ++ c05 ++ c03r ++ c03s ++ c20 ++ c20c ++ c20s
    | InData lh src p =>
      if negb live || negb (local_listed prev lh) then
        [ ck "C07.dead_socket_inert" (match outs with [] => snap_eqb prev sn | _ => false end) ]
      else
      let lnet := match local_of ms lh with Some l => c_net l | None => 0 end in
      let accepted := negb (pl_stun p) && known_remote prev lnet src in
      [ ck "C07.unknown_source_discarded"
           (accepted || match outs with [] => snap_eqb prev sn | _ => false end);
        ck "C07.selected_pair_receive_counters"
           (if accepted && (0 <? pl_len p) then
              match sn_selected prev with
              | Some id => match pair_in prev id, pair_in sn id with
                           | Some q, Some r => (ps_pkts_recv r =? ps_pkts_recv q + 1) && (ps_bytes_recv r =? ps_bytes_recv q + pl_len p)
                           | _, _ => false
                           end
              | None => true
              end
            else true);
        ck "C07.inbound_data_changes_nothing_else"
           (match outs with
            | [] => (sn_conn prev =? sn_conn sn) && opt_eqb Z.eqb (sn_selected prev) (sn_selected sn)
                    && list_eqb (fun a b => (ps_id a =? ps_id b) && (ps_state a =? ps_state b)
                                            && Bool.eqb (ps_nominated a) (ps_nominated b)) (sn_pairs prev) (sn_pairs sn)
            | _ => false
            end) ]
    | Write p =>
      if negb live then [ ck "C07.write_after_close" (ret_is outs (fun r => match r with RErrClosed => true | _ => false end)
                                                       && match outs_wire outs with [] => true | _ => false end) ]
      else if pl_stun p then
        [ ck "C07.stun_payload_refused" (ret_is outs (fun r => match r with RErrStunPayload => true | _ => false end)
                                         && match outs_wire outs with [] => true | _ => false end) ]
      else
        let target_ok (h : Z) (d : addr) : bool :=
          match sn_selected prev with
          | Some id => match pair_in prev id with
                       | Some q => (ps_lh q =? h) && addr_eqb (ps_raddr q) d
                       | None => false
                       end
          | None => match best_prio_succeeded prev with
                    | Some b => existsb (fun q => (ps_state q =? CandidatePairStateSucceeded) && (ps_prio q =? b)
                                                  && (ps_lh q =? h) && addr_eqb (ps_raddr q) d) (sn_pairs prev)
                    | None => false
                    end
          end in
        let have_target := is_some (sn_selected prev) || is_some (best_prio_succeeded prev) in
        [ ck "C07.write_path"
             (if have_target then
                match outs_wire outs with
                | [OData h d q] => negb (pl_refused p) && target_ok h d && payload_eqb q p && ret_is outs is_ok
                | [] => pl_refused p && ret_is outs is_ok
                | _ => false
                end
              else ret_is outs (fun r => match r with RErrNoPairs => true | _ => false end)
                   && match outs_wire outs with [] => true | _ => false end);
          ck "C07.refused_send_counts_nothing"
             (match outs_wire outs with
              | [] => forallb (fun r => match pair_in prev (ps_id r) with Some q => data_counters_same r q | None => true end) (sn_pairs sn)
              | _ => true
              end);
          ck "C07.pair_send_counters"
             (match outs_wire outs with
              | [OData h d _] =>
                forallb (fun r => match pair_in prev (ps_id r) with
                                  | Some q =>
                                    if (ps_lh q =? h) && addr_eqb (ps_raddr q) d
                                       && (opt_eqb Z.eqb (sn_selected prev) (Some (ps_id q))
                                           || (negb (is_some (sn_selected prev)) && (ps_state q =? CandidatePairStateSucceeded)
                                               && opt_eqb Z.eqb (best_prio_succeeded prev) (Some (ps_prio q))))
                                    then (* the pair written to (ties between equal-priority pairs on one address pair cannot occur) *)
                                      (ps_bytes_sent r =? ps_bytes_sent q + (if 0 <? pl_len p then pl_len p else 0))
                                      && (ps_pkts_sent r =? ps_pkts_sent q + (if 0 <? pl_len p then 1 else 0))
                                    else true
                                  | None => true
                                  end) (sn_pairs sn)
              | _ => true
              end) ]
    | WriteToPair id p =>
      if negb live then [] else
      if pl_stun p then
        [ ck "C07.stun_payload_refused" (ret_is outs (fun r => match r with RErrStunPayload => true | _ => false end)
                                         && match outs_wire outs with [] => true | _ => false end) ]
      else
        [ ck "C07.write_to_pair"
             (match pair_in prev id with
              | None => ret_is outs (fun r => match r with RErrPairNotFound => true | _ => false end)
                        && match outs_wire outs with [] => true | _ => false end
              | Some q =>
                if ps_state q =? CandidatePairStateSucceeded then
                  match outs_wire outs with
                  | [OData h d x] => negb (pl_refused p) && (ps_lh q =? h) && addr_eqb (ps_raddr q) d && payload_eqb x p && ret_is outs is_ok
                  | [] => pl_refused p && ret_is outs is_ok
                  | _ => false
                  end
                else ret_is outs (fun r => match r with RErrPairNotSucceeded => true | _ => false end)
                     && match outs_wire outs with [] => true | _ => false end
              end) ]
    | Read =>
      if negb live then [] else
      [ ck "C07.read_fifo_exactly_once"
           (match ms_queue ms with
            | [] => match outs_delivered outs with [] => true | _ => false end
            | p :: _ => match outs_delivered outs with [q] => payload_eqb p q | _ => false end
            end);
        ck "C07.reader_never_yields_stun" (forallb (fun p => negb (pl_stun p)) (outs_delivered outs)) ]
    | Tick =>
      if negb live || negb (ms_started ms) then [] else
      match sn_selected prev with
      | Some id =>
        (* off-family sources make a pair point at an unlisted duplicate remote whose liveness is not observable *)
        if (sn_conn prev =? ConnectionStateFailed) || negb (ms_wf ms) then [] else
        match pair_in prev id with
        | Some q =>
          match find (fun r => (rs_typ r =? ps_rtyp q) && (rs_net r =? ps_rnet q) && addr_eqb (rs_addr r) (ps_raddr q)
                               && (rs_tcp r =? ps_rtcp q) && opt_eqb pair_zz_eqb (rs_rel r) (ps_rrel q)) (sn_remotes prev) with
          | Some r =>
            let d := match rs_age r with Some a => a * grid + cf_eps cfg | None => max_duration end in
            [ ck "C04.timing_selected_silence"
                 (sn_conn sn =? spec_silence_state (cf_disc_timeout cfg) (cf_failed_timeout cfg) (sn_conn prev) d) ]
          | None => []
          end
        | None => []
        end
      | None =>
        if sn_conn prev =? ConnectionStateChecking then
          let since := if ms_tick_last ms =? ConnectionStateChecking then ms_check_since ms else ms_now ms in
          let dl := spec_checking_deadline cfg in
          [ ck "C04.timing_initial_deadline"
               (sn_conn sn =? (if negb (dl =? 0) && (dl <? ms_now ms - since + cf_eps cfg)
                               then ConnectionStateFailed else ConnectionStateChecking)) ]
        else []
      end
    | Renominate _ _ _ =>
      if sn_ctl prev && cf_renomination cfg then [] else
      [ ck "C20.only_controlling_with_feature_renominates"
           (match outs_wire outs with [] => true | _ => false end
            && snap_eqb prev sn
            && ret_is outs (fun r => match r with RErrNotControlling | RErrRenominationOff => true
                                           | RErrClosed => sn_closed prev | _ => false end)) ]
    | _ => []
    end in
  (* C03 on every emitted request *)
  let c03e :=
    [ ck "C03.controlled_never_nominates"
         (forallb (fun w => match w with
                            | OSend _ _ m => if m_class m =? 0 then
                                               match m_ctl m with
                                               | Some (true, _) => true
                                               | _ => negb (m_use m) && negb (is_some (m_nom m))
                                               end
                                             else true
                            | _ => true
                            end) outs);
      ck "C03.lite_controlled_never_checks"
         (negb (cf_lite cfg) ||
          forallb (fun w => match w with
                            | OSend _ _ m => if m_class m =? 0 then match m_ctl m with Some (true, _) => true | _ => false end else true
                            | _ => true
                            end) outs) ] in
  c04 ++ c06 ++ c06s ++ c07c ++ specific ++ c03e.

(* ---- monitor state update ---------------------------------------------------------------------------- *)
Definition step_mstate (cfg : config) (ms : mstate) (o : op) (outs : list out) (sn : snap) : mstate :=
  let prev := ms_prev ms in
  let live := negb (sn_closed prev) in
  let restarted := match o with Restart _ _ => ret_is outs is_ok | _ => false end in
  let sent' := (if restarted then [] else ms_sent ms) ++
               flat_map (fun w => match w with
                                  | OSend h d m => if m_class m =? 0 then [mkSent (m_tx m) h d (m_use m) (is_some (m_nom m))] else []
                                  | _ => []
                                  end) outs in
  let locals0 := match o with
                 | AddLocal c => if ret_is outs is_ok then ms_locals ms ++ [c] else ms_locals ms
                 | _ => ms_locals ms
                 end in
  let locals' := filter (fun c => local_listed sn (c_h c)) locals0 in
  let nomreq' :=
    if restarted then [] else
    match o with
    | InStun lh src m =>
      let lnet := match local_of ms lh with Some l => c_net l | None => 0 end in
      if live && local_listed prev lh && (m_class m =? 0) && (m_method m =? 1) && auth_request prev m
         && (known_remote prev lnet src || negb (blocked cfg src))
         && negb (match m_ctl m with Some (r, _) => Bool.eqb r (sn_ctl prev) | None => false end)
         && (m_use m || is_some (m_nom m))
         (* a valued nomination counts only if it was accepted: larger than every value accepted before *)
         && match m_nom m, sn_last_nom prev with Some v, Some a => a <? v | _, _ => true end
      then ms_nomreq ms ++ [mkNomReq lh src (is_some (m_nom m)) (match m_nom m with Some v => v | None => 0 end)]
      else ms_nomreq ms
    | _ => ms_nomreq ms
    end in
  let queue' :=
    match o with
    | InData lh src p =>
      let lnet := match local_of ms lh with Some l => c_net l | None => 0 end in
      if live && local_listed prev lh && negb (pl_stun p) && known_remote prev lnet src
      then ms_queue ms ++ [p] else ms_queue ms
    | Read => if live then tl (ms_queue ms) else ms_queue ms
    | _ => ms_queue ms
    end in
  let now' := match o with Advance d => ms_now ms + d | _ => ms_now ms end in
  let started' := ms_started ms || match o with Start _ _ _ => ret_is outs is_ok | _ => false end in
  let ticking := match o with Tick => live && ms_started ms | _ => false end in
  let check_since' :=
    if ticking && (sn_conn prev =? ConnectionStateChecking) && negb (ms_tick_last ms =? ConnectionStateChecking)
    then ms_now ms else ms_check_since ms in
  let tick_last' := if ticking then sn_conn sn else ms_tick_last ms in
  let wf' := ms_wf ms &&
             match o with
             | InStun lh src _ | InData lh src _ =>
               ms_started ms && match local_of ms lh with Some l => family_ok l src | None => true end
             | _ => true
             end in
  mkMstate sn sent' nomreq' locals' queue' now' started' tick_last' check_since' wf'.

Definition init_mstate (lufrag lpwd : Z) : mstate :=
  mkMstate (snap_of_state (init lufrag lpwd)) [] [] [] [] 0 false 0 0 true.

(* the monitor over a whole observed history: all checks of all steps, each tagged by nothing but its name *)
Fixpoint monitor_from (cfg : config) (ms : mstate) (tr : list obs) : checks :=
  match tr with
  | [] => []
  | (o, outs, sn) :: t =>
    (* the well-formedness flag judges the current operation too *)
    let ms1 := step_mstate cfg ms o outs sn in
    let msj := mkMstate (ms_prev ms) (ms_sent ms) (ms_nomreq ms) (ms_locals ms) (ms_queue ms) (ms_now ms)
                        (ms_started ms) (ms_tick_last ms) (ms_check_since ms) (ms_wf ms1) in
    (* a datagram whose source family differs from its socket's, or inbound traffic before Start, cannot
       occur (sockets are per family and are not read before Start): such a history is outside every
       property's domain and is not judged from that point on *)
    (if ms_wf ms1 then step_checks cfg msj o outs sn else []) ++ monitor_from cfg ms1 t
  end.

Definition monitor (cfg : config) (lufrag lpwd : Z) (tr : list obs) : checks :=
  monitor_from cfg (init_mstate lufrag lpwd) tr.
