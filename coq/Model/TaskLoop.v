(* C10, layer C: interleaving model of /repo/internal/taskloop/taskloop.go.

   Threads (all unbounded in number, indexed by nat):
     submitters i   one call   l.Run(ctx_i, task_i)          (program counter [sp s i])
     closers    k   one call   l.CloseWithPreStop(preStop_k) (program counter [cp s k])
     the loop       the goroutine started by New: runLoop     (program counter [lp s])
   Shared state: the channels l.done / l.taskLoopDone (closed or not), the sync.Once, the
   per-task done channel, the context of every submission.

   One label = one atomic action of the Go code:  a channel operation (close, the rendez-vous
   on the unbuffered l.tasks, a receive from a closed channel), one branch of a select,
   entering/leaving sync.Once, a call of a harness-owned function (task body, preStop,
   onClose: each split in a start and an end so that it has arbitrary latency).
   Go's select is modelled faithfully: EVERY ready branch may be taken, in particular the
   send branch of Run after l.done was closed or the context was cancelled, and the receive
   branch of runLoop after l.done was closed.

   [lstep l s] is the executable semantics of label l (None = not enabled); the relation
   [step] is its graph.  Observable labels carry the event the harness logs for the same
   action (a stamp from one global atomic counter), hidden ones are [Tau].
   No proofs in this file. *)
From Coq Require Import Arith Bool List String.
Import ListNotations.
From Ice Require Import Model.PrioSpec.   (* checks / all_ok / failed *)

Definition upd {A : Type} (f : nat -> A) (i : nat) (v : A) : nat -> A :=
  fun j => if Nat.eqb j i then v else f j.

(* ---- program counters ---------------------------------------------------------------- *)
Inductive spc :=            (* Run(ctx, t) *)
| SIdle                     (* not called yet *)
| SPre                      (* called; about to evaluate l.Err() *)
| SSelect                   (* at the three-way select *)
| SWait                     (* task handed over; blocked on <-done *)
| SRetOk | SRetCtx | SRetClosed.   (* returned nil / ctx.Err() / ErrClosed *)

Inductive tstat := TNot | TRunning | TCompleted.       (* the task body t.fn *)

Inductive lpc :=            (* runLoop *)
| LIdle                     (* at the select *)
| LGot (i : nat)            (* received task i; about to call t.fn *)
| LRun (i : nat)            (* inside t.fn *)
| LFin (i : nat)            (* t.fn returned; about to close(t.done) *)
| LClosing                  (* took <-l.done; in the deferred function, before onClose() *)
| LOnClose                  (* inside onClose() *)
| LOnCloseDone              (* onClose returned; about to close(l.taskLoopDone) *)
| LExited.

Inductive cpc :=            (* CloseWithPreStop(preStop) *)
| CIdle
| CCalled                   (* at closeOnce.Do *)
| COnce1                    (* inside the once function, before close(l.done) *)
| COnce2                    (* l.done closed; about to test/call preStop *)
| CPre                      (* inside preStop() *)
| COnce4                    (* about to leave the once function *)
| CWaitTLD                  (* blocked on <-l.taskLoopDone *)
| CRet.

Inductive once_st := ONot | ORunning | ODone.

Record state := mk {
  done : bool;              (* l.done closed *)
  tld : bool;               (* l.taskLoopDone closed *)
  once : once_st;
  lp : lpc;
  sp : nat -> spc;
  creq : nat -> bool;       (* cancel of ctx_i has been requested (observable) *)
  ccan : nat -> bool;       (* ctx_i.Done() is closed *)
  ts : nat -> tstat;
  runs : nat -> nat;        (* ghost: number of times task i was started *)
  tdone : nat -> bool;      (* task i's done channel closed *)
  cp : nat -> cpc;
  cpre : nat -> bool;       (* closer k passes a non-nil preStop *)
  oncloses : nat;           (* ghost: number of times onClose was started *)
  prestops : nat            (* ghost: number of preStop calls started *)
}.

Definition init : state :=
  mk false false ONot LIdle (fun _ => SIdle) (fun _ => false) (fun _ => false)
     (fun _ => TNot) (fun _ => 0) (fun _ => false) (fun _ => CIdle) (fun _ => false) 0 0.

(* ---- alphabet ------------------------------------------------------------------------- *)
Inductive retkind := ROk | RCtx | RClosed.

Inductive event :=
| ECall (i : nat)                    (* stamp taken by the caller before l.Run *)
| ERet (i : nat) (r : retkind)       (* the return of l.Run with its result *)
| ECancel (i : nat)                  (* stamp taken before cancel_i() *)
| EStart (i : nat) | EEnd (i : nat)  (* first / last action of task i's body *)
| EOnCloseStart | EOnCloseEnd        (* first / last action of onClose *)
| ECloseCall (k : nat) (pre : bool)  (* stamp before CloseWithPreStop; pre = preStop non-nil *)
| EPreStart (k : nat) | EPreEnd (k : nat)
| ECloseRet (k : nat).

Inductive tau :=
| TCancelEff (i : nat)      (* ctx_i.Done() becomes closed (some time after the request) *)
| TErrCheck (i : nat)       (* l.Err() == nil *)
| TSend (i : nat)           (* rendez-vous: Run's send branch with runLoop's receive branch *)
| TCloseTaskDone            (* close(t.done) *)
| TSeeDone                  (* runLoop takes <-l.done *)
| TCloseTLD                 (* close(l.taskLoopDone) *)
| TOnceEnter (k : nat)      (* closeOnce.Do: first caller enters *)
| TCloseDone (k : nat)      (* l.err.Store(ErrClosed); close(l.done) *)
| TSkipPre (k : nat)        (* preStop == nil *)
| TOnceLeave (k : nat)      (* the once function returns *)
| TOnceSeen (k : nat).      (* closeOnce.Do of a later caller returns (once already done) *)

Inductive label := Obs (e : event) | Tau (t : tau).

Definition guard (b : bool) (s : state) : option state := if b then Some s else None.

Definition spc_eqb (a b : spc) : bool :=
  match a, b with
  | SIdle, SIdle | SPre, SPre | SSelect, SSelect | SWait, SWait
  | SRetOk, SRetOk | SRetCtx, SRetCtx | SRetClosed, SRetClosed => true
  | _, _ => false
  end.
Definition cpc_eqb (a b : cpc) : bool :=
  match a, b with
  | CIdle, CIdle | CCalled, CCalled | COnce1, COnce1 | COnce2, COnce2 | CPre, CPre
  | COnce4, COnce4 | CWaitTLD, CWaitTLD | CRet, CRet => true
  | _, _ => false
  end.
Definition lpc_eqb (a b : lpc) : bool :=
  match a, b with
  | LIdle, LIdle | LClosing, LClosing | LOnClose, LOnClose | LOnCloseDone, LOnCloseDone
  | LExited, LExited => true
  | LGot i, LGot j | LRun i, LRun j | LFin i, LFin j => Nat.eqb i j
  | _, _ => false
  end.
Definition once_eqb (a b : once_st) : bool :=
  match a, b with ONot, ONot | ORunning, ORunning | ODone, ODone => true | _, _ => false end.
Definition tstat_eqb (a b : tstat) : bool :=
  match a, b with TNot, TNot | TRunning, TRunning | TCompleted, TCompleted => true | _, _ => false end.

Definition set_sp (s : state) (i : nat) (p : spc) : state :=
  mk (done s) (tld s) (once s) (lp s) (upd (sp s) i p) (creq s) (ccan s) (ts s) (runs s) (tdone s)
     (cp s) (cpre s) (oncloses s) (prestops s).
Definition set_cp (s : state) (k : nat) (p : cpc) : state :=
  mk (done s) (tld s) (once s) (lp s) (sp s) (creq s) (ccan s) (ts s) (runs s) (tdone s)
     (upd (cp s) k p) (cpre s) (oncloses s) (prestops s).
Definition set_lp (s : state) (p : lpc) : state :=
  mk (done s) (tld s) (once s) p (sp s) (creq s) (ccan s) (ts s) (runs s) (tdone s)
     (cp s) (cpre s) (oncloses s) (prestops s).

(* ---- the transition function: one clause per atomic action ------------------------------ *)
Definition lstep (l : label) (s : state) : option state :=
  match l with
  (* --- Run --- *)
  | Obs (ECall i) =>
      if spc_eqb (sp s i) SIdle then Some (set_sp s i SPre) else None
  | Tau (TErrCheck i) =>                      (* if err := l.Err(); err != nil  -- not taken *)
      if spc_eqb (sp s i) SPre && negb (done s) then Some (set_sp s i SSelect) else None
  | Obs (ERet i RClosed) =>
      (* l.Err() != nil at the pre-check, or the branch <-l.done of the select *)
      if (spc_eqb (sp s i) SPre || spc_eqb (sp s i) SSelect) && done s
      then Some (set_sp s i SRetClosed) else None
  | Obs (ERet i RCtx) =>                      (* branch <-ctx.Done() *)
      if spc_eqb (sp s i) SSelect && ccan s i then Some (set_sp s i SRetCtx) else None
  | Tau (TSend i) =>
      (* branch l.tasks <- task{t, done}: needs runLoop at its select; nothing else.  It is
         enabled whether or not l.done is closed or ctx_i is cancelled. *)
      if spc_eqb (sp s i) SSelect && lpc_eqb (lp s) LIdle
      then Some (set_lp (set_sp s i SWait) (LGot i)) else None
  | Obs (ERet i ROk) =>                       (* <-done; return nil *)
      if spc_eqb (sp s i) SWait && tdone s i then Some (set_sp s i SRetOk) else None
  (* --- contexts (environment) --- *)
  | Obs (ECancel i) =>
      Some (mk (done s) (tld s) (once s) (lp s) (sp s) (upd (creq s) i true) (ccan s) (ts s) (runs s)
               (tdone s) (cp s) (cpre s) (oncloses s) (prestops s))
  | Tau (TCancelEff i) =>
      if creq s i
      then Some (mk (done s) (tld s) (once s) (lp s) (sp s) (creq s) (upd (ccan s) i true) (ts s) (runs s)
                    (tdone s) (cp s) (cpre s) (oncloses s) (prestops s))
      else None
  (* --- runLoop --- *)
  | Obs (EStart i) =>                         (* t.fn(l) begins *)
      if lpc_eqb (lp s) (LGot i)
      then Some (mk (done s) (tld s) (once s) (LRun i) (sp s) (creq s) (ccan s) (upd (ts s) i TRunning)
                    (upd (runs s) i (S (runs s i))) (tdone s) (cp s) (cpre s) (oncloses s) (prestops s))
      else None
  | Obs (EEnd i) =>                           (* t.fn(l) returns *)
      if lpc_eqb (lp s) (LRun i)
      then Some (mk (done s) (tld s) (once s) (LFin i) (sp s) (creq s) (ccan s) (upd (ts s) i TCompleted)
                    (runs s) (tdone s) (cp s) (cpre s) (oncloses s) (prestops s))
      else None
  | Tau TCloseTaskDone =>
      match lp s with
      | LFin i => Some (mk (done s) (tld s) (once s) LIdle (sp s) (creq s) (ccan s) (ts s) (runs s)
                           (upd (tdone s) i true) (cp s) (cpre s) (oncloses s) (prestops s))
      | _ => None
      end
  | Tau TSeeDone =>
      if lpc_eqb (lp s) LIdle && done s then Some (set_lp s LClosing) else None
  | Obs EOnCloseStart =>
      if lpc_eqb (lp s) LClosing
      then Some (mk (done s) (tld s) (once s) LOnClose (sp s) (creq s) (ccan s) (ts s) (runs s) (tdone s)
                    (cp s) (cpre s) (S (oncloses s)) (prestops s))
      else None
  | Obs EOnCloseEnd =>
      if lpc_eqb (lp s) LOnClose then Some (set_lp s LOnCloseDone) else None
  | Tau TCloseTLD =>
      if lpc_eqb (lp s) LOnCloseDone
      then Some (mk (done s) true (once s) LExited (sp s) (creq s) (ccan s) (ts s) (runs s) (tdone s)
                    (cp s) (cpre s) (oncloses s) (prestops s))
      else None
  (* --- CloseWithPreStop --- *)
  | Obs (ECloseCall k pre) =>
      if cpc_eqb (cp s k) CIdle
      then Some (mk (done s) (tld s) (once s) (lp s) (sp s) (creq s) (ccan s) (ts s) (runs s) (tdone s)
                    (upd (cp s) k CCalled) (upd (cpre s) k pre) (oncloses s) (prestops s))
      else None
  | Tau (TOnceEnter k) =>
      if cpc_eqb (cp s k) CCalled && once_eqb (once s) ONot
      then Some (mk (done s) (tld s) ORunning (lp s) (sp s) (creq s) (ccan s) (ts s) (runs s) (tdone s)
                    (upd (cp s) k COnce1) (cpre s) (oncloses s) (prestops s))
      else None
  | Tau (TOnceSeen k) =>
      if cpc_eqb (cp s k) CCalled && once_eqb (once s) ODone then Some (set_cp s k CWaitTLD) else None
  | Tau (TCloseDone k) =>
      (* close(l.done): would panic if l.done were already closed *)
      if cpc_eqb (cp s k) COnce1 && negb (done s)
      then Some (mk true (tld s) (once s) (lp s) (sp s) (creq s) (ccan s) (ts s) (runs s) (tdone s)
                    (upd (cp s) k COnce2) (cpre s) (oncloses s) (prestops s))
      else None
  | Tau (TSkipPre k) =>
      if cpc_eqb (cp s k) COnce2 && negb (cpre s k) then Some (set_cp s k COnce4) else None
  | Obs (EPreStart k) =>
      if cpc_eqb (cp s k) COnce2 && cpre s k
      then Some (mk (done s) (tld s) (once s) (lp s) (sp s) (creq s) (ccan s) (ts s) (runs s) (tdone s)
                    (upd (cp s) k CPre) (cpre s) (oncloses s) (S (prestops s)))
      else None
  | Obs (EPreEnd k) =>
      if cpc_eqb (cp s k) CPre then Some (set_cp s k COnce4) else None
  | Tau (TOnceLeave k) =>
      if cpc_eqb (cp s k) COnce4
      then Some (mk (done s) (tld s) ODone (lp s) (sp s) (creq s) (ccan s) (ts s) (runs s) (tdone s)
                    (upd (cp s) k CWaitTLD) (cpre s) (oncloses s) (prestops s))
      else None
  | Obs (ECloseRet k) =>
      if cpc_eqb (cp s k) CWaitTLD && tld s then Some (set_cp s k CRet) else None
  end.

Definition step (s s' : state) : Prop := exists l, lstep l s = Some s'.

Inductive steps : state -> state -> Prop :=
| steps_refl : forall s, steps s s
| steps_step : forall s s' s'', steps s s' -> step s' s'' -> steps s s''.

Definition reach (s : state) : Prop := steps init s.

(* running a label sequence; the observable projection of a label sequence *)
Fixpoint run (ls : list label) (s : state) : option state :=
  match ls with
  | [] => Some s
  | l :: ls' => match lstep l s with Some s' => run ls' s' | None => None end
  end.

Fixpoint observe (ls : list label) : list event :=
  match ls with
  | [] => []
  | Obs e :: ls' => e :: observe ls'
  | Tau _ :: ls' => observe ls'
  end.

(* ======================================================================================== *)
(* The acceptor.  Given the implementation's log (the events in stamp order) decide whether  *)
(* some run of the model has exactly this observable projection.  It only ever applies       *)
(* [lstep], so an accepted log has a model run by construction (Proofs: explains_sound).     *)
(* Strategy (completeness argued by commuting independent steps, not proved):                *)
(*  - hidden steps that only enable (never disable) other steps are taken eagerly:           *)
(*    TCancelEff, TCloseTaskDone, TCloseTLD, TSkipPre, TOnceLeave, TOnceSeen, and TErrCheck  *)
(*    (l.done is monotone, so an Err() that saw "open" can be moved back to the call);       *)
(*  - TSend i is taken exactly when the log shows EStart i, TSeeDone when it shows           *)
(*    EOnCloseStart (nothing else observes the loop between the two);                        *)
(*  - the one real guess is when (and by which closer) l.done is closed: before every        *)
(*    event the state set is extended by "closer k enters the Once and closes l.done now".   *)
(* ======================================================================================== *)
Definition try (l : label) (s : state) : state :=
  match lstep l s with Some s' => s' | None => s end.

Definition eager_labels (sids cids : list nat) : list label :=
  [Tau TCloseTaskDone; Tau TCloseTLD]
  ++ map (fun i => Tau (TCancelEff i)) sids
  ++ map (fun i => Tau (TErrCheck i)) sids
  ++ map (fun k => Tau (TSkipPre k)) cids
  ++ map (fun k => Tau (TOnceLeave k)) cids
  ++ map (fun k => Tau (TOnceSeen k)) cids.

Definition norm1 (sids cids : list nat) (s : state) : state :=
  fold_left (fun s l => try l s) (eager_labels sids cids) s.
Definition norm (sids cids : list nat) (s : state) : state := norm1 sids cids (norm1 sids cids s).

Definition state_eqb (sids cids : list nat) (a b : state) : bool :=
  Bool.eqb (done a) (done b) && Bool.eqb (tld a) (tld b) && once_eqb (once a) (once b)
  && lpc_eqb (lp a) (lp b) && Nat.eqb (oncloses a) (oncloses b) && Nat.eqb (prestops a) (prestops b)
  && forallb (fun i => spc_eqb (sp a i) (sp b i) && Bool.eqb (creq a i) (creq b i)
                       && Bool.eqb (ccan a i) (ccan b i) && tstat_eqb (ts a i) (ts b i)
                       && Nat.eqb (runs a i) (runs b i) && Bool.eqb (tdone a i) (tdone b i)) sids
  && forallb (fun k => cpc_eqb (cp a k) (cp b k) && Bool.eqb (cpre a k) (cpre b k)) cids.

Fixpoint add_state (sids cids : list nat) (x : state) (l : list state) : list state :=
  match l with
  | [] => [x]
  | y :: l' => if state_eqb sids cids x y then l else y :: add_state sids cids x l'
  end.

Definition dedupe (sids cids : list nat) (l : list state) : list state :=
  fold_left (fun acc x => add_state sids cids x acc) l [].

(* "closer k wins the Once and closes l.done now" *)
Definition close_now (sids cids : list nat) (s : state) (k : nat) : list state :=
  match lstep (Tau (TOnceEnter k)) s with
  | Some s1 => match lstep (Tau (TCloseDone k)) s1 with
               | Some s2 => [norm sids cids s2]
               | None => []
               end
  | None => []
  end.

Definition branch (sids cids : list nat) (S : list state) : list state :=
  S ++ flat_map (fun s => flat_map (close_now sids cids s) cids) S.

(* hidden steps fused in front of an observable one *)
Definition pre_labels (e : event) : list label :=
  match e with
  | EStart i => [Tau (TSend i)]
  | EOnCloseStart => [Tau TSeeDone]
  | _ => []
  end.

Definition obs_step (sids cids : list nat) (e : event) (s : state) : list state :=
  match run (pre_labels e ++ [Obs e]) s with
  | Some s' => [norm sids cids s']
  | None =>
      (* EStart i may also follow a TSend taken ... never earlier in this strategy; the only
         other possibility is that the pre-label is not needed (it never is). *)
      []
  end.

Fixpoint accept (sids cids : list nat) (evs : list event) (S : list state) : bool :=
  match evs with
  | [] => negb (match S with [] => true | _ => false end)
  | e :: evs' =>
      let S1 := branch sids cids S in
      let S2 := dedupe sids cids (flat_map (obs_step sids cids e) S1) in
      match S2 with
      | [] => false
      | _ => accept sids cids evs' S2
      end
  end.

Definition explains (sids cids : list nat) (evs : list event) : bool :=
  accept sids cids evs [init].

(* ======================================================================================== *)
(* The monitor: the property C10 stated directly over a complete log (the harness waits for  *)
(* quiescence: every Run and every Close has returned, so "never ran" is decided).           *)
(* ======================================================================================== *)
Definition is_start (i : nat) (e : event) : bool := match e with EStart j => Nat.eqb i j | _ => false end.
Definition is_end (i : nat) (e : event) : bool := match e with EEnd j => Nat.eqb i j | _ => false end.
Definition is_any_start (e : event) : bool := match e with EStart _ => true | _ => false end.
Definition is_any_end (e : event) : bool := match e with EEnd _ => true | _ => false end.
Definition is_close_ret (e : event) : bool := match e with ECloseRet _ => true | _ => false end.
Definition is_onclose_start (e : event) : bool := match e with EOnCloseStart => true | _ => false end.
Definition is_onclose_end (e : event) : bool := match e with EOnCloseEnd => true | _ => false end.
Definition is_pre_start (e : event) : bool := match e with EPreStart _ => true | _ => false end.

Definition count (p : event -> bool) (l : list event) : nat := List.length (filter p l).

(* tasks never overlap: scanning the log, a start needs "no task inside", an end must be the
   end of the task that is inside *)
Fixpoint serial_from (cur : option nat) (l : list event) : bool :=
  match l with
  | [] => true
  | EStart i :: l' => match cur with None => serial_from (Some i) l' | Some _ => false end
  | EEnd i :: l' => match cur with Some j => Nat.eqb i j && serial_from None l' | None => false end
  | _ :: l' => serial_from cur l'
  end.

(* the part of the log between ECall i and the ERet i *)
Fixpoint after_call (i : nat) (l : list event) : list event :=
  match l with
  | [] => []
  | ECall j :: l' => if Nat.eqb i j then l' else after_call i l'
  | _ :: l' => after_call i l'
  end.
Fixpoint before_ret (i : nat) (l : list event) : list event :=
  match l with
  | [] => []
  | ERet j r :: l' => if Nat.eqb i j then [] else ERet j r :: before_ret i l'
  | e :: l' => e :: before_ret i l'
  end.
Definition during (i : nat) (l : list event) : list event := before_ret i (after_call i l).

Fixpoint rets (l : list event) : list (nat * retkind) :=
  match l with
  | [] => []
  | ERet i r :: l' => (i, r) :: rets l'
  | _ :: l' => rets l'
  end.

Fixpoint suffix_after (p : event -> bool) (l : list event) : list event :=
  match l with
  | [] => []
  | e :: l' => if p e then l' else suffix_after p l'
  end.

Definition ok_ran_once (l : list event) : bool :=
  forallb (fun ir => match snd ir with
                     | ROk => Nat.eqb (count (is_start (fst ir)) l) 1
                              && Nat.eqb (count (is_end (fst ir)) l) 1
                              && Nat.eqb (count (is_start (fst ir)) (during (fst ir) l)) 1
                              && Nat.eqb (count (is_end (fst ir)) (during (fst ir) l)) 1
                     | _ => true
                     end) (rets l).

Definition err_never_ran (l : list event) : bool :=
  forallb (fun ir => match snd ir with
                     | ROk => true
                     | _ => Nat.eqb (count (is_start (fst ir)) l) 0
                     end) (rets l).

Fixpoint started_ids (l : list event) : list nat :=
  match l with [] => [] | EStart i :: l' => i :: started_ids l' | _ :: l' => started_ids l' end.

Definition ran_implies_ok (l : list event) : bool :=
  (* a task that ran belongs to a submission that returned nil (the log is complete) *)
  forallb (fun i => existsb (fun ir => Nat.eqb (fst ir) i
                                      && match snd ir with ROk => true | _ => false end) (rets l))
          (started_ids l).

Definition at_most_once (l : list event) : bool :=
  forallb (fun i => Nat.eqb (count (is_start i) l) 1) (started_ids l).

Definition none_after_close (l : list event) : bool :=
  Nat.eqb (count is_any_start (suffix_after is_close_ret l)) 0
  && Nat.eqb (count is_any_end (suffix_after is_close_ret l)) 0.

Definition onclose_once (l : list event) : bool :=
  Nat.leb (count is_onclose_start l) 1
  && (if Nat.eqb (count is_close_ret l) 0 then true
      else Nat.eqb (count is_onclose_start l) 1 && Nat.eqb (count is_onclose_end l) 1).

Definition onclose_after_last (l : list event) : bool :=
  (* nothing of any task after onClose started, and no task was inside when it started *)
  Nat.eqb (count is_any_start (suffix_after is_onclose_start l)) 0
  && Nat.eqb (count is_any_end (suffix_after is_onclose_start l)) 0.

Definition close_ret_after_onclose (l : list event) : bool :=
  (* every Close returns after onClose has returned *)
  Nat.eqb (count is_close_ret l) (count is_close_ret (suffix_after is_onclose_end l)).

Definition prestop_at_most_once (l : list event) : bool := Nat.leb (count is_pre_start l) 1.

Definition C10_checks (l : list event) : checks :=
  [ ("serial"%string, serial_from None l);
    ("ok_ran_once_before_return"%string, ok_ran_once l);
    ("error_never_ran"%string, err_never_ran l);
    ("ran_implies_ok"%string, ran_implies_ok l);
    ("at_most_once"%string, at_most_once l);
    ("none_after_close_returned"%string, none_after_close l);
    ("onclose_once"%string, onclose_once l);
    ("onclose_after_last_task"%string, onclose_after_last l);
    ("close_returns_after_onclose"%string, close_ret_after_onclose l);
    ("prestop_at_most_once"%string, prestop_at_most_once l) ].

Definition C10_monitor (l : list event) : bool := all_ok (C10_checks l).
