(* C12: executable model of the SEQUENTIAL core of UDPMuxDefault (udp_mux.go), udpMuxedConn
   (udp_muxed_conn.go), the refcounted handle returned by GetConn (shared_packet_conn.go, only
   its Close/closed-handle behaviour) and canonicalAddrPort (addr.go).

   Function by function:
     canon            = canonicalAddrPort            (Unmap; zone kept only for link-local IPv6)
     do_getconn       = UDPMuxDefault.GetConn        (address check, closed check, getConn/createMuxedConn)
     do_write         = sharedPacketConn.WriteTo -> udpMuxedConn.WriteTo -> registerAddress -> addAddress
                        -> UDPMuxDefault.registerConnForAddress -> (existing.removeAddress) -> mux.writeTo
     do_inbound       = one iteration of connWorker  (address map first, else STUN USERNAME ufrag) + writePacket
     do_inerr         = connWorker's read error path (timeout: continue; anything else: return => m.Close())
     remove_core      = UDPMuxDefault.RemoveConnByUfrag
     conn_close       = udpMuxedConn.Close + the goroutine started in GetConn
                        (<-CloseChannel(); m.RemoveConnByUfrag(ufrag)) run to completion
     do_closeh        = sharedPacketConn.Close (closeOnce, refs.Add(-1) <= 0 => underlying.Close())
     do_closemux      = UDPMuxDefault.Close
     do_read          = sharedPacketConn.ReadFrom with an expired deadline -> udpMuxedConn.readPacket

   [remove_closes] selects the semantics of RemoveConnByUfrag: false = the pinned code (the muxed
   connection stays open), true = the candidate repair (RemoveConnByUfrag closes what it removes).
   The harness probes which of the two the implementation has and passes it with every case.

   Maps are total functions plus a list of keys ever used (for the snapshot).  No proofs here. *)
From Coq Require Import ZArith NArith Bool String Ascii List.
From Ice Require Import Model.PrioSpec.
Import ListNotations.
Local Open Scope N_scope.

(* ---------- addresses ---------- *)
(* a_is6 = false: 4-byte IPv4 (a_ip < 2^32); a_is6 = true: 16-byte form (IPv6 or IPv4-mapped IPv6).
   a_zone: 0 = no zone, k > 0 = the k-th zone name. *)
Record addr := mkAddr { a_is6 : bool; a_ip : N; a_zone : N; a_port : N }.

Definition addr_eqb (x y : addr) : bool :=
  Bool.eqb (a_is6 x) (a_is6 y) && (a_ip x =? a_ip y) && (a_zone x =? a_zone y) && (a_port x =? a_port y).

(* netip.Addr.Is4In6: hi = 0 and lo >> 32 = 0xffff *)
Definition mapped_prefix (ip : N) : bool := N.shiftr ip 32 =? 65535.
(* isIPv6LinkLocal on an unmapped IPv6 address: v6u16(0)&0xffc0 == 0xfe80 || v6u16(0)&0xff0f == 0xff02 *)
Definition ll6 (ip : N) : bool :=
  (N.land (N.shiftr ip 112) 65472 =? 65152) || (N.land (N.shiftr ip 112) 65295 =? 65282).

Definition canon (a : addr) : addr :=
  if a_is6 a then
    if mapped_prefix (a_ip a) then mkAddr false (N.land (a_ip a) 4294967295) 0 (a_port a)
    else if ll6 (a_ip a) then a
    else mkAddr true (a_ip a) 0 (a_port a)
  else mkAddr false (a_ip a) 0 (a_port a).

(* ---------- payloads ---------- *)
Inductive pkind :=
| KRaw                      (* stun.IsMessage false *)
| KStunUser (un : string)   (* decodes, has USERNAME un *)
| KStunNoUser               (* decodes, no USERNAME *)
| KStunBad.                 (* IsMessage true, Decode fails *)

(* strings.Split(username, ":")[0] *)
Fixpoint ufrag_of (s : string) : string :=
  match s with
  | EmptyString => EmptyString
  | String c r => if Ascii.eqb c ":"%char then EmptyString else String c (ufrag_of r)
  end.

(* ---------- state ---------- *)
Record conn := mkConn {
  c_key : string;                      (* params.Key = the ufrag it was created under *)
  c_addrs : list addr;                 (* udpMuxedConn.addresses *)
  c_queue : list (string * addr);      (* bufTail .. bufHead: payload, source as received *)
  c_closed : bool;
  c_refs : Z }.                        (* refs (atomic.Int32) *)

Record handle := mkHandle { h_conn : nat; h_closed : bool }.

Record state := mkState {
  conns : nat -> conn; nconns : nat;
  handles : nat -> handle; nhandles : nat;
  m4 : string -> option nat; m6 : string -> option nat; udom : list string;
  amap : addr -> option nat; adom : list addr;
  mclosed : bool }.

Record cfg := mkCfg {
  unspec : bool;            (* the mux listens on an unspecified address: GetConn skips the address check *)
  remove_closes : bool }.   (* RemoveConnByUfrag closes the connections it removes (candidate repair) *)

Definition dummy_conn : conn := mkConn EmptyString [] [] true 0%Z.
Definition init : state :=
  mkState (fun _ => dummy_conn) 0 (fun _ => mkHandle 0 true) 0 (fun _ => None) (fun _ => None) [] (fun _ => None) [] false.

Definition updn {A} (f : nat -> A) (k : nat) (v : A) : nat -> A := fun i => if Nat.eqb i k then v else f i.
Definition upds {A} (f : string -> A) (k : string) (v : A) : string -> A := fun i => if String.eqb i k then v else f i.
Definition upda {A} (f : addr -> A) (k : addr) (v : A) : addr -> A := fun i => if addr_eqb i k then v else f i.

Definition set_conns (s : state) (f : nat -> conn) : state :=
  mkState f (nconns s) (handles s) (nhandles s) (m4 s) (m6 s) (udom s) (amap s) (adom s) (mclosed s).
Definition set_conn (s : state) (c : nat) (v : conn) : state := set_conns s (updn (conns s) c v).
Definition set_amap (s : state) (f : addr -> option nat) : state :=
  mkState (conns s) (nconns s) (handles s) (nhandles s) (m4 s) (m6 s) (udom s) f (adom s) (mclosed s).

Definition mfam (s : state) (is6 : bool) : string -> option nat := if is6 then m6 s else m4 s.

(* ---------- operations and results ---------- *)
Inductive wdst :=
| WAddr (a : addr)   (* a *net.UDPAddr with a valid IP and port *)
| WBadPort           (* port outside 0..65535 *)
| WBadIP             (* IP of a length other than 4 or 16 *)
| WNotUDP.           (* not a *net.UDPAddr *)

Inductive op :=
| OGetConn (u : string) (is6 addr_ok : bool)
| OWrite (h : nat) (d : wdst) (len : N)
| OInbound (src : addr) (k : pkind) (b : string)
| OInErr (fatal : bool)
| ORemove (u : string)
| OCloseH (h : nat)
| OCloseMux
| ORead (h : nat) (buflen : N).

Inductive res :=
| RNone
| RHandle (h c : nat)
| RErrInvalidAddress | RErrClosedPipe | RErrPort | RErrInvalidIP | RErrCast
| RWrote (n : N) | RWriteErr
| RData (b : string) (src : addr) | RTimeout | REOF | RShort
| RBadHandle.

(* ---------- GetConn ---------- *)
Definition do_getconn (cf : cfg) (s : state) (u : string) (is6 addr_ok : bool) : state * res :=
  if negb (unspec cf) && negb addr_ok then (s, RErrInvalidAddress)
  else if mclosed s then (s, RErrClosedPipe)
  else
    match mfam s is6 u with
    | Some c =>
      let cn := conns s c in
      let cn' := mkConn (c_key cn) (c_addrs cn) (c_queue cn) (c_closed cn) (c_refs cn + 1)%Z in
      let h := nhandles s in
      (mkState (updn (conns s) c cn') (nconns s) (updn (handles s) h (mkHandle c false)) (S h)
               (m4 s) (m6 s) (udom s) (amap s) (adom s) (mclosed s), RHandle h c)
    | None =>
      let c := nconns s in
      let h := nhandles s in
      let cn := mkConn u [] [] false 1%Z in
      (mkState (updn (conns s) c cn) (S c) (updn (handles s) h (mkHandle c false)) (S h)
               (if is6 then m4 s else upds (m4 s) u (Some c))
               (if is6 then upds (m6 s) u (Some c) else m6 s)
               (u :: udom s) (amap s) (adom s) (mclosed s), RHandle h c)
    end.

(* ---------- WriteTo ---------- *)
Definition mem_addr (a : addr) (l : list addr) : bool := existsb (addr_eqb a) l.
Definition remove_addr (a : addr) (l : list addr) : list addr := filter (fun x => negb (addr_eqb x a)) l.

Definition set_addrs (cn : conn) (l : list addr) : conn :=
  mkConn (c_key cn) l (c_queue cn) (c_closed cn) (c_refs cn).

(* addAddress + registerConnForAddress for conn c and canonical address ca *)
Definition register (s : state) (c : nat) (ca : addr) : state :=
  let cn := conns s c in
  let s1 := set_conn s c (set_addrs cn (c_addrs cn ++ [ca])) in
  if mclosed s1 then s1
  else
    let s2 := match amap s1 ca with
              | Some e => set_conn s1 e (set_addrs (conns s1 e) (remove_addr ca (c_addrs (conns s1 e))))
              | None => s1
              end in
    mkState (conns s2) (nconns s2) (handles s2) (nhandles s2) (m4 s2) (m6 s2) (udom s2)
            (upda (amap s2) ca (Some c)) (ca :: adom s2) (mclosed s2).

Definition do_write (s : state) (h : nat) (d : wdst) (len : N) : state * res :=
  if negb (Nat.ltb h (nhandles s)) then (s, RBadHandle)
  else
    let hd := handles s h in
    if h_closed hd then (s, RErrClosedPipe)
    else
      let c := h_conn hd in
      if c_closed (conns s c) then (s, RErrClosedPipe)
      else
        match d with
        | WNotUDP => (s, RErrCast)
        | WBadPort => (s, RErrPort)
        | WBadIP => (s, RErrInvalidIP)
        | WAddr a =>
          let ca := canon a in
          let s' := if mem_addr ca (c_addrs (conns s c)) then s else register s c ca in
          (s', if mclosed s then RWriteErr else RWrote len)
        end.

(* ---------- connWorker: one datagram ---------- *)
Definition route (s : state) (src : addr) (k : pkind) : option nat :=
  let ca := canon src in
  match amap s ca with
  | Some c => Some c
  | None =>
    match k with
    | KStunUser un => mfam s (a_is6 ca) (ufrag_of un)
    | _ => None
    end
  end.

Definition enqueue (cn : conn) (b : string) (src : addr) : conn :=
  mkConn (c_key cn) (c_addrs cn) (c_queue cn ++ [(b, src)]) (c_closed cn) (c_refs cn).

Definition do_inbound (s : state) (src : addr) (k : pkind) (b : string) : state * res :=
  if mclosed s then (s, RNone)
  else
    match route s src k with
    | None => (s, RNone)
    | Some c =>
      if c_closed (conns s c) then (s, RNone)        (* writePacket: io.ErrClosedPipe, logged *)
      else (set_conn s c (enqueue (conns s c) b src), RNone)
    end.

(* ---------- RemoveConnByUfrag ---------- *)
Definition opt_list (o : option nat) : list nat := match o with Some c => [c] | None => [] end.

Definition del_addrs (f : addr -> option nat) (l : list addr) : addr -> option nat :=
  fold_left (fun g a => upda g a None) l f.

(* returns the new state and the removed connections (IPv4 map first) *)
Definition remove_core (s : state) (u : string) : state * list nat :=
  let removed := opt_list (m4 s u) ++ opt_list (m6 s u) in
  let f := fold_left (fun g c => del_addrs g (c_addrs (conns s c))) removed (amap s) in
  (mkState (conns s) (nconns s) (handles s) (nhandles s)
           (upds (m4 s) u None) (upds (m6 s) u None) (udom s) f (adom s) (mclosed s), removed).

(* udpMuxedConn.Close without the watcher goroutine *)
Definition mark_closed (s : state) (c : nat) : state :=
  let cn := conns s c in
  if c_closed cn then s else set_conn s c (mkConn (c_key cn) (c_addrs cn) [] true (c_refs cn)).

(* RemoveConnByUfrag under either semantics.  With [remove_closes] every removed connection is
   closed; closing wakes its watcher, which calls RemoveConnByUfrag(key) once more.  By then the
   ufrag is gone from both maps, so that nested call finds nothing (lemma watcher_noop); it is
   modelled by remove_core, whose result list is dropped. *)
Definition do_remove (cf : cfg) (s : state) (u : string) : state :=
  let (s1, removed) := remove_core s u in
  if remove_closes cf then
    fold_left (fun st c =>
                 if c_closed (conns st c) then st
                 else fst (remove_core (mark_closed st c) (c_key (conns st c))))
              removed s1
  else s1.

(* udpMuxedConn.Close followed by its watcher: RemoveConnByUfrag(key) *)
Definition conn_close (cf : cfg) (s : state) (c : nat) : state :=
  if c_closed (conns s c) then s
  else do_remove cf (mark_closed s c) (c_key (conns s c)).

(* ---------- handle Close ---------- *)
Definition do_closeh (cf : cfg) (s : state) (h : nat) : state * res :=
  if negb (Nat.ltb h (nhandles s)) then (s, RBadHandle)
  else
    let hd := handles s h in
    if h_closed hd then (s, RNone)
    else
      let c := h_conn hd in
      let cn := conns s c in
      let r := (c_refs cn - 1)%Z in
      let s1 := mkState (updn (conns s) c (mkConn (c_key cn) (c_addrs cn) (c_queue cn) (c_closed cn) r))
                        (nconns s) (updn (handles s) h (mkHandle c true)) (nhandles s)
                        (m4 s) (m6 s) (udom s) (amap s) (adom s) (mclosed s) in
      ((if (r <=? 0)%Z then conn_close cf s1 c else s1), RNone).

(* ---------- mux Close ---------- *)
(* every connection in the two maps is closed while m.mu is held; the maps are replaced by empty
   ones before the watchers get the lock, so their RemoveConnByUfrag finds nothing; addressMap is
   not touched *)
Definition registered (s : state) : list nat :=
  flat_map (fun u => opt_list (m4 s u)) (udom s) ++ flat_map (fun u => opt_list (m6 s u)) (udom s).

Definition do_closemux (s : state) : state :=
  if mclosed s then s
  else
    let s1 := fold_left mark_closed (registered s) s in
    mkState (conns s1) (nconns s1) (handles s1) (nhandles s1) (fun _ => None) (fun _ => None) (udom s1)
            (amap s1) (adom s1) true.

Definition do_inerr (s : state) (fatal : bool) : state :=
  if mclosed s then s else if fatal then do_closemux s else s.

(* ---------- Read with an expired deadline ---------- *)
Definition do_read (s : state) (h : nat) (buflen : N) : state * res :=
  if negb (Nat.ltb h (nhandles s)) then (s, RBadHandle)
  else
    let hd := handles s h in
    if h_closed hd then (s, RErrClosedPipe)
    else
      let c := h_conn hd in
      let cn := conns s c in
      match c_queue cn with
      | (b, src) :: rest =>
        let s' := set_conn s c (mkConn (c_key cn) (c_addrs cn) rest (c_closed cn) (c_refs cn)) in
        if buflen <? N.of_nat (String.length b) then (s', RShort) else (s', RData b src)
      | [] => (s, if c_closed cn then REOF else RTimeout)
      end.

Definition step (cf : cfg) (s : state) (o : op) : state * res :=
  match o with
  | OGetConn u is6 ok => do_getconn cf s u is6 ok
  | OWrite h d len => do_write s h d len
  | OInbound src k b => do_inbound s src k b
  | OInErr fatal => (do_inerr s fatal, RNone)
  | ORemove u => (do_remove cf s u, RNone)
  | OCloseH h => do_closeh cf s h
  | OCloseMux => (do_closemux s, RNone)
  | ORead h buflen => do_read s h buflen
  end.

Definition run (cf : cfg) (ops : list op) : state := fold_left (fun s o => fst (step cf s o)) ops init.

(* ---------- snapshots (what the hook VerifUDPMuxSnapshot shows of the implementation) ---------- *)
Record csnap := mkCsnap { cs_closed : bool; cs_qlen : nat; cs_addrs : list addr }.
Record snap := mkSnap {
  sn_mclosed : bool;
  sn_m4 : list (string * nat); sn_m6 : list (string * nat);
  sn_amap : list (addr * nat);
  sn_conns : list csnap }.     (* index = connection id *)

Fixpoint dedup_s (l : list string) : list string :=
  match l with
  | [] => []
  | x :: r => if existsb (String.eqb x) r then dedup_s r else x :: dedup_s r
  end.
Fixpoint dedup_a (l : list addr) : list addr :=
  match l with
  | [] => []
  | x :: r => if existsb (addr_eqb x) r then dedup_a r else x :: dedup_a r
  end.

Definition bindings {K} (keys : list K) (f : K -> option nat) : list (K * nat) :=
  flat_map (fun k => match f k with Some c => [(k, c)] | None => [] end) keys.

Definition snap_of (s : state) : snap :=
  mkSnap (mclosed s)
         (bindings (dedup_s (udom s)) (m4 s)) (bindings (dedup_s (udom s)) (m6 s))
         (bindings (dedup_a (adom s)) (amap s))
         (map (fun c => let cn := conns s c in mkCsnap (c_closed cn) (length (c_queue cn)) (c_addrs cn))
              (seq 0 (nconns s))).

(* one observed step: the operation, its result, the snapshot after it *)
Definition obs := (op * res * snap)%type.

Fixpoint observe (cf : cfg) (s : state) (ops : list op) : list obs :=
  match ops with
  | [] => []
  | o :: r => let (s', x) := step cf s o in (o, x, snap_of s') :: observe cf s' r
  end.

(* ====================================================================================== *)
(* The MONITOR: the property, as a reference routing table kept independently of the code's  *)
(* data structures (no per-connection address lists, no reference counts on the mux side):  *)
(*   reg4/reg6 : ufrag -> connection registered by GetConn and not since removed/closed      *)
(*   owner     : canonical address -> the live connection that most recently wrote to it     *)
(*   status    : Live | Removed | Closed   (Removed/Closed connections must receive nothing  *)
(*               and own nothing, whatever they do afterwards)                               *)
(*   exp       : what Read must return on each connection, in order                          *)
(* It is evaluated on the IMPLEMENTATION's observations (results of the operations, reads,   *)
(* and the hook's snapshot of queue lengths and address bindings).                           *)
(* ====================================================================================== *)
Inductive rstatus := Live | Removed | Closed.
Record rconn := mkRconn { rc_key : string; rc_status : rstatus; rc_exp : list (string * addr); rc_refs : Z }.
Record rstate := mkRstate {
  r_conns : nat -> rconn; r_n : nat;
  r_handles : nat -> handle; r_nh : nat;
  r_reg4 : string -> option nat; r_reg6 : string -> option nat;
  r_owner : addr -> option nat;
  r_mclosed : bool;
  r_last : list nat }.          (* queue lengths in the previous snapshot *)

Definition rinit : rstate :=
  mkRstate (fun _ => mkRconn EmptyString Closed [] 0%Z) 0 (fun _ => mkHandle 0 true) 0
           (fun _ => None) (fun _ => None) (fun _ => None) false [].

Definition r_set_conn (r : rstate) (c : nat) (v : rconn) : rstate :=
  mkRstate (updn (r_conns r) c v) (r_n r) (r_handles r) (r_nh r) (r_reg4 r) (r_reg6 r) (r_owner r) (r_mclosed r) (r_last r).
Definition r_set_last (r : rstate) (l : list nat) : rstate :=
  mkRstate (r_conns r) (r_n r) (r_handles r) (r_nh r) (r_reg4 r) (r_reg6 r) (r_owner r) (r_mclosed r) l.

Definition is_live (r : rstate) (c : nat) : bool :=
  match rc_status (r_conns r c) with Live => true | _ => false end.
Definition is_removed (r : rstate) (c : nat) : bool :=
  match rc_status (r_conns r c) with Removed => true | _ => false end.
Definition is_closed_r (r : rstate) (c : nat) : bool :=
  match rc_status (r_conns r c) with Closed => true | _ => false end.

Definition disown (f : addr -> option nat) (c : nat) : addr -> option nat :=
  fun a => match f a with Some c' => if Nat.eqb c' c then None else Some c' | None => None end.

(* connection c stops being registered (status st); its address bindings are gone *)
Definition r_kill (r : rstate) (c : nat) (st : rstatus) (flush : bool) : rstate :=
  let rc := r_conns r c in
  mkRstate (updn (r_conns r) c (mkRconn (rc_key rc) st (if flush then [] else rc_exp rc) (rc_refs rc)))
           (r_n r) (r_handles r) (r_nh r) (r_reg4 r) (r_reg6 r) (disown (r_owner r) c) (r_mclosed r) (r_last r).

(* RemoveConnByUfrag u, as specified: whatever is registered under u (either family) is removed *)
Definition r_remove (r : rstate) (u : string) : rstate :=
  let cs := opt_list (r_reg4 r u) ++ opt_list (r_reg6 r u) in
  let r1 := fold_left (fun st c => if is_live st c then r_kill st c Removed false else st) cs r in
  mkRstate (r_conns r1) (r_n r1) (r_handles r1) (r_nh r1) (upds (r_reg4 r1) u None) (upds (r_reg6 r1) u None)
           (r_owner r1) (r_mclosed r1) (r_last r1).

Definition r_registered (r : rstate) (c : nat) : bool :=
  let u := rc_key (r_conns r c) in
  (match r_reg4 r u with Some c' => Nat.eqb c' c | None => false end)
  || (match r_reg6 r u with Some c' => Nat.eqb c' c | None => false end).

(* mux Close: every registered connection is closed; nothing is registered or bound any more *)
Definition r_closemux (r : rstate) : rstate :=
  if r_mclosed r then r else
  let cs := filter (r_registered r) (seq 0 (r_n r)) in
  let r1 := fold_left (fun st c => if is_closed_r st c then st else r_kill st c Closed true) cs r in
  mkRstate (r_conns r1) (r_n r1) (r_handles r1) (r_nh r1) (fun _ => None) (fun _ => None)
           (fun _ => None) true (r_last r1).

Definition r_designated (r : rstate) (src : addr) (k : pkind) : option nat :=
  if r_mclosed r then None else
  let ca := canon src in
  match r_owner r ca with
  | Some c => Some c
  | None =>
    match k with
    | KStunUser un => if a_is6 ca then r_reg6 r (ufrag_of un) else r_reg4 r (ufrag_of un)
    | _ => None
    end
  end.

Definition pkt_eqb (x y : string * addr) : bool := String.eqb (fst x) (fst y) && addr_eqb (snd x) (snd y).

Definition qlens (sn : snap) : list nat := map cs_qlen (sn_conns sn).

(* classification of "connection g got a datagram that was not designated for it" *)
Definition wrong_recipient (r : rstate) (g : nat) (unowned_stun : bool) : string :=
  if is_removed r g then "after_remove_receives_nothing"%string
  else if is_closed_r r g then "after_close_receives_nothing"%string
  else if unowned_stun then "no_foreign_ufrag"%string
  else "routing_wrong_connection"%string.

Definition is_stun_user (k : pkind) : bool := match k with KStunUser _ => true | _ => false end.

(* ---- per-operation pieces of the monitor ---- *)
Definition grown_of (before after : list nat) : list nat :=
  filter (fun c => Nat.ltb (nth c before 0%nat) (nth c after 0%nat)) (seq 0 (length after)).
Definition total (l : list nat) : nat := fold_left Nat.add l 0%nat.

Definition r_getconn (r : rstate) (u : string) (is6 : bool) (result : res) : rstate * checks :=
  match result with
  | RHandle h c =>
    let reg := if is6 then r_reg6 r u else r_reg4 r u in
    match reg with
    | Some c0 =>
      let rc := r_conns r c0 in
      (mkRstate (updn (r_conns r) c0 (mkRconn (rc_key rc) (rc_status rc) (rc_exp rc) (rc_refs rc + 1)%Z))
                (r_n r) (updn (r_handles r) h (mkHandle c0 false)) (S h)
                (r_reg4 r) (r_reg6 r) (r_owner r) (r_mclosed r) (r_last r),
       [("getconn_returns_registered"%string, Nat.eqb c c0 && Nat.eqb h (r_nh r))])
    | None =>
      (mkRstate (updn (r_conns r) (r_n r) (mkRconn u Live [] 1%Z)) (S (r_n r))
                (updn (r_handles r) h (mkHandle (r_n r) false)) (S h)
                (if is6 then r_reg4 r else upds (r_reg4 r) u (Some (r_n r)))
                (if is6 then upds (r_reg6 r) u (Some (r_n r)) else r_reg6 r)
                (r_owner r) (r_mclosed r) (r_last r),
       [("getconn_returns_registered"%string, Nat.eqb c (r_n r) && Nat.eqb h (r_nh r))])
    end
  | _ => (r, [])
  end.

(* only a successful write of a LIVE connection makes it the owner of the destination *)
Definition r_write (r : rstate) (h : nat) (d : wdst) (result : res) : rstate * checks :=
  match result, d with
  | RWrote _, WAddr a =>
    let c := h_conn (r_handles r h) in
    if is_live r c && negb (r_mclosed r) then
      (mkRstate (r_conns r) (r_n r) (r_handles r) (r_nh r) (r_reg4 r) (r_reg6 r)
                (upda (r_owner r) (canon a) (Some c)) (r_mclosed r) (r_last r), [])
    else (r, [])
  | _, _ => (r, [])
  end.

Definition r_inbound (r : rstate) (src : addr) (k : pkind) (b : string) (before after : list nat)
  : rstate * checks :=
  let grown := grown_of before after in
  let d := r_designated r src k in
  let unowned_stun := (match r_owner r (canon src) with None => true | Some _ => false end) && is_stun_user k in
  let wrong := filter (fun g => match d with Some c => negb (Nat.eqb g c) | None => true end) grown in
  let r1 := match d with
            | Some c => let rc := r_conns r c in
                        r_set_conn r c (mkRconn (rc_key rc) (rc_status rc) (rc_exp rc ++ [(b, src)]) (rc_refs rc))
            | None => r
            end in
  (r1,
   ("routing_at_most_one"%string, Nat.leb (total after) (S (total before)) && Nat.leb (length grown) 1)
     :: ("routing_delivers_to_designated"%string,
         match d with
         | Some c => Nat.eqb (nth c after 0%nat) (S (nth c before 0%nat))
         | None => true
         end)
     :: map (fun g => (wrong_recipient r g unowned_stun, false)) wrong).

Definition r_closeh (r : rstate) (h : nat) : rstate * checks :=
  if Nat.ltb h (r_nh r) && negb (h_closed (r_handles r h)) then
    let c := h_conn (r_handles r h) in
    let rc := r_conns r c in
    let refs := (rc_refs rc - 1)%Z in
    let r1 := mkRstate (updn (r_conns r) c (mkRconn (rc_key rc) (rc_status rc) (rc_exp rc) refs)) (r_n r)
                       (updn (r_handles r) h (mkHandle c true)) (r_nh r)
                       (r_reg4 r) (r_reg6 r) (r_owner r) (r_mclosed r) (r_last r) in
    if (refs <=? 0)%Z then
      match rc_status rc with
      | Live =>
        (* closing the connection removes its ufrag from the mux (both families), as documented *)
        (r_remove (r_kill r1 c Closed true) (rc_key rc), [])
      | Removed => (r_kill r1 c Closed true, [])
      | Closed => (r1, [])
      end
    else (r1, [])
  else (r, []).

Definition r_read (r : rstate) (h : nat) (buflen : N) (result : res) : rstate * checks :=
  if Nat.ltb h (r_nh r) then
    let hd := r_handles r h in
    let c := h_conn hd in
    let rc := r_conns r c in
    match result with
    | RData b src =>
      if h_closed hd then (r, [("after_close_receives_nothing"%string, false)])
      else
        match rc_exp rc with
        | (b0, s0) :: rest =>
          if pkt_eqb (b, src) (b0, s0) then
            (r_set_conn r c (mkRconn (rc_key rc) (rc_status rc) rest (rc_refs rc)),
             [("delivered_bytes_identical"%string, true); ("delivered_true_source"%string, true);
              ("per_connection_order"%string, true)])
          else if existsb (pkt_eqb (b, src)) rest then
            (r, [("per_connection_order"%string, false)])
          else if existsb (fun p => String.eqb (fst p) b) (rc_exp rc) then
            (r, [("delivered_true_source"%string, false)])
          else if existsb (fun p => addr_eqb (snd p) src) (rc_exp rc) then
            (r, [("delivered_bytes_identical"%string, false)])
          else (r, [(wrong_recipient r c false, false)])
        | [] => (r, [(wrong_recipient r c false, false)])
        end
    | RShort =>
      match rc_exp rc with
      | (b0, s0) :: rest =>
        (r_set_conn r c (mkRconn (rc_key rc) (rc_status rc) rest (rc_refs rc)),
         [("short_buffer_only_when_short"%string, buflen <? N.of_nat (String.length b0))])
      | [] => (r, [(wrong_recipient r c false, false)])
      end
    | RTimeout | REOF =>
      (* a Live connection must hand out what was routed to it; a Removed one may have been
         flushed (that is what the repaired RemoveConnByUfrag does) *)
      if is_live r c && negb (h_closed hd) then
        (r, [("routing_delivers_to_designated"%string, match rc_exp rc with [] => true | _ => false end)])
      else (r_set_conn r c (mkRconn (rc_key rc) (rc_status rc) [] (rc_refs rc)), [])
    | _ => (r, [])
    end
  else (r, []).

Definition r_op (r : rstate) (oper : op) (result : res) (before after : list nat) : rstate * checks :=
  match oper with
  | OGetConn u is6 _ => r_getconn r u is6 result
  | OWrite h d _ => r_write r h d result
  | OInbound src k b => r_inbound r src k b before after
  | OInErr fatal => ((if fatal then r_closemux r else r), [])
  | ORemove u => (r_remove r u, [])
  | OCloseH h => r_closeh r h
  | OCloseMux => (r_closemux r, [])
  | ORead h buflen => r_read r h buflen result
  end.

(* after every operation, while the mux is open: no address binding of a removed / closed connection *)
Definition bind_checks (r' : rstate) (sn : snap) : checks :=
  if sn_mclosed sn then [] else
  flat_map (fun p : addr * nat =>
              if is_removed r' (snd p) then [("after_remove_no_binding"%string, false)]
              else if is_closed_r r' (snd p) then [("after_close_no_binding"%string, false)]
              else []) (sn_amap sn).

(* queues only grow on inbound datagrams *)
Definition grow_checks (oper : op) (grown : list nat) : checks :=
  match oper with
  | OInbound _ _ _ => []
  | _ => [("queue_grows_only_on_inbound"%string, match grown with [] => true | _ => false end)]
  end.

Definition r_step (r : rstate) (o : obs) : rstate * checks :=
  let '(oper, result, sn) := o in
  let before := r_last r in
  let after := qlens sn in
  let '(r', cks) := r_op r oper result before after in
  (r_set_last r' after, cks ++ bind_checks r' sn ++ grow_checks oper (grown_of before after)).

Fixpoint r_run (r : rstate) (l : list obs) : checks :=
  match l with
  | [] => []
  | o :: rest =>
    let (r', cks) := r_step r o in
    (* the first violating step decides: later steps would be judged against a reference
       that has already diverged from the implementation *)
    if all_ok cks then cks ++ r_run r' rest else cks
  end.

Definition C12_checks (l : list obs) : checks := r_run rinit l.
Definition C12_monitor (l : list obs) : bool := all_ok (C12_checks l).

(* Concurrent probe (suite case "race"): writers and a RemoveConnByUfrag run concurrently on the real
   code; after everything has finished, [stale] = number of address bindings whose owner is registered
   under no ufrag.  The sequential theorems say nothing about this case; the check states the property
   ("after it is removed its address bindings are gone") on the quiescent state. *)
Definition C12_race_checks (stale : N) : checks :=
  [("no_binding_after_concurrent_remove"%string, (stale =? 0)%N)].
