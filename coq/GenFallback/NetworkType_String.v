Definition NetworkType_String (t : Z) : string :=
  (let v_tag_1 := t in (if (Z.eqb v_tag_1 1) then "udp4"%string else (if (Z.eqb v_tag_1 2) then "udp6"%string else (if (Z.eqb v_tag_1 3) then "tcp4"%string else (if (Z.eqb v_tag_1 4) then "tcp6"%string else "Unknown"%string))))).
