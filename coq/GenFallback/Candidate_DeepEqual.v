Definition Candidate_DeepEqual (equal : bool) (extensions_equal : bool) : bool :=
  (andb equal extensions_equal).
