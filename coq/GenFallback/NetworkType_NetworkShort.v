Definition NetworkType_NetworkShort (t : Z) : string :=
  (let v_tag_1 := t in (if (orb (Z.eqb v_tag_1 1) (Z.eqb v_tag_1 2)) then "udp"%string else (if (orb (Z.eqb v_tag_1 3) (Z.eqb v_tag_1 4)) then "tcp"%string else "Unknown"%string))).
