Definition CandidateType_Preference (c : Z) : Z :=
  (let v_tag_1 := c in (if (Z.eqb v_tag_1 1) then 126 else (if (Z.eqb v_tag_1 3) then 110 else (if (Z.eqb v_tag_1 2) then 100 else (if (orb (Z.eqb v_tag_1 4) (Z.eqb v_tag_1 0)) then 0 else 0))))).
