Definition CandidatePair_equal (p_nil : bool) (other_nil : bool) (localEqual : bool) (remoteEqual : bool) : bool :=
  (if (andb p_nil other_nil) then true else (if (orb p_nil other_nil) then false else (andb localEqual remoteEqual))).
