Definition NetworkType_IsIPv4 (t : Z) : bool :=
  (let v_tag_1 := t in (if (orb (Z.eqb v_tag_1 1) (Z.eqb v_tag_1 3)) then true else (if (orb (Z.eqb v_tag_1 2) (Z.eqb v_tag_1 4)) then false else false))).
