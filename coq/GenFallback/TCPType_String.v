Definition TCPType_String (t : Z) : string :=
  (let v_tag_1 := t in (if (Z.eqb v_tag_1 0) then ""%string else (if (Z.eqb v_tag_1 1) then "active"%string else (if (Z.eqb v_tag_1 2) then "passive"%string else (if (Z.eqb v_tag_1 3) then "so"%string else "Unknown"%string))))).
