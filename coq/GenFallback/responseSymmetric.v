Definition responseSymmetric (requestNetworkType : Z) (localNetworkType : Z) (destinationEqualsSource : bool) : bool :=
  (andb (Z.eqb requestNetworkType localNetworkType) destinationEqualsSource).
