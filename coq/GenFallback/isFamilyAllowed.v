Definition isFamilyAllowed (allowIPv4 : bool) (allowIPv6 : bool) (isLocalIPv4 : bool) : bool :=
  (if isLocalIPv4 then allowIPv4 else allowIPv6).
