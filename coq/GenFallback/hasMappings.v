Definition hasMappings (v4_valid : bool) (v6_valid : bool) : bool :=
  (orb v4_valid v6_valid).
