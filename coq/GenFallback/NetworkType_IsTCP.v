Definition NetworkType_IsTCP (t : Z) : bool :=
  (orb (Z.eqb t 3) (Z.eqb t 4)).
