Definition canHandleInbound (method : Z) (class : Z) : bool :=
  (andb (Z.eqb method 1) (orb (orb (Z.eqb class 2) (Z.eqb class 0)) (Z.eqb class 1))).
