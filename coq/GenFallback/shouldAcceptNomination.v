Definition shouldAcceptNomination (has_value : bool) (value : Z) (has_last : bool) (last : Z) : bool :=
  (if (negb has_value) then true else (if (orb (negb has_last) (Z.ltb last value)) then true else false)).
