Definition shouldSwitchSelectedPair (has_selected : bool) (same_pair : bool) (has_nomination_value : bool) (needs_priority_check : bool) (selectedPrio : Z) (pairPrio : Z) : bool :=
  ((if (negb has_selected) then true else (if same_pair then false else (if has_nomination_value then true else (orb (negb needs_priority_check) (Z.ltb selectedPrio pairPrio)))))).
