Definition relayProtocolPreference (relayProtocol : string) : Z :=
  (let v_tag_1 := relayProtocol in (if (String.eqb v_tag_1 "tls"%string) then 0 else (if (String.eqb v_tag_1 "tcp"%string) then 1 else (if (String.eqb v_tag_1 "dtls"%string) then 2 else 3)))).
