Definition NetworkType_IsReliable (t : Z) : bool :=
  (let v_tag_1 := t in (if (orb (Z.eqb v_tag_1 1) (Z.eqb v_tag_1 2)) then false else (if (orb (Z.eqb v_tag_1 3) (Z.eqb v_tag_1 4)) then true else false))).
