Definition CandidateType_String (c : Z) : string :=
  (let v_tag_1 := c in (if (Z.eqb v_tag_1 1) then "host"%string else (if (Z.eqb v_tag_1 2) then "srflx"%string else (if (Z.eqb v_tag_1 3) then "prflx"%string else (if (Z.eqb v_tag_1 4) then "relay"%string else (if (Z.eqb v_tag_1 0) then "Unknown candidate type"%string else "Unknown candidate type"%string)))))).
