Definition NetworkType_IsUDP (t : Z) : bool :=
  (orb (Z.eqb t 1) (Z.eqb t 2)).
