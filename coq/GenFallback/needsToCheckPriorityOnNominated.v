Definition needsToCheckPriorityOnNominated (lite : bool) (enableUseCandidateCheckPriority : bool) : bool :=
  (orb (negb lite) enableUseCandidateCheckPriority).
