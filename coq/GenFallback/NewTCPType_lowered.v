Definition NewTCPType_lowered (lowered : string) : Z :=
  (let v_tag_1 := lowered in (if (String.eqb v_tag_1 "active"%string) then 1 else (if (String.eqb v_tag_1 "passive"%string) then 2 else (if (String.eqb v_tag_1 "so"%string) then 3 else 0)))).
