Definition Priority (priorityOverride : Z) (typePreference : Z) (localPreference : Z) (component : Z) : Z :=
  (if (negb (Z.eqb priorityOverride 0)) then priorityOverride else (wrap 32 ((wrap 32 ((wrap 32 (16777216 * typePreference)) + (wrap 32 (256 * localPreference)))) + (wrap 32 (1 * (wrap 16 (256 - component))))))).
