Definition Candidate_Equal (transport_equal : bool) (c_type : Z) (o_type : Z) (related_equal : bool) : bool :=
  (andb (andb transport_equal (Z.eqb c_type o_type)) related_equal).
