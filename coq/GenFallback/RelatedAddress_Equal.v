Definition RelatedAddress_Equal (c_nil : bool) (o_nil : bool) (c_addr : string) (o_addr : string) (c_port : Z) (o_port : Z) : bool :=
  (if (andb c_nil o_nil) then true else (andb (andb (andb (negb c_nil) (negb o_nil)) (String.eqb c_addr o_addr)) (Z.eqb c_port o_port))).
