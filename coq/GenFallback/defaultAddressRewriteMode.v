Definition defaultAddressRewriteMode (candidateType : Z) : Z :=
  (if (orb (Z.eqb candidateType 0) (Z.eqb candidateType 1)) then 1 else 2).
