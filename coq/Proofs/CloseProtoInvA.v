(* C08: preservation of group A of the invariant (the loop, the tasks and their callers). *)
From Coq Require Import Arith Bool List Lia.
Import ListNotations.
From Ice Require Import Model.PrioSpec Model.CloseProto Proofs.CloseProtoMeasure Proofs.CloseProtoMeasure2
     Proofs.CloseProtoFrames Proofs.CloseProtoInv.

Section G.
Variable NC : nat.
Variable wfree : nat -> bool.
Variable fix_reg : bool.
Notation step := (step NC wfree fix_reg).
Notation Inv := (Inv NC fix_reg).

Ltac depsA I :=
  pose proof (a_task _ _ _ I); pose proof (a_write _ _ _ I); pose proof (a_host _ _ _ I); pose proof (a_del _ _ _ I);
  pose proof (a_wait _ _ _ I); pose proof (a_tdone _ _ _ I); pose proof (a_sel _ _ _ I); pose proof (a_park _ _ _ I);
  pose proof (a_hostok _ _ _ I); pose proof (a_wtarget _ _ _ I); pose proof (a_wloop _ _ _ I); pose proof (a_kindok _ _ _ I); pose proof (d_reg _ _ _ I); pose proof (d_bound _ _ _ I); pose proof (d_ioab _ _ _ I); pose proof (d_exit _ _ _ I); pose proof (d_unreg _ _ _ I); pose proof (e_rhost _ _ _ I); pose proof (e_lhost _ _ _ I); pose proof (e_lbusy _ _ _ I).

Lemma p_a_task s s' (I : Inv s) (H : step s s') :
  forall i, ltask (lp s') = Some i -> ap s' i = AWait /\ tdone s' i = false /\ is_run (akind s' i) = true.
Proof. pres H ltac:(exact (a_task _ _ _ I)) ltac:(depsA I). Qed.

Lemma p_a_write s s' (I : Inv s) (H : step s s') :
  forall i, lp s' = LWrite i -> body_is (akind s' i) b_write = true.
Proof. pres H ltac:(exact (a_write _ _ _ I)) ltac:(depsA I). Qed.

Lemma p_a_host s s' (I : Inv s) (H : step s s') :
  forall i, lp s' = LHost i \/ lp s' = LHostBusy i -> body_is (akind s' i) b_host = true.
Proof. pres H ltac:(exact (a_host _ _ _ I)) ltac:(depsA I). Qed.

Lemma p_a_del s s' (I : Inv s) (H : step s s') :
  forall i, match lp s' with
                    | LDel (CtxTask i') _ | LDelWait (CtxTask i') _ => i = i' -> body_is (akind s' i) b_del = true
                    | _ => True
                    end.
Proof. pres H ltac:(exact (a_del _ _ _ I)) ltac:(depsA I). Qed.

Lemma p_a_wait s s' (I : Inv s) (H : step s s') :
  forall i, ap s' i = AWait -> tdone s' i = false -> ltask (lp s') = Some i.
Proof. pres H ltac:(exact (a_wait _ _ _ I)) ltac:(depsA I). Qed.

Lemma p_a_tdone s s' (I : Inv s) (H : step s s') :
  forall i, tdone s' i = true -> ap s' i = AWait \/ ap s' i = ARet ROk.
Proof. pres H ltac:(exact (a_tdone _ _ _ I)) ltac:(depsA I). Qed.

Lemma p_a_sel s s' (I : Inv s) (H : step s s') :
  forall i, ap s' i = ASelect \/ ap s' i = AWait -> is_run (akind s' i) = true.
Proof. pres H ltac:(exact (a_sel _ _ _ I)) ltac:(depsA I). Qed.

Lemma p_a_park s s' (I : Inv s) (H : step s s') :
  forall i, ap s' i = APark -> is_run (akind s' i) = false.
Proof. pres H ltac:(exact (a_park _ _ _ I)) ltac:(depsA I). Qed.

Lemma p_a_hostok s s' (I : Inv s) (H : step s s') :
  forall i, ap s' i <> AIdle -> caller_host_ok (khost (akind s' i)) = true.
Proof. pres H ltac:(exact (a_hostok _ _ _ I)) ltac:(depsA I). Qed.


End G.
