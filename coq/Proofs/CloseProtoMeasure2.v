From Coq Require Import Arith Bool List Lia.
Import ListNotations.
From Ice Require Import Model.PrioSpec Model.CloseProto Proofs.CloseProtoMeasure.

Lemma apc_is_true a b : apc_is a b = true -> a = b.
Proof. destruct a, b; simpl; congruence. Qed.
Lemma cpc_is_true a b : cpc_is a b = true -> a = b.
Proof. destruct a, b; simpl; congruence. Qed.
Lemma rpc_is_true a b : rpc_is a b = true -> a = b.
Proof. destruct a, b; simpl; congruence. Qed.
Lemma rpc_is_false a b : rpc_is a b = false -> a <> b.
Proof. destruct a, b; simpl; congruence. Qed.
Lemma dpc_is_true a b : dpc_is a b = true -> a = b.
Proof. destruct a, b; simpl; congruence. Qed.
Lemma gpc_is_true a b : gpc_is a b = true -> a = b.
Proof. destruct a, b; simpl; congruence. Qed.
Lemma once_is_true a b : once_is a b = true -> a = b.
Proof. destruct a, b; simpl; congruence. Qed.

Ltac bool_hyps :=
  repeat match goal with
  | H : _ && _ = true |- _ => apply andb_prop in H; destruct H
  | H : _ || _ = true |- _ => apply orb_prop in H; destruct H
  | H : apc_is _ _ = true |- _ => apply apc_is_true in H
  | H : cpc_is _ _ = true |- _ => apply cpc_is_true in H
  | H : rpc_is _ _ = true |- _ => apply rpc_is_true in H
  | H : rpc_is _ _ = false |- _ => apply rpc_is_false in H
  | H : dpc_is _ _ = true |- _ => apply dpc_is_true in H
  | H : gpc_is _ _ = true |- _ => apply gpc_is_true in H
  | H : once_is _ _ = true |- _ => apply once_is_true in H
  | H : negb _ = true |- _ => apply negb_true_iff in H
  | H : Nat.eqb _ _ = true |- _ => apply Nat.eqb_eq in H
  | H : Nat.eqb _ _ = false |- _ => apply Nat.eqb_neq in H
  | H : negb _ = false |- _ => apply negb_false_iff in H
  | H : match lp ?s with _ => _ end = true |- _ => destruct (lp s) eqn:?; try discriminate H
  | H : Nat.ltb _ _ = true |- _ => apply Nat.ltb_lt in H
  | H : Nat.leb _ _ = true |- _ => apply Nat.leb_le in H
  end.

(* break every match / if of a hypothesis [lstep l s = Some s'] *)
Ltac brk H :=
  repeat match type of H with
  | match ?x with _ => _ end = Some _ => destruct x eqn:?; try discriminate H
  | (if ?x then _ else _) = Some _ => destruct x eqn:?; try discriminate H
  end.

Section M.
Variables NA NK NC : nat.
Variable wfree : nat -> bool.
Variable fix_reg : bool.

Notation measure := (measure NA NK NC).
Notation bounded := (bounded NA NK NC).
Notation label_ok := (label_ok NA NK).
Notation lstep := (lstep NC wfree fix_reg).

Ltac unf := unfold ret_caller, host_take, host_release, enqueue, set_abort, set_ap_at, set_akind_at, set_tdone_at,
  set_cp_at, set_ckind_at, set_snap_at, set_rp_at, set_rown_at, set_reg_at, set_late_at, after_del in *.

Ltac proj := cbn [ap tdone cp rp lp ndr nq gp gfuel hdone
  set_done set_tld set_once set_oowner set_lp set_lown set_ap set_akind set_tdone set_cp set_cgr set_chost set_snap
  set_rp set_rown set_ioab set_reg set_late set_bufclosed set_hdone set_nq set_ndr set_down set_dclo set_closedq
  set_gp set_gown set_gcancel set_gfuel set_oncloses set_ntasks].

Lemma sum_rp_le (r : nat -> rpc) c v :
  sumn NC (fun j => WR (upd r c v j)) <= sumn NC (fun j => WR (r j)) + WR v.
Proof.
  destruct (Nat.lt_ge_cases c NC) as [Hc|Hc].
  - pose proof (sum_rp_upd NC r c v Hc). lia.
  - rewrite (sumn_same NC (fun j => WR (r j)) (fun j => WR (upd r c v j))); [lia|].
    intros j Hj. rewrite upd_other by lia. reflexivity.
Qed.

Ltac sums :=
  repeat match goal with
  | |- context [sumn ?n (fun j => WA ?nc (upd ?a ?i ?v j) (?t j))] =>
      let H := fresh "S" in
      assert (H : i < n) by (first [assumption | eapply (idx_ap NA NK NC); [eassumption|congruence]]);
      apply (sum_ap_upd n nc a t i v) in H; revert H;
      generalize (sumn n (fun j => WA nc (upd a i v j) (t j))); intros ? H
  | |- context [sumn ?n (fun j => WA ?nc (?a j) (upd ?t ?i ?v j))] =>
      let H := fresh "S" in
      assert (H : i < n) by (first [assumption | eapply (idx_ap NA NK NC); [eassumption|congruence]]);
      apply (sum_td_upd n nc a t i v) in H; revert H;
      generalize (sumn n (fun j => WA nc (a j) (upd t i v j))); intros ? H
  | |- context [sumn ?n (fun j => WC ?nc (upd ?c ?k ?v j))] =>
      let H := fresh "S" in
      assert (H : k < n) by (first [assumption | eapply (idx_cp NA NK NC); [eassumption|congruence]]);
      apply (sum_cp_upd n nc c k v) in H; revert H;
      generalize (sumn n (fun j => WC nc (upd c k v j))); intros ? H
  | |- context [sumn ?n (fun j => WR (upd ?r ?c ?v j))] =>
      let H := fresh "S" in
      first [ assert (H : c < n) by (first [assumption | eapply (idx_rp NA NK NC); [eassumption|congruence]]);
              apply (sum_rp_upd n r c v) in H
            | pose proof (sum_rp_le r c v) as H ];
      revert H; generalize (sumn n (fun j => WR (upd r c v j))); intros ? H
  end.

Ltac ifs :=
  repeat match goal with
  | |- context [if ?b then _ else _] => destruct b eqn:?
  | |- context [match ndr ?s with _ => _ end] => destruct (ndr s) eqn:?
  | H : context [if ?b then _ else _] |- _ => destruct b eqn:?
  end.
Ltac fin := unfold WA, WC, WL, WR, WD, WG, WDel, U in *; ifs; lia.

Ltac rew_pcs :=
  repeat match goal with
  | H : ap _ _ = _ |- _ => rewrite H in *
  | H : cp _ _ = _ |- _ => rewrite H in *
  | H : rp _ _ = _ |- _ => rewrite H in *
  | H : lp _ = _ |- _ => rewrite H in *
  | H : gp _ = _ |- _ => rewrite H in *
  | H : ndr _ = _ |- _ => rewrite H in *
  | H : tdone _ _ = _ |- _ => rewrite H in *
  | H : hdone _ = _ |- _ => rewrite H in *
  end.

Ltac hosts :=
  repeat match goal with
  | |- context [match khost ?k with _ => _ end] => destruct (khost k) eqn:?
  | |- context [match chost ?s ?k with _ => _ end] => destruct (chost s k) eqn:?
  | |- context [match ?h with HApi => _ | _ => _ end] => is_var h; destruct h
  end.

(* the one fact about reachable states the measure needs: the task whose body has returned belongs
   to a caller that is still waiting for it *)
Definition fin_waits (s : state) : Prop :=
  (forall i, lp s = LFin i -> ap s i = AWait /\ tdone s i = false) /\
  (forall k i, cp s k = CDone -> chost s k = HTask i -> lp s = LHostBusy i).

Theorem measure_step s s' l :
  bounded s -> fin_waits s -> label_ok l -> lstep l s = Some s' -> measure s' < measure s.
Proof.
  intros HB [HF HF2] Hl H. destruct l.
  all: cbn [lstep] in H; brk H; bool_hyps; try (injection H as <-); subst.
  all: unfold measure; unf; hosts; cbn [host_free closer_host_ok caller_host_ok khost] in *; try discriminate; bool_hyps.
  all: try (match goal with H : lp ?s = LFin ?i |- _ => first [destruct (HF i H) | destruct (HF i eq_refl)] end).
  all: try (match goal with H : cp ?s ?k = CDone, H2 : chost ?s ?k = HTask ?i |- _ => pose proof (HF2 k i H H2) end).
  all: ifs; proj; sums; rew_pcs; try fin.
Qed.

End M.
