(* C03 (part): who may nominate, who may send checks.  For every operation from every state. *)
From Coq Require Import ZArith Bool List Lia.
From Ice Require Import Model.AgentTypes Model.AgentCore Gen.Consts Gen.Lifecycle Proofs.AgentFrame.
Import ListNotations.
Local Open Scope Z_scope.

(* a request that nominates (USE-CANDIDATE or a nomination value) carries the controlling role *)
Definition nominates_only_controlling (o : out) : Prop :=
  match o with
  | OSend _ _ m => m_class m = 0 -> (m_use m = true \/ m_nom m <> None) -> exists tb, m_ctl m = Some (true, tb)
  | _ => True
  end.

(* every Binding request carries the controlling role (what a lite agent may send) *)
Definition requests_only_controlling (o : out) : Prop :=
  match o with
  | OSend _ _ m => m_class m = 0 -> exists tb, m_ctl m = Some (true, tb)
  | _ => True
  end.

Definition is_ctl (s : state) : Prop := s_ctl s = true.
Definition is_not_ctl (s : state) : Prop := s_ctl s = false.

Lemma update_conn_ctl b st : sat (preserves (fun s => s_ctl s = b)) (update_conn st).
Proof.
  intros s. cbn. unfold update_conn. destruct (s_conn s =? st); [auto|]. destruct (st =? ConnectionStateFailed); auto.
Qed.

Lemma update_conn_outs (Q : out -> Prop) st : (Q (OState st)) -> sat (outs_all Q) (update_conn st).
Proof.
  intros H s. cbn. unfold update_conn. destruct (s_conn s =? st); cbn; [constructor|]. constructor; [exact H|constructor].
Qed.

Ltac rewrite_ctl :=
  repeat match goal with
  | H : s_ctl ?s = _ |- context [s_ctl ?s] => rewrite H
  | H : is_ctl ?s |- context [s_ctl ?s] => rewrite H
  | H : is_not_ctl ?s |- context [s_ctl ?s] => rewrite H
  end.

(* decompose; the role is preserved by every primitive; a request built from a state in which the
   role is controlling carries the controlling role *)
Ltac role_tac :=
  satG_decompose;
  try (apply satG_of_sat; [apply update_conn_outs; exact I|apply update_conn_ctl]);
  try (satG_base ltac:(cbn; split; [destruct_matches; constructor|destruct_matches; assumption]));
  try (satG_base ltac:(cbn; constructor; [|constructor]; cbn; intros; try discriminate; rewrite_ctl; eauto)).

Lemma ctl_contact cfg : satG is_ctl (outs_all requests_only_controlling) (contact_controlling cfg).
Proof. unfold is_ctl. role_tac. Qed.

Lemma ctl_handle_request cfg m l r : satG is_ctl (outs_all requests_only_controlling) (handle_request_controlling cfg m l r).
Proof. unfold is_ctl. role_tac. Qed.

Lemma ctl_handle_success cfg m l r src : satG is_ctl (outs_all requests_only_controlling) (handle_success_controlling cfg m l r src).
Proof. unfold is_ctl. role_tac. Qed.

Lemma ctl_renominate cfg l r v : satG is_ctl (outs_all requests_only_controlling) (do_renominate cfg l r v).
Proof. unfold is_ctl. role_tac. Qed.

(* a request that carries the controlling role satisfies the weaker nomination rule *)
Lemma requests_imp_nominates o : requests_only_controlling o -> nominates_only_controlling o.
Proof. destruct o; cbn; auto. Qed.

Lemma outs_all_weaken (Q R : out -> Prop) f s :
  (forall o, Q o -> R o) -> (outs_all Q) s (snd (f s)) (fst (f s)) -> (outs_all R) s (snd (f s)) (fst (f s)).
Proof. intros H. cbn. apply Forall_impl. exact H. Qed.

(* requests built while the role is controlled never nominate (plain checks only) *)
Ltac plain_tac :=
  try (sat_base ltac:(cbn; destruct_matches; repeat constructor; cbn; intros; try discriminate;
                      repeat match goal with H : _ \/ _ |- _ => destruct H end; try discriminate; try congruence));
  try (apply update_conn_outs; exact I).

Lemma plain_contact_controlled cfg : sat (outs_all nominates_only_controlling) (contact_controlled cfg).
Proof. sat_decompose; plain_tac. Qed.
Lemma plain_request_controlled cfg m l r : sat (outs_all nominates_only_controlling) (handle_request_controlled cfg m l r).
Proof. sat_decompose; plain_tac. Qed.
Lemma plain_success_controlled cfg m l r src : sat (outs_all nominates_only_controlling) (handle_success_controlled cfg m l r src).
Proof. sat_decompose; plain_tac. Qed.

Lemma nom_dispatch_request cfg m l rc : sat (outs_all nominates_only_controlling) (dispatch_request cfg m l rc).
Proof.
  intros s. unfold dispatch_request, with_state. destruct (s_ctl s) eqn:E.
  - apply outs_all_weaken with (Q := requests_only_controlling); [apply requests_imp_nominates|].
    apply (proj1 (ctl_handle_request cfg m l rc s E)).
  - apply plain_request_controlled.
Qed.

Lemma nom_dispatch_success cfg m l rc src : sat (outs_all nominates_only_controlling) (dispatch_success cfg m l rc src).
Proof.
  intros s. unfold dispatch_success, with_state. destruct (s_ctl s) eqn:E.
  - apply outs_all_weaken with (Q := requests_only_controlling); [apply requests_imp_nominates|].
    apply (proj1 (ctl_handle_success cfg m l rc src s E)).
  - apply plain_success_controlled.
Qed.

Lemma nom_contact cfg : sat (outs_all nominates_only_controlling) (contact_candidates cfg).
Proof.
  intros s. unfold contact_candidates, with_state. destruct (s_ctl s) eqn:E.
  - apply outs_all_weaken with (Q := requests_only_controlling); [apply requests_imp_nominates|].
    apply (proj1 (ctl_contact cfg s E)).
  - destruct (cf_lite cfg); [|apply plain_contact_controlled].
    assert (H : sat (outs_all nominates_only_controlling) (validate_selected cfg (fun _ => nop))) by (sat_decompose; plain_tac).
    apply H.
Qed.

Lemma nom_renominate cfg l r v : sat (outs_all nominates_only_controlling) (do_renominate cfg l r v).
Proof.
  intros s. destruct (s_ctl s) eqn:E.
  - apply outs_all_weaken with (Q := requests_only_controlling); [apply requests_imp_nominates|].
    apply (proj1 (ctl_renominate cfg l r v s E)).
  - unfold do_renominate, with_state. rewrite E. cbn. repeat constructor.
Qed.

(* A controlled agent never sends USE-CANDIDATE (nor a nomination value): every nominating request of
   every operation from every state carries the controlling role. *)
Theorem nominations_carry_controlling_role cfg o : sat (outs_all nominates_only_controlling) (step_m cfg o).
Proof.
  destruct o; cbn [step_m].
  all: try (sat_decompose; plain_tac; fail).
  - (* Tick *) unfold tick. sat_split; plain_tac; try apply nom_contact.
  - (* InStun *) sat_decompose_role; plain_tac; try apply nom_dispatch_request; try apply nom_dispatch_success.
  - unfold renominate_op. sat_split; plain_tac; apply nom_renominate.
Qed.

(* ---- a lite agent in the controlled role never originates Binding requests -------------------------- *)
Ltac lite_cfg cfg Hl :=
  destruct cfg as [lite tb mr dt de ft ka wh ws wp wr bl rn cp eps]; cbn [cf_lite] in Hl; subst lite.

Ltac quiet_tac :=
  try (sat_base ltac:(cbn; destruct_matches; repeat constructor; cbn; intros; discriminate));
  try (apply update_conn_outs; exact I).

Lemma lite_request_controlled cfg m l r :
  cf_lite cfg = true -> sat (outs_all requests_only_controlling) (handle_request_controlled cfg m l r).
Proof.
  intros Hl. lite_cfg cfg Hl. unfold handle_request_controlled. cbn [cf_lite negb andb].
  sat_decompose; quiet_tac.
Qed.

Lemma lite_success_controlled cfg m l r src :
  sat (outs_all requests_only_controlling) (handle_success_controlled cfg m l r src).
Proof. sat_decompose; quiet_tac. Qed.

Lemma lite_dispatch_request cfg m l rc :
  cf_lite cfg = true -> sat (outs_all requests_only_controlling) (dispatch_request cfg m l rc).
Proof.
  intros Hl s. unfold dispatch_request, with_state. destruct (s_ctl s) eqn:E.
  - apply (proj1 (ctl_handle_request cfg m l rc s E)).
  - apply lite_request_controlled. exact Hl.
Qed.

Lemma lite_dispatch_success cfg m l rc src : sat (outs_all requests_only_controlling) (dispatch_success cfg m l rc src).
Proof.
  intros s. unfold dispatch_success, with_state. destruct (s_ctl s) eqn:E.
  - apply (proj1 (ctl_handle_success cfg m l rc src s E)).
  - apply lite_success_controlled.
Qed.

Lemma lite_contact cfg : cf_lite cfg = true -> sat (outs_all requests_only_controlling) (contact_candidates cfg).
Proof.
  intros Hl s. unfold contact_candidates, with_state. destruct (s_ctl s) eqn:E.
  - apply (proj1 (ctl_contact cfg s E)).
  - rewrite Hl.
    assert (H : sat (outs_all requests_only_controlling) (validate_selected cfg (fun _ => nop))) by (sat_decompose; quiet_tac).
    apply H.
Qed.

Lemma lite_renominate cfg l r v : sat (outs_all requests_only_controlling) (do_renominate cfg l r v).
Proof.
  intros s. destruct (s_ctl s) eqn:E.
  - apply (proj1 (ctl_renominate cfg l r v s E)).
  - unfold do_renominate, with_state. rewrite E. cbn. repeat constructor.
Qed.

Theorem lite_agent_requests_only_when_controlling cfg o :
  cf_lite cfg = true -> sat (outs_all requests_only_controlling) (step_m cfg o).
Proof.
  intros Hl. destruct o; cbn [step_m].
  all: try (sat_decompose; quiet_tac; fail).
  - (* Tick *) unfold tick. sat_split; quiet_tac; try (apply lite_contact; exact Hl).
  - (* InStun *) sat_decompose_role; quiet_tac; try (apply lite_dispatch_request; exact Hl); try apply lite_dispatch_success.
  - unfold renominate_op. sat_split; quiet_tac; apply lite_renominate.
Qed.
