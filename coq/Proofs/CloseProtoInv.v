(* C08: the inductive invariant of the close-protocol model (every reachable state, any number of
   callers / closers / candidates, every schedule). *)
From Coq Require Import Arith Bool List Lia.
Import ListNotations.
From Ice Require Import Model.PrioSpec Model.CloseProto Proofs.CloseProtoMeasure Proofs.CloseProtoMeasure2 Proofs.CloseProtoFrames.

(* ---- classifications of program counters --------------------------------------------------- *)
Definition ltask (l : lpc) : option nat :=
  match l with
  | LRun i | LWrite i | LHost i | LHostBusy i | LFin i => Some i
  | LDel (CtxTask i) _ | LDelWait (CtxTask i) _ => Some i
  | _ => None
  end.

Definition closing (l : lpc) : bool :=
  match l with
  | LClosing | LOC1 | LOC4 | LOC5 | LOC6 | LExited => true
  | LDel CtxClose _ | LDelWait CtxClose _ => true
  | _ => false
  end.

Definition after_onclose (l : lpc) : bool :=
  match l with
  | LOC1 | LOC4 | LOC5 | LOC6 | LExited => true
  | LDel CtxClose _ | LDelWait CtxClose _ => true
  | _ => false
  end.

Definition after_join (l : lpc) : bool :=      (* past <-gatherCandidateDone *)
  match l with
  | LOC4 | LOC5 | LOC6 | LExited => true
  | LDel CtxClose _ | LDelWait CtxClose _ => true
  | _ => false
  end.

Definition after_del_all (l : lpc) : bool :=   (* past deleteAllCandidates of onClose *)
  match l with LOC4 | LOC5 | LOC6 | LExited => true | _ => false end.

Definition after_buf (l : lpc) : bool := match l with LOC5 | LOC6 | LExited => true | _ => false end.
Definition after_enq (l : lpc) : bool := match l with LOC6 | LExited => true | _ => false end.

Definition active (a : apc) : bool :=
  match a with APre | ASelect | AWait | APark => true | _ => false end.

Definition in_once (c : cpc) : bool :=
  match c with COnce1 | CSnap | CAbort _ | COnceEnd => true | _ => false end.
Definition done_by (c : cpc) : bool :=          (* this closer has closed l.done *)
  match c with CSnap | CAbort _ | COnceEnd => true | _ => false end.
Definition past_once (c : cpc) : bool :=
  match c with CWaitTLD | CNotif | CNotifWait | CDone | CRet => true | _ => false end.
Definition past_tld (c : cpc) : bool :=
  match c with CNotif | CNotifWait | CDone | CRet => true | _ => false end.
Definition cactive (c : cpc) : bool :=          (* called and not yet returned *)
  match c with CIdle | CRet => false | _ => true end.

Definition is_run (k : ckind) : bool := match k with KRun _ _ => true | _ => false end.
Definition body_is (k : ckind) (p : body -> bool) : bool :=
  match k with KRun _ b => p b | _ => false end.
Definition b_write (b : body) : bool := match b with BWrite _ => true | _ => false end.
Definition b_host (b : body) : bool := match b with BHost => true | _ => false end.
Definition b_del (b : body) : bool := match b with BDelAll => true | _ => false end.

Ltac split_conj := repeat match goal with H : _ /\ _ |- _ => destruct H | H : _ \/ _ |- _ => destruct H end.

Ltac unf := unfold ret_caller, set_abort, set_ap_at, set_akind_at, set_tdone_at,
  set_cp_at, set_ckind_at, set_snap_at, set_rp_at, set_rown_at, set_reg_at, set_late_at, after_del.

Ltac projall := cbn [done tld once oowner lp lown ap akind tdone cp cgr chost snap rp rown ioab reg late bufclosed
  hdone nq ndr down dclo closedq gp gown gcancel gfuel oncloses ntasks
  set_done set_tld set_once set_oowner set_lp set_lown set_ap set_akind set_tdone set_cp set_cgr set_chost set_snap
  set_rp set_rown set_ioab set_reg set_late set_bufclosed set_hdone set_nq set_ndr set_down set_dclo set_closedq
  set_gp set_gown set_gcancel set_gfuel set_oncloses set_ntasks].

Ltac simp_goal := unf; autorewrite with frames; projall.

Ltac classes := cbn [write_target api_only kind_ok ltask closing after_onclose after_join after_del_all after_buf after_enq active
     in_once done_by past_once past_tld cactive is_run body_is b_write b_host b_del khost caller_host_ok closer_host_ok
     host_free body_of] in *.

Ltac hosts_goal :=
  repeat match goal with
  | |- context [match khost ?k with _ => _ end] => destruct (khost k) eqn:?
  | |- context [match chost ?s ?k with _ => _ end] => destruct (chost s k) eqn:?
  | |- context [match ?h with HApi => _ | _ => _ end] => is_var h; destruct h
  | |- context [if hdone ?s then _ else _] => destruct (hdone s) eqn:?
  | |- context [if cgr ?s ?k then _ else _] => destruct (cgr s k) eqn:?
  | |- context [if gpc_is ?a ?b then _ else _] => destruct (gpc_is a b) eqn:?
  | |- context [if ?a && done ?s then _ else _] => destruct a eqn:?; destruct (done s) eqn:?; cbn [andb]
  | |- context [match ndr ?s with _ => _ end] => destruct (ndr s) eqn:?
  | |- context [match ?x with CtxTask _ => _ | CtxClose => _ end] => destruct x
  end.

Ltac open_hosts := unfold host_take, host_release, enqueue; hosts_goal; unf; projall.

(* case analysis of one step: afterwards s' is an explicit term and the guards are hypotheses *)
Ltac step_cases H :=
  let l := fresh "l" in
  destruct H as [l H]; destruct l;
  cbn [CloseProto.lstep] in H; brk H; bool_hyps; try (injection H as <-); subst.

Ltac upd_cases :=
  repeat match goal with
  | H : context [Nat.eqb ?a ?b] |- _ =>
      let E := fresh "E" in destruct (Nat.eqb_spec a b) as [E|E]; [subst|]
  | |- context [Nat.eqb ?a ?b] =>
      let E := fresh "E" in destruct (Nat.eqb_spec a b) as [E|E]; [subst|]
  end.

(* instantiate the universally quantified hypotheses with the thread indices in sight *)
Ltac inst1 x :=
  repeat match goal with
  | I : forall i : nat, _ |- _ =>
      lazymatch type of I with
      | forall (i : nat) (j : nat), _ => fail
      | _ => let T := type of (I x) in
             lazymatch goal with
             | _ : T |- _ => fail
             | _ => pose proof (I x)
             end
      end
  end.
Ltac inst2 x y :=
  repeat match goal with
  | I : forall (i : nat) (j : nat), _ |- _ =>
      let T := type of (I x y) in
      lazymatch goal with
      | _ : T |- _ => fail
      | _ => pose proof (I x y)
      end
  end.
Ltac inst_all :=
  repeat match goal with
  | x : nat |- _ => progress (inst1 x)
  end;
  repeat match goal with
  | x : nat, y : nat |- _ => progress (inst2 x y)
  end;
  repeat match goal with
  | I : forall i : nat, _ |- _ => clear I
  end.

Ltac rew_pcs :=
  repeat match goal with
  | H : lp _ = _ |- _ => rewrite H in *
  | H : ap _ _ = _ |- _ => rewrite H in *
  | H : cp _ _ = _ |- _ => rewrite H in *
  | H : rp _ _ = _ |- _ => rewrite H in *
  | H : gp _ = _ |- _ => rewrite H in *
  | H : ndr _ = _ |- _ => rewrite H in *
  | H : tdone _ _ = _ |- _ => rewrite H in *
  | H : once _ = _ |- _ => rewrite H in *
  | H : done _ = _ |- _ => rewrite H in *
  | H : tld _ = _ |- _ => rewrite H in *
  | H : akind _ _ = _ |- _ => rewrite H in *
  | H : khost _ = _ |- _ => rewrite H in *
  | H : chost _ _ = _ |- _ => rewrite H in *
  end.

Ltac split_ors :=
  repeat match goal with
  | H : ?c < S ?j |- _ =>
      apply (proj1 (Nat.lt_succ_r c j)) in H; apply (proj1 (Nat.le_lteq c j)) in H; destruct H; [|subst]
  | H : _ \/ _ |- _ => destruct H
  | H : _ /\ _ |- _ => destruct H
  | H : Some _ = Some _ |- _ => injection H as H; try subst
  | H : False |- _ => destruct H
  | H : @eq lpc _ _ |- _ => first [discriminate H | injection H; intros; subst; clear H]
  | H : @eq cpc _ _ |- _ => first [discriminate H | injection H; intros; subst; clear H]
  end.

Ltac goal_bools :=
  repeat match goal with
  | |- _ /\ _ => split
  | |- ?x = false => lazymatch x with false => fail | true => fail | _ => destruct x eqn:?; [exfalso|reflexivity] end
  | |- ?x = true => lazymatch x with false => fail | true => fail | _ => destruct x eqn:?; [reflexivity|exfalso] end
  end.

Definition Tried (P : Prop) : Prop := P.

(* lia on the arithmetic hypotheses only (the contexts here are large) *)
Ltac cheap_lia :=
  solve [ repeat match goal with
          | H : ?T |- _ =>
              lazymatch T with
              | _ < _ => fail | _ <= _ => fail | @eq nat _ _ => fail | ~ (_ < _) => fail | ~ (_ <= _) => fail
              | nat => fail
              | _ => clear H
              end
          end; lia ].

Ltac prem :=
  first [ assumption | reflexivity
        | match goal with
          | |- _ <> _ => let F := fresh in intro F; first [discriminate F | congruence]
          | |- _ \/ _ => first [left; (assumption || reflexivity) | right; (assumption || reflexivity)]
          | |- _ < _ => cheap_lia
          | |- _ <= _ => cheap_lia
          end ].

(* one pass of modus ponens over the implications in the context (each tried once) *)
Ltac mp1 :=
  repeat match goal with
  | H : _ /\ _ |- _ => destruct H
  | H : False |- _ => destruct H
  | H : ?A -> ?B |- _ =>
      first [ let X := fresh "X" in assert (X : A) by prem; specialize (H X); clear X
            | change (Tried (A -> B)) in H ]
  end;
  unfold Tried in *.

Ltac mp := mp1; mp1.

Ltac arith :=
  lazymatch goal with
  | |- _ < _ => cheap_lia | |- _ <= _ => cheap_lia | |- @eq nat _ _ => cheap_lia | |- False => cheap_lia
  | |- ~ (_ < _) => cheap_lia | |- ~ (_ <= _) => cheap_lia
  end.
Ltac close :=
  solve [ assumption | discriminate | reflexivity | congruence
        | repeat split; (assumption || congruence)
        | exfalso; congruence
        | left; (assumption || congruence) | right; (assumption || congruence)
        | arith ].

Ltac inj_hyps :=
  repeat match goal with
  | H : Some _ = Some _ |- _ => injection H; intros; subst; clear H
  | H : Some _ = None |- _ => discriminate H
  | H : None = Some _ |- _ => discriminate H
  | H : @eq lpc (?f _) (?g _) |- _ => first [discriminate H | injection H; intros; subst; clear H]
  | H : @eq lpc (?f _ _) (?g _ _) |- _ => first [discriminate H | injection H; intros; subst; clear H]
  | H : @eq cpc (?f _) (?g _) |- _ => first [discriminate H | injection H; intros; subst; clear H]
  | H : @eq host (?f _) (?g _) |- _ => first [discriminate H | injection H; intros; subst; clear H]
  | H : @eq dctx (?f _) (?g _) |- _ => first [discriminate H | injection H; intros; subst; clear H]
  | H : ?x = ?x |- _ => clear H
  | H : True |- _ => clear H
  end.

Ltac norm := rew_pcs; classes; bool_hyps; inj_hyps; try subst.

Ltac split_solve n :=
  first [ close
        | lazymatch n with
          | O => fail
          | S ?m =>
            match goal with
            | H : _ \/ _ |- _ => destruct H; norm; mp; norm; split_solve m
            | |- _ \/ _ => first [left; split_solve m | right; split_solve m]
            end
          end ].

Ltac goal_match :=
  repeat match goal with
  | |- match ?x with _ => _ end => destruct x eqn:?; try exact I
  | |- _ -> _ => intro
  end.

Ltac slow :=
  intros; unfold upd in *; goal_match; upd_cases; goal_match; split_ors; norm;
  first [ close
        | goal_bools; inst_all; norm; mp; norm; mp1; norm; split_solve 4 ].

(* one clause of the invariant is preserved by one step: [fast] closes the cases in which none of
   the fields it mentions moves, [deps] brings in the clauses the remaining cases need *)
Ltac pres H fast deps :=
  step_cases H; simp_goal; try fast; open_hosts; try fast; deps; slow.

Section Inv.
Variable NC : nat.
Variable wfree : nat -> bool.
Variable fix_reg : bool.
Notation lstep := (lstep NC wfree fix_reg).
Notation step := (step NC wfree fix_reg).

(* ---- the invariant ---------------------------------------------------------------------------- *)
Record Inv (s : state) : Prop := {
  (* A: the loop, the tasks and their callers *)
  a_task : forall i, ltask (lp s) = Some i -> ap s i = AWait /\ tdone s i = false /\ is_run (akind s i) = true;
  a_write : forall i, lp s = LWrite i -> body_is (akind s i) b_write = true;
  a_host : forall i, lp s = LHost i \/ lp s = LHostBusy i -> body_is (akind s i) b_host = true;
  a_del : forall i, match lp s with
                    | LDel (CtxTask i') _ | LDelWait (CtxTask i') _ => i = i' -> body_is (akind s i) b_del = true
                    | _ => True
                    end;
  a_wait : forall i, ap s i = AWait -> tdone s i = false -> ltask (lp s) = Some i;
  a_tdone : forall i, tdone s i = true -> ap s i = AWait \/ ap s i = ARet ROk;
  a_sel : forall i, ap s i = ASelect \/ ap s i = AWait -> is_run (akind s i) = true;
  a_park : forall i, ap s i = APark -> is_run (akind s i) = false;
  a_hostok : forall i, ap s i <> AIdle -> caller_host_ok (khost (akind s i)) = true;
  a_wtarget : forall i, ap s i <> AIdle ->
              match akind s i with KWriteOff c => rp s c <> RNone | _ => True end;
  a_wloop : forall i, lp s = LWrite i ->
            match write_target (akind s i) with Some c => rp s c <> RNone | None => True end;
  a_kindok : forall i, ap s i <> AIdle -> api_only (akind s i) = true -> khost (akind s i) = HApi;
  (* B: closing *)
  b_closing : closing (lp s) = true -> done s = true;
  b_tld1 : tld s = true -> lp s = LExited;
  b_tld2 : lp s = LExited -> tld s = true;
  b_oncl : oncloses s = if after_onclose (lp s) then 1 else 0;
  b_buf : bufclosed s = after_buf (lp s);
  b_enq : closedq s = after_enq (lp s);
  b_join : after_join (lp s) = true -> gp s = GNone \/ gp s = GDone;
  b_hdone : hdone s = true -> tld s = true;
  b_gcancel : gcancel s = after_onclose (lp s);
  (* C: closers and the once *)
  c_once_in : forall k, in_once (cp s k) = true -> once s = ORunning /\ oowner s = k;
  c_once_run : once s = ORunning -> in_once (cp s (oowner s)) = true;
  c_once_not : once s = ONot -> done s = false;
  c_once1 : forall k, cp s k = COnce1 -> done s = false;
  c_doneby : forall k, done_by (cp s k) = true -> done s = true;
  c_past : forall k, past_once (cp s k) = true -> once s = ODone;
  c_odone : once s = ODone -> done s = true;
  c_ptld : forall k, past_tld (cp s k) = true -> tld s = true;
  c_hostok : forall k, cp s k <> CIdle -> closer_host_ok (chost s k) = true;
  c_grace : forall k, cp s k = CNotifWait -> cgr s k = true;
  c_abound : forall k, match cp s k with CAbort j => j <= NC | _ => True end;
  (* D: candidates *)
  d_reg : forall c, reg s c = true -> rp s c <> RNone;
  d_bound : forall c, rp s c <> RNone -> c < NC;
  d_exit : forall c, rp s c = RExited -> ioab s c = true;
  d_unreg : forall c, rp s c <> RNone -> reg s c = false -> rp s c = RExited;
  d_ioab : forall c, ioab s c = true -> rp s c <> RNone;
  d_wait : match lp s with LDelWait _ j => ioab s j = true /\ reg s j = true | _ => True end;
  d_del : forall c, match lp s with LDel _ j | LDelWait _ j => c < j -> reg s c = false | _ => True end;
  d_delb : match lp s with LDel _ j => j <= NC | _ => True end;
  d_alldel : forall c, after_del_all (lp s) = true -> reg s c = false;
  d_cover : forall c, once s = ODone -> reg s c = true -> ioab s c = true \/ late s c = true;
  d_abort : forall k c, match cp s k with
                        | CAbort j => reg s c = true -> late s c = false ->
                                      ioab s c = true \/ (j <= c /\ snap s k c = true)
                        | COnceEnd => reg s c = true -> ioab s c = true \/ late s c = true
                        | _ => True
                        end;
  d_snap : forall k c, snap s k c = true -> rp s c <> RNone;
  d_late : forall c, late s c = true -> done s = true;
  d_fix : forall c, fix_reg = true -> late s c = true -> rp s c <> RNone -> ioab s c = true;
  (* E: hosts and their owners *)
  e_rbusy : forall c, rp s c = RBusy -> active (ap s (rown s c)) = true /\ khost (akind s (rown s c)) = HRecv c;
  e_rhost : forall i c, active (ap s i) = true -> khost (akind s i) = HRecv c -> rp s c = RBusy /\ rown s c = i;
  e_gbusy : gp s = GBusy -> active (ap s (gown s)) = true /\ khost (akind s (gown s)) = HGather;
  e_ghost : forall i, active (ap s i) = true -> khost (akind s i) = HGather -> gp s = GBusy /\ gown s = i;
  e_dbusy_a : ndr s = DBusy -> dclo s = false ->
              active (ap s (down s)) = true /\ khost (akind s (down s)) = HHandler;
  e_dbusy_c : ndr s = DBusy -> dclo s = true ->
              cactive (cp s (down s)) = true /\ chost s (down s) = HHandler;
  e_dhost_a : forall i, active (ap s i) = true -> khost (akind s i) = HHandler ->
              ndr s = DBusy /\ dclo s = false /\ down s = i;
  e_dhost_c : forall k, cactive (cp s k) = true -> chost s k = HHandler ->
              ndr s = DBusy /\ dclo s = true /\ down s = k;
  e_lbusy : forall i, lp s = LHostBusy i -> cactive (cp s (lown s)) = true /\ chost s (lown s) = HTask i;
  e_lhost : forall k i, cactive (cp s k) = true -> chost s k = HTask i -> lp s = LHostBusy i /\ lown s = k;
  e_nq : nq s <> 0 -> ndr s <> DNone
}.

Lemma inv_init g0 : Inv (init g0).
Proof.
  constructor; cbn; intros; try discriminate; try tauto; try congruence; try lia;
    try (split_conj; discriminate).
Qed.

End Inv.
