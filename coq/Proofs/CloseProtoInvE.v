(* C08: preservation of group E of the invariant of the close-protocol model.
   Lemma statements generated from the record Inv (tools: mechanical). *)
From Coq Require Import Arith Bool List Lia.
Import ListNotations.
From Ice Require Import Model.PrioSpec Model.CloseProto Proofs.CloseProtoMeasure Proofs.CloseProtoMeasure2
     Proofs.CloseProtoFrames Proofs.CloseProtoInv.

Section G.
Variable NC : nat.
Variable wfree : nat -> bool.
Variable fix_reg : bool.
Notation step := (step NC wfree fix_reg).
Notation Inv := (Inv NC fix_reg).

Ltac depsE I := pose proof (e_rbusy _ _ _ I); pose proof (e_rhost _ _ _ I); pose proof (e_gbusy _ _ _ I); pose proof (e_ghost _ _ _ I); pose proof (e_dbusy_a _ _ _ I); pose proof (e_dbusy_c _ _ _ I); pose proof (e_dhost_a _ _ _ I); pose proof (e_dhost_c _ _ _ I); pose proof (e_lbusy _ _ _ I); pose proof (e_lhost _ _ _ I); pose proof (e_nq _ _ _ I); pose proof (a_hostok _ _ _ I); pose proof (c_hostok _ _ _ I); pose proof (a_host _ _ _ I); pose proof (a_task _ _ _ I);  idtac.

Lemma p_e_rbusy s s' (I : Inv s) (H : step s s') :
  forall c, rp s' c = RBusy -> active (ap s' (rown s' c)) = true /\ khost (akind s' (rown s' c)) = HRecv c.
Proof. pres H ltac:(exact (e_rbusy _ _ _ I)) ltac:(depsE I). Qed.

Lemma p_e_rhost s s' (I : Inv s) (H : step s s') :
  forall i c, active (ap s' i) = true -> khost (akind s' i) = HRecv c -> rp s' c = RBusy /\ rown s' c = i.
Proof. pres H ltac:(exact (e_rhost _ _ _ I)) ltac:(depsE I). Qed.

Lemma p_e_gbusy s s' (I : Inv s) (H : step s s') :
  gp s' = GBusy -> active (ap s' (gown s')) = true /\ khost (akind s' (gown s')) = HGather.
Proof. pres H ltac:(exact (e_gbusy _ _ _ I)) ltac:(depsE I). Qed.

Lemma p_e_ghost s s' (I : Inv s) (H : step s s') :
  forall i, active (ap s' i) = true -> khost (akind s' i) = HGather -> gp s' = GBusy /\ gown s' = i.
Proof. pres H ltac:(exact (e_ghost _ _ _ I)) ltac:(depsE I). Qed.

Lemma p_e_dbusy_a s s' (I : Inv s) (H : step s s') :
  ndr s' = DBusy -> dclo s' = false ->
              active (ap s' (down s')) = true /\ khost (akind s' (down s')) = HHandler.
Proof. pres H ltac:(exact (e_dbusy_a _ _ _ I)) ltac:(depsE I). Qed.

Lemma p_e_dbusy_c s s' (I : Inv s) (H : step s s') :
  ndr s' = DBusy -> dclo s' = true ->
              cactive (cp s' (down s')) = true /\ chost s' (down s') = HHandler.
Proof. pres H ltac:(exact (e_dbusy_c _ _ _ I)) ltac:(depsE I). Qed.

Lemma p_e_dhost_a s s' (I : Inv s) (H : step s s') :
  forall i, active (ap s' i) = true -> khost (akind s' i) = HHandler ->
              ndr s' = DBusy /\ dclo s' = false /\ down s' = i.
Proof. pres H ltac:(exact (e_dhost_a _ _ _ I)) ltac:(depsE I). Qed.

Lemma p_e_dhost_c s s' (I : Inv s) (H : step s s') :
  forall k, cactive (cp s' k) = true -> chost s' k = HHandler ->
              ndr s' = DBusy /\ dclo s' = true /\ down s' = k.
Proof. pres H ltac:(exact (e_dhost_c _ _ _ I)) ltac:(depsE I). Qed.

Lemma p_e_lbusy s s' (I : Inv s) (H : step s s') :
  forall i, lp s' = LHostBusy i -> cactive (cp s' (lown s')) = true /\ chost s' (lown s') = HTask i.
Proof. pres H ltac:(exact (e_lbusy _ _ _ I)) ltac:(depsE I). Qed.

Lemma p_e_lhost s s' (I : Inv s) (H : step s s') :
  forall k i, cactive (cp s' k) = true -> chost s' k = HTask i -> lp s' = LHostBusy i /\ lown s' = k.
Proof. pres H ltac:(exact (e_lhost _ _ _ I)) ltac:(depsE I). Qed.

Lemma p_e_nq s s' (I : Inv s) (H : step s s') :
  nq s' <> 0 -> ndr s' <> DNone.
Proof. pres H ltac:(exact (e_nq _ _ _ I)) ltac:(depsE I). Qed.

(* clauses: e_rbusy e_rhost e_gbusy e_ghost e_dbusy_a e_dbusy_c e_dhost_a e_dhost_c e_lbusy e_lhost e_nq *)
End G.
