(* C16: lemmas about the STUN attribute codecs of Model/Attrs.v *)
From Coq Require Import ZArith Bool String List Lia.
From Ice Require Import Model.PrioSpec Model.CandVariant Model.Attrs.
Import ListNotations.
Local Open Scope Z_scope.

(* the proofs must hold for both values of every repair flag (Model/CandVariant.v) *)
Global Opaque fix_deep_equal fix_marshal_rport0 fix_nomination_size fix_ext_empty_key fix_empty_raddr.

(* ---------------------------------------------------------------- big-endian bytes *)

Lemma pow256_pos k : 0 < 256 ^ Z.of_nat k.
Proof. apply Z.pow_pos_nonneg; lia. Qed.

Lemma be_bytes_length n v : List.length (be_bytes n v) = n.
Proof. induction n; simpl; congruence. Qed.

Lemma be_value_acc_bytes n v acc :
  be_value_acc acc (be_bytes n v) = acc * 256 ^ Z.of_nat n + v mod 256 ^ Z.of_nat n.
Proof.
  revert acc. induction n as [|k IH]; intros acc.
  - simpl. rewrite Z.mod_1_r. lia.
  - cbn [be_bytes be_value_acc]. rewrite IH.
    rewrite Nat2Z.inj_succ, Z.pow_succ_r by lia.
    pose proof (pow256_pos k) as Hp.
    rewrite (Z.mul_comm 256 (256 ^ Z.of_nat k)).
    rewrite (Z.rem_mul_r v (256 ^ Z.of_nat k) 256) by lia.
    ring.
Qed.

Lemma be_value_bytes n v : 0 <= v < 256 ^ Z.of_nat n -> be_value (be_bytes n v) = v.
Proof.
  intros H. unfold be_value. rewrite be_value_acc_bytes. rewrite Z.mod_small by exact H. lia.
Qed.

Lemma be_value_acc_app acc a b : be_value_acc acc (a ++ b) = be_value_acc (be_value_acc acc a) b.
Proof. revert acc. induction a as [|x a IH]; intros acc; simpl; [reflexivity|apply IH]. Qed.

(* ---------------------------------------------------------------- messages *)

Lemma get_add m t v t' :
  get (add m t v) t' = match get m t' with Some x => Some x | None => if t =? t' then Some v else None end.
Proof.
  unfold add. induction m as [|[t0 v0] m IH]; simpl.
  - reflexivity.
  - destruct (t0 =? t'); [reflexivity|exact IH].
Qed.

Lemma get_add_fresh m t v : contains m t = false -> get (add m t v) t = Some v.
Proof.
  unfold contains. intros H. rewrite get_add. destruct (get m t); [discriminate|].
  now rewrite Z.eqb_refl.
Qed.

Lemma contains_add m t v t' : contains (add m t v) t' = contains m t' || (t =? t').
Proof.
  unfold contains. rewrite get_add. destruct (get m t'); [reflexivity|]. destruct (t =? t'); reflexivity.
Qed.

Lemma len_be_bytes n v : len (be_bytes n v) = Z.of_nat n.
Proof. unfold len. now rewrite be_bytes_length. Qed.

(* ---------------------------------------------------------------- round trips *)

Lemma priority_roundtrip m p :
  contains m AttrPriority = false -> 0 <= p < 2 ^ 32 -> priority_get (priority_add p m) = AOk p.
Proof.
  intros Hc Hp. unfold priority_get, priority_add, fixed_size_get.
  rewrite get_add_fresh by exact Hc. rewrite len_be_bytes. simpl (Z.of_nat 4 =? 4).
  now rewrite (be_value_bytes 4) by exact Hp.
Qed.

Lemma tiebreaker_roundtrip m t v :
  contains m t = false -> 0 <= v < 2 ^ 64 -> tiebreaker_get t (tiebreaker_add t v m) = AOk v.
Proof.
  intros Hc Hv. unfold tiebreaker_get, tiebreaker_add, fixed_size_get.
  rewrite get_add_fresh by exact Hc. rewrite len_be_bytes. simpl (Z.of_nat 8 =? 8).
  now rewrite (be_value_bytes 8) by exact Hv.
Qed.

Lemma contains_tiebreaker_add m t v t' : contains (tiebreaker_add t v m) t' = contains m t' || (t =? t').
Proof. apply contains_add. Qed.

Lemma control_roundtrip m role v :
  contains m AttrICEControlling = false -> contains m AttrICEControlled = false ->
  role = 0 \/ role = 1 -> 0 <= v < 2 ^ 64 ->
  control_get (control_add role v m) = AOk (role, v).
Proof.
  intros Hc1 Hc2 Hr Hv. unfold control_get, control_add.
  destruct Hr as [-> | ->]; cbn [Z.eqb Pos.eqb].
  - rewrite contains_tiebreaker_add, Hc1, Z.eqb_refl. cbn [orb].
    now rewrite tiebreaker_roundtrip.
  - rewrite !contains_tiebreaker_add, Hc1, Hc2, Z.eqb_refl.
    change (AttrICEControlled =? AttrICEControlling) with false. cbn [orb].
    now rewrite tiebreaker_roundtrip.
Qed.

Lemma use_candidate_roundtrip m : use_candidate_is_set (use_candidate_add m) = true.
Proof.
  unfold use_candidate_is_set, use_candidate_add. rewrite contains_add, Z.eqb_refl. apply orb_true_r.
Qed.

Lemma nomination_size_ok_4 : nomination_size_ok 4 = true.
Proof. unfold nomination_size_ok. destruct fix_nomination_size; reflexivity. Qed.

(* v < 2^24 exact, otherwise the low 24 bits *)
Lemma nomination_roundtrip m t v :
  contains m t = false -> 0 <= v ->
  nomination_get t (nomination_add t v m) = AOk (v mod 16777216).
Proof.
  intros Hc Hv. unfold nomination_get, nomination_add.
  rewrite get_add_fresh by exact Hc.
  change (len [0; v / 65536 mod 256; v / 256 mod 256; v mod 256]) with 4.
  rewrite nomination_size_ok_4. cbn [negb nth]. f_equal.
  change 16777216 with (65536 * 256).
  rewrite (Z.rem_mul_r v 65536 256) by lia.
  change 65536 with (256 * 256) at 3.
  rewrite (Z.rem_mul_r v 256 256) by lia.
  replace (v / 65536) with (v / 256 / 256) by (rewrite Z.div_div by lia; reflexivity).
  change 65536 with (256 * 256). lia.
Qed.

Lemma nomination_roundtrip_exact m t v :
  contains m t = false -> 0 <= v < 16777216 ->
  nomination_get t (nomination_add t v m) = AOk v.
Proof. intros Hc Hv. rewrite nomination_roundtrip by (assumption || lia). now rewrite Z.mod_small. Qed.

Lemma dtls_roundtrip m d : contains m AttrDtlsInStun = false -> dtls_get (dtls_add d m) = AOk d.
Proof. intros Hc. unfold dtls_get, dtls_add. now rewrite get_add_fresh. Qed.

Lemma chunks4_flat a fuel :
  Forall (fun x => 0 <= x < 2 ^ 32) a -> (4 * List.length a <= fuel)%nat ->
  chunks4 fuel (flat_map (be_bytes 4) a) = a.
Proof.
  revert fuel. induction a as [|x a IH]; intros fuel Ha Hf.
  - destruct fuel; reflexivity.
  - inversion Ha as [|? ? Hx Ha']; subst.
    destruct fuel as [|fuel]; [simpl in Hf; lia|].
    cbn [flat_map]. cbn [be_bytes app chunks4].
    f_equal.
    + change ([x / 256 ^ Z.of_nat 3 mod 256; x / 256 ^ Z.of_nat 2 mod 256; x / 256 ^ Z.of_nat 1 mod 256; x / 256 ^ Z.of_nat 0 mod 256])
        with (be_bytes 4 x).
      now apply (be_value_bytes 4).
    + apply IH; [exact Ha'|]. simpl in Hf. lia.
Qed.

Lemma flat_be4_length a : List.length (flat_map (be_bytes 4) a) = (4 * List.length a)%nat.
Proof. induction a as [|x a IH]; [reflexivity|]. cbn [flat_map]. rewrite app_length, be_bytes_length, IH. simpl. lia. Qed.

Lemma ack_roundtrip m a :
  contains m AttrDtlsInStunAck = false -> (List.length a <= 4)%nat ->
  Forall (fun x => 0 <= x < 2 ^ 32) a ->
  exists m', ack_add a m = AOk m' /\ ack_get m' = AOk a.
Proof.
  intros Hc Hl Ha. unfold ack_add.
  destruct (Z.ltb_spec 4 (Z.of_nat (List.length a))); [lia|].
  eexists. split; [reflexivity|].
  unfold ack_get. rewrite get_add_fresh by exact Hc.
  unfold len. rewrite flat_be4_length.
  destruct (Z.ltb_spec 16 (Z.of_nat (4 * List.length a))); [lia|].
  replace (Z.of_nat (4 * List.length a) mod 4) with 0
    by (rewrite Nat2Z.inj_mul, Z.mul_comm, Z.mod_mul by lia; reflexivity).
  cbn [orb negb Z.eqb]. f_equal. apply chunks4_flat; [exact Ha|lia].
Qed.

Lemma ack_too_many m a : (4 < List.length a)%nat -> ack_add a m = AErr A_size.
Proof. intros H. unfold ack_add. destruct (Z.ltb_spec 4 (Z.of_nat (List.length a))); [reflexivity|lia]. Qed.

(* ---------------------------------------------------------------- sizes *)

Lemma fixed_size_reject m t size v :
  get m t = Some v -> len v <> size -> fixed_size_get m t size = AErr A_size.
Proof. intros Hg Hl. unfold fixed_size_get. rewrite Hg. destruct (Z.eqb_spec (len v) size); [contradiction|reflexivity]. Qed.

Lemma fixed_size_accept m t size v :
  get m t = Some v -> len v = size -> fixed_size_get m t size = AOk (be_value v).
Proof. intros Hg Hl. unfold fixed_size_get. rewrite Hg, Hl, Z.eqb_refl. reflexivity. Qed.

Lemma nomination_reject m t v :
  get m t = Some v -> (len v < 4 \/ (fix_nomination_size = true /\ len v <> 4)) ->
  nomination_get t m = AErr A_size.
Proof.
  intros Hg H. unfold nomination_get. rewrite Hg. unfold nomination_size_ok.
  destruct H as [H | [Hf H]].
  - destruct fix_nomination_size.
    + destruct (Z.eqb_spec (len v) 4); [lia|reflexivity].
    + destruct (Z.ltb_spec (len v) 4); [reflexivity|lia].
  - rewrite Hf. destruct (Z.eqb_spec (len v) 4); [contradiction|reflexivity].
Qed.

Lemma ack_reject m v :
  get m AttrDtlsInStunAck = Some v -> (16 < len v \/ len v mod 4 <> 0) -> ack_get m = AErr A_size.
Proof.
  intros Hg H. unfold ack_get. rewrite Hg.
  destruct (Z.ltb_spec 16 (len v)); [reflexivity|].
  destruct (Z.eqb_spec (len v mod 4) 0); [lia|reflexivity].
Qed.

(* ---------------------------------------------------------------- general statements over [akind] *)

Definition is_nom (k : akind) : bool := match k with K_nom _ => true | _ => false end.

Lemma contains_get_some m t : contains m t = true -> exists v, get m t = Some v.
Proof. unfold contains. destruct (get m t) as [v|]; [eauto|discriminate]. Qed.

(* wrong sizes are rejected (nomination: only sizes below 4 unless the repair is in) *)
Lemma decode_wrong_size k m v :
  get m (kind_type k m) = Some v -> size_valid k (len v) = false ->
  (is_nom k = false \/ fix_nomination_size = true \/ len v < 4) ->
  decode k m = AErr A_size.
Proof.
  intros Hg Hs Hn. destruct k; cbn [kind_type size_valid decode is_nom] in *.
  - unfold priority_get. rewrite (fixed_size_reject _ _ _ _ Hg); [reflexivity|]. now apply Z.eqb_neq.
  - unfold tiebreaker_get. rewrite (fixed_size_reject _ _ _ _ Hg); [reflexivity|]. now apply Z.eqb_neq.
  - unfold tiebreaker_get. rewrite (fixed_size_reject _ _ _ _ Hg); [reflexivity|]. now apply Z.eqb_neq.
  - unfold control_get. destruct (contains m AttrICEControlling) eqn:Hc.
    + unfold tiebreaker_get. rewrite (fixed_size_reject _ _ _ _ Hg); [reflexivity|]. now apply Z.eqb_neq.
    + assert (Hc2 : contains m AttrICEControlled = true) by (unfold contains; now rewrite Hg).
      rewrite Hc2. unfold tiebreaker_get. rewrite (fixed_size_reject _ _ _ _ Hg); [reflexivity|]. now apply Z.eqb_neq.
  - discriminate.
  - rewrite (nomination_reject _ _ _ Hg); [reflexivity|].
    apply Z.eqb_neq in Hs.
    destruct Hn as [Hn | [Hn | Hn]]; [discriminate| right; split; assumption | left; exact Hn].
  - discriminate.
  - rewrite (ack_reject _ _ Hg); [reflexivity|].
    apply andb_false_iff in Hs. destruct Hs as [Hs | Hs].
    + left. apply Z.leb_gt in Hs. lia.
    + right. now apply Z.eqb_neq.
Qed.

Lemma nth_be_value3 v : len v = 4 ->
  nth 1 v 0 * 65536 + nth 2 v 0 * 256 + nth 3 v 0 = be_value (skipn 1 v).
Proof.
  unfold len. intros H.
  destruct v as [|a [|b [|c [|d [|e v]]]]]; simpl in H; try lia.
  unfold be_value. simpl. lia.
Qed.

(* valid sizes are accepted, with the value the bytes denote *)
Lemma decode_valid_size k m v :
  get m (kind_type k m) = Some v -> size_valid k (len v) = true ->
  decode k m = AOk (denoted k m v).
Proof.
  intros Hg Hs. destruct k; cbn [kind_type size_valid decode denoted] in *.
  - unfold priority_get. rewrite (fixed_size_accept _ _ _ _ Hg); [reflexivity|]. now apply Z.eqb_eq.
  - unfold tiebreaker_get. rewrite (fixed_size_accept _ _ _ _ Hg); [reflexivity|]. now apply Z.eqb_eq.
  - unfold tiebreaker_get. rewrite (fixed_size_accept _ _ _ _ Hg); [reflexivity|]. now apply Z.eqb_eq.
  - unfold control_get. destruct (contains m AttrICEControlling) eqn:Hc.
    + unfold tiebreaker_get. rewrite (fixed_size_accept _ _ _ _ Hg); [reflexivity|]. now apply Z.eqb_eq.
    + assert (Hc2 : contains m AttrICEControlled = true) by (unfold contains; now rewrite Hg).
      rewrite Hc2. unfold tiebreaker_get. rewrite (fixed_size_accept _ _ _ _ Hg); [reflexivity|]. now apply Z.eqb_eq.
  - unfold use_candidate_is_set, contains. now rewrite Hg.
  - apply Z.eqb_eq in Hs. unfold nomination_get. rewrite Hg, Hs, nomination_size_ok_4. cbn [negb].
    now rewrite nth_be_value3.
  - unfold dtls_get. now rewrite Hg.
  - unfold ack_get. rewrite Hg.
    apply andb_true_iff in Hs. destruct Hs as [H1 H2]. apply Z.leb_le in H1.
    destruct (Z.ltb_spec 16 (len v)); [lia|]. rewrite H2. reflexivity.
Qed.

Lemma decode_absent k m :
  get m (kind_type k m) = None -> k <> K_usec -> decode k m = AErr A_not_found.
Proof.
  intros Hg Hk. destruct k; cbn [kind_type decode] in *; try congruence.
  - unfold priority_get, fixed_size_get. now rewrite Hg.
  - unfold tiebreaker_get, fixed_size_get. now rewrite Hg.
  - unfold tiebreaker_get, fixed_size_get. now rewrite Hg.
  - unfold control_get. destruct (contains m AttrICEControlling) eqn:Hc.
    + unfold contains in Hc. rewrite Hg in Hc. discriminate.
    + unfold contains. now rewrite Hg.
  - unfold nomination_get. now rewrite Hg.
  - unfold dtls_get. now rewrite Hg.
  - unfold ack_get. now rewrite Hg.
Qed.

(* what was encoded is what is decoded *)
Lemma encode_decode k pre args m :
  in_range_args k args = true ->
  contains pre (kind_type k m) = false ->
  (k = K_control -> contains pre AttrICEControlling = false /\ contains pre AttrICEControlled = false) ->
  encode k args pre = AOk m ->
  decode k m = AOk (expected k args).
Proof.
  intros Hr Hnc Hctl He.
  destruct k; cbn [encode decode expected in_range_args kind_type] in *.
  - injection He as <-. apply andb_true_iff in Hr. destruct Hr as [Hr H2]. apply andb_true_iff in Hr. destruct Hr as [Hl H1].
    destruct args as [|p [|? ?]]; try discriminate. cbn [nth] in *.
    apply Z.leb_le in H1. apply Z.ltb_lt in H2.
    rewrite priority_roundtrip; [reflexivity|exact Hnc|lia].
  - injection He as <-. apply andb_true_iff in Hr. destruct Hr as [Hr H2]. apply andb_true_iff in Hr. destruct Hr as [Hl H1].
    destruct args as [|p [|? ?]]; try discriminate. cbn [nth] in *.
    apply Z.leb_le in H1. apply Z.ltb_lt in H2.
    rewrite tiebreaker_roundtrip; [reflexivity|exact Hnc|lia].
  - injection He as <-. apply andb_true_iff in Hr. destruct Hr as [Hr H2]. apply andb_true_iff in Hr. destruct Hr as [Hl H1].
    destruct args as [|p [|? ?]]; try discriminate. cbn [nth] in *.
    apply Z.leb_le in H1. apply Z.ltb_lt in H2.
    rewrite tiebreaker_roundtrip; [reflexivity|exact Hnc|lia].
  - injection He as <-. destruct (Hctl eq_refl) as [Hc1 Hc2].
    apply andb_true_iff in Hr. destruct Hr as [Hr H3]. apply andb_true_iff in Hr. destruct Hr as [Hr H2].
    apply andb_true_iff in Hr. destruct Hr as [Hl H1].
    destruct args as [|r [|v [|? ?]]]; try discriminate. cbn [nth] in *.
    apply Z.leb_le in H2. apply Z.ltb_lt in H3.
    rewrite control_roundtrip; [reflexivity|assumption|assumption| |lia].
    apply orb_true_iff in H1. destruct H1 as [H1|H1]; apply Z.eqb_eq in H1; auto.
  - injection He as <-. now rewrite use_candidate_roundtrip.
  - injection He as <-. apply andb_true_iff in Hr. destruct Hr as [Hr H2]. apply andb_true_iff in Hr. destruct Hr as [Hl H1].
    destruct args as [|p [|? ?]]; try discriminate. cbn [nth] in *.
    apply Z.leb_le in H1.
    rewrite nomination_roundtrip; [reflexivity|exact Hnc|lia].
  - injection He as <-. rewrite dtls_roundtrip; [reflexivity|exact Hnc].
  - unfold ack_add in He. destruct (Z.ltb_spec 4 (Z.of_nat (List.length args))); [discriminate|].
    injection He as <-.
    destruct (ack_roundtrip pre args) as [m' [E1 E2]].
    + exact Hnc.
    + lia.
    + apply Forall_forall. intros x Hx. rewrite forallb_forall in Hr. specialize (Hr x Hx).
      apply andb_true_iff in Hr. destruct Hr as [H1 H2]. apply Z.leb_le in H1. apply Z.ltb_lt in H2. lia.
    + unfold ack_add in E1. destruct (Z.ltb_spec 4 (Z.of_nat (List.length args))); [lia|]. injection E1 as <-. exact E2.
Qed.

(* ---------------------------------------------------------------- the monitor accepts the model *)

Lemma zlist_eqb_refl l : zlist_eqb l l = true.
Proof. induction l as [|x l IH]; simpl; [reflexivity|]. now rewrite Z.eqb_refl, IH. Qed.

(* the finding class: a nomination attribute longer than 4 bytes (accepted by the pinned code) *)
Definition nom_ok (k : akind) (m : msg) : Prop :=
  fix_nomination_size = true \/ is_nom k = false \/
  match get m (kind_type k m) with Some v => len v <= 4 | None => True end.

Definition size_checks (k : akind) (m : msg) (r : ares (list Z)) : checks :=
  match get m (kind_type k m), r with
  | None, AErr _ => match k with K_usec => [("attr_presence"%string, false)] | _ => [] end
  | None, AOk v => match k with
                   | K_usec => [("attr_presence"%string, zlist_eqb v [0])]
                   | _ => [("attr_absent_rejected"%string, false)]
                   end
  | Some v, AErr _ => [("attr_valid_size_accepted"%string, negb (size_valid k (len v)))]
  | Some v, AOk x => [("attr_wrong_size_rejected"%string, size_valid k (len v));
                      ("attr_value"%string, negb (size_valid k (len v)) || zlist_eqb x (denoted k m v))]
  end.

Lemma size_checks_ok k m : nom_ok k m -> all_ok (size_checks k m (decode k m)) = true.
Proof.
  intros Hn. unfold size_checks.
  destruct (get m (kind_type k m)) as [v|] eqn:Hg.
  - destruct (size_valid k (len v)) eqn:Hs.
    + rewrite (decode_valid_size k m v Hg Hs). unfold all_ok. cbn [forallb snd negb orb].
      now rewrite zlist_eqb_refl.
    + rewrite (decode_wrong_size k m v Hg Hs); [reflexivity|].
      destruct Hn as [Hn | [Hn | Hn]]; [right; left; exact Hn | left; exact Hn |].
      rewrite Hg in Hn. destruct k; try (left; reflexivity).
      right. right. cbn [size_valid] in Hs. apply Z.eqb_neq in Hs. lia.
  - destruct k; try (rewrite decode_absent by (assumption || discriminate); reflexivity).
    cbn [decode kind_type] in *. unfold use_candidate_is_set, contains. rewrite Hg. reflexivity.
Qed.

Lemma attr_checks_split k pre enc m r :
  C16_attr_checks k pre enc (AO_dec m r) =
  (size_checks k m r ++
   match enc with
   | Some args =>
     if in_range_args k args && negb (contains pre (kind_type k m))
        && match k with K_control => negb (contains pre AttrICEControlling) && negb (contains pre AttrICEControlled) | _ => true end
     then [("attr_roundtrip"%string, match r with AOk x => zlist_eqb x (expected k args) | AErr _ => false end)]
     else []
   | None => []
   end)%list.
Proof. reflexivity. Qed.

Lemma attr_monitor_sound k pre enc :
  (forall m r, attr_observe k pre enc = AO_dec m r -> nom_ok k m) ->
  all_ok (C16_attr_checks k pre enc (attr_observe k pre enc)) = true.
Proof.
  intros Hn. unfold attr_observe in *. destruct enc as [args|].
  - destruct (encode k args pre) as [m|e] eqn:He.
    + rewrite attr_checks_split. unfold all_ok. rewrite forallb_app.
      fold (all_ok (size_checks k m (decode k m))). rewrite (size_checks_ok k m (Hn _ _ eq_refl)). cbn [andb].
      destruct (in_range_args k args && negb (contains pre (kind_type k m)) && _) eqn:Hc; [|reflexivity].
      apply andb_true_iff in Hc. destruct Hc as [Hc H3]. apply andb_true_iff in Hc. destruct Hc as [H1 H2].
      apply negb_true_iff in H2.
      rewrite (encode_decode k pre args m H1 H2); [cbn [forallb snd]; now rewrite zlist_eqb_refl| |exact He].
      intros ->. apply andb_true_iff in H3. destruct H3 as [A B]. apply negb_true_iff in A, B. auto.
    + destruct k; cbn [encode] in He; try discriminate.
      unfold ack_add in He. destruct (4 <? Z.of_nat (List.length args)) eqn:E; [|discriminate].
      cbn [C16_attr_checks]. unfold all_ok. cbn [forallb snd]. now rewrite E.
  - rewrite attr_checks_split. unfold all_ok. rewrite forallb_app.
    fold (all_ok (size_checks k pre (decode k pre))). rewrite (size_checks_ok k pre (Hn _ _ eq_refl)). reflexivity.
Qed.
