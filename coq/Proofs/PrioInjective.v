(* C17: on the range of valid candidate priorities (0 .. 2^31-1, theorem C17_range) the pair
   priority determines the two candidate priorities: two pairs of one agent tie in pair priority
   only if they have the same local and the same remote priority.  Outside that range the
   formula min*(2^32-1) + 2*max + (g>d) is NOT injective (witness below), so the range theorem
   is what makes the pair order a strict order on distinct priority combinations. *)
From Coq Require Import ZArith Bool Lia.
From Ice Require Import Model.Wrap Model.PrioSpec Gen.Prio Proofs.PrioProofs.
Local Open Scope Z_scope.

Lemma spec_pair_injective g d g' d' :
  0 <= g < 2 ^ 31 -> 0 <= d < 2 ^ 31 -> 0 <= g' < 2 ^ 31 -> 0 <= d' < 2 ^ 31 ->
  spec_pair_priority g d = spec_pair_priority g' d' -> g = g' /\ d = d'.
Proof.
  change (2 ^ 31) with 2147483648.
  intros Hg Hd Hg' Hd'. unfold spec_pair_priority. change (2 ^ 32 - 1) with 4294967295.
  repeat match goal with |- context [Z.ltb ?a ?b] => destruct (Z.ltb_spec a b) end;
    repeat match goal with |- context [Z.min ?a ?b] => destruct (Z.min_spec a b) as [[? ->]|[? ->]] end;
    repeat match goal with |- context [Z.max ?a ?b] => destruct (Z.max_spec a b) as [[? ->]|[? ->]] end;
    intros; lia.
Qed.

Lemma pair_priority_injective ctl l r l' r' :
  0 <= l < 2 ^ 31 -> 0 <= r < 2 ^ 31 -> 0 <= l' < 2 ^ 31 -> 0 <= r' < 2 ^ 31 ->
  PairPriority false 0 ctl l r = PairPriority false 0 ctl l' r' -> l = l' /\ r = r'.
Proof.
  intros Hl Hr Hl' Hr'.
  assert (B : 2 ^ 31 < 2 ^ 32) by reflexivity.
  destruct (pair_priority_spec ctl l r ltac:(lia) ltac:(lia)) as [-> _].
  destruct (pair_priority_spec ctl l' r' ltac:(lia) ltac:(lia)) as [-> _].
  destruct ctl; intros E; apply spec_pair_injective in E; try assumption; tauto.
Qed.

(* strict order: distinct priority combinations never tie *)
Lemma pair_priority_no_ties ctl l r l' r' :
  0 <= l < 2 ^ 31 -> 0 <= r < 2 ^ 31 -> 0 <= l' < 2 ^ 31 -> 0 <= r' < 2 ^ 31 ->
  (l, r) <> (l', r') ->
  PairPriority false 0 ctl l r < PairPriority false 0 ctl l' r' \/
  PairPriority false 0 ctl l' r' < PairPriority false 0 ctl l r.
Proof.
  intros Hl Hr Hl' Hr' Hne.
  destruct (Z.lt_trichotomy (PairPriority false 0 ctl l r) (PairPriority false 0 ctl l' r')) as [H|[H|H]];
    [left; exact H | | right; exact H].
  exfalso. apply Hne. apply pair_priority_injective in H; try assumption. destruct H; congruence.
Qed.

(* the range hypothesis is needed: two uint32 "priorities" outside 0..2^31-1 collide *)
Lemma pair_priority_collision_outside_range :
  PairPriority false 0 true (2 ^ 31) 0 = PairPriority false 0 true 1 1 /\ (2 ^ 31, 0) <> (1, 1).
Proof. split; [vm_compute; reflexivity | discriminate]. Qed.

(* both agents sort any two distinct pairs the same way, and strictly: the controlling agent's
   comparison of (l1,r1) with (l2,r2) is decided one way or the other, and the controlled agent's
   comparison of the mirrored pairs gives the same answer *)
Lemma pair_order_strict_and_agreed l1 r1 l2 r2 :
  0 <= l1 < 2 ^ 31 -> 0 <= r1 < 2 ^ 31 -> 0 <= l2 < 2 ^ 31 -> 0 <= r2 < 2 ^ 31 ->
  (l1, r1) <> (l2, r2) ->
  (PairPriority false 0 true l1 r1 <? PairPriority false 0 true l2 r2) =
    negb (PairPriority false 0 true l2 r2 <? PairPriority false 0 true l1 r1) /\
  (PairPriority false 0 true l1 r1 <? PairPriority false 0 true l2 r2) =
    (PairPriority false 0 false r1 l1 <? PairPriority false 0 false r2 l2).
Proof.
  intros H1 H2 H3 H4 Hne.
  assert (B : 2 ^ 31 < 2 ^ 32) by reflexivity.
  split; [|apply pair_order_agrees; lia].
  destruct (pair_priority_no_ties true l1 r1 l2 r2 H1 H2 H3 H4 Hne) as [H|H];
    destruct (Z.ltb_spec (PairPriority false 0 true l1 r1) (PairPriority false 0 true l2 r2));
    destruct (Z.ltb_spec (PairPriority false 0 true l2 r2) (PairPriority false 0 true l1 r1));
    try reflexivity; lia.
Qed.
