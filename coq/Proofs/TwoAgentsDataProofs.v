(* C07 across two agents: whatever the schedule, an agent's reader only ever holds -- hence Conn.Read only ever
   yields -- payloads that the peer handed to Conn.Write / WriteToPair, unmodified; the same for every application
   datagram in flight. *)
From Coq Require Import ZArith Bool List Lia.
From Ice Require Import Model.AgentTypes Model.AgentCore Model.PairMonitor Model.TwoAgents Model.TwoAgentsData Gen.Consts
  Proofs.AgentFrame Proofs.AgentC07 Proofs.AgentC03Sel Proofs.TwoAgentsProofs.
Import ListNotations.
Local Open Scope Z_scope.

(* ---- one agent: what an operation writes and what it may add to the reader's queue ---------------------------- *)
Definition data_of_op (o : op) : option payload :=
  match o with Write p => Some p | WriteToPair _ p => Some p | _ => None end.

Definition data_out_ok (o : op) (x : out) : Prop :=
  match x with OData _ _ q => data_of_op o = Some q | _ => True end.

Lemma update_conn_data o st : sat (outs_all (data_out_ok o)) (update_conn st).
Proof.
  intros s. cbn. unfold update_conn. destruct (s_conn s =? st); cbn; [constructor|]. constructor; [exact I|constructor].
Qed.

(* every application datagram an operation writes carries exactly the payload handed to Write / WriteToPair *)
Lemma writes_are_unmodified cfg o : sat (outs_all (data_out_ok o)) (step_m cfg o).
Proof.
  destruct o; cbn [step_m]; sat_decompose;
    try apply update_conn_data;
    try (sat_base ltac:(cbn; destruct_matches; repeat constructor)).
Qed.

(* the reader's queue after an operation: nothing but what it held before, plus the datagram just delivered *)
Definition buf_rel (extra : list payload) : mprop.
Proof.
  refine (MProp (fun s _ s' => incl (s_buf s') (s_buf s ++ extra)) _ _).
  - intros s x Hx. apply in_or_app. left. exact Hx.
  - intros s o1 s1 o2 s2 H1 H2 x Hx. apply H2 in Hx. apply in_app_or in Hx. destruct Hx as [Hx|Hx].
    + exact (H1 x Hx).
    + apply in_or_app. right. exact Hx.
Defined.

Definition extra_of (o : op) : list payload := match o with InData _ _ p => [p] | _ => [] end.

Lemma buf_update_conn e st : sat (buf_rel e) (update_conn st).
Proof.
  intros s. cbn. unfold update_conn. destruct (s_conn s =? st); cbn; [intros x Hx; apply in_or_app; left; exact Hx|].
  destruct (st =? ConnectionStateFailed); cbn; intros x Hx; apply in_or_app; left; exact Hx.
Qed.

Lemma queue_grows_only_by_delivery cfg o :
  (match o with Read => False | _ => True end) -> sat (buf_rel (extra_of o)) (step_m cfg o).
Proof.
  intros Ho. destruct o; try contradiction; cbn [step_m extra_of]; sat_decompose;
    try apply buf_update_conn;
    try (sat_base ltac:(cbn; destruct_matches; intros x Hx; apply in_or_app; cbn in *;
                        first [left; exact Hx | apply in_app_or in Hx; destruct Hx as [Hx|Hx]; [left; exact Hx|right; exact Hx] | destruct Hx])).
Qed.

Definition no_deliver (x : out) : Prop := match x with ODeliver _ => False | _ => True end.

Lemma update_conn_no_deliver st : sat (outs_all no_deliver) (update_conn st).
Proof.
  intros s. cbn. unfold update_conn. destruct (s_conn s =? st); cbn; [constructor|]. constructor; [exact I|constructor].
Qed.

Lemma only_read_delivers cfg o :
  (match o with Read => False | _ => True end) -> sat (outs_all no_deliver) (step_m cfg o).
Proof.
  intros Ho. destruct o; try contradiction; cbn [step_m]; sat_decompose;
    try apply update_conn_no_deliver;
    try (sat_base ltac:(cbn; destruct_matches; repeat constructor)).
Qed.

(* every operation, Read included: the queue afterwards holds nothing but what it held before and the datagram just
   delivered; what Read yields was in the queue *)
Lemma step_queue cfg s o :
  incl (s_buf (fst (step cfg s o))) (s_buf s ++ extra_of o) /\
  (forall p, In (ODeliver p) (snd (step cfg s o)) -> In p (s_buf s)).
Proof.
  destruct (match o with Read => true | _ => false end) eqn:Er.
  - destruct o; try discriminate Er. unfold step. cbn [step_m]. rewrite conn_read_spec.
    destruct (s_closed s); [cbn; split; [intros x Hx; apply in_or_app; left; exact Hx|intros p [H|[]]; discriminate H]|].
    destruct (s_buf s) as [|q t] eqn:Eb; cbn.
    + rewrite Eb. split; [intros x []|intros p [H|[]]; discriminate H].
    + split; [intros x Hx; right; apply in_or_app; left; exact Hx|intros p [H|[]]; injection H as <-; left; reflexivity].
  - split.
    + unfold step. apply (queue_grows_only_by_delivery cfg o). destruct o; try exact I. discriminate Er.
    + (* only Read emits ODeliver *)
      intros p Hin. exfalso.
      assert (Hno : sat (outs_all no_deliver) (step_m cfg o)) by (apply only_read_delivers; destruct o; try exact I; discriminate Er).
      specialize (Hno s). cbn in Hno. rewrite Forall_forall in Hno. exact (Hno _ Hin).
Qed.

(* ---- the two agents ------------------------------------------------------------------------------------------ *)
Section Pair.
Variables (cfga cfgb : config) (t : topology).

Lemma agent_step_self a o sy :
  agent_of a (agent_step cfga cfgb t a o sy) = fst (step (cfg_of cfga cfgb a) (agent_of a sy) o).
Proof.
  unfold agent_step, agent_of, cfg_of. destruct a.
  - destruct (step cfga (sy_a sy) o); reflexivity.
  - destruct (step cfgb (sy_b sy) o); reflexivity.
Qed.

Lemma agent_step_peer a o sy :
  agent_of (negb a) (agent_step cfga cfgb t a o sy) = agent_of (negb a) sy.
Proof.
  unfold agent_step, agent_of. destruct a; cbn [negb].
  - destruct (step cfga (sy_a sy) o); reflexivity.
  - destruct (step cfgb (sy_b sy) o); reflexivity.
Qed.

Lemma agent_step_buf a b o sy :
  extra_of o = [] ->
  incl (s_buf (agent_of b (agent_step cfga cfgb t a o sy))) (s_buf (agent_of b sy)).
Proof.
  intros He. destruct (Bool.eqb b a) eqn:E.
  - apply eqb_prop in E. subst b. rewrite agent_step_self.
    pose proof (proj1 (step_queue (cfg_of cfga cfgb a) (agent_of a sy) o)) as H. rewrite He, app_nil_r in H. exact H.
  - assert (b = negb a) by (destruct a, b; try discriminate E; reflexivity). subst b. rewrite agent_step_peer. apply incl_refl.
Qed.

(* an operation of the STUN-level system never adds anything to a reader's queue *)
Lemma sys_step_buf b sy so :
  incl (s_buf (agent_of b (sys_step cfga cfgb t sy so))) (s_buf (agent_of b sy)).
Proof.
  destruct so as [on_a o|n|n|n]; cbn [sys_step].
  - destruct (is_inbound o) eqn:Ei; [apply incl_refl|]. apply agent_step_buf. destruct o; try reflexivity. discriminate Ei.
  - destruct (nth_error (sy_net sy) n) as [f|]; [|apply incl_refl].
    eapply incl_tran; [apply agent_step_buf; reflexivity|]. destruct b; apply incl_refl.
  - destruct b; apply incl_refl.
  - destruct (nth_error (sy_net sy) n); destruct b; apply incl_refl.
Qed.

Lemma route_data_payload from_a outs f (p : payload -> Prop) :
  Forall (fun x => match x with OData _ _ q => p q | _ => True end) outs ->
  In f (route_data t from_a outs) -> p (d_pl f) /\ d_to_a f = negb from_a.
Proof.
  intros H Hf. unfold route_data in Hf. apply in_flat_map in Hf. destruct Hf as [x [Hx Hf]].
  rewrite Forall_forall in H. specialize (H x Hx). destruct x; try contradiction.
  unfold route_data_one in Hf. destruct (index_of _ _ _); [|destruct Hf]. destruct (index_of_pub _ _ _); [|destruct Hf].
  match type of Hf with In _ (if ?c then _ else _) => destruct c end; [|destruct Hf]. destruct Hf as [<-|[]]. cbn. auto.
Qed.

Lemma written_by_app by_a ops o p : In p (written_by by_a ops) -> In p (written_by by_a (ops ++ [o])).
Proof. unfold written_by. rewrite flat_map_app. intros H. apply in_or_app. left. exact H. Qed.

Lemma written_by_last a op p ops :
  data_of_op op = Some p -> In p (written_by a (ops ++ [DSys (SApi a op)])).
Proof.
  intros H. unfold written_by. rewrite flat_map_app. apply in_or_app. right. cbn.
  destruct op; try discriminate H; cbn in H; injection H as <-; rewrite eqb_reflx; left; reflexivity.
Qed.

Definition DataInv (ops : list dsys_op) (d : dsys) : Prop :=
  Forall (fun f => In (d_pl f) (written_by (negb (d_to_a f)) ops)) (d_net d) /\
  (forall a, incl (s_buf (agent_of a (d_sys d))) (written_by (negb a) ops)).

Lemma DataInv_step ops d o : DataInv ops d -> DataInv (ops ++ [o]) (dsys_step cfga cfgb t d o).
Proof.
  intros [Hn Hb].
  assert (Hn' : Forall (fun f => In (d_pl f) (written_by (negb (d_to_a f)) (ops ++ [o]))) (d_net d)).
  { eapply Forall_impl; [|exact Hn]. intros f Hf. apply written_by_app. exact Hf. }
  assert (Hb' : forall a, incl (s_buf (agent_of a (d_sys d))) (written_by (negb a) (ops ++ [o]))).
  { intros a x Hx. apply written_by_app. exact (Hb a x Hx). }
  destruct o as [so|n|n|n]; cbn [dsys_step].
  - split; cbn [d_net d_sys].
    + apply Forall_app. split; [exact Hn'|].
      unfold data_written. destruct so as [on_a op| | |]; try constructor.
      destruct (is_inbound op); [constructor|]. apply Forall_forall. intros f Hf.
      pose proof (writes_are_unmodified (cfg_of cfga cfgb on_a) op (agent_of on_a (d_sys d))) as Hw. cbn in Hw.
      destruct (route_data_payload on_a _ f (fun q => data_of_op op = Some q) Hw Hf) as [Hp Hto].
      rewrite Hto, negb_involutive. apply written_by_last. exact Hp.
    + intros a. eapply incl_tran; [apply sys_step_buf|]. exact (Hb' a).
  - destruct (nth_error (d_net d) n) as [f|] eqn:En; [|split; assumption].
    pose proof (nth_error_In _ _ En) as Hin.
    assert (Hf : In (d_pl f) (written_by (negb (d_to_a f)) (ops ++ [DDeliver n]))) by (rewrite Forall_forall in Hn'; exact (Hn' f Hin)).
    split; cbn [d_net d_sys].
    + apply TwoAgentsProofs.Forall_remove_nth. exact Hn'.
    + intros a x Hx.
      pose proof (proj1 (step_queue (cfg_of cfga cfgb (d_to_a f)) (agent_of (d_to_a f) (d_sys d)) (InData (d_lh f) (d_src f) (d_pl f)))) as Hq.
      cbn [extra_of] in Hq.
      destruct (d_to_a f) eqn:Eto; destruct a; cbn [agent_of sy_a sy_b] in *.
      * apply Hq in Hx. apply in_app_or in Hx. destruct Hx as [Hx|[<-|[]]]; [exact (Hb' true x Hx)|exact Hf].
      * exact (Hb' false x Hx).
      * exact (Hb' true x Hx).
      * apply Hq in Hx. apply in_app_or in Hx. destruct Hx as [Hx|[<-|[]]]; [exact (Hb' false x Hx)|exact Hf].
  - split; cbn [d_net d_sys]; [apply TwoAgentsProofs.Forall_remove_nth; exact Hn'|exact Hb'].
  - destruct (nth_error (d_net d) n) as [f|] eqn:En; [|split; assumption].
    split; cbn [d_net d_sys]; [|exact Hb']. apply Forall_app. split; [exact Hn'|].
    constructor; [|constructor]. rewrite Forall_forall in Hn'. exact (Hn' f (nth_error_In _ _ En)).
Qed.

Lemma dsys_run_snoc d ops o : dsys_run cfga cfgb t d (ops ++ [o]) = dsys_step cfga cfgb t (dsys_run cfga cfgb t d ops) o.
Proof. unfold dsys_run. rewrite fold_left_app. reflexivity. Qed.

Theorem DataInv_run lua lpa lub lpb ops : DataInv ops (dsys_run cfga cfgb t (dsys_init lua lpa lub lpb) ops).
Proof.
  induction ops as [|o ops IH] using rev_ind.
  - split; [constructor|]. intros a x Hx. destruct a; cbn in Hx; destruct Hx.
  - rewrite dsys_run_snoc. apply DataInv_step. exact IH.
Qed.

(* C07 across the pair: after ANY schedule, every payload in a reader's queue -- hence everything Conn.Read can
   yield next -- and every application datagram in flight is a payload the peer handed to Write / WriteToPair *)
Theorem reader_only_holds_what_the_peer_wrote lua lpa lub lpb ops :
  let d := dsys_run cfga cfgb t (dsys_init lua lpa lub lpb) ops in
  (forall p, In p (s_buf (sy_a (d_sys d))) -> In p (written_by false ops)) /\
  (forall p, In p (s_buf (sy_b (d_sys d))) -> In p (written_by true ops)) /\
  (forall f, In f (d_net d) -> In (d_pl f) (written_by (negb (d_to_a f)) ops)).
Proof.
  intros d. destruct (DataInv_run lua lpa lub lpb ops) as [Hn Hb]. fold d in Hn, Hb.
  split; [exact (Hb true)|]. split; [exact (Hb false)|]. rewrite Forall_forall in Hn. exact Hn.
Qed.

(* and what a Read yields was in the queue (one datagram per Read, the oldest) *)
Theorem read_yields_from_queue a sy p :
  In (ODeliver p) (snd (step (cfg_of cfga cfgb a) (agent_of a sy) Read)) -> In p (s_buf (agent_of a sy)).
Proof. exact (proj2 (step_queue _ _ Read) p). Qed.

End Pair.
