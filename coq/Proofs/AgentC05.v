(* C05: role conflicts resolve by tie-breaker (RFC 8445 7.3.1.1).  Step-level, for every state. *)
From Coq Require Import ZArith Bool List Lia.
From Ice Require Import Model.AgentTypes Model.AgentCore Gen.Consts Gen.Lifecycle Proofs.AgentFrame Proofs.AgentC02.
Import ListNotations.
Local Open Scope Z_scope.

Definition keeps_role (cfg : config) (s : state) (their_tb : Z) : bool :=
  (s_ctl s && (their_tb <=? cf_tiebreaker cfg)) || (negb (s_ctl s) && (cf_tiebreaker cfg <? their_tb)).

Definition role_conflict_error (s : state) (m : msg) : msg :=
  mkMsg 3 1 (m_tx m) None (Some (s_lpwd s)) false None None None (Some 487) None.

Definition switched_role (s : state) : state :=
  set_s_last_nom None (set_s_nominated None (set_s_sel_start (s_now s) (set_s_ctl (negb (s_ctl s)) s))).

(* the decision itself *)
Lemma role_conflict_decision cfg s m l r tb :
  handle_role_conflict cfg m l r tb s =
  if keeps_role cfg s tb then (s, [OSend (c_h l) (c_addr r) (role_conflict_error s m)])
  else (switched_role s, []).
Proof.
  unfold handle_role_conflict, with_state, keeps_role.
  assert (E : (cf_tiebreaker cfg <? tb) = negb (tb <=? cf_tiebreaker cfg)).
  { destruct (Z.ltb_spec (cf_tiebreaker cfg) tb), (Z.leb_spec tb (cf_tiebreaker cfg)); cbn; (reflexivity || lia). }
  rewrite E. destruct (s_ctl s), (tb <=? cf_tiebreaker cfg); cbn; reflexivity.
Qed.

(* an authenticated Binding request from a KNOWN remote that carries the receiver's own role is
   answered per the tie-breaker rule and is not treated as a connectivity check: besides the liveness
   of nothing at all, the state is untouched when the role is kept (only the 487 goes out), and only
   the role / selector are reset when it is switched. *)
Lemma request_with_own_role_known cfg s l src m rc tb :
  m_class m = 0 -> m_method m = 1 -> request_authentic s m = true ->
  find_remote (c_net l) src s = Some rc ->
  m_ctl m = Some (s_ctl s, tb) ->
  handle_inbound cfg l src m s =
  if keeps_role cfg s tb then (s, [OSend (c_h l) (c_addr rc) (role_conflict_error s m)])
  else (switched_role s, []).
Proof.
  intros Hc Hm Ha Hr Hctl. unfold handle_inbound. rewrite Hc, Hm.
  change (canHandleInbound 1 0) with true. cbn [negb]. unfold with_state at 1. rewrite Hr.
  cbn [Z.eqb]. unfold handle_inbound_request, with_state.
  unfold request_authentic in Ha.
  destruct (m_user m) as [[a b]|]; [|discriminate].
  destruct ((a =? s_lufrag s) && (b =? s_rufrag s)); [|discriminate]. cbn [andb negb] in *.
  destruct (m_key m) as [k|]; [|discriminate]. rewrite Ha. cbn [negb].
  rewrite Hctl. rewrite Bool.eqb_reflx.
  unfold seq. rewrite role_conflict_decision.
  destruct (keeps_role cfg s tb); cbn; reflexivity.
Qed.

(* For an UNKNOWN source the peer-reflexive candidate is learnt first (if the remote filter admits
   it), then the same decision applies to the resulting state. *)
Definition learn_prflx (cfg : config) (l : cand) (src : addr) (m : msg) (s : state) : cand :=
  let net := prflx_net l src in
  let prio := match m_prio m with
              | Some p => if p =? 0 then prflx_default_prio net (c_comp l) else p
              | None => prflx_default_prio net (c_comp l)
              end in
  mkCand (s_next_h s) CandidateTypePeerReflexive net src TCPTypeUnspecified prio (c_comp l) (Some (0, 0)).

(* what learning a peer-reflexive candidate does: nothing is sent, nothing about the role, the
   credentials, the selection, the connection state or the outstanding transactions changes, and
   the checklist is only extended by fresh pairs in state Waiting *)
Definition core_view (s : state) :=
  (s_ctl s, s_conn s, s_selected s, s_lufrag s, s_lpwd s, s_rufrag s, s_rpwd s, s_pending s, s_locals s, s_nominated s, s_last_nom s).

Definition fresh_pair (p : pair) : Prop :=
  p_state p = CandidatePairStateWaiting /\ p_nominated p = false /\ p_nom_on_succ p = false.

Definition extends_checklist : mprop.
Proof.
  refine (MProp (fun s _ s' => exists ext, s_checklist s' = s_checklist s ++ ext /\ Forall fresh_pair ext) _ _).
  - intros s. exists []. split; [now rewrite app_nil_r|constructor].
  - intros s o1 s1 o2 s2 [e1 [H1 F1]] [e2 [H2 F2]]. exists (e1 ++ e2). split.
    + rewrite H2, H1, app_assoc. reflexivity.
    + apply Forall_app; split; assumption.
Defined.

Lemma learn_prflx_effect h net src prio comp set :
  let rc := mkCand h CandidateTypePeerReflexive net src TCPTypeUnspecified prio comp (Some (0, 0)) in
  sat (mp_and (mp_and (frame core_view) silent) extends_checklist) (add_remote_body rc set).
Proof.
  intros rc. unfold add_remote_body. subst rc. cbv zeta. cbn [c_typ c_tcp].
  change (CandidateTypePeerReflexive =? CandidateTypePeerReflexive) with true.
  change (TCPTypeUnspecified =? TCPTypePassive) with false. cbv iota. cbn [for_each].
  apply sat_and; [apply sat_and|].
  - sat_decompose; sat_base frame_tac.
  - sat_decompose; sat_base ltac:(reflexivity).
  - sat_decompose; try (sat_base ltac:(cbn; exists []; split; [now rewrite app_nil_r|constructor])).
    apply sat_modify. intros s. cbn. eexists. split; [reflexivity|].
    constructor; [|constructor]. repeat split.
Qed.

Lemma add_remote_ext cfg c k1 k2 s :
  (forall ok s1, k1 ok s1 = k2 ok s1) -> add_remote cfg c k1 s = add_remote cfg c k2 s.
Proof.
  intros H. unfold add_remote, with_state.
  destruct (s_conn s =? ConnectionStateFailed); [apply H|].
  destruct (negb (accepts_remote cfg c)); [apply H|].
  destruct (existsb _ _); [apply H|].
  unfold seq. destruct (add_remote_body c _ s) as [s1 o1]. rewrite H. reflexivity.
Qed.

Lemma request_with_own_role_unknown cfg s l src m tb :
  m_class m = 0 -> m_method m = 1 -> request_authentic s m = true ->
  find_remote (c_net l) src s = None ->
  m_ctl m = Some (s_ctl s, tb) ->
  let rc := learn_prflx cfg l src m s in
  let s0 := set_s_next_h (s_next_h s + 1) s in
  let set := filter (fun e => c_net e =? c_net rc) (s_remotes s) in
  (* rejected by the Failed guard or the remote IP filter: dropped, nothing else happens *)
  (((s_conn s =? ConnectionStateFailed) || negb (accepts_remote cfg rc)) = true ->
     handle_inbound cfg l src m s = (s0, [])) /\
  (* otherwise the candidate is learnt and the tie-breaker rule is applied to the resulting state *)
  (((s_conn s =? ConnectionStateFailed) || negb (accepts_remote cfg rc)) = false ->
     exists s1, (s1 = s0 \/ s1 = fst (add_remote_body rc set s0)) /\
       core_view s1 = core_view s /\
       (exists ext, s_checklist s1 = s_checklist s ++ ext /\ Forall fresh_pair ext) /\
       handle_inbound cfg l src m s =
         if keeps_role cfg s1 tb then (s1, [OSend (c_h l) (c_addr rc) (role_conflict_error s1 m)])
         else (switched_role s1, [])).
Proof.
  intros Hc Hm Ha Hr Hctl rc s0 set.
  assert (Hpre : handle_inbound cfg l src m s =
            add_remote cfg rc (fun ok => if ok then
               with_state s_ctl (fun ctl =>
                 if Bool.eqb (s_ctl s) ctl then handle_role_conflict cfg m l rc tb ;; nop
                 else dispatch_request cfg m l rc ;; seen (c_h rc))
               else nop) s0).
  { unfold handle_inbound. rewrite Hc, Hm.
    change (canHandleInbound 1 0) with true. cbn [negb]. unfold with_state at 1. rewrite Hr.
    cbn [Z.eqb]. unfold handle_inbound_request. unfold with_state at 1.
    unfold request_authentic in Ha.
    destruct (m_user m) as [[a b]|]; [|discriminate].
    destruct ((a =? s_lufrag s) && (b =? s_rufrag s)); [|discriminate]. cbn [andb negb] in *.
    destruct (m_key m) as [k|]; [|discriminate]. rewrite Ha. cbn [negb].
    unfold with_state at 1. unfold seq at 1. unfold modify at 1. cbn [fst snd app].
    match goal with |- context [add_remote cfg ?c _ _] => change c with rc end. fold s0.
    match goal with |- (let '(s2, o2) := add_remote cfg rc ?K s0 in _) = _ =>
      rewrite (add_remote_ext cfg rc K (fun ok => if ok then
               with_state s_ctl (fun ctl =>
                 if Bool.eqb (s_ctl s) ctl then handle_role_conflict cfg m l rc tb ;; nop
                 else dispatch_request cfg m l rc ;; seen (c_h rc))
               else nop) s0)
    end.
    - destruct (add_remote cfg rc _ s0) as [sx ox]. reflexivity.
    - intros ok s1. destruct ok; [|reflexivity]. unfold with_state. rewrite Hctl. reflexivity. }
  rewrite Hpre. clear Hpre.
  assert (Hunf : forall K, add_remote cfg rc K s0 =
            if s_conn s =? ConnectionStateFailed then K false s0
            else if negb (accepts_remote cfg rc) then K false s0
            else if existsb (fun e => cand_equal e rc) set then K true s0
            else (add_remote_body rc set ;; K true) s0).
  { intros K. unfold add_remote, with_state. change (s_conn s0) with (s_conn s). change (s_remotes s0) with (s_remotes s). fold set.
    destruct (s_conn s =? ConnectionStateFailed); [reflexivity|].
    destruct (negb (accepts_remote cfg rc)); [reflexivity|]. destruct (existsb _ set); reflexivity. }
  rewrite Hunf. clear Hunf.
  split.
  - intros G. destruct (s_conn s =? ConnectionStateFailed); [reflexivity|].
    cbn [orb] in G. rewrite G. reflexivity.
  - intros G. apply Bool.orb_false_iff in G. destruct G as [G1 G2]. rewrite G1, G2.
    assert (Hs0 : core_view s0 = core_view s) by reflexivity.
    assert (Hfinish : forall s1, core_view s1 = core_view s ->
              with_state s_ctl (fun ctl =>
                 if Bool.eqb (s_ctl s) ctl then handle_role_conflict cfg m l rc tb ;; nop
                 else dispatch_request cfg m l rc ;; seen (c_h rc)) s1
              = if keeps_role cfg s1 tb then (s1, [OSend (c_h l) (c_addr rc) (role_conflict_error s1 m)])
                else (switched_role s1, [])).
    { intros s1 Hv. unfold with_state.
      assert (Ec : s_ctl s1 = s_ctl s) by (unfold core_view in Hv; congruence).
      rewrite Ec, Bool.eqb_reflx. unfold seq. rewrite role_conflict_decision.
      destruct (keeps_role cfg s1 tb); cbn; reflexivity. }
    destruct (existsb (fun e => cand_equal e rc) set).
    + exists s0. split; [left; reflexivity|]. split; [exact Hs0|]. split.
      * exists []. split; [now rewrite app_nil_r|constructor].
      * apply Hfinish. exact Hs0.
    + pose proof (learn_prflx_effect (s_next_h s) (prflx_net l src) src (c_prio rc) (c_comp l) set s0) as H3.
      cbn [mp_rel mp_and frame silent extends_checklist] in H3.
      change (mkCand (s_next_h s) CandidateTypePeerReflexive (prflx_net l src) src TCPTypeUnspecified (c_prio rc) (c_comp l) (Some (0, 0)))
        with rc in H3.
      destruct H3 as [[Hf Hsil] Hext].
      exists (fst (add_remote_body rc set s0)). split; [right; reflexivity|].
      split; [rewrite Hf; exact Hs0|]. split; [exact Hext|].
      unfold seq. destruct (add_remote_body rc set s0) as [s1 o1] eqn:E. cbn [fst snd] in *.
      subst o1. rewrite Hfinish by (rewrite Hf; exact Hs0).
      destruct (keeps_role cfg s1 tb); reflexivity.
Qed.

(* switching the role touches nothing but the role and the (re-started) selector *)
Lemma switched_role_frame s :
  s_checklist (switched_role s) = s_checklist s /\ s_selected (switched_role s) = s_selected s /\
  s_conn (switched_role s) = s_conn s /\ s_remotes (switched_role s) = s_remotes s /\
  s_locals (switched_role s) = s_locals s /\ s_pending (switched_role s) = s_pending s /\
  s_ctl (switched_role s) = negb (s_ctl s).
Proof. repeat split. Qed.

(* for all pairs of 64-bit tie-breakers: exactly one of two agents in the same role keeps it, unless
   the tie-breakers are equal and both are controlled (then both switch) or both controlling (both keep) *)
Lemma keeps_role_antisymmetric (ctl : bool) (tb_a tb_b : Z) :
  tb_a <> tb_b ->
  let keeps (own their : Z) := (ctl && (their <=? own)) || (negb ctl && (own <? their)) in
  keeps tb_a tb_b = negb (keeps tb_b tb_a).
Proof.
  intros Hne keeps. unfold keeps. destruct ctl; cbn.
  - destruct (Z.leb_spec tb_b tb_a), (Z.leb_spec tb_a tb_b); cbn; (reflexivity || lia).
  - destruct (Z.ltb_spec tb_a tb_b), (Z.ltb_spec tb_b tb_a); cbn; (reflexivity || lia).
Qed.
