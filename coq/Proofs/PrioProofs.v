(* Lemmas about the GENERATED priority functions (Gen/Prio.v).  C17. *)
From Coq Require Import ZArith Bool String List Lia.
From Ice Require Import Model.Wrap Model.PrioSpec Model.PrioModel Gen.Consts Gen.Prio.
Import ListNotations.
Local Open Scope Z_scope.

Ltac Zify.zify_post_hook ::= Z.div_mod_to_equations.

(* the literal encodings used by the specification agree with the generated constants *)
Lemma enum_encodings :
  [CandidateTypeUnspecified; CandidateTypeHost; CandidateTypeServerReflexive; CandidateTypePeerReflexive; CandidateTypeRelay] = cand_types /\
  [NetworkTypeUDP4; NetworkTypeUDP6; NetworkTypeTCP4; NetworkTypeTCP6] = net_types /\
  [TCPTypeUnspecified; TCPTypeActive; TCPTypePassive; TCPTypeSimultaneousOpen] = tcp_types /\
  defaultTCPPriorityOffset = default_offset /\ defaultLocalPreference = 65535.
Proof. repeat split; reflexivity. Qed.

Ltac enum H := repeat (destruct H as [H | H]; [subst | ]); try contradiction.

Lemma wrap_small bits x : 0 <= bits -> 0 <= x < 2 ^ bits -> wrap bits x = x.
Proof. intros Hb H. unfold wrap. apply Z.mod_small. exact H. Qed.

Lemma wrap_range bits x : 0 <= bits -> 0 <= wrap bits x < 2 ^ bits.
Proof. intros Hb. unfold wrap. apply Z.mod_pos_bound. apply Z.pow_pos_nonneg; lia. Qed.

(* removing the wrap-arounds of a generated arithmetic expression, innermost first, whatever its shape: a wrap whose
   argument provably fits is dropped; one that may really wrap is named and only its range is kept *)
Ltac unwrap_goal :=
  unfold wrap; change (2 ^ 16) with 65536 in *; change (2 ^ 32) with 4294967296 in *; change (2 ^ 64) with 18446744073709551616 in *;
  repeat match goal with
  | |- context [?a mod ?m] =>
    lazymatch a with
    | context [_ mod _] => fail
    | _ => first [ rewrite (Z.mod_small a m) by lia
                 | let w := fresh "w" in let Hw := fresh "Hw" in
                   pose proof (Z.mod_pos_bound a m ltac:(lia)) as Hw; set (w := a mod m) in * ]
    end
  end.

(* --- type preference ---------------------------------------------------- *)

Lemma type_pref_table :
  CandidateType_Preference CandidateTypeHost = 126 /\
  CandidateType_Preference CandidateTypePeerReflexive = 110 /\
  CandidateType_Preference CandidateTypeServerReflexive = 100 /\
  CandidateType_Preference CandidateTypeRelay = 0 /\
  CandidateType_Preference CandidateTypeUnspecified = 0.
Proof. repeat split; reflexivity. Qed.

Lemma is_tcp_table :
  NetworkType_IsTCP NetworkTypeUDP4 = false /\ NetworkType_IsTCP NetworkTypeUDP6 = false /\
  NetworkType_IsTCP NetworkTypeTCP4 = true /\ NetworkType_IsTCP NetworkTypeTCP6 = true.
Proof. repeat split; reflexivity. Qed.

Lemma type_pref_spec ty nt has_agent off :
  In ty cand_types -> In nt net_types -> 0 <= off < 65536 ->
  TypePreference ty nt has_agent off = spec_type_pref ty nt has_agent off.
Proof.
  intros Hty Hnt Hoff. unfold cand_types, net_types in *. simpl in Hty, Hnt.
  enum Hty; enum Hnt; destruct has_agent;
    cbv [TypePreference spec_type_pref eff_offset CandidateType_Preference NetworkType_IsTCP
         rfc_type_pref is_tcp default_offset defaultTCPPriorityOffset Z.eqb orb andb negb Pos.eqb wrap]; try reflexivity;
    repeat match goal with
           | |- context [Z.ltb ?a ?b] => destruct (Z.ltb_spec a b)
           | |- context [Z.leb ?a ?b] => destruct (Z.leb_spec a b)
           | |- context [Z.gtb ?a ?b] => rewrite (Z.gtb_ltb a b)
           | |- context [Z.geb ?a ?b] => rewrite (Z.geb_leb a b)
           end;
    try lia.
Qed.

Lemma type_pref_range ty nt has_agent off :
  In ty cand_types -> In nt net_types -> 0 <= off < 65536 ->
  0 <= TypePreference ty nt has_agent off <= 126.
Proof.
  intros Hty Hnt Hoff. rewrite type_pref_spec by assumption.
  unfold cand_types, net_types in *. simpl in Hty, Hnt.
  enum Hty; enum Hnt; destruct has_agent;
    cbv [spec_type_pref eff_offset rfc_type_pref is_tcp default_offset Z.eqb orb Pos.eqb]; lia.
Qed.

(* --- local preference --------------------------------------------------- *)

Lemma local_pref_spec ty nt tcp rp :
  In ty cand_types -> In nt net_types -> In tcp tcp_types ->
  LocalPreference ty nt tcp rp = spec_local_pref ty nt tcp rp.
Proof.
  intros Hty Hnt Htcp. unfold cand_types, net_types, tcp_types in *. simpl in Hty, Hnt, Htcp.
  enum Hty; enum Hnt; enum Htcp; vm_compute; reflexivity.
Qed.

Lemma local_pref_range ty nt tcp rp :
  In ty cand_types -> In nt net_types -> In tcp tcp_types -> 0 <= rp <= 65535 ->
  0 <= LocalPreference ty nt tcp rp <= 65535.
Proof.
  intros Hty Hnt Htcp Hrp. rewrite local_pref_spec by assumption.
  unfold cand_types, net_types, tcp_types in *. simpl in Hty, Hnt, Htcp.
  enum Hty; enum Hnt; enum Htcp;
    cbv [spec_local_pref spec_direction_pref is_tcp Z.eqb Pos.eqb orb]; lia.
Qed.

Lemma relay_pref_table :
  relayProtocolPreference "tls" = 0 /\ relayProtocolPreference "tcp" = 1 /\
  relayProtocolPreference "dtls" = 2 /\ relayProtocolPreference "udp" = 3.
Proof. repeat split; reflexivity. Qed.

Lemma relay_pref_spec s : relayProtocolPreference s = spec_relay_pref s.
Proof.
  unfold relayProtocolPreference, spec_relay_pref.
  (* independent of the order of the cases: a protocol equal to one literal is a closed string *)
  repeat match goal with |- context [String.eqb ?a ?b] => destruct (String.eqb_spec a b); [subst; vm_compute; reflexivity|] end;
    reflexivity.
Qed.

Lemma relay_pref_range s : 0 <= relayProtocolPreference s <= 3.
Proof.
  unfold relayProtocolPreference.
  repeat match goal with |- context [String.eqb ?a ?b] => destruct (String.eqb a b) end; lia.
Qed.

(* --- candidate priority ------------------------------------------------- *)

Lemma priority_formula tp lp comp :
  0 <= tp <= 126 -> 0 <= lp <= 65535 -> 0 <= comp <= 256 ->
  Priority 0 tp lp comp = 2 ^ 24 * tp + 2 ^ 8 * lp + (256 - comp).
Proof.
  intros Htp Hlp Hc. unfold Priority. cbn [Z.eqb negb]. cbv zeta.
  change (2 ^ 24) with 16777216. change (2 ^ 8) with 256. unwrap_goal. lia.
Qed.

Lemma priority_override ov tp lp comp : ov <> 0 -> Priority ov tp lp comp = ov.
Proof.
  intros H. unfold Priority. destruct (Z.eqb_spec ov 0); [contradiction|reflexivity].
Qed.

Lemma priority_range tp lp comp :
  0 <= tp <= 126 -> 0 <= lp <= 65535 -> 0 <= comp <= 65535 ->
  0 <= Priority 0 tp lp comp <= 2147483647 /\ (1 <= comp <= 255 -> 1 <= Priority 0 tp lp comp).
Proof.
  intros Htp Hlp Hc. unfold Priority. cbn [Z.eqb negb]. cbv zeta. unwrap_goal.
  split; [lia|]. intros Hc1.
  repeat match goal with w := _ mod _ |- _ => subst w end. unwrap_goal. lia.
Qed.

Lemma candidate_priority_range ty nt tcp rp has_agent off comp :
  In ty cand_types -> In nt net_types -> In tcp tcp_types ->
  0 <= off < 65536 -> 0 <= comp <= 65535 ->
  0 <= TypePreference ty nt has_agent off <= 126 /\
  0 <= candidate_priority ty nt tcp rp has_agent off comp <= 2147483647 /\
  (1 <= comp <= 255 -> 1 <= candidate_priority ty nt tcp rp has_agent off comp).
Proof.
  intros Hty Hnt Htcp Hoff Hc.
  pose proof (type_pref_range ty nt has_agent off Hty Hnt Hoff) as Htp.
  pose proof (relay_pref_range rp) as Hrp.
  pose proof (local_pref_range ty nt tcp (relayProtocolPreference rp) Hty Hnt Htcp ltac:(lia)) as Hlp.
  split; [exact Htp|]. unfold candidate_priority. apply priority_range; assumption.
Qed.

Lemma candidate_priority_formula ty nt tcp rp has_agent off comp :
  In ty cand_types -> In nt net_types -> In tcp tcp_types ->
  0 <= off < 65536 -> 0 <= comp <= 256 ->
  candidate_priority ty nt tcp rp has_agent off comp =
    spec_priority (spec_type_pref ty nt has_agent off)
                  (spec_local_pref ty nt tcp (spec_relay_pref rp)) comp.
Proof.
  intros Hty Hnt Htcp Hoff Hc.
  pose proof (type_pref_range ty nt has_agent off Hty Hnt Hoff) as Htp.
  pose proof (relay_pref_range rp) as Hrp.
  pose proof (local_pref_range ty nt tcp (relayProtocolPreference rp) Hty Hnt Htcp ltac:(lia)) as Hlp.
  unfold candidate_priority. rewrite priority_formula by assumption.
  rewrite type_pref_spec, local_pref_spec, relay_pref_spec by assumption. reflexivity.
Qed.

(* --- pair priority ------------------------------------------------------ *)

Lemma pair_priority_spec ctl l r :
  0 <= l < 2 ^ 32 -> 0 <= r < 2 ^ 32 ->
  PairPriority false 0 ctl l r = (if ctl then spec_pair_priority l r else spec_pair_priority r l)
  /\ 0 <= PairPriority false 0 ctl l r < 2 ^ 64.
Proof.
  change (2 ^ 32) with 4294967296. change (2 ^ 64) with 18446744073709551616.
  intros Hl Hr. unfold PairPriority, spec_pair_priority.
  change (2 ^ 32 - 1) with 4294967295.
  destruct ctl; cbv beta zeta;
    repeat match goal with |- context [Z.ltb ?a ?b] => destruct (Z.ltb_spec a b) end;
    unfold wrap; change (2 ^ 64) with 18446744073709551616;
    repeat rewrite Z.mod_small by lia; lia.
Qed.

Lemma pair_priority_mirror l r :
  0 <= l < 2 ^ 32 -> 0 <= r < 2 ^ 32 ->
  PairPriority false 0 true l r = PairPriority false 0 false r l.
Proof.
  intros Hl Hr.
  destruct (pair_priority_spec true l r Hl Hr) as [-> _].
  destruct (pair_priority_spec false r l Hr Hl) as [-> _]. reflexivity.
Qed.

Lemma spec_pair_monotone_g g g' d :
  0 <= g -> 0 <= d -> g <= g' -> spec_pair_priority g d <= spec_pair_priority g' d.
Proof.
  intros Hg Hd Hle. unfold spec_pair_priority. change (2 ^ 32 - 1) with 4294967295.
  repeat match goal with |- context [Z.ltb ?a ?b] => destruct (Z.ltb_spec a b) end; lia.
Qed.

Lemma spec_pair_monotone_d g d d' :
  0 <= g -> 0 <= d -> d <= d' -> spec_pair_priority g d <= spec_pair_priority g d'.
Proof.
  intros Hg Hd Hle. unfold spec_pair_priority. change (2 ^ 32 - 1) with 4294967295.
  repeat match goal with |- context [Z.ltb ?a ?b] => destruct (Z.ltb_spec a b) end; lia.
Qed.

Lemma pair_priority_monotone ctl l l' r r' :
  0 <= l -> l <= l' -> l' < 2 ^ 32 -> 0 <= r -> r <= r' -> r' < 2 ^ 32 ->
  PairPriority false 0 ctl l r <= PairPriority false 0 ctl l' r'.
Proof.
  intros. 
  destruct (pair_priority_spec ctl l r ltac:(lia) ltac:(lia)) as [-> _].
  destruct (pair_priority_spec ctl l' r' ltac:(lia) ltac:(lia)) as [-> _].
  destruct ctl.
  - etransitivity; [apply (spec_pair_monotone_g l l' r)|apply (spec_pair_monotone_d l' r r')]; lia.
  - etransitivity; [apply (spec_pair_monotone_g r r' l)|apply (spec_pair_monotone_d r' l l')]; lia.
Qed.

(* both sides order pairs identically: agent A (controlling) sees pair (l,r), agent B
   (controlled) sees its mirror (r,l); strict order of two pairs is the same. *)
Lemma pair_order_agrees l1 r1 l2 r2 :
  0 <= l1 < 2 ^ 32 -> 0 <= r1 < 2 ^ 32 -> 0 <= l2 < 2 ^ 32 -> 0 <= r2 < 2 ^ 32 ->
  (PairPriority false 0 true l1 r1 <? PairPriority false 0 true l2 r2) =
  (PairPriority false 0 false r1 l1 <? PairPriority false 0 false r2 l2).
Proof. intros. rewrite !pair_priority_mirror by assumption. reflexivity. Qed.

Lemma pair_priority_override ov ctl l r : PairPriority true ov ctl l r = ov.
Proof. reflexivity. Qed.

(* --- the monitors accept everything the (generated) code computes --------- *)

Lemma mem_In x l : mem x l = true <-> In x l.
Proof.
  unfold mem. rewrite existsb_exists. split.
  - intros [y [Hy E]]. apply Z.eqb_eq in E. now subst.
  - intros H. exists x. split; [exact H|apply Z.eqb_refl].
Qed.

Lemma cand_monitor_model ty nt tcp rp has_agent off comp :
  C17_cand_monitor ty nt tcp rp has_agent off comp
    (TypePreference ty nt has_agent off)
    (LocalPreference ty nt tcp (relayProtocolPreference rp))
    (candidate_priority ty nt tcp rp has_agent off comp) = true.
Proof.
  unfold C17_cand_monitor, C17_cand_checks.
  destruct (mem ty cand_types) eqn:Hty; [|reflexivity].
  destruct (mem nt net_types) eqn:Hnt; [|reflexivity].
  destruct (mem tcp tcp_types) eqn:Htcp; [|reflexivity].
  cbn [andb negb].
  destruct (Z.leb_spec 0 off); [|reflexivity].
  destruct (Z.ltb_spec off 65536); [|reflexivity].
  destruct (Z.leb_spec 0 comp); [|reflexivity].
  destruct (Z.leb_spec comp 65535); [|reflexivity].
  cbn [andb negb].
  apply mem_In in Hty, Hnt, Htcp.
  destruct (candidate_priority_range ty nt tcp rp has_agent off comp Hty Hnt Htcp ltac:(lia) ltac:(lia))
    as [Htp [Hpr Hpos]].
  set (tp := TypePreference ty nt has_agent off) in *.
  set (pr := candidate_priority ty nt tcp rp has_agent off comp) in *.
  assert (C1 : (tp =? spec_type_pref ty nt has_agent off) = true)
    by (subst tp; rewrite type_pref_spec by (assumption || lia); apply Z.eqb_refl).
  assert (C2 : ((0 <=? tp) && (tp <=? 126)) = true)
    by (apply andb_true_intro; split; apply Z.leb_le; lia).
  assert (C3 : (LocalPreference ty nt tcp (relayProtocolPreference rp) =?
                spec_local_pref ty nt tcp (spec_relay_pref rp)) = true)
    by (rewrite local_pref_spec, relay_pref_spec by assumption; apply Z.eqb_refl).
  assert (C4 : ((0 <=? pr) && (pr <=? 2147483647)) = true)
    by (apply andb_true_intro; split; apply Z.leb_le; lia).
  assert (C5 : (if (1 <=? comp) && (comp <=? 255) then 1 <=? pr else true) = true).
  { destruct (Z.leb_spec 1 comp); [|reflexivity]. destruct (Z.leb_spec comp 255); [|reflexivity].
    cbn [andb]. apply Z.leb_le. apply Hpos. lia. }
  assert (C6 : (if comp <=? 256 then pr =? spec_priority tp (LocalPreference ty nt tcp (relayProtocolPreference rp)) comp else true) = true).
  { destruct (Z.leb_spec comp 256); [|reflexivity]. subst pr tp.
    rewrite candidate_priority_formula by (assumption || lia).
    apply Z.eqb_eq. apply Z.eqb_eq in C1, C3. rewrite C1, C3. reflexivity. }
  unfold all_ok. cbn [forallb snd]. rewrite C1, C2, C3, C4, C5, C6. reflexivity.
Qed.

Lemma pair_monitor_model ctl l r :
  C17_pair_monitor ctl l r (PairPriority false 0 ctl l r) = true.
Proof.
  unfold C17_pair_monitor, C17_pair_checks.
  destruct (Z.leb_spec 0 l); [|reflexivity].
  destruct (Z.ltb_spec l (2 ^ 32)); [|reflexivity].
  destruct (Z.leb_spec 0 r); [|reflexivity].
  destruct (Z.ltb_spec r (2 ^ 32)); [|reflexivity].
  cbn [andb negb].
  destruct (pair_priority_spec ctl l r ltac:(lia) ltac:(lia)) as [E [Hlo Hhi]].
  unfold all_ok. cbn [forallb snd].
  rewrite E at 1. rewrite Z.eqb_refl. cbn [andb].
  destruct (Z.leb_spec 0 (PairPriority false 0 ctl l r)); [|lia].
  destruct (Z.ltb_spec (PairPriority false 0 ctl l r) (2 ^ 64)); [reflexivity|lia].
Qed.
