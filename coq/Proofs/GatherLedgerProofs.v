(* Invariants of the gathering ledger (Model/GatherLedger.v) over EVERY interleaving. C09. *)
From Coq Require Import ZArith Bool String List Lia.
From Ice Require Import Model.PrioSpec Model.GatherLedger.
Import ListNotations.
Local Open Scope nat_scope.

(* ------------------------------------------------------------------ list updates *)

Lemma nth_upd {A} (l : list A) : forall k f j,
  nth_error (upd l k f) j = if Nat.eqb j k then option_map f (nth_error l j) else nth_error l j.
Proof.
  induction l as [|g l IH]; intros k f j; simpl.
  - destruct (Nat.eqb j k); destruct j; reflexivity.
  - destruct k as [|k]; destruct j as [|j]; simpl; try reflexivity. apply IH.
Qed.

Lemma upd_ext {A} (l : list A) : forall k f g a, nth_error l k = Some a -> f a = g a -> upd l k f = upd l k g.
Proof.
  induction l as [|x l IH]; intros [|k] f g a Hn He; simpl in *; try discriminate.
  - inversion Hn; subst. rewrite He. reflexivity.
  - f_equal. eapply IH; eauto.
Qed.

Lemma len_upd {A} (l : list A) : forall k f, length (upd l k f) = length l.
Proof. induction l as [|g l IH]; intros [|k] f; simpl; auto. Qed.

Lemma nth_upd_all {A} (f : A -> A) (Hf : forall x, f (f x) = f x) : forall ids l j,
  nth_error (upd_all l ids f) j =
  if existsb (Nat.eqb j) ids then option_map f (nth_error l j) else nth_error l j.
Proof.
  induction ids as [|i ids IH]; intros l j; simpl; [reflexivity|].
  rewrite IH, nth_upd. destruct (Nat.eqb j i) eqn:E; simpl.
  - destruct (existsb (Nat.eqb j) ids); destruct (nth_error l j); simpl; rewrite ?Hf; reflexivity.
  - reflexivity.
Qed.

Lemma len_upd_all {A} (f : A -> A) : forall ids l, length (upd_all l ids f) = length l.
Proof. induction ids as [|i ids IH]; intros l; simpl; [reflexivity|]. rewrite IH, len_upd. reflexivity. Qed.

Lemma existsb_eqb_In j ids : existsb (Nat.eqb j) ids = true <-> In j ids.
Proof.
  rewrite existsb_exists. split.
  - intros [x [Hx He]]. apply Nat.eqb_eq in He. subst. exact Hx.
  - intros H. exists j. split; [exact H | apply Nat.eqb_refl].
Qed.

Lemma nth_snoc {A} (l : list A) x j :
  nth_error (l ++ [x]) j = if Nat.ltb j (length l) then nth_error l j else if Nat.eqb j (length l) then Some x else None.
Proof.
  destruct (Nat.ltb j (length l)) eqn:E.
  - apply Nat.ltb_lt in E. apply nth_error_app1. exact E.
  - apply Nat.ltb_ge in E. rewrite nth_error_app2 by exact E.
    destruct (Nat.eqb j (length l)) eqn:E2.
    + apply Nat.eqb_eq in E2. subst. rewrite Nat.sub_diag. reflexivity.
    + apply Nat.eqb_neq in E2. destruct (j - length l) eqn:E3; [lia|]. simpl. destruct n; reflexivity.
Qed.

Lemma nth_snoc_some {A} (l : list A) x j y : nth_error (l ++ [x]) j = Some y ->
  (nth_error l j = Some y /\ j < length l) \/ (j = length l /\ y = x).
Proof.
  rewrite nth_snoc. destruct (Nat.ltb j (length l)) eqn:E.
  - apply Nat.ltb_lt in E. auto.
  - destruct (Nat.eqb j (length l)) eqn:E2; [|discriminate]. apply Nat.eqb_eq in E2. intros H. inversion H. auto.
Qed.

(* ------------------------------------------------------------------ resource transformers *)

Lemma release_idem r : release (release r) = release r.
Proof. unfold release. destruct (r_status r) eqn:E; simpl; rewrite ?E; reflexivity. Qed.
Lemma leak_idem r : leak (leak r) = leak r.
Proof. unfold leak. destruct (r_status r) eqn:E; simpl; rewrite ?E; reflexivity. Qed.
Lemma close_call_idem r : close_call (close_call r) = close_call r.
Proof. unfold close_call. destruct (r_open r) eqn:E; simpl; [reflexivity | rewrite E; reflexivity]. Qed.
Lemma own_idem c r : own c (own c r) = own c r.
Proof. reflexivity. Qed.

(* what one transformer may do to a resource: status either unchanged or as given *)
Definition same_but_closed (r r' : res) : Prop :=
  r_gen r' = r_gen r /\ r_kind r' = r_kind r /\ r_mux r' = r_mux r /\ r_status r' = r_status r /\
  (r_open r = false -> r_open r' = false) /\ r_calls r <= r_calls r'.

Lemma close_call_same r : same_but_closed r (close_call r).
Proof. unfold same_but_closed, close_call. destruct (r_open r) eqn:E; simpl; repeat split; auto; congruence. Qed.

Lemma mux_remove_nth g rs j r' : nth_error (mux_remove g rs) j = Some r' ->
  exists r, nth_error rs j = Some r /\ (r' = r \/ r' = close_call r).
Proof.
  unfold mux_remove. rewrite nth_error_map. destruct (nth_error rs j) as [r|]; simpl; [|discriminate].
  intros H. inversion H. exists r. split; [reflexivity|].
  destruct (r_mux r); [destruct (Nat.eqb g n)|]; auto.
Qed.

(* close_cands: resources of live candidates are released, the others untouched *)
Lemma close_cands_nth : forall cs rs j r', nth_error (close_cands cs rs) j = Some r' ->
  exists r, nth_error rs j = Some r /\
    ((r' = r /\ ~ exists cd, In cd cs /\ c_live cd = true /\ In j (c_res cd)) \/
     (r' = release r /\ exists cd, In cd cs /\ c_live cd = true /\ In j (c_res cd))).
Proof.
  unfold close_cands. induction cs as [|cd cs IH]; intros rs j r' H; simpl in H.
  - exists r'. split; [exact H|]. left. split; [reflexivity|]. intros [cd [[] _]].
  - destruct (IH _ _ _ H) as [r1 [Hn Hor]]. destruct (c_live cd) eqn:El.
    + rewrite (nth_upd_all release release_idem) in Hn.
      destruct (existsb (Nat.eqb j) (c_res cd)) eqn:Ee.
      * destruct (nth_error rs j) as [r|]; simpl in Hn; [|discriminate]. inversion Hn; subst r1.
        exists r. split; [reflexivity|]. right. split.
        -- destruct Hor as [[-> _] | [-> _]]; rewrite ?release_idem; reflexivity.
        -- exists cd. split; [left; reflexivity|]. split; [exact El|]. apply existsb_eqb_In. exact Ee.
      * exists r1. split; [exact Hn|]. destruct Hor as [[-> Hno] | [-> [cd' [Hin [Hl Hj]]]]].
        -- left. split; [reflexivity|]. intros [cd' [[<- | Hin] [Hl Hj]]].
           ++ apply existsb_eqb_In in Hj. congruence.
           ++ apply Hno. exists cd'. auto.
        -- right. split; [reflexivity|]. exists cd'. split; [right; exact Hin | auto].
    + exists r1. split; [exact Hn|]. destruct Hor as [[-> Hno] | [-> [cd' [Hin [Hl Hj]]]]].
      * left. split; [reflexivity|]. intros [cd' [[<- | Hin] [Hl Hj]]]; [congruence|]. apply Hno. exists cd'. auto.
      * right. split; [reflexivity|]. exists cd'. split; [right; exact Hin | auto].
Qed.

Lemma len_close_cands : forall cs rs, length (close_cands cs rs) = length rs.
Proof.
  unfold close_cands. induction cs as [|cd cs IH]; intros rs; simpl; [reflexivity|].
  rewrite IH. destruct (c_live cd); [apply len_upd_all | reflexivity].
Qed.

(* ------------------------------------------------------------------ the invariant *)
Section Ledger.
Variable v : variant.

Definition res_inv (s : led) (id : nat) (r : res) : Prop :=
  (forall k, r_status r = RHeld k ->
     exists a, nth_error (l_atts s) k = Some a /\ a_pc a <> pc_done /\ In id (a_res a) /\
               r_gen r = a_gen a /\ r_kind r = a_kind a) /\
  (forall c, r_status r = ROwned c ->
     exists cd, nth_error (l_cands s) c = Some cd /\ c_live cd = true /\ In id (c_res cd) /\
                (v_recheck v = true -> r_gen r = c_gen cd)) /\
  (r_status r = RReleased -> r_open r = false) /\
  (r_status r = RLeaked -> r_kind r = KSrflx /\ v_srflx_close v = false).

Definition att_inv (s : led) (k : nat) (a : att) : Prop :=
  (a_pc a = 0 -> a_res a = []) /\
  (a_pc a <> pc_done -> forall id, In id (a_res a) ->
     exists r, nth_error (l_res s) id = Some r /\ r_status r = RHeld k).

Definition cand_inv (s : led) (c : nat) (cd : cand) : Prop :=
  c_live cd = true ->
  c_gen cd = l_gen s /\
  forall id, In id (c_res cd) -> exists r, nth_error (l_res s) id = Some r /\ r_status r = ROwned c.

Definition Inv (s : led) : Prop :=
  (forall id r, nth_error (l_res s) id = Some r -> res_inv s id r) /\
  (forall k a, nth_error (l_atts s) k = Some a -> att_inv s k a) /\
  (forall c cd, nth_error (l_cands s) c = Some cd -> cand_inv s c cd) /\
  (l_close_done s = true -> l_closed s = true /\ forall c cd, nth_error (l_cands s) c = Some cd -> c_live cd = false).

Lemma inv_init : Inv led_init.
Proof.
  unfold Inv, led_init; simpl. repeat split; try (intros; match goal with H : nth_error [] ?i = Some _ |- _ => destruct i; discriminate end); discriminate.
Qed.

Ltac inv_some :=
  match goal with
  | H : option_map _ ?x = Some _ |- _ => destruct x eqn:?; simpl in H; [inversion H; subst; clear H | discriminate]
  end.

Ltac split4 := split; [|split; [|split]].

(* --- spawn *)
Lemma inv_spawn s kind gen key : Inv s ->
  Inv (with_ra s (l_res s) (l_atts s ++ [mkAtt kind gen 0 [] key (l_gen s)])).
Proof.
  intros [HR [HA [HC HD]]]. unfold Inv, with_ra; simpl. split4.
  - intros id r Hn. destruct (HR id r Hn) as [R1 [R2 [R3 R4]]]. unfold res_inv; simpl. split4; auto.
    intros k Hs. destruct (R1 k Hs) as [a [Hk H]]. exists a. split; [|exact H].
    rewrite nth_error_app1; [exact Hk|]. apply nth_error_Some. congruence.
  - intros k a Hn. apply nth_snoc_some in Hn. destruct Hn as [[Hn _] | [-> ->]].
    + exact (HA k a Hn).
    + unfold att_inv; simpl. split; [reflexivity | intros _ id []].
  - exact HC.
  - exact HD.
Qed.

(* --- an attempt changes only its pc (and possibly appends nothing) *)
Lemma inv_set_pc s k a pc : Inv s -> nth_error (l_atts s) k = Some a ->
  a_pc a <> pc_done -> pc <> pc_done -> pc <> 0 ->
  Inv (with_ra s (l_res s) (upd (l_atts s) k (fun a => set_att a pc (a_res a)))).
Proof.
  intros [HR [HA [HC HD]]] Hk Hnd Hpc Hp0. unfold Inv, with_ra; simpl. split4.
  - intros id r Hn. destruct (HR id r Hn) as [R1 [R2 [R3 R4]]]. unfold res_inv; simpl. split4; auto.
    intros k' Hs. destruct (R1 k' Hs) as [a' [Hk' H]]. rewrite nth_upd.
    destruct (Nat.eqb k' k) eqn:E.
    + apply Nat.eqb_eq in E. subst k'. rewrite Hk' . simpl. rewrite Hk in Hk'. inversion Hk'; subst a'.
      eexists. split; [reflexivity|]. simpl. tauto.
    + exists a'. auto.
  - intros k' a' Hn. rewrite nth_upd in Hn. destruct (Nat.eqb k' k) eqn:E.
    + apply Nat.eqb_eq in E. subst k'. rewrite Hk in Hn. simpl in Hn. inversion Hn; subst a'.
      destruct (HA k a Hk) as [A0 A1]. unfold att_inv; simpl. split; [intros; lia|]. intros _. apply A1. exact Hnd.
    + exact (HA k' a' Hn).
  - exact HC.
  - exact HD.
Qed.

(* --- acquisition *)
Lemma inv_acquire_fail s k a : Inv s -> nth_error (l_atts s) k = Some a -> a_pc a = 0 ->
  Inv (with_ra s (l_res s) (upd (l_atts s) k (fun a => set_att a pc_done []))).
Proof.
  intros [HR [HA [HC HD]]] Hk Hp. unfold Inv, with_ra; simpl. split4.
  - intros id r Hn. destruct (HR id r Hn) as [R1 [R2 [R3 R4]]]. unfold res_inv; simpl. split4; auto.
    intros k' Hs. destruct (R1 k' Hs) as [a' [Hk' [Hnd [Hin H]]]]. rewrite nth_upd.
    destruct (Nat.eqb k' k) eqn:E.
    + apply Nat.eqb_eq in E. subst k'. rewrite Hk in Hk'. inversion Hk'; subst a'.
      destruct (HA k a Hk) as [A0 _]. rewrite (A0 Hp) in Hin. destruct Hin.
    + exists a'. auto.
  - intros k' a' Hn. rewrite nth_upd in Hn. destruct (Nat.eqb k' k) eqn:E.
    + apply Nat.eqb_eq in E. subst k'. rewrite Hk in Hn. simpl in Hn. inversion Hn; subst a'.
      unfold att_inv; simpl. split; [reflexivity|]. intros H. exfalso. apply H. reflexivity.
    + exact (HA k' a' Hn).
  - exact HC.
  - exact HD.
Qed.

Lemma inv_new_res s k a pc : Inv s -> nth_error (l_atts s) k = Some a ->
  pc <> pc_done -> pc <> 0 -> (a_pc a = 0 \/ a_pc a <> pc_done) ->
  Inv (with_ra s (l_res s ++ [new_res s k a])
               (upd (l_atts s) k (fun a => set_att a pc (a_res a ++ [length (l_res s)])))).
Proof.
  intros [HR [HA [HC HD]]] Hk Hpc Hp0 Hfl. unfold Inv, with_ra; simpl.
  assert (Hnd : a_pc a <> pc_done) by (destruct Hfl as [H | H]; [rewrite H; unfold pc_done; lia | exact H]).
  split4.
  - intros id r Hn. apply nth_snoc_some in Hn. destruct Hn as [[Hn Hlt] | [-> ->]].
    + destruct (HR id r Hn) as [R1 [R2 [R3 R4]]]. unfold res_inv; simpl. split4; auto.
      intros k' Hs. destruct (R1 k' Hs) as [a' [Hk' [Hnd' [Hin H]]]]. rewrite nth_upd.
      destruct (Nat.eqb k' k) eqn:E.
      * apply Nat.eqb_eq in E. subst k'. rewrite Hk in Hk'. inversion Hk'; subst a'. rewrite Hk. simpl.
        eexists. split; [reflexivity|]. simpl. split; [exact Hpc|]. split; [apply in_or_app; left; exact Hin | exact H].
      * exists a'. auto.
    + unfold res_inv, new_res; simpl. split4; try discriminate.
      intros k' Hs. inversion Hs; subst k'. rewrite nth_upd, Nat.eqb_refl, Hk. simpl.
      eexists. split; [reflexivity|]. simpl. split; [exact Hpc|]. split; [apply in_or_app; right; left; reflexivity | auto].
  - intros k' a' Hn. rewrite nth_upd in Hn. destruct (Nat.eqb k' k) eqn:E.
    + apply Nat.eqb_eq in E. subst k'. rewrite Hk in Hn. simpl in Hn. inversion Hn; subst a'.
      destruct (HA k a Hk) as [A0 A1]. unfold att_inv; simpl. split; [intros; lia|]. intros _ id Hin.
      apply in_app_or in Hin. destruct Hin as [Hin | [<- | []]].
      * destruct (A1 Hnd id Hin) as [r [Hr Hs]]. exists r. split; [|exact Hs].
        rewrite nth_error_app1; [exact Hr|]. apply nth_error_Some. congruence.
      * exists (new_res s k a). split; [|reflexivity]. rewrite nth_snoc, Nat.ltb_irrefl, Nat.eqb_refl. reflexivity.
    + destruct (HA k' a' Hn) as [A0 A1]. unfold att_inv; simpl. split; [exact A0|]. intros Hnd' id Hin.
      destruct (A1 Hnd' id Hin) as [r [Hr Hs]]. exists r. split; [|exact Hs].
      rewrite nth_error_app1; [exact Hr|]. apply nth_error_Some. congruence.
  - intros c cd Hn. unfold cand_inv; simpl. intros Hl.
    destruct (HC c cd Hn Hl) as [Hg Hres]. split; [exact Hg|]. intros id Hin.
    destruct (Hres id Hin) as [r [Hr Hs]]. exists r. split; [|exact Hs].
    rewrite nth_error_app1; [exact Hr|]. apply nth_error_Some. congruence.
  - exact HD.
Qed.

(* --- Close calls that change no status (the srflx watcher, the mux) *)
Lemma inv_res_same s rs' : Inv s -> length rs' = length (l_res s) ->
  (forall id r, nth_error (l_res s) id = Some r -> exists r', nth_error rs' id = Some r' /\ same_but_closed r r') ->
  Inv (with_ra s rs' (l_atts s)).
Proof.
  intros [HR [HA [HC HD]]] Hlen Hsame.
  assert (Hback : forall id r', nth_error rs' id = Some r' ->
            exists r, nth_error (l_res s) id = Some r /\ same_but_closed r r').
  { intros id r' Hn. assert (Hlt : id < length (l_res s)) by (rewrite <- Hlen; apply nth_error_Some; congruence).
    apply nth_error_Some in Hlt. destruct (nth_error (l_res s) id) as [r|] eqn:Hr; [|congruence].
    destruct (Hsame id r Hr) as [r'' [Hn' Hs]]. exists r. split; [reflexivity|]. congruence. }
  unfold Inv, with_ra; simpl. split4.
  - intros id r' Hn. destruct (Hback id r' Hn) as [r [Hr [Hg [Hk [Hm [Hst [Ho Hc]]]]]]].
    destruct (HR id r Hr) as [R1 [R2 [R3 R4]]]. unfold res_inv; simpl. rewrite Hst, Hg, Hk. split4; auto.
  - intros k a Hn. destruct (HA k a Hn) as [A0 A1]. unfold att_inv; simpl. split; [exact A0|].
    intros Hnd id Hin. destruct (A1 Hnd id Hin) as [r [Hr Hs]]. destruct (Hsame id r Hr) as [r' [Hr' [_ [_ [_ [Hst _]]]]]].
    exists r'. split; [exact Hr' | congruence].
  - intros c cd Hn. unfold cand_inv; simpl. intros Hl. destruct (HC c cd Hn Hl) as [Hg Hres]. split; [exact Hg|].
    intros id Hin. destruct (Hres id Hin) as [r [Hr Hs]]. destruct (Hsame id r Hr) as [r' [Hr' [_ [_ [_ [Hst _]]]]]].
    exists r'. split; [exact Hr' | congruence].
  - exact HD.
Qed.

Lemma same_refl r : same_but_closed r r.
Proof. unfold same_but_closed. repeat split; auto. Qed.

Lemma inv_watch s ids : Inv s -> Inv (with_ra s (upd_all (l_res s) ids close_call) (l_atts s)).
Proof.
  intros HI. apply inv_res_same; [exact HI | apply len_upd_all |].
  intros id r Hr. rewrite (nth_upd_all close_call close_call_idem), Hr.
  destruct (existsb (Nat.eqb id) ids); simpl; eexists; (split; [reflexivity|]); [apply close_call_same | apply same_refl].
Qed.

(* --- the failure exit of attempt k *)
Lemma inv_fail_exit s k a forget : Inv s -> nth_error (l_atts s) k = Some a -> a_pc a <> pc_done ->
  (forget = true -> a_kind a = KSrflx /\ v_srflx_close v = false) ->
  Inv (fail_exit forget s k a).
Proof.
  intros [HR [HA [HC HD]]] Hk Hnd Hforget. unfold fail_exit.
  set (f := if forget then leak else release).
  assert (Hf : forall x, f (f x) = f x) by (intros x; unfold f; destruct forget; [apply leak_idem | apply release_idem]).
  destruct (HA k a Hk) as [A0 A1]. specialize (A1 Hnd).
  unfold Inv, with_ra; simpl. split4.
  - intros id r' Hn. rewrite (nth_upd_all f Hf) in Hn.
    destruct (existsb (Nat.eqb id) (a_res a)) eqn:Ee.
    + inv_some. apply existsb_eqb_In in Ee. destruct (A1 id Ee) as [r0' [Hr0 Hs]].
      rewrite Heqo in Hr0. inversion Hr0; subst r0'.
      destruct (HR id r Heqo) as [R1 _]. destruct (R1 k Hs) as [a' [Hk' [_ [_ [Hg Hkind]]]]].
      rewrite Hk in Hk'. inversion Hk'; subst a'.
      unfold res_inv, f. destruct forget.
      * unfold leak. rewrite Hs. simpl. split4; try discriminate. intros _. rewrite Hkind. apply Hforget. reflexivity.
      * unfold release. rewrite Hs. simpl. split4; try discriminate. reflexivity.
    + destruct (HR id r' Hn) as [R1 [R2 [R3 R4]]]. unfold res_inv; simpl. split4; auto.
      intros k' Hs. destruct (R1 k' Hs) as [a' [Hk' [Hnd' [Hin H]]]]. rewrite nth_upd.
      destruct (Nat.eqb k' k) eqn:E.
      * apply Nat.eqb_eq in E. subst k'. rewrite Hk in Hk'. inversion Hk'; subst a'.
        apply existsb_eqb_In in Hin. congruence.
      * exists a'. auto.
  - intros k' a' Hn. rewrite nth_upd in Hn. destruct (Nat.eqb k' k) eqn:E.
    + apply Nat.eqb_eq in E. subst k'. rewrite Hk in Hn. simpl in Hn. inversion Hn; subst a'.
      unfold att_inv; simpl. split; [unfold pc_done; intros; lia|]. intros H. exfalso. apply H. reflexivity.
    + destruct (HA k' a' Hn) as [A0' A1']. unfold att_inv; simpl. split; [exact A0'|]. intros Hnd' id Hin.
      destruct (A1' Hnd' id Hin) as [r [Hr Hs]]. exists r. split; [|exact Hs].
      rewrite (nth_upd_all f Hf). destruct (existsb (Nat.eqb id) (a_res a)) eqn:Ee; [|exact Hr].
      apply existsb_eqb_In in Ee. destruct (A1 id Ee) as [r0 [Hr0 Hs0]]. rewrite Hr in Hr0. inversion Hr0; subst r0.
      rewrite Hs in Hs0. inversion Hs0. apply Nat.eqb_neq in E. congruence.
  - intros c cd Hn. unfold cand_inv; simpl. intros Hl. destruct (HC c cd Hn Hl) as [Hg Hres]. split; [exact Hg|].
    intros id Hin. destruct (Hres id Hin) as [r [Hr Hs]]. exists r. split; [|exact Hs].
    rewrite (nth_upd_all f Hf). destruct (existsb (Nat.eqb id) (a_res a)) eqn:Ee; [|exact Hr].
    apply existsb_eqb_In in Ee. destruct (A1 id Ee) as [r0 [Hr0 Hs0]]. rewrite Hr in Hr0. inversion Hr0; subst r0.
    congruence.
  - exact HD.
Qed.

(* --- addCandidate's task starts the candidate *)
Lemma inv_add_run s k a : Inv s -> nth_error (l_atts s) k = Some a -> a_pc a = pc_checked ->
  l_closed s = false -> (v_recheck v = true -> a_gen a = l_gen s) ->
  Inv (mkLed (l_gen s) (l_closed s) (l_close_done s) (l_failed s)
             (upd_all (l_res s) (a_res a) (own (length (l_cands s))))
             (upd (l_atts s) k (fun a => set_att a pc_done (a_res a)))
             (l_cands s ++ [mkCand true (l_gen s) (a_res a) (a_key a)])).
Proof.
  intros [HR [HA [HC HD]]] Hk Hpc Hcl Hre.
  assert (Hnd : a_pc a <> pc_done) by (rewrite Hpc; unfold pc_checked, pc_done; lia).
  destruct (HA k a Hk) as [A0 A1]. specialize (A1 Hnd).
  set (c := length (l_cands s)).
  unfold Inv; simpl. split4.
  - intros id r' Hn. rewrite (nth_upd_all (own c) (own_idem c)) in Hn.
    destruct (existsb (Nat.eqb id) (a_res a)) eqn:Ee.
    + inv_some. apply existsb_eqb_In in Ee. destruct (A1 id Ee) as [r0' [Hr0 Hs]].
      rewrite Heqo in Hr0. inversion Hr0; subst r0'.
      destruct (HR id r Heqo) as [R1 _]. destruct (R1 k Hs) as [a' [Hk' [_ [_ [Hg Hkind]]]]].
      rewrite Hk in Hk'. inversion Hk'; subst a'.
      unfold res_inv, own; simpl. split4; try discriminate.
      intros c' Hc'. inversion Hc'; subst c'. eexists. split; [unfold c; rewrite nth_snoc, Nat.ltb_irrefl, Nat.eqb_refl; reflexivity|].
      simpl. split; [reflexivity|]. split; [exact Ee|]. intros Hv. rewrite Hg. apply Hre. exact Hv.
    + destruct (HR id r' Hn) as [R1 [R2 [R3 R4]]]. unfold res_inv; simpl. split4; auto.
      * intros k' Hs. destruct (R1 k' Hs) as [a' [Hk' [Hnd' [Hin H]]]]. rewrite nth_upd.
        destruct (Nat.eqb k' k) eqn:E.
        -- apply Nat.eqb_eq in E. subst k'. rewrite Hk in Hk'. inversion Hk'; subst a'.
           apply existsb_eqb_In in Hin. congruence.
        -- exists a'. auto.
      * intros c' Hs. destruct (R2 c' Hs) as [cd [Hc' H]]. exists cd. split; [|exact H].
        rewrite nth_error_app1; [exact Hc'|]. apply nth_error_Some. congruence.
  - intros k' a' Hn. rewrite nth_upd in Hn. destruct (Nat.eqb k' k) eqn:E.
    + apply Nat.eqb_eq in E. subst k'. rewrite Hk in Hn. simpl in Hn. inversion Hn; subst a'.
      unfold att_inv; simpl. split; [unfold pc_done; intros; lia|]. intros H. exfalso. apply H. reflexivity.
    + destruct (HA k' a' Hn) as [A0' A1']. unfold att_inv; simpl. split; [exact A0'|]. intros Hnd' id Hin.
      destruct (A1' Hnd' id Hin) as [r [Hr Hs]]. exists r. split; [|exact Hs].
      rewrite (nth_upd_all (own c) (own_idem c)). destruct (existsb (Nat.eqb id) (a_res a)) eqn:Ee; [|exact Hr].
      apply existsb_eqb_In in Ee. destruct (A1 id Ee) as [r0 [Hr0 Hs0]]. rewrite Hr in Hr0. inversion Hr0; subst r0.
      rewrite Hs in Hs0. inversion Hs0. apply Nat.eqb_neq in E. congruence.
  - intros c' cd Hn. unfold cand_inv; simpl. intros Hl. apply nth_snoc_some in Hn. destruct Hn as [[Hn _] | [-> ->]].
    + destruct (HC c' cd Hn Hl) as [Hg Hres]. split; [exact Hg|].
      intros id Hin. destruct (Hres id Hin) as [r [Hr Hs]]. exists r. split; [|exact Hs].
      rewrite (nth_upd_all (own c) (own_idem c)). destruct (existsb (Nat.eqb id) (a_res a)) eqn:Ee; [|exact Hr].
      apply existsb_eqb_In in Ee. destruct (A1 id Ee) as [r0 [Hr0 Hs0]]. rewrite Hr in Hr0. inversion Hr0; subst r0.
      congruence.
    + simpl. split; [reflexivity|]. intros id Hin. destruct (A1 id Hin) as [r [Hr Hs]].
      exists (own c r). split; [|reflexivity].
      rewrite (nth_upd_all (own c) (own_idem c)). apply existsb_eqb_In in Hin. rewrite Hin, Hr. reflexivity.
  - intros Hd. destruct (HD Hd) as [Hc _]. congruence.
Qed.

(* --- deleteAllCandidates (Restart, Failed, the loop's onClose) *)
Lemma inv_delete s rs' gen cl cd fl :
  Inv s ->
  length rs' = length (l_res s) ->
  (forall id r', nth_error rs' id = Some r' -> exists r, nth_error (l_res s) id = Some r /\
     ((same_but_closed r r' /\ ~ exists c, In c (l_cands s) /\ c_live c = true /\ In id (c_res c)) \/
      (exists r1, same_but_closed r r1 /\ r' = release r1 /\ exists c, In c (l_cands s) /\ c_live c = true /\ In id (c_res c)))) ->
  (cd = true -> cl = true) ->
  Inv (mkLed gen cl cd fl rs' (l_atts s) (map kill (l_cands s))).
Proof.
  intros [HR [HA [HC HD]]] Hlen Hspec Hcd.
  assert (Hfwd : forall id r, nth_error (l_res s) id = Some r -> exists r', nth_error rs' id = Some r').
  { intros id r Hr. assert (Hlt : id < length rs') by (rewrite Hlen; apply nth_error_Some; congruence).
    apply nth_error_Some in Hlt. destruct (nth_error rs' id); [eauto | congruence]. }
  unfold Inv; simpl. split4.
  - intros id r' Hn. destruct (Hspec id r' Hn) as [r [Hr Hcase]].
    destruct (HR id r Hr) as [R1 [R2 [R3 R4]]].
    destruct Hcase as [[[Hg [Hk [Hm [Hst [Ho Hc]]]]] Hno] | [r1 [[Hg [Hk [Hm [Hst [Ho Hc]]]]] [-> Hex]]]].
    + unfold res_inv; simpl. rewrite Hst, Hg, Hk. split4; auto.
      intros c Hs. exfalso. destruct (R2 c Hs) as [cd0 [Hc0 [Hl [Hin _]]]]. apply Hno. exists cd0.
      split; [eapply nth_error_In; eauto | auto].
    + unfold res_inv, release. destruct (r_status r1) eqn:Es1; simpl; rewrite ?Es1.
      * split4; try discriminate. reflexivity.
      * split4; try discriminate. reflexivity.
      * split4; try discriminate. intros _. apply Ho. apply R3. congruence.
      * split4; try discriminate. intros _. rewrite Hk. apply R4. congruence.
  - intros k a Hn. destruct (HA k a Hn) as [A0 A1]. unfold att_inv; simpl. split; [exact A0|].
    intros Hnd id Hin. destruct (A1 Hnd id Hin) as [r [Hr Hs]]. destruct (Hfwd id r Hr) as [r' Hr'].
    exists r'. split; [exact Hr'|]. destruct (Hspec id r' Hr') as [r0 [Hr0 Hcase]]. rewrite Hr in Hr0. inversion Hr0; subst r0.
    destruct Hcase as [[[_ [_ [_ [Hst _]]]] _] | [r1 [_ [_ [c [Hc [Hl Hinc]]]]]]]; [congruence|].
    exfalso. apply In_nth_error in Hc. destruct Hc as [ci Hci]. destruct (HC ci c Hci Hl) as [_ Hres].
    destruct (Hres id Hinc) as [r2 [Hr2 Hs2]]. rewrite Hr in Hr2. inversion Hr2; subst r2. congruence.
  - intros c cd0 Hn. unfold cand_inv. rewrite nth_error_map in Hn. inv_some. simpl. discriminate.
  - intros Hd. split; [apply Hcd; exact Hd|]. intros c cd0 Hn. rewrite nth_error_map in Hn. inv_some. reflexivity.
Qed.

Lemma delete_all_spec s id r' : nth_error (fst (delete_all s)) id = Some r' ->
  exists r, nth_error (l_res s) id = Some r /\
     ((same_but_closed r r' /\ ~ exists c, In c (l_cands s) /\ c_live c = true /\ In id (c_res c)) \/
      (exists r1, same_but_closed r r1 /\ r' = release r1 /\ exists c, In c (l_cands s) /\ c_live c = true /\ In id (c_res c))).
Proof.
  unfold delete_all; simpl. intros H. destruct (close_cands_nth _ _ _ _ H) as [r1 [Hr1 Hor]].
  destruct (mux_remove_nth _ _ _ _ Hr1) as [r [Hr Hm]]. exists r. split; [exact Hr|].
  assert (Hs : same_but_closed r r1) by (destruct Hm as [-> | ->]; [apply same_refl | apply close_call_same]).
  destruct Hor as [[-> Hno] | [-> Hex]]; [left; auto | right; exists r1; auto].
Qed.

Lemma release_same r : r_status r = RReleased \/ r_status r = RLeaked -> release r = r.
Proof. unfold release. intros [-> | ->]; reflexivity. Qed.

Lemma delete_all_close_spec s id r' : Inv s -> nth_error (fst (delete_all_close s)) id = Some r' ->
  exists r, nth_error (l_res s) id = Some r /\
     ((same_but_closed r r' /\ ~ exists c, In c (l_cands s) /\ c_live c = true /\ In id (c_res c)) \/
      (exists r1, same_but_closed r r1 /\ r' = release r1 /\ exists c, In c (l_cands s) /\ c_live c = true /\ In id (c_res c))).
Proof.
  intros [HR [HA [HC HD]]]. unfold delete_all_close; simpl. intros H.
  destruct (mux_remove_nth _ _ _ _ H) as [r1 [Hr1 Hm]].
  destruct (close_cands_nth _ _ _ _ Hr1) as [r [Hr Hor]]. exists r. split; [exact Hr|].
  destruct Hor as [[-> Hno] | [-> Hex]].
  - left. split; [|exact Hno]. destruct Hm as [-> | ->]; [apply same_refl | apply close_call_same].
  - right. (* released first, then (not open any more) untouched by the mux *)
    destruct Hex as [c [Hc [Hl Hin]]]. pose proof Hc as Hc'. apply In_nth_error in Hc'. destruct Hc' as [ci Hci].
    destruct (HC ci c Hci Hl) as [_ Hres]. destruct (Hres id Hin) as [r2 [Hr2 Hs2]]. rewrite Hr in Hr2. inversion Hr2; subst r2.
    exists r. split; [apply same_refl|]. split; [|exists c; auto].
    destruct Hm as [-> | ->]; [reflexivity|]. unfold close_call, release. rewrite Hs2. reflexivity.
Qed.

Lemma len_delete_all s : length (fst (delete_all s)) = length (l_res s).
Proof. unfold delete_all; simpl. rewrite len_close_cands. unfold mux_remove. apply map_length. Qed.
Lemma len_delete_all_close s : length (fst (delete_all_close s)) = length (l_res s).
Proof. unfold delete_all_close; simpl. unfold mux_remove. rewrite map_length. apply len_close_cands. Qed.

(* ------------------------------------------------------------------ every step preserves the invariant *)
Lemma inv_step s x s' : Inv s -> apply v x s = Some s' -> Inv s'.
Proof.
  intros HI Hap. pose proof HI as [HR [HA [HC HD]]]. destruct x; cbn [apply] in Hap.
  - (* LSpawn *)
    destruct (_ && _); [|discriminate]. inversion Hap; subst. apply inv_spawn. exact HI.
  - (* LAcquire *)
    destruct (nth_error (l_atts s) k) as [a|] eqn:Hk; [|discriminate].
    destruct (Nat.eqb (a_pc a) 0) eqn:Ep; cbn [negb] in Hap; [|discriminate]. apply Nat.eqb_eq in Ep.
    destruct ok; inversion Hap; subst.
    + rewrite (upd_ext (l_atts s) k (fun a0 => set_att a0 1 [length (l_res s)])
                       (fun a0 => set_att a0 1 (a_res a0 ++ [length (l_res s)])) a Hk)
        by (rewrite (proj1 (HA k a Hk) Ep); reflexivity).
      apply inv_new_res; auto; unfold pc_done; lia.
    + apply (inv_acquire_fail s k a); auto.
  - (* LStep *)
    destruct (nth_error (l_atts s) k) as [a|] eqn:Hk; [|discriminate].
    destruct (Nat.leb 1 (a_pc a) && Nat.ltb (a_pc a) (ready_pc (a_kind a))) eqn:Ec; [|discriminate].
    apply andb_true_iff in Ec. destruct Ec as [E1 E2]. apply Nat.leb_le in E1. apply Nat.ltb_lt in E2.
    assert (Hr4 : ready_pc (a_kind a) <= 5) by (destruct (a_kind a); simpl; lia).
    assert (Hnd : a_pc a <> pc_done) by (unfold pc_done; lia).
    destruct ok.
    + destruct (akind_eqb (a_kind a) KRelay && (Nat.eqb (a_pc a) 1 || Nat.eqb (a_pc a) 3)); inversion Hap; subst.
      * rewrite (upd_ext (l_atts s) k (fun a0 => set_att a0 (S (a_pc a0)) (a_res a0 ++ [length (l_res s)]))
                         (fun a0 => set_att a0 (S (a_pc a)) (a_res a0 ++ [length (l_res s)])) a Hk eq_refl).
        apply inv_new_res; auto; unfold pc_done; lia.
      * rewrite (upd_ext (l_atts s) k (fun a0 => set_att a0 (S (a_pc a0)) (a_res a0))
                         (fun a0 => set_att a0 (S (a_pc a)) (a_res a0)) a Hk eq_refl).
        apply (inv_set_pc s k a); auto; unfold pc_done; lia.
    + inversion Hap; subst. apply inv_fail_exit; auto. discriminate.
  - (* LWatch *)
    destruct (nth_error (l_atts s) k) as [a|] eqn:Hk; [|discriminate].
    destruct (_ && _); [|discriminate]. inversion Hap; subst. apply inv_watch. exact HI.
  - (* LAddCheck *)
    destruct (nth_error (l_atts s) k) as [a|] eqn:Hk; [|discriminate].
    destruct (Nat.eqb (a_pc a) (ready_pc (a_kind a))) eqn:Ep; cbn [negb] in Hap; [|discriminate]. apply Nat.eqb_eq in Ep.
    assert (Hnd : a_pc a <> pc_done) by (rewrite Ep; unfold pc_done; destruct (a_kind a); simpl; lia).
    destruct (cancelled s a); inversion Hap; subst.
    + apply inv_fail_exit; auto. intros Hf. apply andb_true_iff in Hf. destruct Hf as [Hk' Hv].
      split; [destruct (a_kind a); simpl in Hk'; congruence | apply negb_true_iff in Hv; exact Hv].
    + apply (inv_set_pc s k a); auto; unfold pc_checked, pc_done; lia.
  - (* LAddRun *)
    destruct (nth_error (l_atts s) k) as [a|] eqn:Hk; [|discriminate].
    destruct (Nat.eqb (a_pc a) pc_checked && negb (l_closed s) && negb (v_recheck v && cancelled s a)) eqn:Ec; [|discriminate].
    rewrite !andb_true_iff in Ec. destruct Ec as [[Ep Ecl] Ere]. apply Nat.eqb_eq in Ep.
    apply negb_true_iff in Ecl. apply negb_true_iff in Ere.
    assert (Hnd : a_pc a <> pc_done) by (rewrite Ep; unfold pc_checked, pc_done; lia).
    destruct (l_failed s || existsb _ (l_cands s)); inversion Hap; subst.
    + apply inv_fail_exit; auto. discriminate.
    + apply inv_add_run; auto. intros Hv. rewrite Hv in Ere. simpl in Ere. unfold cancelled in Ere.
      apply orb_false_iff in Ere. destruct Ere as [Eg _]. apply negb_false_iff in Eg. apply Nat.eqb_eq in Eg. exact Eg.
  - (* LAddAbort *)
    destruct (nth_error (l_atts s) k) as [a|] eqn:Hk; [|discriminate].
    destruct (Nat.eqb (a_pc a) pc_checked && cancelled s a) eqn:Ec; [|discriminate].
    apply andb_true_iff in Ec. destruct Ec as [Ep _]. apply Nat.eqb_eq in Ep.
    inversion Hap; subst. apply inv_fail_exit; auto.
    + rewrite Ep. unfold pc_checked, pc_done. lia.
    + intros Hf. apply andb_true_iff in Hf. destruct Hf as [Hk' Hv].
      split; [destruct (a_kind a); simpl in Hk'; congruence | apply negb_true_iff in Hv; exact Hv].
  - (* LRestart *)
    destruct (l_closed s); [discriminate|]. destruct (delete_all s) as [rs cs] eqn:Ed. inversion Hap; subst.
    assert (Hcs : cs = map kill (l_cands s)) by (unfold delete_all in Ed; inversion Ed; reflexivity). subst cs.
    apply inv_delete; auto.
    + change rs with (fst (rs, map kill (l_cands s))). rewrite <- Ed. apply len_delete_all.
    + intros id r' Hn. apply delete_all_spec. rewrite Ed. exact Hn.
  - (* LFailed *)
    destruct (l_closed s); [discriminate|]. destruct (l_failed s); [inversion Hap; subst; exact HI|].
    destruct (delete_all s) as [rs cs] eqn:Ed. inversion Hap; subst.
    assert (Hcs : cs = map kill (l_cands s)) by (unfold delete_all in Ed; inversion Ed; reflexivity). subst cs.
    apply inv_delete; auto.
    + change rs with (fst (rs, map kill (l_cands s))). rewrite <- Ed. apply len_delete_all.
    + intros id r' Hn. apply delete_all_spec. rewrite Ed. exact Hn.
  - (* LClose *)
    inversion Hap; subst. unfold Inv; simpl. split4; auto.
    intros Hd. split; [reflexivity|]. apply (HD Hd).
  - (* LCloseDone *)
    destruct (l_closed s && negb (l_close_done s) && forallb _ (l_atts s)) eqn:Ec; [|discriminate].
    destruct (delete_all_close s) as [rs cs] eqn:Ed. inversion Hap; subst.
    assert (Hcs : cs = map kill (l_cands s)) by (unfold delete_all_close in Ed; inversion Ed; reflexivity). subst cs.
    apply inv_delete; auto.
    + change rs with (fst (rs, map kill (l_cands s))). rewrite <- Ed. apply len_delete_all_close.
    + intros id r' Hn. apply delete_all_close_spec; [exact HI|]. rewrite Ed. exact Hn.
Qed.

Theorem reach_inv s : reach v s -> Inv s.
Proof. induction 1 as [|s s' Hr IH [x Hs]]; [apply inv_init | eapply inv_step; eauto]. Qed.
End Ledger.

(* ------------------------------------------------------------------ the statements of C09 *)

Lemma forallb_nth {A} (f : A -> bool) l k x : forallb f l = true -> nth_error l k = Some x -> f x = true.
Proof. intros H Hn. rewrite forallb_forall in H. apply H. eapply nth_error_In; eauto. Qed.

(* at quiescence after Close has returned nothing is open -- for the variant that closes the
   server-reflexive socket when addCandidate fails *)
Theorem no_leak_after_close v s :
  reach v s -> v_srflx_close v = true -> quiescent s = true -> l_close_done s = true ->
  forall id r, nth_error (l_res s) id = Some r -> r_open r = false /\ r_status r = RReleased.
Proof.
  intros Hr Hv Hq Hd id r Hn. destruct (reach_inv v s Hr) as [HR [HA [HC HD]]].
  destruct (HR id r Hn) as [R1 [R2 [R3 R4]]]. destruct (r_status r) eqn:Es.
  - exfalso. destruct (R1 k eq_refl) as [a [Hk [Hnd _]]]. unfold quiescent in Hq.
    pose proof (forallb_nth _ _ _ _ Hq Hk) as E. apply Nat.eqb_eq in E. congruence.
  - exfalso. destruct (R2 c eq_refl) as [cd [Hc [Hl _]]]. destruct (HD Hd) as [_ Hdead]. rewrite (Hdead c cd Hc) in Hl. discriminate.
  - auto.
  - destruct (R4 eq_refl) as [_ H]. congruence.
Qed.

(* the pinned code: the same for every resource that is not a server-reflexive socket; a leaked
   resource is a server-reflexive socket *)
Theorem no_leak_after_close_partial v s :
  reach v s -> quiescent s = true -> l_close_done s = true ->
  forall id r, nth_error (l_res s) id = Some r ->
    (r_kind r <> KSrflx -> r_open r = false /\ r_status r = RReleased) /\
    (r_open r = true -> r_status r = RLeaked /\ r_kind r = KSrflx /\ v_srflx_close v = false).
Proof.
  intros Hr Hq Hd id r Hn. destruct (reach_inv v s Hr) as [HR [HA [HC HD]]].
  destruct (HR id r Hn) as [R1 [R2 [R3 R4]]]. destruct (r_status r) eqn:Es.
  - exfalso. destruct (R1 k eq_refl) as [a [Hk [Hnd _]]]. unfold quiescent in Hq.
    pose proof (forallb_nth _ _ _ _ Hq Hk) as E. apply Nat.eqb_eq in E. congruence.
  - exfalso. destruct (R2 c eq_refl) as [cd [Hc [Hl _]]]. destruct (HD Hd) as [_ Hdead]. rewrite (Hdead c cd Hc) in Hl. discriminate.
  - split; [auto|]. intros Ho. rewrite (R3 eq_refl) in Ho. discriminate.
  - destruct (R4 eq_refl) as [Hk Hv]. split; [congruence | auto].
Qed.

(* after Restart, once the superseded cycles have wound down, nothing of an ended generation is
   open -- for the variant that also re-checks the context in the addCandidate task *)
Theorem no_leak_after_restart v s :
  reach v s -> v_srflx_close v = true -> v_recheck v = true -> old_quiescent s = true ->
  forall id r, nth_error (l_res s) id = Some r -> r_gen r <> l_gen s -> r_open r = false /\ r_status r = RReleased.
Proof.
  intros Hr Hv Hre Hq id r Hn Hg. destruct (reach_inv v s Hr) as [HR [HA [HC HD]]].
  destruct (HR id r Hn) as [R1 [R2 [R3 R4]]]. destruct (r_status r) eqn:Es.
  - exfalso. destruct (R1 k eq_refl) as [a [Hk [Hnd [_ [Hrg _]]]]]. unfold old_quiescent in Hq.
    pose proof (forallb_nth _ _ _ _ Hq Hk) as E. apply orb_true_iff in E. destruct E as [E | E]; apply Nat.eqb_eq in E; congruence.
  - exfalso. destruct (R2 c eq_refl) as [cd [Hc [Hl [_ Hrg]]]]. destruct (HC c cd Hc Hl) as [Hcg _].
    rewrite (Hrg Hre) in Hg. congruence.
  - auto.
  - destruct (R4 eq_refl) as [_ H]. congruence.
Qed.

(* no resource is released before its time: while the agent is not closed, what a live candidate
   owns and what an in-flight attempt holds is exactly what is accounted for *)
Theorem accounted v s id r :
  reach v s -> nth_error (l_res s) id = Some r -> r_open r = true ->
  (exists k a, r_status r = RHeld k /\ nth_error (l_atts s) k = Some a /\ a_pc a <> pc_done) \/
  (exists c cd, r_status r = ROwned c /\ nth_error (l_cands s) c = Some cd /\ c_live cd = true) \/
  (r_status r = RLeaked /\ r_kind r = KSrflx /\ v_srflx_close v = false).
Proof.
  intros Hr Hn Ho. destruct (reach_inv v s Hr) as [HR _]. destruct (HR id r Hn) as [R1 [R2 [R3 R4]]].
  destruct (r_status r) eqn:Es.
  - left. destruct (R1 k eq_refl) as [a [Hk [Hnd _]]]. eauto.
  - right. left. destruct (R2 c eq_refl) as [cd [Hc [Hl _]]]. eauto.
  - rewrite (R3 eq_refl) in Ho. discriminate.
  - right. right. destruct (R4 eq_refl). auto.
Qed.

(* --- released at most once: a resource never re-opens, its Close-call count only grows, a
       released resource stays released, and generation and kind never change *)
Definition res_step (r r' : res) : Prop :=
  (r_open r = false -> r_open r' = false) /\ r_calls r <= r_calls r' /\
  (r_status r = RReleased -> r_status r' = RReleased) /\
  r_gen r' = r_gen r /\ r_kind r' = r_kind r.

Lemma res_step_refl r : res_step r r.
Proof. unfold res_step. repeat split; auto. Qed.
Lemma res_step_release r : res_step r (release r).
Proof. unfold res_step, release. destruct (r_status r) eqn:E; simpl; repeat split; auto; try lia; congruence. Qed.
Lemma res_step_leak r : res_step r (leak r).
Proof. unfold res_step, leak. destruct (r_status r) eqn:E; simpl; repeat split; auto; congruence. Qed.
Lemma res_step_trans a b c : res_step a b -> res_step b c -> res_step a c.
Proof.
  unfold res_step. intros [A1 [A2 [A3 [A4 A5]]]] [B1 [B2 [B3 [B4 B5]]]]. repeat split; auto; try lia; congruence.
Qed.
Lemma res_step_same r r' : same_but_closed r r' -> res_step r r'.
Proof. unfold same_but_closed, res_step. intros [A [B [C [D [E F]]]]]. repeat split; auto. congruence. Qed.

Lemma upd_all_step f (Hf : forall x, f (f x) = f x) l ids id r :
  nth_error l id = Some r -> (In id ids -> res_step r (f r)) ->
  exists r', nth_error (upd_all l ids f) id = Some r' /\ res_step r r'.
Proof.
  intros Hn Hs. rewrite (nth_upd_all f Hf), Hn. destruct (existsb (Nat.eqb id) ids) eqn:E; simpl; eexists; (split; [reflexivity|]).
  - apply Hs. apply existsb_eqb_In. exact E.
  - apply res_step_refl.
Qed.

Theorem released_at_most_once v s x s' id r :
  reach v s -> apply v x s = Some s' -> nth_error (l_res s) id = Some r ->
  exists r', nth_error (l_res s') id = Some r' /\ res_step r r'.
Proof.
  intros Hr Hap Hn. pose proof (reach_inv v s Hr) as HI. pose proof HI as [HR [HA [HC HD]]].
  assert (Hsame : exists r', nth_error (l_res s) id = Some r' /\ res_step r r') by (exists r; split; [exact Hn | apply res_step_refl]).
  assert (Happ : forall y, exists r', nth_error (l_res s ++ [y]) id = Some r' /\ res_step r r').
  { intros y. exists r. split; [|apply res_step_refl]. rewrite nth_error_app1; [exact Hn|]. apply nth_error_Some. congruence. }
  assert (Hfail : forall forget k a, exists r', nth_error (l_res (fail_exit forget s k a)) id = Some r' /\ res_step r r').
  { intros forget k a. unfold fail_exit; simpl. destruct forget.
    - apply (upd_all_step leak leak_idem); [exact Hn | intros _; apply res_step_leak].
    - apply (upd_all_step release release_idem); [exact Hn | intros _; apply res_step_release]. }
  assert (Hdel : forall rs, (forall j r', nth_error rs j = Some r' -> exists r0, nth_error (l_res s) j = Some r0 /\
              ((same_but_closed r0 r' /\ ~ exists c, In c (l_cands s) /\ c_live c = true /\ In j (c_res c)) \/
               (exists r1, same_but_closed r0 r1 /\ r' = release r1 /\ exists c, In c (l_cands s) /\ c_live c = true /\ In j (c_res c)))) ->
            length rs = length (l_res s) -> exists r', nth_error rs id = Some r' /\ res_step r r').
  { intros rs Hspec Hlen. assert (Hlt : id < length rs) by (rewrite Hlen; apply nth_error_Some; congruence).
    apply nth_error_Some in Hlt. destruct (nth_error rs id) as [r'|] eqn:Hr'; [|congruence].
    exists r'. split; [reflexivity|]. destruct (Hspec id r' Hr') as [r0 [Hr0 Hcase]]. rewrite Hn in Hr0. inversion Hr0; subst r0.
    destruct Hcase as [[Hs _] | [r1 [Hs [-> _]]]]; [apply res_step_same; exact Hs|].
    eapply res_step_trans; [apply res_step_same; exact Hs | apply res_step_release]. }
  destruct x; cbn [apply] in Hap.
  - destruct (_ && _); [|discriminate]. inversion Hap; subst; simpl. exact Hsame.
  - destruct (nth_error (l_atts s) k) as [a|]; [|discriminate]. destruct (negb _); [discriminate|].
    destruct ok; inversion Hap; subst; simpl; [apply Happ | exact Hsame].
  - destruct (nth_error (l_atts s) k) as [a|]; [|discriminate]. destruct (_ && _); [|discriminate].
    destruct ok; [|inversion Hap; subst; apply Hfail].
    destruct (_ && _); inversion Hap; subst; simpl; [apply Happ | exact Hsame].
  - destruct (nth_error (l_atts s) k) as [a|]; [|discriminate]. destruct (_ && _); [|discriminate].
    inversion Hap; subst; simpl. apply (upd_all_step close_call close_call_idem); [exact Hn|].
    intros _. apply res_step_same. apply close_call_same.
  - destruct (nth_error (l_atts s) k) as [a|] eqn:Hk; [|discriminate]. destruct (negb _); [discriminate|].
    destruct (cancelled s a); inversion Hap; subst; [apply Hfail | simpl; exact Hsame].
  - destruct (nth_error (l_atts s) k) as [a|] eqn:Hk; [|discriminate].
    destruct (Nat.eqb (a_pc a) pc_checked && negb (l_closed s) && negb (v_recheck v && cancelled s a)) eqn:Ec; [|discriminate].
    destruct (_ || _); inversion Hap; subst; [apply Hfail|]. simpl.
    apply (upd_all_step (own (length (l_cands s))) (own_idem _)); [exact Hn|].
    intros Hin. rewrite !andb_true_iff in Ec. destruct Ec as [[Ep _] _]. apply Nat.eqb_eq in Ep.
    destruct (HA k a Hk) as [_ A1].
    assert (Hnd : a_pc a <> pc_done) by (rewrite Ep; unfold pc_checked, pc_done; lia).
    destruct (A1 Hnd id Hin) as [r0 [Hr0 Hs0]]. rewrite Hn in Hr0. inversion Hr0; subst r0.
    unfold res_step, own; simpl. repeat split; auto. congruence.
  - destruct (nth_error (l_atts s) k) as [a|]; [|discriminate]. destruct (_ && _); [|discriminate].
    inversion Hap; subst. apply Hfail.
  - destruct (l_closed s); [discriminate|]. destruct (delete_all s) as [rs cs] eqn:Ed. inversion Hap; subst; simpl.
    apply Hdel.
    + intros j r' Hj. apply delete_all_spec. rewrite Ed. exact Hj.
    + change rs with (fst (rs, cs)). rewrite <- Ed. apply len_delete_all.
  - destruct (l_closed s); [discriminate|]. destruct (l_failed s); [inversion Hap; subst; exact Hsame|].
    destruct (delete_all s) as [rs cs] eqn:Ed. inversion Hap; subst; simpl.
    apply Hdel.
    + intros j r' Hj. apply delete_all_spec. rewrite Ed. exact Hj.
    + change rs with (fst (rs, cs)). rewrite <- Ed. apply len_delete_all.
  - inversion Hap; subst; simpl. exact Hsame.
  - destruct (_ && _); [|discriminate]. destruct (delete_all_close s) as [rs cs] eqn:Ed. inversion Hap; subst; simpl.
    apply Hdel.
    + intros j r' Hj. apply (delete_all_close_spec v); [exact HI|]. rewrite Ed. exact Hj.
    + change rs with (fst (rs, cs)). rewrite <- Ed. apply len_delete_all_close.
Qed.

(* --- the pinned code leaks: refuted statement (cancel between the STUN reply and addCandidate) *)
Fixpoint run_actions (v : variant) (s : led) (l : list action) : option led :=
  match l with
  | [] => Some s
  | x :: t => match apply v x s with Some s' => run_actions v s' t | None => None end
  end.
Lemma run_actions_reach v : forall l s s', reach v s -> run_actions v s l = Some s' -> reach v s'.
Proof.
  induction l as [|x l IH]; intros s s' Hr H; simpl in H; [inversion H; subst; exact Hr|].
  destruct (apply v x s) as [s1|] eqn:E; [|discriminate].
  apply (IH s1 s'); [eapply reach_step; [exact Hr | exists x; exact E] | exact H].
Qed.

Definition leak_run : list action :=
  [LSpawn KSrflx 0 1; LAcquire 0 true; LStep 0 true; LRestart; LAddCheck 0; LClose; LCloseDone].

Lemma srflx_leak_witness :
  exists s, reach pinned s /\ quiescent s = true /\ l_close_done s = true /\ open_count s = 1.
Proof.
  destruct (run_actions pinned led_init leak_run) as [s|] eqn:E; [|vm_compute in E; discriminate].
  exists s. split; [eapply run_actions_reach; [apply reach_init | exact E]|].
  vm_compute in E. inversion E; subst. vm_compute. auto.
Qed.

(* the same schedule on the repaired variant ends with everything closed (non-vacuity of the
   theorems' hypotheses) *)
Lemma repaired_run_example :
  exists s, reach repaired s /\ quiescent s = true /\ l_close_done s = true /\ open_count s = 0 /\ length (l_res s) = 1.
Proof.
  destruct (run_actions repaired led_init leak_run) as [s|] eqn:E; [|vm_compute in E; discriminate].
  exists s. split; [eapply run_actions_reach; [apply reach_init | exact E]|].
  vm_compute in E. inversion E; subst. vm_compute. auto.
Qed.

(* the scripted scenarios only produce reachable ledgers *)
Lemma run_ev_reach v s e s' : reach v s -> run_ev v s e = Some s' -> reach v s'.
Proof.
  intros Hr H. destruct e; unfold run_ev in H; try (eapply reach_step; [exact Hr | eexists; exact H]).
  destruct (apply v (LAddCheck (last_att s)) s) as [s1|] eqn:E1; [|discriminate].
  assert (Hr1 : reach v s1) by (eapply reach_step; [exact Hr | eexists; exact E1]).
  destruct (nth_error (l_atts s1) (last_att s)) as [a|]; [|inversion H; subst; exact Hr1].
  destruct (Nat.eqb (a_pc a) pc_checked); [|inversion H; subst; exact Hr1].
  eapply reach_step; [exact Hr1 | eexists; exact H].
Qed.

(* the monitor's decisive check on a checkpoint taken after Close returned and everything wound
   down, evaluated on the model's own checkpoint *)
Lemma checkpoint_after_close v s :
  reach v s -> v_srflx_close v = true -> quiescent s = true -> l_close_done s = true ->
  forallb (fun p => Z.eqb (fst p) 0) (fst (checkpoint s)) = true /\ snd (checkpoint s) = 0%Z.
Proof.
  intros Hr Hv Hq Hd. unfold checkpoint; simpl. split.
  - apply forallb_forall. intros p Hp. apply in_map_iff in Hp. destruct Hp as [r [<- Hin]].
    apply In_nth_error in Hin. destruct Hin as [id Hn].
    destruct (no_leak_after_close v s Hr Hv Hq Hd id r Hn) as [Ho _]. unfold res_obs. rewrite Ho. reflexivity.
  - destruct (reach_inv v s Hr) as [_ [_ [_ HD]]]. destruct (HD Hd) as [_ Hdead].
    assert (E : forall l, (forall c cd, nth_error l c = Some cd -> c_live cd = false) -> filter c_live l = []).
    { induction l as [|cd l IH]; intros Hl; [reflexivity|]. simpl.
      rewrite (Hl 0 cd eq_refl). apply IH. intros c cd' Hc. apply (Hl (S c) cd'). exact Hc. }
    rewrite (E _ Hdead). reflexivity.
Qed.

Lemma checkpoint_phase3_checks v s prev per_cand :
  reach v s -> v_srflx_close v = true -> quiescent s = true -> l_close_done s = true ->
  In ("zero_open_after_close"%string, true)
     (C09_checkpoint_checks 3 per_cand prev (fst (checkpoint s)) (snd (checkpoint s))).
Proof.
  intros Hr Hv Hq Hd. destruct (checkpoint_after_close v s Hr Hv Hq Hd) as [H1 H2].
  assert (E : forall l, forallb (fun p : Z * Z => (fst p =? 0)%Z) l = true ->
                        filter (fun p : Z * Z => (fst p =? 1)%Z) l = []).
  { induction l as [|p l IH]; intros Hl; [reflexivity|]. simpl in *.
    apply andb_true_iff in Hl. destruct Hl as [Hp Hl]. apply Z.eqb_eq in Hp. rewrite Hp. simpl. apply IH. exact Hl. }
  unfold C09_checkpoint_checks. rewrite (E _ H1), H2. cbn. do 6 right. left. reflexivity.
Qed.
