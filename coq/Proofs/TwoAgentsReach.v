(* C01 (provenance of valid pairs): a pair becomes valid only by a success response that arrived on the pair's
   own socket from the pair's remote address.  Single agent, full (non-lite), for every operation. *)
From Coq Require Import ZArith Bool List Lia.
From Ice Require Import Model.AgentTypes Model.AgentCore Model.PairMonitor Model.TwoAgents Gen.Consts Gen.Lifecycle Proofs.AgentFrame Proofs.AgentC06
     Proofs.AgentC03Sel Proofs.AgentLoc Proofs.AgentRem Proofs.TwoAgentsProofs.
Import ListNotations.
Local Open Scope Z_scope.

Section Provenance.
Variable K : Z -> addr -> Prop.     (* which (local socket, remote address) keys may be valid *)

Definition okp (p : pair) : Prop := p_state p = CandidatePairStateSucceeded -> K (c_h (p_loc p)) (c_addr (p_rem p)).
Definition SK (s : state) : Prop := Forall okp (s_checklist s).
Definition Inv3 (l : cand) (s : state) : Prop := s_closed s = false /\ InvU s /\ Ll l s /\ SK s.

Lemma SK_view s s' : s_checklist s' = s_checklist s -> SK s -> SK s'.
Proof. unfold SK. intros ->. auto. Qed.
Lemma SK_nil s : s_checklist s = [] -> SK s.
Proof. unfold SK. intros ->. constructor. Qed.

Lemma SK_upd id f s :
  (forall q, p_id q = id -> okp q -> okp (f q)) -> SK s -> SK (upd id f s).
Proof.
  intros Hf H. unfold SK, upd in *. cbn. rewrite Forall_forall in *. intros q Hq. apply in_map_iff in Hq.
  destruct Hq as [q0 [E Hq0]]. destruct (Z.eqb_spec (p_id q0) id) as [Ei|]; subst q; [apply Hf; [exact Ei|apply H; exact Hq0]|apply H; exact Hq0].
Qed.

Lemma SK_add_pair l r s : SK s -> SK (fst (add_pair l r s)).
Proof.
  intros H. unfold SK in *. cbn. apply Forall_app. split; [exact H|]. constructor; [|constructor].
  unfold okp. cbn. discriminate.
Qed.

Lemma SK_update_conn st s : SK s -> SK (fst (update_conn st s)).
Proof.
  intros H. unfold update_conn. destruct (s_conn s =? st); [exact H|].
  destruct (st =? ConnectionStateFailed); cbn [fst]; [apply SK_nil; reflexivity|eapply SK_view; [|exact H]; reflexivity].
Qed.

Lemma InvU_update_conn st s : InvU s -> InvU (fst (update_conn st s)).
Proof. intros H. exact (presU_update_conn st s H). Qed.

(* a function on pairs that keeps the key and never makes a pair valid *)
Definition inert (f : pair -> pair) : Prop :=
  forall q, p_loc (f q) = p_loc q /\ p_rem (f q) = p_rem q /\ (p_state (f q) = CandidatePairStateSucceeded -> p_state q = CandidatePairStateSucceeded).
Lemma inert_okp f q : inert f -> okp q -> okp (f q).
Proof. intros Hf Hq. destruct (Hf q) as [E1 [E2 E3]]. unfold okp in *. rewrite E1, E2. intros Hs. apply Hq. apply E3. exact Hs. Qed.

Ltac inert_tac := intros ?q; cbn; repeat split; first [reflexivity | intros ?H; first [exact H | discriminate H]].

Ltac c_leaf :=
  match goal with
  | |- satG (Inv3 _) mp_true (emit _) => apply satG_emit; intros ?s ?Hg; exact I
  | |- satG (Inv3 ?l) mp_true (update_conn ConnectionStateConnected) =>
    intros ?s [?HC [?HU [?HLl ?HSK]]]; (split; [exact I|]); split; [rewrite closed_update_conn; assumption|split; [apply InvU_update_conn; assumption|split;
      [exact (proj2 (Ll_update_conn_live l ConnectionStateConnected ltac:(discriminate) _ HLl))|apply SK_update_conn; assumption]]]
  | |- satG (Inv3 ?l) mp_true (add_pair ?l ?r) =>
    intros ?s [?HC [?HU [?HLl ?HSK]]]; (split; [exact I|]); split; [cbn; assumption|split; [exact (presU_add_pair l r _ HU)|split;
      [destruct HLl as [?Hc|[?HL ?Hin]]; [left; cbn; assumption|right; split; [apply (L_add_pair l _ _ Hin HL)|cbn; assumption]]
      |apply SK_add_pair; assumption]]]
  | |- satG (Inv3 _) mp_true (upd_pair ?id ?f) =>
    apply satG_upd_pair; intros ?s [?HC [?HU [?HLl ?HSK]]]; (split; [exact I|]); split; [cbn; assumption|split;
      [apply InvU_upd; [cbn; intros; first [assumption|reflexivity]|assumption]
      |split; [destruct HLl as [?Hc|[?HL ?Hin]]; [left; cbn; assumption|right; split; [apply L_upd; [cbn; intros; reflexivity|assumption]|cbn; assumption]]
              |apply SK_upd; [intros ?q0 _ ?Hq0; apply inert_okp; [inert_tac|exact Hq0]|assumption]]]]
  | |- satG (Inv3 _) mp_true (modify _) =>
    apply satG_modify; intros ?s [?HC [?HU [?HLl ?HSK]]]; (split; [exact I|]); split; [cbn; destruct_matches; assumption|split;
      [eapply InvU_view; [|eassumption]; cbn; destruct_matches; reflexivity
      |split; [destruct HLl as [?Hc|[?HL ?Hin]];
                 [left; cbn; destruct_matches; first [assumption|reflexivity]
                 |right; split; [eapply L_view; [|eassumption]; cbn; destruct_matches; reflexivity|cbn; destruct_matches; assumption]]
              |eapply SK_view; [|eassumption]; cbn; destruct_matches; reflexivity]]]
  end.

(* ---- SK alone: blocks that never make a pair valid ---------------------------------------------------- *)
Ltac sk_leaf :=
  match goal with
  | |- satG SK mp_true (emit _) => apply satG_emit; intros ?s ?Hg; exact I
  | |- satG SK mp_true (update_conn _) => intros ?s ?Hs; split; [exact I|apply SK_update_conn; assumption]
  | |- satG SK mp_true (add_pair _ _) => intros ?s ?Hs; split; [exact I|apply SK_add_pair; assumption]
  | |- satG SK mp_true (upd_pair _ _) =>
    apply satG_upd_pair; intros ?s ?HSK; split; [exact I|];
    apply SK_upd; [intros ?q0 _ ?Hq0; apply inert_okp; [inert_tac|exact Hq0]|assumption]
  | |- satG SK mp_true (modify _) =>
    apply satG_modify; intros ?s ?HSK; split; [exact I|];
    first [eapply SK_view; [|eassumption]; cbn; destruct_matches; reflexivity | apply SK_nil; cbn; destruct_matches; reflexivity]
  end.

Lemma SK_pairing c locs0 : satG SK mp_true (for_each locs0 (fun l' => with_state (find_pair l' c) (fun op => match op with Some _ => nop | None => add_pair l' c end))).
Proof. apply satG_for_each. intros l'. satG_split_eq. all: sk_leaf. Qed.

(* addRemoteCandidate when no peer-reflexive candidate is superseded *)
Definition no_supersede (c : cand) (set : list cand) : Prop :=
  (if c_typ c =? CandidateTypePeerReflexive then [] else filter (fun e => (c_typ e =? CandidateTypePeerReflexive) && cand_taddr_eqb e c) set) = [].

Lemma SK_add_remote_body c set : no_supersede c set -> satG SK mp_true (add_remote_body c set).
Proof.
  intros Hn. unfold add_remote_body. unfold no_supersede in Hn. rewrite Hn. cbn [for_each].
  satG_split_eq; try sk_leaf. all: try (apply SK_pairing).
Qed.

(* ---- superseding a peer-reflexive candidate keeps the key of every valid pair ------------------------------ *)
Definition same_addr_as (c : cand) (red : list cand) (s : state) : Prop :=
  Forall (fun p => forall o, In o red -> c_h (p_rem p) = c_h o -> c_addr (p_rem p) = c_addr c) (s_checklist s).

Lemma SK_reselect pid : satG SK mp_true (reselect pid).
Proof. unfold reselect, set_selected. satG_split_eq; sk_leaf. Qed.

Lemma okp_repl c p0 : okp p0 -> c_addr (p_rem p0) = c_addr c -> okp (set_p_prio_ov (Some (pair_priority p0)) (set_p_rem c p0)).
Proof. unfold okp. cbn. intros H E Hs. rewrite <- E. apply H. exact Hs. Qed.

Lemma SK_replace old c s :
  SK s -> (forall p, In p (s_checklist s) -> c_h (p_rem p) = c_h old -> c_addr (p_rem p) = c_addr c) ->
  SK (fst (replace_remote_in_pairs old c s)).
Proof.
  intros HS HF. unfold replace_remote_in_pairs. rewrite with_state_eq.
  set (Lst := filter (fun p => c_h (p_rem p) =? c_h old) (s_checklist s)).
  assert (HL : Forall (fun p => okp p /\ c_addr (p_rem p) = c_addr c) Lst).
  { rewrite Forall_forall. intros p Hp. apply filter_In in Hp. destruct Hp as [Hin Eh]. apply Z.eqb_eq in Eh.
    split; [unfold SK in HS; rewrite Forall_forall in HS; exact (HS p Hin)|exact (HF p Hin Eh)]. }
  clearbody Lst. clear HF. revert s HS. induction Lst as [|p0 t IH]; intros s HS; cbn [for_each]; [exact HS|].
  rewrite seq_fst. apply IH; [exact (Forall_inv_tail HL)|].
  destruct (Forall_inv HL) as [Ho Ea].
  rewrite !seq_fst, upd_pair_fst, modify_fst.
  assert (HU : SK (upd (p_id p0) (fun _ => set_p_prio_ov (Some (pair_priority p0)) (set_p_rem c p0)) s)).
  { apply SK_upd; [|exact HS]. intros q _ _. apply okp_repl; assumption. }
  match goal with |- SK (fst (reselect _ ?X)) => assert (HX : SK X) by (eapply SK_view; [|exact HU]; cbn; destruct_matches; reflexivity);
    exact (proj2 (SK_reselect (p_id p0) X HX)) end.
Qed.

(* after superseding one candidate every pair's remote is an old one or the new candidate *)
Lemma rems_replace old c s :
  Forall (fun p' => p_rem p' = c \/ In (p_rem p') (map p_rem (s_checklist s))) (s_checklist (fst (replace_remote_in_pairs old c s))).
Proof.
  unfold replace_remote_in_pairs. rewrite with_state_eq.
  generalize (filter (fun p => c_h (p_rem p) =? c_h old) (s_checklist s)) as Lst. intros Lst.
  assert (Hgen : forall s0, Forall (fun p' => p_rem p' = c \/ In (p_rem p') (map p_rem (s_checklist s))) (s_checklist s0) ->
            Forall (fun p' => p_rem p' = c \/ In (p_rem p') (map p_rem (s_checklist s)))
              (s_checklist (fst (for_each Lst (fun p => let repl := set_p_prio_ov (Some (pair_priority p)) (set_p_rem c p) in
                 upd_pair (p_id p) (fun _ => repl) ;;
                 modify (fun s => match s_nominated s with
                                  | Some np => if p_id np =? p_id p then set_s_nominated (Some repl) s else s
                                  | None => s end) ;;
                 reselect (p_id p)) s0)))).
  { induction Lst as [|p0 t IH]; intros s0 H0; cbn [for_each]; [exact H0|]. cbv zeta. rewrite seq_fst. apply IH.
    rewrite !seq_fst, upd_pair_fst, modify_fst.
    rewrite Forall_forall in *. intros q Hq.
    assert (Hq' : In (p_rem q) (map p_rem (s_checklist (upd (p_id p0) (fun _ => set_p_prio_ov (Some (pair_priority p0)) (set_p_rem c p0)) s0)))).
    { apply (in_map p_rem) in Hq. rewrite rems_reselect in Hq.
      match type of Hq with In _ (map p_rem (s_checklist ?X)) =>
        assert (E : s_checklist X = s_checklist (upd (p_id p0) (fun _ => set_p_prio_ov (Some (pair_priority p0)) (set_p_rem c p0)) s0))
          by (cbn; destruct_matches; reflexivity); rewrite E in Hq end.
      exact Hq. }
    apply in_map_iff in Hq'. destruct Hq' as [q1 [E1 Hq1]]. rewrite <- E1.
    unfold upd in Hq1. cbn in Hq1. apply in_map_iff in Hq1. destruct Hq1 as [q0 [E0 Hq0]].
    destruct (p_id q0 =? p_id p0); subst q1; [left; reflexivity|apply H0; exact Hq0]. }
  apply Hgen. rewrite Forall_forall. intros p Hp. right. apply in_map. exact Hp.
Qed.

Lemma same_addr_replace old c red s : same_addr_as c red s -> same_addr_as c red (fst (replace_remote_in_pairs old c s)).
Proof.
  intros H. unfold same_addr_as in *. pose proof (rems_replace old c s) as Hr. rewrite Forall_forall in *.
  intros p' Hp' o Ho Eh. destruct (Hr p' Hp') as [E|Hin]; [rewrite E; reflexivity|].
  apply in_map_iff in Hin. destruct Hin as [p [Ep Hp]]. rewrite <- Ep in *. exact (H p Hp o Ho Eh).
Qed.

Lemma unique_handle (l : list cand) a b : NoDup (map c_h l) -> In a l -> In b l -> c_h a = c_h b -> a = b.
Proof.
  induction l as [|x t IH]; cbn; intros Hnd Ha Hb E; [contradiction|].
  inversion Hnd as [|? ? Hx Ht]; subst.
  destruct Ha as [Ha|Ha]; destruct Hb as [Hb|Hb]; subst; try reflexivity.
  - exfalso. apply Hx. apply in_map_iff. exists b. split; [symmetry; exact E|exact Hb].
  - exfalso. apply Hx. apply in_map_iff. exists a. split; [exact E|exact Ha].
  - apply IH; assumption.
Qed.

Lemma SK_add_remote_body_gen c set s :
  SK s -> Rm s -> (forall e, In e set -> In e (s_remotes s)) -> SK (fst (add_remote_body c set s)).
Proof.
  intros HS [[Hnd _] HP] Hset. unfold add_remote_body.
  set (red := if c_typ c =? CandidateTypePeerReflexive then [] else filter (fun e => (c_typ e =? CandidateTypePeerReflexive) && cand_taddr_eqb e c) set).
  cbv zeta. rewrite seq_fst, modify_fst.
  set (s1 := set_s_remotes _ s).
  assert (HF : same_addr_as c red s1).
  { unfold same_addr_as, s1. cbn [s_checklist set_s_remotes]. unfold PR in HP. eapply Forall_impl; [|exact HP]. cbn.
    intros p Hp o Ho Eh.
    assert (Hor : In o (s_remotes s) /\ cand_taddr_eqb o c = true).
    { unfold red in Ho. destruct (c_typ c =? CandidateTypePeerReflexive); [destruct Ho|]. apply filter_In in Ho. destruct Ho as [Ho1 Ho2].
      apply andb_prop in Ho2. split; [apply Hset; exact Ho1|tauto]. }
    destruct Hor as [Hor Et].
    assert (p_rem p = o) by (apply (unique_handle (s_remotes s)); assumption).
    subst o. unfold cand_taddr_eqb in Et. apply andb_prop in Et. destruct Et as [Et _]. apply andb_prop in Et. destruct Et as [_ Et].
    apply addr_eqb_eq. exact Et. }
  assert (H1 : SK s1) by (eapply SK_view; [|exact HS]; reflexivity).
  rewrite seq_fst.
  assert (Hloop : forall reds s0, SK s0 -> same_addr_as c red s0 -> (forall o, In o reds -> In o red) ->
            SK (fst (for_each reds (fun old => copy_activity old c ;; replace_remote_in_pairs old c ;; retarget_cache old c) s0))).
  { induction reds as [|old t IH]; intros s0 H0 F0 Hsub; cbn [for_each]; [exact H0|]. rewrite seq_fst. apply IH.
    - rewrite !seq_fst. unfold copy_activity at 1, retarget_cache. rewrite !modify_fst.
      eapply SK_view; [|apply SK_replace]; [reflexivity| |].
      + destruct_matches; first [exact H0|eapply SK_view; [|exact H0]; reflexivity].
      + intros p Hp Eh. unfold same_addr_as in F0. rewrite Forall_forall in F0.
        assert (Hp0 : In p (s_checklist s0)) by (revert Hp; destruct_matches; cbn; auto).
        apply (F0 p Hp0 old); [apply Hsub; left; reflexivity|exact Eh].
    - rewrite !seq_fst. unfold copy_activity at 1, retarget_cache. rewrite !modify_fst.
      unfold same_addr_as. cbn [s_checklist set_s_cache].
      apply same_addr_replace. unfold same_addr_as in *. destruct_matches; exact F0.
    - intros o Ho. apply Hsub. right. exact Ho. }
  pose proof (Hloop red s1 H1 HF (fun o Ho => Ho)) as H2.
  match goal with |- SK (fst (?rest (fst (for_each red ?body s1)))) => set (s2 := fst (for_each red body s1)) in * end.
  rewrite seq_fst, modify_fst.
  assert (H3 : SK (set_s_remotes (s_remotes s2 ++ [c]) s2)) by (eapply SK_view; [|exact H2]; reflexivity).
  destruct (c_tcp c =? TCPTypePassive); [exact H3|]. rewrite with_state_eq. apply (proj2 (SK_pairing c _ _ H3)).
Qed.

Lemma presU_add_remote_body c set : sat (preserves InvU) (add_remote_body c set).
Proof.
  sat_decompose.
  all: try apply presU_update_conn.
  all: try (apply presU_upd_pair; cbn; intros; (assumption || reflexivity)).
  all: try (sat_base presU_tac).
  all: try apply presU_add_pair.
Qed.

Lemma closed_frame_add_remote_body c set s : s_closed (fst (add_remote_body c set s)) = s_closed s.
Proof.
  assert (H : sat (frame s_closed) (add_remote_body c set)).
  { sat_decompose; try (apply update_conn_frame; intros; reflexivity); try (sat_base frame_tac). }
  exact (H s).
Qed.

Lemma Inv3_add_remote_prflx l cfg c k :
  c_typ c = CandidateTypePeerReflexive -> (forall ok, satG (Inv3 l) mp_true (k ok)) -> satG (Inv3 l) mp_true (add_remote cfg c k).
Proof.
  intros Ht Hk. unfold add_remote. apply satG_with_state. intros s0 _. cbv beta iota.
  set (set := filter (fun e => c_net e =? c_net c) (s_remotes s0)). clearbody set.
  destruct (s_conn s0 =? ConnectionStateFailed); [apply Hk|].
  destruct (negb (accepts_remote cfg c)); [apply Hk|].
  destruct (existsb (fun e => cand_equal e c) set); [apply Hk|].
  apply satG_seq; [|apply Hk].
  intros s [HC [HU [HLl HSK]]]. split; [exact I|]. split; [rewrite closed_frame_add_remote_body; exact HC|].
  split; [exact (presU_add_remote_body c set s HU)|]. split.
  - destruct HLl as [Hc|[HL Hin]]; [rewrite Hc in HC; discriminate|].
    right. destruct (L_add_remote_body c set s HL) as [H1 E1]. split; [exact H1|rewrite E1; exact Hin].
  - apply (SK_add_remote_body c set); [|exact HSK]. unfold no_supersede. rewrite Ht. reflexivity.
Qed.

Lemma Inv3_inbound_nonresponse cfg l src m :
  cf_lite cfg = false -> m_class m <> 2 -> satG (Inv3 l) mp_true (handle_inbound cfg l src m).
Proof.
  intros Hl Hc. full_cfg cfg Hl. apply Z.eqb_neq in Hc. unfold handle_inbound. rewrite Hc.
  autounfold with agentcore_ll. cbn [cf_lite negb andb]. satG_split_eq. all: try c_leaf.
  all: apply Inv3_add_remote_prflx; [reflexivity|]; intros ok; satG_split_eq; c_leaf.
Qed.

(* ---- a success response: the pair it validates is the one of this socket and this source ------------- *)
Lemma Inv3_set_selected l id : satG (Inv3 l) mp_true (set_selected id).
Proof. unfold set_selected. satG_split_eq; c_leaf. Qed.

Lemma cand_equal_addr a b : cand_equal a b = true -> c_addr a = c_addr b.
Proof.
  unfold cand_equal, cand_taddr_eqb. intros H.
  apply andb_prop in H. destruct H as [H _]. apply andb_prop in H. destruct H as [H _].
  apply andb_prop in H. destruct H as [H _]. apply andb_prop in H. destruct H as [_ H]. apply addr_eqb_eq. exact H.
Qed.

Lemma SK_upd_in id f s :
  (forall q, In q (s_checklist s) -> p_id q = id -> okp q -> okp (f q)) -> SK s -> SK (upd id f s).
Proof.
  intros Hf H. unfold SK, upd in *. cbn. rewrite Forall_forall in *. intros q Hq. apply in_map_iff in Hq.
  destruct Hq as [q0 [E Hq0]]. destruct (Z.eqb_spec (p_id q0) id) as [Ei|]; subst q; [apply Hf; [exact Hq0|exact Ei|apply H; exact Hq0]|apply H; exact Hq0].
Qed.

Lemma mark_valid l r src s p :
  addr_eqb (c_addr r) src = true -> K (c_h l) src ->
  Inv3 l s -> find_pair l r s = Some p ->
  Inv3 l (upd (p_id p) (set_p_state CandidatePairStateSucceeded) s).
Proof.
  intros Hr HK [HC [HU [HLl HSK]]] Hfp.
  destruct HLl as [Hc|[HL Hin]]; [rewrite Hc in HC; discriminate|].
  pose proof (find_pair_in _ _ _ _ Hfp) as Hp.
  unfold find_pair in Hfp. apply find_some in Hfp. destruct Hfp as [_ Heq]. apply andb_prop in Heq. destruct Heq as [El Er].
  assert (Eloc : p_loc p = l).
  { destruct HL as [HLU HPL]. unfold PairsLoc in HPL. rewrite Forall_forall in HPL. apply HLU; [apply HPL; exact Hp|exact Hin|exact El]. }
  assert (Eaddr : c_addr (p_rem p) = src).
  { rewrite (cand_equal_addr _ _ Er). apply addr_eqb_eq. exact Hr. }
  split; [exact HC|]. split; [apply InvU_upd; [intros; assumption|exact HU]|]. split.
  - right. split; [apply L_upd; [reflexivity|exact HL]|exact Hin].
  - apply SK_upd_in; [|exact HSK]. intros q Hq Eid _. rewrite (unique_id s p q HU Hp Hq Eid).
    unfold okp. cbn. intros _. rewrite Eloc, Eaddr. exact HK.
Qed.

Lemma Inv3_bump l id : satG (Inv3 l) mp_true (upd_pair id (fun p => set_p_resp_recv (p_resp_recv p + 1) p)).
Proof. c_leaf. Qed.

Lemma Inv3_success_controlling cfg m l r src :
  addr_eqb (c_addr r) src = true -> K (c_h l) src -> satG (Inv3 l) mp_true (handle_success_controlling cfg m l r src).
Proof.
  intros Hr HK. unfold handle_success_controlling, invalidate_pending. apply satG_seq; [c_leaf|].
  apply satG_with_state. intros s0 _. destruct (take_pending (m_tx m) (s_pending s0)) as [[q rest]|]; [|apply satG_nop].
  apply satG_seq; [c_leaf|]. destruct (negb (response_symmetric q l src)); [apply satG_nop|].
  intros s Hs. rewrite with_state_eq. destruct (find_pair l r s) as [p|] eqn:Hfp; [|split; [exact I|exact Hs]].
  split; [exact I|]. rewrite seq_fst, upd_pair_fst.
  pose proof (mark_valid l r src s p Hr HK Hs Hfp) as H3.
  match goal with |- Inv3 l (fst (?f ?s')) =>
    assert (Hrest : satG (Inv3 l) mp_true f); [|exact (proj2 (Hrest s' H3))] end.
  apply satG_seq; [|apply Inv3_bump].
  satG_split_eq; try apply satG_nop; apply Inv3_set_selected.
Qed.

Lemma Inv3_success_controlled cfg m l r src :
  addr_eqb (c_addr r) src = true -> K (c_h l) src -> satG (Inv3 l) mp_true (handle_success_controlled cfg m l r src).
Proof.
  intros Hr HK. unfold handle_success_controlled, invalidate_pending. apply satG_seq; [c_leaf|].
  apply satG_with_state. intros s0 _. destruct (take_pending (m_tx m) (s_pending s0)) as [[q rest]|]; [|apply satG_nop].
  apply satG_seq; [c_leaf|]. destruct (negb (response_symmetric q l src)); [apply satG_nop|].
  intros s Hs. rewrite with_state_eq. destruct (find_pair l r s) as [p|] eqn:Hfp; [|split; [exact I|exact Hs]].
  split; [exact I|]. rewrite seq_fst, upd_pair_fst.
  pose proof (mark_valid l r src s p Hr HK Hs Hfp) as H3.
  match goal with |- Inv3 l (fst (?f ?s')) =>
    assert (Hrest : satG (Inv3 l) mp_true f); [|exact (proj2 (Hrest s' H3))] end.
  apply satG_seq; [|apply Inv3_bump].
  satG_split_eq; try apply satG_nop; try apply Inv3_set_selected; c_leaf.
Qed.

(* the whole inbound handler: a success response may validate a pair only if K allows (this socket, this source) *)
Theorem Inv3_handle_inbound cfg l src m :
  cf_lite cfg = false -> (m_class m = 2 -> K (c_h l) src) -> satG (Inv3 l) mp_true (handle_inbound cfg l src m).
Proof.
  intros Hl HK. destruct (Z.eq_dec (m_class m) 2) as [E|NE]; [|apply Inv3_inbound_nonresponse; assumption].
  specialize (HK E). unfold handle_inbound. apply Z.eqb_eq in E. rewrite E. unfold dispatch_success, seen.
  satG_split_eq; try c_leaf.
  all: match goal with Hfr : find_remote _ _ _ = Some _ |- _ => pose proof (find_remote_addr _ _ _ _ Hfr) as Hr end.
  - apply Inv3_success_controlling; assumption.
  - apply Inv3_success_controlled; assumption.
Qed.

(* ---- operations that are not inbound datagrams never make a pair valid ----------------------------------- *)
Create HintDb agentcore_sk.
#[local] Hint Unfold seen fresh_tx invalidate_pending send_binding_request ping_candidate
  nominate_pair send_binding_success retarget_cache copy_activity add_local
  set_selector ping_all check_keepalive contact_controlling contact_controlled contact_candidates
  tick accept_data inbound_data do_write conn_write conn_write_to_pair conn_read do_start do_set_remote_creds
  do_restart do_renominate renominate_op do_close validate_selected set_selected reselect : agentcore_sk.

Lemma SK_add_remote cfg c k s :
  (forall ok, satG SK mp_true (k ok)) -> Rm s -> SK s -> SK (fst (add_remote cfg c k s)).
Proof.
  intros Hk HR Hs. unfold add_remote. rewrite with_state_eq. cbv beta iota.
  destruct (s_conn s =? ConnectionStateFailed); [exact (proj2 (Hk false s Hs))|].
  destruct (negb (accepts_remote cfg c)); [exact (proj2 (Hk false s Hs))|].
  destruct (existsb _ _); [exact (proj2 (Hk true s Hs))|].
  rewrite seq_fst.
  match goal with |- context [add_remote_body c ?set0 s] =>
    assert (Hb : SK (fst (add_remote_body c set0 s))) by (apply SK_add_remote_body_gen; [exact Hs|exact HR|intros e He; apply filter_In in He; destruct He; assumption]) end.
  exact (proj2 (Hk true _ Hb)).
Qed.

Lemma SK_nonremote cfg o : is_inbound o = false -> (match o with AddRemote _ => False | _ => True end) -> satG SK mp_true (step_m cfg o).
Proof.
  intros Hi Hn. destruct o; try discriminate Hi; try contradiction; cbn [step_m].
  all: autounfold with agentcore_sk; satG_split_eq; sk_leaf.
Qed.

(* an application datagram never makes a pair valid *)
Lemma SK_indata cfg lh src p : satG SK mp_true (step_m cfg (InData lh src p)).
Proof.
  cbn [step_m]. autounfold with agentcore_sk; satG_split_eq; sk_leaf.
Qed.

Theorem SK_api cfg o s :
  is_inbound o = false -> Rc s -> SK s -> SK (fst (step cfg s o)).
Proof.
  intros Hi HR Hs. unfold step.
  destruct (match o with AddRemote _ => true | _ => false end) eqn:Er.
  - destruct o; try discriminate Er. cbn [step_m] in *.
    rewrite with_state_eq. destruct (c_tcp c =? TCPTypeActive); [exact Hs|]. destruct (s_closed s) eqn:Ec; [exact Hs|].
    destruct HR as [Hc|HR]; [rewrite Hc in Ec; discriminate|].
    apply SK_add_remote; [intros ok; sk_leaf|exact HR|exact Hs].
  - apply (proj2 (SK_nonremote cfg o Hi ltac:(destruct o; try exact I; discriminate Er) s Hs)).
Qed.

End Provenance.

(* ======== the two-agent system: every valid pair is reachable in both directions ========================= *)
Section System.
Variables (cfga cfgb : config) (t : topology).
Hypothesis Hla : cf_lite cfga = false.
Hypothesis Hlb : cf_lite cfgb = false.
Hypothesis Hwf : topo_wf t.

Definition KA (h : Z) (a : addr) : Prop :=
  exists i j, (i < length (t_a t))%nat /\ (j < length (t_b t))%nat /\
    ep_h (nth i (t_a t) dflt_ep) = h /\ ep_pub (nth j (t_b t) dflt_ep) = a /\
    fst (t_link t i j) = true /\ snd (t_link t i j) = true.
Definition KB (h : Z) (a : addr) : Prop :=
  exists i j, (i < length (t_a t))%nat /\ (j < length (t_b t))%nat /\
    ep_h (nth j (t_b t) dflt_ep) = h /\ ep_pub (nth i (t_a t) dflt_ep) = a /\
    fst (t_link t i j) = true /\ snd (t_link t i j) = true.

Definition AgentInv (K : Z -> addr -> Prop) (s : state) : Prop := InvU s /\ Lc s /\ Rc s /\ SK K s.

Definition flight_ok (f : flight) : Prop :=
  routed t f /\ (m_class (f_msg f) = 2 -> if f_to_a f then KA (f_lh f) (f_src f) else KB (f_lh f) (f_src f)).

Definition SysInv (sy : sys) : Prop :=
  AgentInv KA (sy_a sy) /\ AgentInv KB (sy_b sy) /\ Forall flight_ok (sy_net sy).

(* admissible schedule steps: remote candidates handed to an agent are fresh objects (handles below the agent's
   own counter, not in use), and a datagram arrives on a socket of its own address family *)
Definition sys_step_ok (sy : sys) (o : sys_op) : Prop :=
  match o with
  | SApi true op => op_ok op (sy_a sy)
  | SApi false op => op_ok op (sy_b sy)
  | SDeliver n =>
    match nth_error (sy_net sy) n with
    | Some f => op_ok (InStun (f_lh f) (f_src f) (f_msg f)) (if f_to_a f then sy_a sy else sy_b sy)
    | None => True
    end
  | _ => True
  end.

Lemma agent_api (K : Z -> addr -> Prop) cfg s o :
  is_inbound o = false -> op_ok o s -> AgentInv K s -> AgentInv K (fst (step cfg s o)).
Proof.
  intros Hi Hn [HU [HL [HR HS]]]. split; [exact (step_preserves_InvU cfg o s HU)|]. split; [apply step_Lc; exact HL|].
  split; [apply step_Rc; assumption|]. apply SK_api; assumption.
Qed.

Lemma agent_deliver (K : Z -> addr -> Prop) cfg s lh src m :
  cf_lite cfg = false -> op_ok (InStun lh src m) s -> (m_class m = 2 -> K lh src) -> AgentInv K s -> AgentInv K (fst (step cfg s (InStun lh src m))).
Proof.
  intros Hl Hok HK [HU [HL [HR HS]]].
  assert (HR' : Rc (fst (step cfg s (InStun lh src m)))) by (apply step_Rc; assumption).
  unfold step in *. cbn [step_m] in *. rewrite with_state_eq in *.
  destruct (s_closed s) eqn:Ec; [split; [exact HU|split; [exact HL|split; [exact HR|exact HS]]]|].
  destruct (find_local lh s) as [l|] eqn:El; [|split; [exact HU|split; [exact HL|split; [exact HR|exact HS]]]].
  destruct HL as [Hc|HLo]; [rewrite Hc in Ec; discriminate|].
  assert (H3 : Inv3 K l s).
  { split; [exact Ec|]. split; [exact HU|]. split; [right; split; [exact HLo|exact (find_local_in _ _ _ El)]|exact HS]. }
  rewrite <- (find_local_h _ _ _ El) in HK.
  destruct (proj2 (Inv3_handle_inbound K cfg l src m Hl HK s H3)) as [_ [HU' [HLl' HS']]].
  split; [exact HU'|]. split; [|split; [exact HR'|exact HS']].
  destruct HLl' as [Hc|[HL' _]]; [left; exact Hc|right; exact HL'].
Qed.

(* a response to a delivered datagram, if it gets routed at all, travels a link that is up in both directions *)
Lemma response_bidirectional f h dst r g :
  routed t f -> h = f_lh f -> addr_eqb dst (f_src f) = true ->
  In g (route_one t (f_to_a f) h dst r) ->
  if f_to_a g then KA (f_lh g) (f_src g) else KB (f_lh g) (f_src g).
Proof.
  destruct Hwf as [Wa Wb]. intros Hr -> Hd Hg. apply addr_eqb_eq in Hd. subst dst. unfold routed in Hr. unfold route_one in Hg.
  destruct (f_to_a f) eqn:Eto.
  - (* f went to A (on A_j, from B_i): the response leaves A_j towards B_i *)
    destruct Hr as [i [j [Hi [Hj [E1 [E2 Hup]]]]]]. rewrite E1, E2 in Hg.
    destruct (Wa j Hj) as [Hx _]. destruct (Wb i Hi) as [_ Hy]. rewrite Hx, Hy in Hg.
    destruct (fst (t_link t j i)) eqn:Ef; [|destruct Hg]. destruct Hg as [<-|[]]. cbn.
    exists j, i. repeat split; try assumption; reflexivity.
  - destruct Hr as [i [j [Hi [Hj [E1 [E2 Hup]]]]]]. rewrite E1, E2 in Hg.
    destruct (Wb j Hj) as [Hx _]. destruct (Wa i Hi) as [_ Hy]. rewrite Hx, Hy in Hg.
    destruct (snd (t_link t i j)) eqn:Es; [|destruct Hg]. destruct Hg as [<-|[]]. cbn.
    exists i, j. repeat split; try assumption; reflexivity.
Qed.

Lemma route_api_ok from_a outs : Forall no_response outs -> Forall flight_ok (route t from_a outs).
Proof.
  intros H. unfold route. rewrite Forall_forall. intros g Hg. apply in_flat_map in Hg. destruct Hg as [o [Ho Hg]].
  rewrite Forall_forall in H. specialize (H o Ho). destruct o as [h a m|? ? ?|?|?|?|?|?|?]; try contradiction.
  apply route_one_routed in Hg. destruct Hg as [Hr [Em _]]. split; [exact Hr|]. rewrite Em. intros E. cbn in H. contradiction.
Qed.

Lemma route_deliver_ok f outs :
  routed t f -> Forall (response_to (f_lh f) (f_src f)) outs -> Forall flight_ok (route t (f_to_a f) outs).
Proof.
  intros Hr H. unfold route. rewrite Forall_forall. intros g Hg. apply in_flat_map in Hg. destruct Hg as [o [Ho Hg]].
  rewrite Forall_forall in H. specialize (H o Ho). destruct o as [h a m|? ? ?|?|?|?|?|?|?]; try contradiction.
  pose proof (route_one_routed _ _ _ _ _ _ Hg) as [Hr' [Em _]]. split; [exact Hr'|]. rewrite Em. intros E.
  cbn in H. destruct (H E) as [E1 E2]. exact (response_bidirectional f h a m g Hr E1 E2 Hg).
Qed.

Theorem sys_step_preserves_SysInv sy o : sys_step_ok sy o -> SysInv sy -> SysInv (sys_step cfga cfgb t sy o).
Proof.
  intros Hok [Ha [Hb Hn]]. pose proof (conj Ha (conj Hb Hn) : SysInv sy) as Hkeep.
  destruct o as [on_a o|n|n|n]; cbn [sys_step sys_step_ok] in *.
  - destruct (is_inbound o) eqn:Hi; [exact Hkeep|]. unfold agent_step. destruct on_a.
    + pose proof (agent_api KA cfga (sy_a sy) o Hi Hok Ha) as H1.
      pose proof (api_emits_no_response cfga o Hi (sy_a sy)) as H2. unfold step in *.
      destruct (step_m cfga o (sy_a sy)) as [s' outs]. cbn [fst snd] in *.
      split; [exact H1|split; [exact Hb|]]. cbn [sy_net]. apply Forall_app. split; [exact Hn|apply route_api_ok; exact H2].
    + pose proof (agent_api KB cfgb (sy_b sy) o Hi Hok Hb) as H1.
      pose proof (api_emits_no_response cfgb o Hi (sy_b sy)) as H2. unfold step in *.
      destruct (step_m cfgb o (sy_b sy)) as [s' outs]. cbn [fst snd] in *.
      split; [exact Ha|split; [exact H1|]]. cbn [sy_net]. apply Forall_app. split; [exact Hn|apply route_api_ok; exact H2].
  - destruct (nth_error (sy_net sy) n) as [f|] eqn:En; [|exact Hkeep].
    pose proof (nth_error_In _ _ En) as Hin.
    assert (Hf : flight_ok f) by (rewrite Forall_forall in Hn; exact (Hn f Hin)). destruct Hf as [Hr Hc].
    pose proof (Forall_remove_nth _ n _ Hn) as Hn'.
    unfold agent_step. destruct (f_to_a f) eqn:Eto; cbn [sy_a sy_b sy_net].
    + pose proof (agent_deliver KA cfga (sy_a sy) (f_lh f) (f_src f) (f_msg f) Hla Hok Hc Ha) as H1.
      assert (H2 : Forall (response_to (f_lh f) (f_src f)) (snd (step cfga (sy_a sy) (InStun (f_lh f) (f_src f) (f_msg f))))).
      { unfold step. cbn [step_m]. unfold with_state. destruct (s_closed (sy_a sy)); [constructor|].
        destruct (find_local (f_lh f) (sy_a sy)) as [l|] eqn:El; [|constructor].
        pose proof (inbound_response_goes_back cfga l (f_src f) (f_msg f) (sy_a sy)) as H. cbn in H.
        rewrite (find_local_h _ _ _ El) in H. exact H. }
      destruct (step cfga (sy_a sy) _) as [s' outs]. cbn [fst snd] in *.
      split; [exact H1|split; [exact Hb|]]. cbn [sy_net]. apply Forall_app. split; [exact Hn'|].
      pose proof (route_deliver_ok f outs Hr H2) as H3. rewrite Eto in H3. exact H3.
    + pose proof (agent_deliver KB cfgb (sy_b sy) (f_lh f) (f_src f) (f_msg f) Hlb Hok Hc Hb) as H1.
      assert (H2 : Forall (response_to (f_lh f) (f_src f)) (snd (step cfgb (sy_b sy) (InStun (f_lh f) (f_src f) (f_msg f))))).
      { unfold step. cbn [step_m]. unfold with_state. destruct (s_closed (sy_b sy)); [constructor|].
        destruct (find_local (f_lh f) (sy_b sy)) as [l|] eqn:El; [|constructor].
        pose proof (inbound_response_goes_back cfgb l (f_src f) (f_msg f) (sy_b sy)) as H. cbn in H.
        rewrite (find_local_h _ _ _ El) in H. exact H. }
      destruct (step cfgb (sy_b sy) _) as [s' outs]. cbn [fst snd] in *.
      split; [exact Ha|split; [exact H1|]]. cbn [sy_net]. apply Forall_app. split; [exact Hn'|].
      pose proof (route_deliver_ok f outs Hr H2) as H3. rewrite Eto in H3. exact H3.
  - split; [exact Ha|split; [exact Hb|]]. cbn [sy_net]. apply Forall_remove_nth. exact Hn.
  - destruct (nth_error (sy_net sy) n) as [f|] eqn:En; [|exact Hkeep].
    split; [exact Ha|split; [exact Hb|]]. cbn [sy_net]. apply Forall_app. split; [exact Hn|].
    constructor; [|constructor]. rewrite Forall_forall in Hn. apply Hn. exact (nth_error_In _ _ En).
Qed.

(* schedules all of whose steps are admissible *)
Fixpoint sys_run_ok (sy : sys) (ops : list sys_op) : Prop :=
  match ops with
  | [] => True
  | o :: rest => sys_step_ok sy o /\ sys_run_ok (sys_step cfga cfgb t sy o) rest
  end.

Lemma sys_run_SysInv ops : forall sy, sys_run_ok sy ops -> SysInv sy -> SysInv (sys_run cfga cfgb t sy ops).
Proof.
  unfold sys_run. induction ops as [|o ops IH]; intros sy Hok H; cbn [fold_left]; [exact H|].
  destruct Hok as [H1 H2]. apply IH; [exact H2|]. apply sys_step_preserves_SysInv; assumption.
Qed.

Lemma SysInv_init lua lpa lub lpb : SysInv (sys_init lua lpa lub lpb).
Proof.
  unfold SysInv, sys_init, AgentInv. cbn.
  repeat split; try apply InvU_init; try apply Lc_init; try apply Rc_init; try (unfold SK; cbn; constructor).
Qed.
End System.

(* both agents' selection invariant (C03) along every schedule *)
Lemma sys_step_G cfga cfgb t sy o : G (sy_a sy) /\ G (sy_b sy) -> G (sy_a (sys_step cfga cfgb t sy o)) /\ G (sy_b (sys_step cfga cfgb t sy o)).
Proof.
  intros [Ha Hb].
  assert (Hag : forall on_a op sy0, G (sy_a sy0) -> G (sy_b sy0) ->
             G (sy_a (agent_step cfga cfgb t on_a op sy0)) /\ G (sy_b (agent_step cfga cfgb t on_a op sy0))).
  { intros on_a op sy0 H1 H2. unfold agent_step. destruct on_a.
    - pose proof (step_G cfga (sy_a sy0) op H1) as H. destruct (step cfga (sy_a sy0) op). cbn in *. auto.
    - pose proof (step_G cfgb (sy_b sy0) op H2) as H. destruct (step cfgb (sy_b sy0) op). cbn in *. auto. }
  destruct o as [on_a o|n|n|n]; cbn [sys_step].
  - destruct (is_inbound o); [auto|apply Hag; assumption].
  - destruct (nth_error (sy_net sy) n); [|auto]. apply Hag; assumption.
  - cbn. auto.
  - destruct (nth_error (sy_net sy) n); cbn; auto.
Qed.

Lemma sys_run_G cfga cfgb t ops : forall sy, G (sy_a sy) /\ G (sy_b sy) ->
  G (sy_a (sys_run cfga cfgb t sy ops)) /\ G (sy_b (sys_run cfga cfgb t sy ops)).
Proof.
  unfold sys_run. induction ops as [|o ops IH]; intros sy H; cbn [fold_left]; [exact H|]. apply IH. apply sys_step_G. exact H.
Qed.

(* C01: in every state reached by two full agents over any topology, under every admissible schedule
   (API calls, ticks, deliveries in any order, drops, duplications), every VALID pair -- in particular the
   selected pair -- joins a local socket and a remote address that reach each other in BOTH directions *)
Theorem valid_pairs_reachable_both_ways cfga cfgb t lua lpa lub lpb ops :
  cf_lite cfga = false -> cf_lite cfgb = false -> topo_wf t ->
  sys_run_ok cfga cfgb t (sys_init lua lpa lub lpb) ops ->
  let sy := sys_run cfga cfgb t (sys_init lua lpa lub lpb) ops in
  Forall (fun p => p_state p = CandidatePairStateSucceeded -> KA t (c_h (p_loc p)) (c_addr (p_rem p))) (s_checklist (sy_a sy)) /\
  Forall (fun p => p_state p = CandidatePairStateSucceeded -> KB t (c_h (p_loc p)) (c_addr (p_rem p))) (s_checklist (sy_b sy)) /\
  (forall id, s_selected (sy_a sy) = Some id ->
     exists p, In p (s_checklist (sy_a sy)) /\ p_id p = id /\ KA t (c_h (p_loc p)) (c_addr (p_rem p))) /\
  (forall id, s_selected (sy_b sy) = Some id ->
     exists p, In p (s_checklist (sy_b sy)) /\ p_id p = id /\ KB t (c_h (p_loc p)) (c_addr (p_rem p))).
Proof.
  intros Hla Hlb Hw Hok sy.
  pose proof (sys_run_SysInv cfga cfgb t Hla Hlb Hw ops _ Hok (SysInv_init t lua lpa lub lpb)) as [[_ [_ [_ HA]]] [[_ [_ [_ HB]]] _]].
  pose proof (sys_run_G cfga cfgb t ops (sys_init lua lpa lub lpb) (conj (G_init lua lpa) (G_init lub lpb))) as [[GA _] [GB _]].
  fold sy in HA, HB, GA, GB. split; [exact HA|]. split; [exact HB|]. split.
  - intros id Hs. unfold InvSV in GA. rewrite Hs in GA. destruct GA as [p [Hin [Hid [Hst _]]]].
    exists p. split; [exact Hin|]. split; [exact Hid|]. unfold SK in HA. rewrite Forall_forall in HA. exact (HA p Hin Hst).
  - intros id Hs. unfold InvSV in GB. rewrite Hs in GB. destruct GB as [p [Hin [Hid [Hst _]]]].
    exists p. split; [exact Hin|]. split; [exact Hid|]. unfold SK in HB. rewrite Forall_forall in HB. exact (HB p Hin Hst).
Qed.
