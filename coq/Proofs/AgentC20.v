(* C20: renomination -- the latest nomination wins.  Step-level theorems about the controlled
   selector (accept_nomination / handle_request_controlled / handle_success_controlled) and the
   controlling API (do_renominate), for every state. *)
From Coq Require Import ZArith Bool List Lia.
From Ice Require Import Model.AgentTypes Model.AgentCore Gen.Consts Gen.Lifecycle Proofs.AgentFrame.
Import ListNotations.
Local Open Scope Z_scope.

(* ---- the acceptance rule -------------------------------------------------------------------- *)
Definition nomination_fresh (s : state) (v : Z) : bool :=
  match s_last_nom s with Some cur => cur <? v | None => true end.

Lemma accept_nomination_spec v k s :
  accept_nomination (Some v) k s =
  if nomination_fresh s v then (modify (set_s_last_nom (Some v)) ;; k true) s else k false s.
Proof.
  unfold accept_nomination, with_state, nomination_fresh, shouldAcceptNomination.
  destruct (s_last_nom s) as [cur|]; cbn; [destruct (cur <? v)|]; reflexivity.
Qed.

Lemma accept_plain_nomination k s : accept_nomination None k s = k true s.
Proof. unfold accept_nomination, with_state, shouldAcceptNomination. reflexivity. Qed.

(* direct formulation: what accept_nomination does to the stored value *)
Lemma accept_nomination_last_nom v k s :
  (forall ok, sat (frame s_last_nom) (k ok)) ->
  s_last_nom (fst (accept_nomination (Some v) k s)) =
  if nomination_fresh s v then Some v else s_last_nom s.
Proof.
  intros Hk. rewrite accept_nomination_spec. destruct (nomination_fresh s v).
  - unfold seq, modify. cbn [fst snd]. pose proof (Hk true (set_s_last_nom (Some v) s)) as H. cbn in H.
    destruct (k true _) as [s2 o2]. cbn [fst] in *. rewrite H. reflexivity.
  - apply (Hk false s).
Qed.

(* ---- only a controlling agent with the feature enabled can renominate -------------------------- *)
Theorem renominate_needs_controlling_and_feature cfg l r v s :
  s_ctl s = false \/ cf_renomination cfg = false ->
  do_renominate cfg l r v s = (s, [ORet (if s_ctl s then RErrRenominationOff else RErrNotControlling)]).
Proof.
  intros H. unfold do_renominate, with_state. destruct (s_ctl s); cbn [negb].
  - destruct H as [H|H]; [discriminate|]. rewrite H. reflexivity.
  - reflexivity.
Qed.

Lemma send_binding_request_out cfg m l r s :
  snd (send_binding_request cfg m l r s) = [OSend (c_h l) (c_addr r) m].
Proof.
  unfold send_binding_request, seq, invalidate_pending, modify, with_state, emit, upd_pair, nop.
  match goal with |- context [find_pair l r ?st] => destruct (find_pair l r st) end; reflexivity.
Qed.

(* a controlling agent with the feature on sends one nomination carrying the value (if positive) *)
Theorem renominate_sends_value cfg l r v s p :
  s_ctl s = true -> cf_renomination cfg = true -> find_pair l r s = Some p -> p_state p = CandidatePairStateSucceeded ->
  snd (do_renominate cfg l r v s) =
    [OSend (c_h (p_loc p)) (c_addr (p_rem p))
       (mkMsg 0 1 (s_next_tx s) (Some (s_rufrag s, s_lufrag s)) (Some (s_rpwd s)) true
              (Some (true, cf_tiebreaker cfg)) (Some (c_prio (p_loc p))) (if 0 <? v then Some v else None) None None);
     ORet ROk].
Proof.
  intros Hc Hf Hp Hs. unfold do_renominate, with_state. rewrite Hc, Hf, Hp, Hs. cbn [negb Z.eqb CandidatePairStateSucceeded Pos.eqb].
  unfold seq at 1. unfold fresh_tx, with_state, seq at 1. unfold modify at 1. cbn [fst snd app].
  unfold request_msg. cbn [s_rufrag s_lufrag s_rpwd s_ctl set_s_next_tx].
  match goal with |- context [send_binding_request cfg ?m ?a ?b ?st] =>
    pose proof (send_binding_request_out cfg m a b st) as Ho; destruct (send_binding_request cfg m a b st) as [s1 o1] end.
  cbn [fst snd] in *. subst o1. unfold emit. cbn. rewrite Hc. reflexivity.
Qed.

(* a pair that has not been validated is refused: nothing is sent, nothing changes *)
Theorem renominate_needs_valid_pair cfg l r v s p :
  s_ctl s = true -> cf_renomination cfg = true -> find_pair l r s = Some p -> p_state p <> CandidatePairStateSucceeded ->
  do_renominate cfg l r v s = (s, [ORet RErrPairNotSucceeded]).
Proof.
  intros Hc Hf Hp Hs. unfold do_renominate, with_state. rewrite Hc, Hf, Hp. cbn [negb].
  apply Z.eqb_neq in Hs. rewrite Hs. reflexivity.
Qed.

(* ---- smaller or equal values never change the selection ------------------------------------------ *)
Definition selection_view (s : state) := (s_selected s, s_last_nom s, s_conn s).

Definition no_selection_event (o : out) : Prop :=
  match o with OSelected _ | OState _ => False | _ => True end.

Definition ensure_pair (l r : cand) : M :=
  with_state (find_pair l r) (fun op => match op with None => add_pair l r | Some _ => nop end).

Lemma ensure_pair_frame l r : sat (mp_and (frame selection_view) (outs_all no_selection_event)) (ensure_pair l r).
Proof.
  apply sat_and; unfold ensure_pair; sat_decompose; try (sat_base frame_tac);
    try (sat_base ltac:(cbn; constructor)).
Qed.

Lemma send_success_frame m l r : sat (mp_and (frame selection_view) (outs_all no_selection_event)) (send_binding_success m l r).
Proof.
  apply sat_and; sat_decompose; try (sat_base frame_tac);
    try (sat_base ltac:(cbn; repeat constructor)).
Qed.

Lemma upd_pair_frame id f : sat (mp_and (frame selection_view) (outs_all no_selection_event)) (upd_pair id f).
Proof. apply sat_and; [sat_base frame_tac|sat_base ltac:(cbn; constructor)]. Qed.

Theorem stale_nomination_never_switches cfg m l r v s :
  m_nom m = Some v -> nomination_fresh s v = false ->
  let res := handle_request_controlled cfg m l r s in
  selection_view (fst res) = selection_view s /\ Forall no_selection_event (snd res).
Proof.
  intros Hv Hstale res. subst res.
  assert (Hcomb : forall f g, sat (mp_and (frame selection_view) (outs_all no_selection_event)) f ->
            (forall s1, selection_view s1 = selection_view s ->
               selection_view (fst (g s1)) = selection_view s1 /\ Forall no_selection_event (snd (g s1))) ->
            selection_view (fst ((f ;; g) s)) = selection_view s /\ Forall no_selection_event (snd ((f ;; g) s))).
  { intros f g Hf Hg. unfold seq. destruct (Hf s) as [H1 H2]. cbn in H1, H2.
    destruct (f s) as [s1 o1]. cbn [fst snd] in *. destruct (Hg s1 H1) as [H3 H4].
    destruct (g s1) as [s2 o2]. cbn [fst snd] in *. split; [congruence|apply Forall_app; split; assumption]. }
  unfold handle_request_controlled. fold (ensure_pair l r).
  apply Hcomb; [apply ensure_pair_frame|]. intros s1 Hs1.
  unfold with_state. destruct (find_pair l r s1) as [p0|]; [|split; [reflexivity|constructor]].
  cbv zeta. rewrite Hv. rewrite Bool.orb_true_r.
  assert (Hcomb1 : forall f g, sat (mp_and (frame selection_view) (outs_all no_selection_event)) f ->
            (forall s2, selection_view s2 = selection_view s1 ->
               selection_view (fst (g s2)) = selection_view s2 /\ Forall no_selection_event (snd (g s2))) ->
            selection_view (fst ((f ;; g) s1)) = selection_view s1 /\ Forall no_selection_event (snd ((f ;; g) s1))).
  { intros f g Hf Hg. unfold seq. destruct (Hf s1) as [H1 H2]. cbn in H1, H2.
    destruct (f s1) as [s2 o2]. cbn [fst snd] in *. destruct (Hg s2 H1) as [H3 H4].
    destruct (g s2) as [s3 o3]. cbn [fst snd] in *. split; [congruence|apply Forall_app; split; assumption]. }
  apply Hcomb1; [apply upd_pair_frame|]. intros s2 Hs2.
  rewrite accept_nomination_spec.
  assert (Hst : nomination_fresh s2 v = false).
  { unfold nomination_fresh in *. unfold selection_view in Hs1, Hs2.
    assert (E : s_last_nom s2 = s_last_nom s) by congruence. rewrite E. exact Hstale. }
  rewrite Hst. cbn [negb]. destruct (send_success_frame m l r s2) as [H1 H2]. cbn in H1, H2. split; assumption.
Qed.

(* ---- an accepted value on an already valid pair selects it, regardless of priorities --------------- *)
Lemma pair_by_id_upd id f s p :
  (forall q, p_id (f q) = p_id q) ->
  pair_by_id id s = Some p ->
  pair_by_id id (fst (upd_pair id f s)) = Some (f p).
Proof.
  intros Hf. unfold pair_by_id, upd_pair, modify. cbn [fst s_checklist set_s_checklist].
  induction (s_checklist s) as [|q t IH]; cbn [find map]; [discriminate|].
  destruct (Z.eqb_spec (p_id q) id) as [E|NE].
  - intros H. injection H as <-. rewrite Hf, E, Z.eqb_refl. reflexivity.
  - intros H. apply Z.eqb_neq in NE. rewrite NE. exact (IH H).
Qed.

Lemma selected_after_set id s : s_selected (fst (set_selected id s)) = Some id.
Proof.
  unfold set_selected, seq, upd_pair, modify, update_conn, emit. cbn.
  destruct (s_conn s =? ConnectionStateConnected); reflexivity.
Qed.

Lemma frame_selected_send_success m l r : sat (frame s_selected) (send_binding_success m l r).
Proof. sat_decompose; sat_base frame_tac. Qed.
Lemma frame_selected_ping cfg l r : sat (frame s_selected) (ping_candidate cfg l r).
Proof. sat_decompose; sat_base frame_tac. Qed.

Theorem fresh_nomination_on_valid_pair_selects cfg m l r v s p0 :
  m_nom m = Some v -> nomination_fresh s v = true ->
  find_pair l r s = Some p0 -> pair_by_id (p_id p0) s = Some p0 ->
  p_state p0 = CandidatePairStateSucceeded ->
  s_selected (fst (handle_request_controlled cfg m l r s)) = Some (p_id p0).
Proof.
  intros Hv Hfresh Hfp Hid Hst.
  unfold handle_request_controlled. unfold seq at 1. unfold with_state at 1. rewrite Hfp. cbn [nop fst snd].
  unfold with_state at 1. rewrite Hfp. cbv zeta. rewrite Hv, Bool.orb_true_r.
  unfold seq at 1.
  pose proof (pair_by_id_upd (p_id p0) (fun p => set_p_req_recv (p_req_recv p + 1) p) s p0 ltac:(reflexivity) Hid) as Hid1.
  assert (Hln1 : s_last_nom (fst (upd_pair (p_id p0) (fun p => set_p_req_recv (p_req_recv p + 1) p) s)) = s_last_nom s) by reflexivity.
  assert (Hsel1 : s_selected (fst (upd_pair (p_id p0) (fun p => set_p_req_recv (p_req_recv p + 1) p) s)) = s_selected s) by reflexivity.
  destruct (upd_pair (p_id p0) _ s) as [s1 o1]. cbn [fst snd] in *.
  rewrite accept_nomination_spec.
  assert (Hf1 : nomination_fresh s1 v = true) by (unfold nomination_fresh in *; rewrite Hln1; exact Hfresh).
  rewrite Hf1. unfold seq at 1. unfold modify at 1. cbn [fst snd app].
  set (s2 := set_s_last_nom (Some v) s1).
  assert (Hid2 : pair_by_id (p_id p0) s2 = Some (set_p_req_recv (p_req_recv p0 + 1) p0)) by exact Hid1.
  cbn [negb].
  (* the lite branch marks the pair Succeeded (it already is) *)
  set (p1 := set_p_req_recv (p_req_recv p0 + 1) p0) in *.
  assert (Hlite : exists s3 p3, (if cf_lite cfg then upd_pair (p_id p0) (set_p_state CandidatePairStateSucceeded) else nop) s2 = (s3, [])
                  /\ pair_by_id (p_id p0) s3 = Some p3 /\ p_state p3 = CandidatePairStateSucceeded /\ p_id p3 = p_id p0).
  { destruct (cf_lite cfg).
    - exists (fst (upd_pair (p_id p0) (set_p_state CandidatePairStateSucceeded) s2)), (set_p_state CandidatePairStateSucceeded p1).
      split; [reflexivity|]. split; [apply pair_by_id_upd; [reflexivity|exact Hid2]|]. split; reflexivity.
    - exists s2, p1. split; [reflexivity|]. split; [exact Hid2|]. split; [exact Hst|reflexivity]. }
  destruct Hlite as [s3 [p3 [E3 [Hid3 [Hst3 Hpid3]]]]].
  unfold seq at 1. rewrite E3. cbn [fst snd app].
  unfold seq at 1. unfold with_state at 1. rewrite Hid3. rewrite Hst3.
  change (CandidatePairStateSucceeded =? CandidatePairStateSucceeded) with true. cbv iota.
  (* the switch rule with a nomination value: switch unless it is the selected pair already *)
  assert (Hsw : s_selected (fst ((if shouldSwitchSelectedPair
             match selected_pair s3 with Some _ => true | None => false end
             match selected_pair s3 with Some sp => p_id sp =? p_id p0 | None => false end
             true (needsToCheckPriorityOnNominated (cf_lite cfg) (cf_check_prio cfg))
             match selected_pair s3 with Some sp => pair_priority sp | None => 0 end (pair_priority p3)
           then set_selected (p_id p0) else nop) s3)) = Some (p_id p0)).
  { unfold shouldSwitchSelectedPair. destruct (selected_pair s3) as [sp|] eqn:Hsp; cbn [negb].
    - destruct (Z.eqb_spec (p_id sp) (p_id p0)) as [E|NE].
      + cbn. unfold selected_pair in Hsp. destruct (s_selected s3) as [id|] eqn:Hs3; [|discriminate].
        unfold pair_by_id in Hsp. apply find_some in Hsp. destruct Hsp as [_ Hsp]. apply Z.eqb_eq in Hsp. congruence.
      + apply selected_after_set.
    - apply selected_after_set. }
  destruct ((if shouldSwitchSelectedPair _ _ _ _ _ _ then set_selected (p_id p0) else nop) s3) as [s4 o4] eqn:E4.
  cbn [fst snd] in *.
  unfold seq at 1.
  pose proof (frame_selected_send_success m l r s4) as H5. cbn [mp_rel frame] in H5.
  destruct (send_binding_success m l r s4) as [s5 o5]. cbn [fst snd] in *.
  unfold with_state. destruct (pair_by_id (p_id p0) s5); [|cbn; rewrite H5; exact Hsw].
  destruct (_ && _); [|cbn; rewrite H5; exact Hsw].
  pose proof (frame_selected_ping cfg l r s5) as H6. cbn [mp_rel frame] in H6.
  destruct (ping_candidate cfg l r s5) as [s6 o6]. cbn [fst snd] in *. cbn. rewrite H6, H5. exact Hsw.
Qed.

(* ---- deferred acceptance: when the nominated pair becomes valid, the latest accepted value wins ------ *)
Theorem deferred_latest_nomination_wins cfg m l r src s q rest p0 v :
  take_pending (m_tx m) (filter (fun q => since cfg s (q_ts q) <? maxBindingRequestTimeout) (s_pending s)) = Some (q, rest) ->
  response_symmetric q l src = true ->
  find_pair l r s = Some p0 -> pair_by_id (p_id p0) s = Some p0 ->
  p_nom_on_succ p0 = true -> p_nom_value p0 = Some v -> s_last_nom s = Some v ->
  s_selected (fst (handle_success_controlled cfg m l r src s)) = Some (p_id p0).
Proof.
  intros Htake Hsym Hfp Hid Hnos Hnv Hln.
  unfold handle_success_controlled. unfold seq at 1. unfold invalidate_pending, modify at 1. cbn [fst snd app].
  set (s1 := set_s_pending _ s).
  unfold with_state at 1. change (s_pending s1) with (filter (fun q0 => since cfg s (q_ts q0) <? maxBindingRequestTimeout) (s_pending s)).
  rewrite Htake. unfold seq at 1. unfold modify at 1. cbn [fst snd app].
  rewrite Hsym. cbn [negb].
  set (s2 := set_s_pending rest s1).
  unfold with_state at 1. change (find_pair l r s2) with (find_pair l r s). rewrite Hfp.
  unfold seq at 1.
  pose proof (pair_by_id_upd (p_id p0) (set_p_state CandidatePairStateSucceeded) s2 p0 ltac:(reflexivity) Hid) as Hid3.
  assert (Hln3 : s_last_nom (fst (upd_pair (p_id p0) (set_p_state CandidatePairStateSucceeded) s2)) = Some v) by exact Hln.
  destruct (upd_pair (p_id p0) (set_p_state CandidatePairStateSucceeded) s2) as [s3 o3]. cbn [fst snd] in *.
  rewrite Hnos. unfold seq at 1. unfold seq at 1. unfold with_state at 1. rewrite Hid3, Hln3.
  change (p_nom_value (set_p_state CandidatePairStateSucceeded p0)) with (p_nom_value p0). rewrite Hnv.
  change (p_id (set_p_state CandidatePairStateSucceeded p0)) with (p_id p0).
  rewrite Z.eqb_refl. rewrite Bool.andb_true_r.
  assert (Hsw : s_selected (fst ((if negb match selected_pair s3 with Some sp => p_id sp =? p_id p0 | None => false end
                                  then set_selected (p_id p0) else nop) s3)) = Some (p_id p0)).
  { destruct (selected_pair s3) as [sp|] eqn:Hsp.
    - destruct (Z.eqb_spec (p_id sp) (p_id p0)) as [E|NE]; cbn [negb].
      + cbn. unfold selected_pair in Hsp. destruct (s_selected s3) as [id|]; [|discriminate].
        unfold pair_by_id in Hsp. apply find_some in Hsp. destruct Hsp as [_ Hsp]. apply Z.eqb_eq in Hsp. congruence.
      + apply selected_after_set.
    - apply selected_after_set. }
  destruct ((if negb _ then set_selected (p_id p0) else nop) s3) as [s4 o4]. cbn [fst snd] in *.
  unfold upd_pair, modify. cbn. exact Hsw.
Qed.

(* ---- a deferred nomination is consumed when its pair becomes valid ------------------------------------
   (pion/ice never reset nominateOnBindingSuccess: every later success response on the pair replayed the
   old nomination and could undo a newer renomination of another pair; repaired, see known_findings) *)
Definition consumed (id : Z) (q : pair) : Prop := p_id q = id -> p_nom_on_succ q = false /\ p_nom_value q = None.

Lemma consumed_tail id (bump : pair -> pair) s :
  (forall q, p_id (bump q) = p_id q /\ p_nom_on_succ (bump q) = p_nom_on_succ q /\ p_nom_value (bump q) = p_nom_value q) ->
  Forall (consumed id)
    (s_checklist (fst ((upd_pair id (fun p => set_p_nom_value None (set_p_nom_on_succ false p)) ;; upd_pair id bump) s))).
Proof.
  intros Hb. unfold seq, upd_pair, modify. cbn. rewrite map_map. rewrite Forall_forall. intros q Hq.
  apply in_map_iff in Hq. destruct Hq as [q0 [E Hin]]. subst q. unfold consumed.
  destruct (Z.eqb_spec (p_id q0) id) as [E0|NE0]; cbn.
  - rewrite E0, Z.eqb_refl. destruct (Hb (set_p_nom_value None (set_p_nom_on_succ false q0))) as [_ [H2 H3]].
    intros _. rewrite H2, H3. split; reflexivity.
  - apply Z.eqb_neq in NE0. rewrite NE0. intros E. apply Z.eqb_neq in NE0. contradiction.
Qed.

Lemma seq_assoc_fst (u w cl b : M) s :
  fst ((u ;; ((w ;; cl) ;; b)) s) = fst ((cl ;; b) (fst (w (fst (u s))))).
Proof.
  unfold seq. destruct (u s) as [s1 o1]. cbn. destruct (w s1) as [s2 o2]. cbn. destruct (cl s2) as [s3 o3]. cbn.
  destruct (b s3). reflexivity.
Qed.

Theorem deferred_nomination_consumed cfg m l r src s q rest p0 :
  take_pending (m_tx m) (filter (fun q => since cfg s (q_ts q) <? maxBindingRequestTimeout) (s_pending s)) = Some (q, rest) ->
  response_symmetric q l src = true ->
  find_pair l r s = Some p0 -> p_nom_on_succ p0 = true ->
  Forall (consumed (p_id p0)) (s_checklist (fst (handle_success_controlled cfg m l r src s))).
Proof.
  intros Htake Hsym Hfp Hnos.
  unfold handle_success_controlled. unfold seq at 1. unfold invalidate_pending, modify at 1. cbn [fst snd app].
  set (s1 := set_s_pending _ s).
  unfold with_state at 1. change (s_pending s1) with (filter (fun q0 => since cfg s (q_ts q0) <? maxBindingRequestTimeout) (s_pending s)).
  rewrite Htake. unfold seq at 1. unfold modify at 1. cbn [fst snd app].
  rewrite Hsym. cbn [negb].
  set (s2 := set_s_pending rest s1).
  unfold with_state at 1. change (find_pair l r s2) with (find_pair l r s). rewrite Hfp.
  rewrite Hnos.
  match goal with |- context [let '(a, b) := ?X s2 in _] =>
    let E := fresh "E" in destruct (X s2) as [s9 o9] eqn:E; cbn [fst snd];
    replace s9 with (fst (X s2)) by (rewrite E; reflexivity)
  end.
  rewrite seq_assoc_fst. apply consumed_tail. intros q0. cbn. repeat split; reflexivity.
Qed.
