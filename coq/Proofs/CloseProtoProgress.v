(* C08: progress of the close protocol.  In every reachable state in which a Close has been called
   and something is unfinished (a called closer has not returned, or a caller is inside a call),
   some step other than a new call is enabled -- provided no closer runs inside a task body on the
   loop goroutine, no GracefulClose runs inside a notifier callback (both ARE deadlocks: see
   CloseProtoDeadlocks.v) and, for the code as it is, no candidate that was started after l.done
   was closed has a socket that blocks writes (with the repair of registerStartedCandidate this
   last condition is not needed). *)
From Coq Require Import Arith Bool List Lia.
Import ListNotations.
From Ice Require Import Model.PrioSpec Model.CloseProto Proofs.CloseProtoMeasure Proofs.CloseProtoMeasure2
     Proofs.CloseProtoFrames Proofs.CloseProtoInv.

Definition is_call (l : label) : bool :=
  match l with ECall _ _ | ECloseCall _ _ _ => true | _ => false end.

Section P.
Variable NC : nat.
Variable wfree : nat -> bool.
Variable fix_reg : bool.
Notation lstep := (lstep NC wfree fix_reg).
Notation Inv := (Inv NC fix_reg).

Definition can_move (s : state) : Prop := exists l s', lstep l s = Some s' /\ is_call l = false.

(* no closer inside a task body; no graceful closer inside a notifier callback *)
Definition ok_hosts (s : state) : Prop :=
  forall k, cactive (cp s k) = true ->
    (forall i, chost s k <> HTask i) /\ (cgr s k = true -> chost s k <> HHandler).

(* no late-started candidate has a blocking socket (vacuous with the repair) *)
Definition late_ok (s : state) : Prop :=
  fix_reg = true \/ forall c, late s c = true -> wfree c = true.

Ltac rw :=
  repeat match goal with
  | H : lp _ = _ |- _ => rewrite H
  | H : ap _ _ = _ |- _ => rewrite H
  | H : cp _ _ = _ |- _ => rewrite H
  | H : rp _ _ = _ |- _ => rewrite H
  | H : gp _ = _ |- _ => rewrite H
  | H : ndr _ = _ |- _ => rewrite H
  | H : tdone _ _ = _ |- _ => rewrite H
  | H : once _ = _ |- _ => rewrite H
  | H : done _ = _ |- _ => rewrite H
  | H : tld _ = _ |- _ => rewrite H
  | H : akind _ _ = _ |- _ => rewrite H
  | H : bufclosed _ = _ |- _ => rewrite H
  | H : ioab _ _ = _ |- _ => rewrite H
  | H : reg _ _ = _ |- _ => rewrite H
  | H : snap _ _ _ = _ |- _ => rewrite H
  | H : nq _ = _ |- _ => rewrite H
  | H : gfuel _ = _ |- _ => rewrite H
  | H : wfree _ = _ |- _ => rewrite H
  | H : Nat.ltb _ _ = _ |- _ => rewrite H
  | H : Nat.leb _ _ = _ |- _ => rewrite H
  | H : Nat.eqb _ _ = _ |- _ => rewrite H
  end.

(* exhibit the step with label L *)
Ltac mv L :=
  exists L; eexists; split;
  [ cbn [CloseProto.lstep]; rw; cbn [apc_is cpc_is rpc_is dpc_is gpc_is once_is andb orb negb Nat.eqb ctx_cancelled khost body_of];
    rw; try rewrite Nat.eqb_refl; cbn [andb orb negb apc_is cpc_is rpc_is dpc_is gpc_is once_is]; rw;
    cbn [andb orb negb apc_is cpc_is rpc_is dpc_is gpc_is once_is]; try rewrite orb_true_r; reflexivity
  | reflexivity ].

Lemma ltb_true a b : a < b -> Nat.ltb a b = true. Proof. intros; apply Nat.ltb_lt; assumption. Qed.
Lemma leb_true a b : a <= b -> Nat.leb a b = true. Proof. intros; apply Nat.leb_le; assumption. Qed.

(* the closer inside the once function always has a step *)
Lemma in_once_moves s k : Inv s -> in_once (cp s k) = true -> can_move s.
Proof.
  intros I H. destruct (cp s k) eqn:E; try discriminate H.
  - (* COnce1 *) pose proof (c_once1 _ _ _ I k E) as Hd. mv (TCloseDone k).
  - (* CSnap *) mv (TSnapshot k).
  - (* CAbort j *)
    pose proof (c_abound _ _ _ I k) as Hb. rewrite E in Hb.
    destruct (Nat.lt_ge_cases j NC) as [Hlt|Hge].
    + pose proof (ltb_true _ _ Hlt) as Hl. destruct (snap s k j) eqn:Hs.
      * mv (TAbortIO k).
      * mv (TAbortSkip k).
    + pose proof (leb_true _ _ Hge) as Hl. mv (TAbortEnd k).
  - (* COnceEnd *) mv (TOnceLeave k).
Qed.

Lemma once_running_moves s : Inv s -> once s = ORunning -> can_move s.
Proof. intros I H. apply (in_once_moves s (oowner s) I). apply (c_once_run _ _ _ I H). Qed.

Lemma called_moves s k : Inv s -> cp s k = CCalled -> can_move s.
Proof.
  intros I H. destruct (once s) eqn:E.
  - mv (TOnceEnter k).
  - apply once_running_moves; assumption.
  - mv (TOnceSeen k).
Qed.

(* a caller of loop.Run always has a step once l.done is closed, unless its task is running *)
Lemma run_caller_moves s i :
  Inv s -> done s = true -> active (ap s i) = true -> is_run (akind s i) = true ->
  (ap s i = AWait -> tdone s i = true) -> can_move s.
Proof.
  intros I Hd Ha Hr Hw. destruct (akind s i) as [h b| | |c] eqn:Ek; try discriminate Hr.
  destruct (ap s i) eqn:Ea; try discriminate Ha.
  - mv (ERet i RClosed).
  - mv (ERet i RClosed).
  - specialize (Hw eq_refl). mv (ERet i ROk).
  - pose proof (a_park _ _ _ I i Ea) as Hp. rewrite Ek in Hp. discriminate Hp.
Qed.

(* once the loop has exited every caller that is inside a call has a step *)
Lemma caller_moves_exited s i :
  Inv s -> tld s = true -> active (ap s i) = true -> can_move s.
Proof.
  intros I Ht Ha.
  pose proof (b_tld1 _ _ _ I Ht) as Hl.
  assert (Hd : done s = true) by (apply (b_closing _ _ _ I); rewrite Hl; reflexivity).
  destruct (is_run (akind s i)) eqn:Hr.
  - apply (run_caller_moves s i I Hd Ha Hr). intros Hw.
    destruct (tdone s i) eqn:Etd; [reflexivity|].
    pose proof (a_wait _ _ _ I i Hw Etd) as Hx. rewrite Hl in Hx. discriminate Hx.
  - destruct (ap s i) eqn:Ea; try discriminate Ha.
    + (* APre *) destruct (akind s i) eqn:Ek; try discriminate Hr.
      * mv (ERet i RClosed).
      * mv (TErrOk i).
      * mv (ERet i RClosed).
    + (* ASelect *) pose proof (a_sel _ _ _ I i (or_introl Ea)) as Hx. congruence.
    + (* AWait *) pose proof (a_sel _ _ _ I i (or_intror Ea)) as Hx. congruence.
    + (* APark *) destruct (akind s i) eqn:Ek; try discriminate Hr.
      * (* KRead *)
        assert (Hb : bufclosed s = true) by (rewrite (b_buf _ _ _ I), Hl; reflexivity).
        mv (ERet i RIo).
      * mv (ERet i RClosed).
      * (* KWriteOff c *)
        assert (Hne : ap s i <> AIdle) by congruence.
        pose proof (a_wtarget _ _ _ I i Hne) as Hw. rewrite Ek in Hw.
        assert (Hreg : reg s c = false) by (apply (d_alldel _ _ _ I); rewrite Hl; reflexivity).
        pose proof (d_unreg _ _ _ I c Hw Hreg) as Hex.
        pose proof (d_exit _ _ _ I c Hex) as Hio.
        mv (ERet i RIo).
Qed.

(* the socket a task / a caller writes on lets go once the closers' abort pass is over *)
Lemma write_released s c :
  Inv s -> late_ok s -> once s = ODone -> rp s c <> RNone -> wfree c = true \/ ioab s c = true.
Proof.
  intros I HL Ho Hne. destruct (reg s c) eqn:Er.
  - destruct (d_cover _ _ _ I c Ho Er) as [Hio|Hlate]; [right; exact Hio|].
    destruct HL as [Hfix|Hfree].
    + right. apply (d_fix _ _ _ I c Hfix Hlate Hne).
    + left. apply Hfree. exact Hlate.
  - right. apply (d_exit _ _ _ I). apply (d_unreg _ _ _ I c Hne Er).
Qed.

(* the loop goroutine always has a step while taskLoopDone is open and the abort pass is over *)
Lemma loop_moves s :
  Inv s -> ok_hosts s -> late_ok s -> once s = ODone -> tld s = false -> can_move s.
Proof.
  intros I HH HL Ho Ht.
  pose proof (c_odone _ _ _ I Ho) as Hd.
  destruct (lp s) eqn:El.
  - (* LIdle *) mv TSeeDone.
  - (* LRun i *)
    destruct (a_task _ _ _ I i) as [Ha [Htd Hr]]; [rewrite El; reflexivity|].
    destruct (akind s i) as [h b| | |c0] eqn:Ek; try discriminate Hr.
    destruct b.
    + mv (TBody i).
    + mv (TBody i).
    + (* BWrite: the candidate may be gone (nothing to send) *)
      destruct (rp s c) eqn:Er; [mv (TBody i)|mv (EWriteStart i)|mv (EWriteStart i)|mv (EWriteStart i)].
    + (* BStart *)
      exists (TBody i). cbn [CloseProto.lstep]. rewrite El, Ek. cbn [body_of]. rewrite Nat.eqb_refl.
      destruct (rpc_is (rp s c) RNone && (c <? NC)); eexists; (split; [reflexivity|reflexivity]).
    + mv (TDelBegin i).
    + mv (TBody i).
    + mv (EHostStart i).
  - (* LWrite i *)
    destruct (a_task _ _ _ I i) as [Ha [Htd Hr]]; [rewrite El; reflexivity|].
    pose proof (a_write _ _ _ I i El) as Hw.
    destruct (akind s i) as [h b| | |c0] eqn:Ek; try discriminate Hr.
    destruct b; try discriminate Hw.
    pose proof (a_wloop _ _ _ I i El) as Hx. rewrite Ek in Hx. cbn in Hx.
    destruct (write_released s c I HL Ho Hx) as [Hf|Hio]; mv (EWriteEnd i).
  - (* LHost i *) mv (EHostEnd i).
  - (* LHostBusy i *)
    destruct (e_lbusy _ _ _ I i El) as [Hc Hh]. destruct (HH _ Hc) as [Hno _]. elim (Hno i Hh).
  - (* LDel x j *)
    pose proof (d_delb _ _ _ I) as Hb. rewrite El in Hb.
    destruct (Nat.lt_ge_cases j NC) as [Hlt|Hge].
    + pose proof (ltb_true _ _ Hlt) as Hl. destruct (reg s j) eqn:Er.
      * mv TDelAbort.
      * mv TDelSkip.
    + pose proof (leb_true _ _ Hge) as Hl. mv TDelEnd.
  - (* LDelWait x j *)
    pose proof (d_wait _ _ _ I) as Hw. rewrite El in Hw. destruct Hw as [Hio Hreg].
    pose proof (d_reg _ _ _ I j Hreg) as Hne.
    destruct (rp s j) eqn:Er; [elim Hne; reflexivity| | |].
    + mv (ERecvExit j).
    + (* RBusy: the recvLoop is inside handleInbound; that caller can return *)
      destruct (e_rbusy _ _ _ I j Er) as [Hact Hhost].
      set (i0 := rown s j) in *.
      assert (Hrun : is_run (akind s i0) = true).
      { destruct (akind s i0); cbn in Hhost; try discriminate Hhost. reflexivity. }
      apply (run_caller_moves s i0 I Hd Hact Hrun). intros Hwait.
      destruct (tdone s i0) eqn:Etd; [reflexivity|].
      pose proof (a_wait _ _ _ I i0 Hwait Etd) as Hlt. rewrite El in Hlt.
      destruct x as [i1|]; cbn in Hlt; [|discriminate Hlt]. injection Hlt as ->.
      pose proof (a_del _ _ _ I i0) as Hdel. rewrite El in Hdel. specialize (Hdel eq_refl).
      assert (Hne0 : ap s i0 <> AIdle) by congruence.
      assert (Hapi : api_only (akind s i0) = true).
      { destruct (akind s i0) as [h b| | |c0]; cbn in Hdel; try discriminate Hdel.
        destruct b; try discriminate Hdel. reflexivity. }
      pose proof (a_kindok _ _ _ I i0 Hne0 Hapi) as Hk. congruence.
    + mv TDelJoin.
  - (* LFin *) mv TTaskDone.
  - (* LClosing *) mv EOnCloseStart.
  - (* LOC1 *)
    destruct (gp s) eqn:Eg.
    + mv TGatherJoin.
    + mv EGatherDone.
    + (* GBusy *)
      destruct (e_gbusy _ _ _ I Eg) as [Hact Hhost].
      set (i0 := gown s) in *.
      assert (Hrun : is_run (akind s i0) = true).
      { destruct (akind s i0); cbn in Hhost; try discriminate Hhost. reflexivity. }
      apply (run_caller_moves s i0 I Hd Hact Hrun). intros Hwait.
      destruct (tdone s i0) eqn:Etd; [reflexivity|].
      pose proof (a_wait _ _ _ I i0 Hwait Etd) as Hlt. rewrite El in Hlt. discriminate Hlt.
    + mv TGatherIODone.
    + mv TGatherJoin.
  - mv TBufClose.
  - mv TEnqClosed.
  - mv TCloseTLD.
  - (* LExited *) pose proof (b_tld2 _ _ _ I El). congruence.
Qed.

(* a closer that is not waiting for anybody else *)
Lemma closer_moves_after_tld s k :
  Inv s -> ok_hosts s -> tld s = true -> cactive (cp s k) = true -> cp s k <> CNotifWait -> can_move s.
Proof.
  intros I HH Ht Hc Hnw. destruct (cp s k) eqn:E; try discriminate Hc.
  - apply (called_moves s k I E).
  - apply (in_once_moves s k I); rewrite E; reflexivity.
  - apply (in_once_moves s k I); rewrite E; reflexivity.
  - apply (in_once_moves s k I); rewrite E; reflexivity.
  - apply (in_once_moves s k I); rewrite E; reflexivity.
  - mv (TSeeTLD k).
  - mv (TNotifClose k).
  - elim Hnw; reflexivity.
  - mv (ECloseRet k).
Qed.

(* the notifier goroutine always has a step once the loop has exited *)
Lemma notifier_moves s :
  Inv s -> ok_hosts s -> tld s = true -> ndr s <> DNone -> can_move s.
Proof.
  intros I HH Ht Hn. destruct (ndr s) eqn:En; [elim Hn; reflexivity| | |].
  - destruct (Nat.eqb (nq s) 0) eqn:Eq.
    + mv TDrainExit.
    + mv ENotifyStart.
  - mv ENotifyEnd.
  - (* DBusy: the callback is inside an API call, which returns *)
    destruct (dclo s) eqn:Ec.
    + destruct (e_dbusy_c _ _ _ I En Ec) as [Hact Hhost].
      apply (closer_moves_after_tld s (down s) I HH Ht Hact).
      intros Hw. pose proof (c_grace _ _ _ I _ Hw) as Hg.
      destruct (HH _ Hact) as [_ Hno]. elim (Hno Hg Hhost).
    + destruct (e_dbusy_a _ _ _ I En Ec) as [Hact _].
      apply (caller_moves_exited s (down s) I Ht Hact).
Qed.

(* ---- deadlock freedom ---------------------------------------------------------------------------- *)
Theorem progress s :
  Inv s -> ok_hosts s -> late_ok s ->
  (exists k, cp s k <> CIdle) ->
  (exists k, cactive (cp s k) = true) \/ (exists i, active (ap s i) = true) ->
  can_move s.
Proof.
  intros I HH HL [k0 Hk0] Hun.
  assert (Hclosers : forall k, cactive (cp s k) = true -> can_move s).
  { intros k Hc. destruct (cp s k) eqn:E; try discriminate Hc.
    - apply (called_moves s k I E).
    - apply (in_once_moves s k I); rewrite E; reflexivity.
    - apply (in_once_moves s k I); rewrite E; reflexivity.
    - apply (in_once_moves s k I); rewrite E; reflexivity.
    - apply (in_once_moves s k I); rewrite E; reflexivity.
    - (* CWaitTLD *)
      destruct (tld s) eqn:Et.
      + mv (TSeeTLD k).
      + apply (loop_moves s I HH HL); [|exact Et].
        apply (c_past _ _ _ I k). rewrite E. reflexivity.
    - mv (TNotifClose k).
    - (* CNotifWait *)
      assert (Ht : tld s = true) by (apply (c_ptld _ _ _ I k); rewrite E; reflexivity).
      destruct (ndr s) eqn:En.
      + mv (TNotifJoin k).
      + apply (notifier_moves s I HH Ht). congruence.
      + apply (notifier_moves s I HH Ht). congruence.
      + apply (notifier_moves s I HH Ht). congruence.
    - mv (ECloseRet k). }
  destruct Hun as [[k Hc]|[i Ha]]; [exact (Hclosers k Hc)|].
  destruct (cactive (cp s k0)) eqn:Ec; [exact (Hclosers k0 Ec)|].
  assert (Hret : cp s k0 = CRet) by (destruct (cp s k0); cbn in Ec; congruence).
  assert (Ht : tld s = true) by (apply (c_ptld _ _ _ I k0); rewrite Hret; reflexivity).
  apply (caller_moves_exited s i I Ht Ha).
Qed.

End P.
