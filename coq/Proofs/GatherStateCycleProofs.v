(* Invariants of the gathering-state machine (Model/GatherStateCycle.v) over EVERY interleaving. C18. *)
From Coq Require Import ZArith Bool String List Lia.
From Ice Require Import Model.PrioSpec Model.GatherStateCycle.
Import ListNotations.
Local Open Scope Z_scope.

(* ------------------------------------------------------------------ list updates *)

Lemma nth_upd l : forall k f j,
  nth_error (upd_gor l k f) j = if Nat.eqb j k then option_map f (nth_error l j) else nth_error l j.
Proof.
  induction l as [|g l IH]; intros k f j; simpl.
  - destruct (Nat.eqb j k); destruct j; reflexivity.
  - destruct k as [|k]; destruct j as [|j]; simpl; try reflexivity. apply IH.
Qed.

Lemma len_upd l : forall k f, length (upd_gor l k f) = length l.
Proof. induction l as [|g l IH]; intros [|k] f; simpl; auto. Qed.

Lemma nth_cancel_all l j : nth_error (cancel_all l) j = option_map cancel (nth_error l j).
Proof. unfold cancel_all. apply nth_error_map. Qed.

Lemma len_cancel_all l : length (cancel_all l) = length l.
Proof. unfold cancel_all. apply map_length. Qed.

Lemma nth_snoc {A} (l : list A) x j :
  nth_error (l ++ [x]) j = if Nat.ltb j (length l) then nth_error l j else if Nat.eqb j (length l) then Some x else None.
Proof.
  destruct (Nat.ltb j (length l)) eqn:E.
  - apply Nat.ltb_lt in E. apply nth_error_app1. exact E.
  - apply Nat.ltb_ge in E. rewrite nth_error_app2 by exact E.
    destruct (Nat.eqb j (length l)) eqn:E2.
    + apply Nat.eqb_eq in E2. subst. rewrite Nat.sub_diag. reflexivity.
    + apply Nat.eqb_neq in E2. destruct (j - length l)%nat eqn:E3; [lia|]. simpl. destruct n; reflexivity.
Qed.

(* ------------------------------------------------------------------ the invariant *)

Definition pc_sets (g : gor) : Prop :=
  (g_pc g = 0 /\ g_sets g = 0 /\ g_nils g = 0)%nat \/
  ((g_pc g = 1 \/ g_pc g = 2) /\ g_sets g = 1 /\ g_nils g = 0)%nat \/
  (g_pc g = 3 /\ ((g_sets g = 0 /\ g_nils g = 0) \/ (g_sets g = 1 /\ g_nils g = 0) \/ (g_sets g = 2 /\ g_nils g = 1)))%nat.

Definition st_rel (pc : nat) (st : Z) : Prop :=
  (pc = 0%nat -> st = 1) /\ (pc = 1%nat \/ pc = 2%nat -> st = 2) /\ (pc = 3%nat -> st = 3).

Definition gor_inv (s : cyc) (k : nat) (g : gor) : Prop :=
  pc_sets g /\ (g_gen g <= y_gen s)%nat /\ (g_passed g = true -> g_pc g = 1%nat) /\
  (g_cancelled g = false ->
     S k = length (y_gors s) /\ g_gen g = y_gen s /\ y_closed s = false /\ st_rel (g_pc g) (y_state s)).

Definition Inv (s : cyc) : Prop :=
  (forall k g, nth_error (y_gors s) k = Some g -> gor_inv s k g) /\
  (y_state s = 1 -> forall k g, nth_error (y_gors s) k = Some g -> g_gen g = y_gen s -> g_sets g = 0%nat) /\
  (forall j k gj gk, nth_error (y_gors s) j = Some gj -> nth_error (y_gors s) k = Some gk ->
     g_gen gj = g_gen gk -> (1 <= g_sets gj)%nat -> (1 <= g_sets gk)%nat -> j = k) /\
  (y_state s = 1 \/ y_state s = 2 \/ y_state s = 3) /\
  (y_state s = 3 -> exists k g, nth_error (y_gors s) k = Some g /\ g_gen g = y_gen s /\ g_nils g = 1%nat).

Lemma inv_init : Inv cyc_init.
Proof.
  unfold Inv, cyc_init; simpl. split; [|split; [|split; [|split]]].
  - intros k g H. destruct k; discriminate.
  - intros _ k g H. destruct k; discriminate.
  - intros j k gj gk H. destruct j; discriminate.
  - auto.
  - discriminate.
Qed.

Lemma pc_sets_cancel g : pc_sets g -> pc_sets (cancel g).
Proof. unfold pc_sets, cancel. simpl. tauto. Qed.

Ltac inv_some :=
  match goal with
  | H : option_map _ ?x = Some _ |- _ => destruct x eqn:?; simpl in H; [inversion H; subst; clear H | discriminate]
  end.

Ltac split5 := split; [|split; [|split; [|split]]].

(* updating one goroutine's record without touching generation, write count, nil count *)
Lemma inv_upd s k g f pubs :
  Inv s -> nth_error (y_gors s) k = Some g ->
  g_gen (f g) = g_gen g -> g_sets (f g) = g_sets g -> g_nils (f g) = g_nils g ->
  gor_inv s k (f g) ->
  Inv (with_gors s (y_state s) (upd_gor (y_gors s) k f) pubs).
Proof.
  intros [HA [HB [HC [HD HE]]]] Hk Hg Hs Hn Hgi. unfold Inv, with_gors; simpl. split5.
  - intros j g' Hj. rewrite nth_upd in Hj. destruct (Nat.eqb j k) eqn:Ej.
    + apply Nat.eqb_eq in Ej. subst j. rewrite Hk in Hj. simpl in Hj. inversion Hj; subst; clear Hj.
      unfold gor_inv in *; simpl. rewrite len_upd. exact Hgi.
    + specialize (HA j g' Hj). unfold gor_inv in *; simpl. rewrite len_upd. exact HA.
  - intros Es j g' Hj Hgen. rewrite nth_upd in Hj. destruct (Nat.eqb j k) eqn:Ej.
    + apply Nat.eqb_eq in Ej. subst j. rewrite Hk in Hj. simpl in Hj. inversion Hj; subst; clear Hj.
      rewrite Hs. apply (HB Es k g Hk). congruence.
    + apply (HB Es j g' Hj Hgen).
  - intros i j gi gj Hi Hj. rewrite nth_upd in Hi, Hj.
    destruct (Nat.eqb i k) eqn:Ei; destruct (Nat.eqb j k) eqn:Ej.
    + apply Nat.eqb_eq in Ei. apply Nat.eqb_eq in Ej. intros. congruence.
    + apply Nat.eqb_eq in Ei. subst i. rewrite Hk in Hi. simpl in Hi. inversion Hi; subst; clear Hi.
      rewrite Hg, Hs. apply (HC k j g gj Hk Hj).
    + apply Nat.eqb_eq in Ej. subst j. rewrite Hk in Hj. simpl in Hj. inversion Hj; subst; clear Hj.
      rewrite Hg, Hs. apply (HC i k gi g Hi Hk).
    + apply (HC i j gi gj Hi Hj).
  - exact HD.
  - intros H3. destruct (HE H3) as [j [g' [Hj [Hgen Hnl]]]].
    destruct (Nat.eq_dec j k) as [->|Hne].
    + rewrite Hk in Hj. inversion Hj; subst. exists k, (f g'). rewrite nth_upd, Nat.eqb_refl, Hk. simpl.
      split; [reflexivity|]. split; congruence.
    + exists j, g'. rewrite nth_upd. apply Nat.eqb_neq in Hne. rewrite Hne. auto.
Qed.

Lemma inv_cancel_all s st gen cl :
  Inv s -> (y_gen s <= gen)%nat ->
  (st = y_state s /\ gen = y_gen s \/ st = 1 /\ (y_gen s < gen)%nat) ->
  Inv (mkCyc st gen (y_handler s) cl (cancel_all (y_gors s)) (y_pubs s)).
Proof.
  intros [HA [HB [HC [HD HE]]]] Hgen Hst. unfold Inv; simpl. split5.
  - intros k g Hn. rewrite nth_cancel_all in Hn. inv_some.
    destruct (HA k g0 Heqo) as [H1 [H2 [H3 H4]]]. unfold gor_inv; simpl.
    split; [apply pc_sets_cancel; exact H1|]. split; [lia|]. split; [exact H3 | discriminate].
  - intros Es k g Hn Hg. rewrite nth_cancel_all in Hn. inv_some. simpl in *.
    destruct Hst as [[E1 E2] | [_ Hlt]].
    + apply (HB (eq_sym E1) k g0 Heqo). congruence.
    + destruct (HA k g0 Heqo) as [_ [H2 _]]. lia.
  - intros j k gj gk Hj Hk. rewrite nth_cancel_all in Hj, Hk. repeat inv_some. simpl. eapply HC; eauto.
  - destruct Hst as [[E1 _] | [E1 _]]; rewrite E1; auto.
  - intros H3. destruct Hst as [[E1 E2] | [E1 _]]; [|congruence].
    rewrite E1 in H3. destruct (HE H3) as [k [g [Hn [Hg Hl]]]]. exists k, (cancel g).
    rewrite nth_cancel_all, Hn. simpl. split; [reflexivity|]. split; congruence.
Qed.

Lemma inv_step recheck s a s' r : Inv s -> apply recheck a s = Some (s', r) -> Inv s'.
Proof.
  intros HI Hap. pose proof HI as [HA [HB [HC [HD HE]]]].
  destruct a; simpl in Hap.
  - (* AOnCandidate *)
    inversion Hap; subst; clear Hap. unfold Inv; simpl. split5; auto.
  - (* AGather *)
    destruct (y_closed s) eqn:Ec; [inversion Hap; subst; exact HI|].
    destruct (y_state s =? 1) eqn:Es; simpl in Hap; [|inversion Hap; subst; exact HI].
    destruct (y_handler s); simpl in Hap; [|inversion Hap; subst; exact HI].
    apply Z.eqb_eq in Es. inversion Hap; subst; clear Hap. unfold Inv, with_gors; simpl.
    assert (Hnew : forall k g, nth_error (cancel_all (y_gors s) ++ [mkGor 0 false (y_gen s) false 0 0]) k = Some g ->
              (exists g0, nth_error (y_gors s) k = Some g0 /\ g = cancel g0 /\ (k < length (y_gors s))%nat) \/
              (k = length (y_gors s) /\ g = mkGor 0 false (y_gen s) false 0 0)).
    { intros k g Hn. rewrite nth_snoc, len_cancel_all in Hn.
      destruct (Nat.ltb k (length (y_gors s))) eqn:El.
      - rewrite nth_cancel_all in Hn. inv_some. left. eexists. apply Nat.ltb_lt in El. auto.
      - destruct (Nat.eqb k (length (y_gors s))) eqn:Ee; [|discriminate]. apply Nat.eqb_eq in Ee.
        inversion Hn. right. auto. }
    split5.
    + intros k g Hn. destruct (Hnew k g Hn) as [[g0 [Hn0 [-> Hlt]]] | [-> ->]].
      * destruct (HA k g0 Hn0) as [H1 [H2 [H3 H4]]]. unfold gor_inv; simpl.
        split; [apply pc_sets_cancel; exact H1|]. split; [exact H2|]. split; [exact H3 | discriminate].
      * unfold gor_inv; simpl. rewrite app_length, len_cancel_all. simpl.
        split; [left; auto|]. split; [lia|]. split; [discriminate|]. intros _.
        split; [lia|]. split; [reflexivity|]. split; [exact Ec|].
        unfold st_rel. split; [intros _; exact Es|]. split; [intros [H|H]; discriminate | discriminate].
    + intros _ k g Hn Hg. destruct (Hnew k g Hn) as [[g0 [Hn0 [-> Hlt]]] | [-> ->]]; [|reflexivity].
      simpl in *. apply (HB Es k g0 Hn0 Hg).
    + intros j k gj gk Hj Hk Hg Hsj Hsk.
      destruct (Hnew j gj Hj) as [[g0 [Hn0 [-> _]]] | [-> ->]]; [|simpl in Hsj; lia].
      destruct (Hnew k gk Hk) as [[g1 [Hn1 [-> _]]] | [-> ->]]; [|simpl in Hsk; lia].
      simpl in *. eapply HC; eauto.
    + exact HD.
    + intros H3. rewrite H3 in Es. discriminate.
  - (* ARestart *)
    destruct (y_closed s) eqn:Ec; [inversion Hap; subst; exact HI|].
    inversion Hap; subst; clear Hap. apply inv_cancel_all; [exact HI | lia | right; split; [reflexivity | lia]].
  - (* AClose *)
    inversion Hap; subst; clear Hap. apply inv_cancel_all; [exact HI | lia | left; auto].
  - (* ASetGathering k *)
    destruct (nth_error (y_gors s) k) as [g|] eqn:Hk; [|discriminate].
    destruct (Nat.eqb (g_pc g) 0) eqn:Epc; simpl in Hap; [|discriminate]. apply Nat.eqb_eq in Epc.
    destruct (HA k g Hk) as [Hps [Hgen [Hpa Hunc]]].
    assert (Hs0 : g_sets g = 0%nat /\ g_nils g = 0%nat) by (unfold pc_sets in Hps; lia).
    destruct (g_cancelled g || y_closed s) eqn:Ecc; inversion Hap; subst; clear Hap.
    + (* dropped *)
      apply (inv_upd s k g (set_pc 3)); auto.
      unfold gor_inv, set_pc; simpl. split; [right; right; split; [reflexivity|]; left; cbn; lia|].
      split; [exact Hgen|]. split; [discriminate|].
      intros Hc. rewrite Hc in Ecc. simpl in Ecc. destruct (Hunc Hc) as [_ [_ [Hcl _]]]. congruence.
    + (* applied *)
      apply orb_false_iff in Ecc. destruct Ecc as [Ecanc Ecl].
      destruct (Hunc Ecanc) as [Hlast [Hgeq [_ [Hst _]]]]. specialize (Hst Epc).
      unfold Inv, with_gors; simpl. split5.
      * intros j g' Hn. rewrite nth_upd in Hn. destruct (Nat.eqb j k) eqn:Ej.
        -- apply Nat.eqb_eq in Ej. subst j. rewrite Hk in Hn. simpl in Hn. inversion Hn; subst; clear Hn.
           unfold gor_inv; simpl. rewrite len_upd.
           split; [right; left; cbn; lia|]. split; [exact Hgen|]. split; [discriminate|]. intros _.
           split; [exact Hlast|]. split; [exact Hgeq|]. split; [exact Ecl|].
           unfold st_rel. split; [discriminate|]. split; [reflexivity | discriminate].
        -- destruct (HA j g' Hn) as [H1 [H2 [H3 H4]]]. unfold gor_inv; simpl. rewrite len_upd.
           split; [exact H1|]. split; [exact H2|]. split; [exact H3|].
           intros Hc. destruct (H4 Hc) as [Hl' _]. apply Nat.eqb_neq in Ej. lia.
      * discriminate.
      * intros i j gi gj Hi Hj Hg Hsi Hsj. rewrite nth_upd in Hi, Hj.
        destruct (Nat.eqb i k) eqn:Ei; destruct (Nat.eqb j k) eqn:Ej.
        -- apply Nat.eqb_eq in Ei. apply Nat.eqb_eq in Ej. congruence.
        -- apply Nat.eqb_eq in Ei. subst i. rewrite Hk in Hi. simpl in Hi. inversion Hi; subst; simpl in *.
           assert (g_sets gj = 0%nat) by (apply (HB Hst j gj Hj); congruence). lia.
        -- apply Nat.eqb_eq in Ej. subst j. rewrite Hk in Hj. simpl in Hj. inversion Hj; subst; simpl in *.
           assert (g_sets gi = 0%nat) by (apply (HB Hst i gi Hi); congruence). lia.
        -- eapply HC; eauto.
      * auto.
      * discriminate.
  - (* AAddCheck k *)
    destruct (nth_error (y_gors s) k) as [g|] eqn:Hk; [|discriminate].
    destruct (Nat.eqb (g_pc g) 1 && negb (g_cancelled g) && negb (g_passed g) && negb (y_closed s)) eqn:Ec; [|discriminate].
    inversion Hap; subst; clear Hap. rewrite !andb_true_iff in Ec. destruct Ec as [[[Epc _] _] _]. apply Nat.eqb_eq in Epc.
    apply (inv_upd s k g (set_passed true)); auto.
    destruct (HA k g Hk) as [H1 [H2 [H3 H4]]]. unfold gor_inv, set_passed; simpl.
    split; [exact H1|]. split; [exact H2|]. split; [intros _; exact Epc | exact H4].
  - (* AAddRun k *)
    destruct (nth_error (y_gors s) k) as [g|] eqn:Hk; [|discriminate].
    destruct (g_passed g && negb (y_closed s) && negb (recheck && g_cancelled g)) eqn:Ec; [|discriminate].
    inversion Hap; subst; clear Hap.
    apply (inv_upd s k g (set_passed false)); auto.
    destruct (HA k g Hk) as [H1 [H2 [H3 H4]]]. unfold gor_inv, set_passed; simpl.
    split; [exact H1|]. split; [exact H2|]. split; [discriminate | exact H4].
  - (* AAddAbort k *)
    destruct (nth_error (y_gors s) k) as [g|] eqn:Hk; [|discriminate].
    destruct (g_passed g && (g_cancelled g || y_closed s)) eqn:Ec; [|discriminate].
    inversion Hap; subst; clear Hap.
    apply (inv_upd s k g (set_passed false)); auto.
    destruct (HA k g Hk) as [H1 [H2 [H3 H4]]]. unfold gor_inv, set_passed; simpl.
    split; [exact H1|]. split; [exact H2|]. split; [discriminate | exact H4].
  - (* AInternalDone k *)
    destruct (nth_error (y_gors s) k) as [g|] eqn:Hk; [|discriminate].
    destruct (Nat.eqb (g_pc g) 1 && negb (g_passed g)) eqn:Ec; [|discriminate].
    inversion Hap; subst; clear Hap. apply andb_true_iff in Ec. destruct Ec as [Epc _]. apply Nat.eqb_eq in Epc.
    apply (inv_upd s k g (set_pc 2)); auto.
    destruct (HA k g Hk) as [H1 [H2 [H3 H4]]]. unfold gor_inv, set_pc; simpl.
    split; [unfold pc_sets in *; simpl; right; left; lia|]. split; [exact H2|]. split; [discriminate|].
    intros Hc. destruct (H4 Hc) as [Ha [Hb [Hcl Hst]]]. split; [exact Ha|]. split; [exact Hb|]. split; [exact Hcl|].
    unfold st_rel in *. split; [discriminate|]. split; [intros _; apply Hst; left; exact Epc | discriminate].
  - (* ASetComplete k *)
    destruct (nth_error (y_gors s) k) as [g|] eqn:Hk; [|discriminate].
    destruct (Nat.eqb (g_pc g) 2) eqn:Epc; simpl in Hap; [|discriminate]. apply Nat.eqb_eq in Epc.
    destruct (HA k g Hk) as [Hps [Hgen [Hpa Hunc]]].
    assert (Hs1 : g_sets g = 1%nat /\ g_nils g = 0%nat) by (unfold pc_sets in Hps; lia).
    destruct (g_cancelled g || y_closed s) eqn:Ecc; inversion Hap; subst; clear Hap.
    + (* dropped *)
      apply (inv_upd s k g (set_pc 3)); auto.
      unfold gor_inv, set_pc; simpl. split; [right; right; split; [reflexivity|]; right; left; cbn; lia|].
      split; [exact Hgen|]. split; [discriminate|].
      intros Hc. rewrite Hc in Ecc. simpl in Ecc. destruct (Hunc Hc) as [_ [_ [Hcl _]]]. congruence.
    + (* applied *)
      apply orb_false_iff in Ecc. destruct Ecc as [Ecanc Ecl].
      destruct (Hunc Ecanc) as [Hlast [Hgeq [_ [_ [Hst _]]]]]. specialize (Hst (or_intror Epc)).
      assert (E3 : (y_state s =? 3) = false) by (rewrite Hst; reflexivity).
      unfold Inv, with_gors; simpl. split5.
      * intros j g' Hn. rewrite nth_upd in Hn. destruct (Nat.eqb j k) eqn:Ej.
        -- apply Nat.eqb_eq in Ej. subst j. rewrite Hk in Hn. simpl in Hn. inversion Hn; subst; clear Hn.
           unfold gor_inv; simpl. rewrite len_upd, E3.
           split; [right; right; split; [reflexivity|]; right; right; cbn; lia|]. split; [exact Hgen|].
           split; [discriminate|]. intros _.
           split; [exact Hlast|]. split; [exact Hgeq|]. split; [exact Ecl|].
           unfold st_rel. split; [discriminate|]. split; [intros [H|H]; discriminate | reflexivity].
        -- destruct (HA j g' Hn) as [H1 [H2 [H3 H4]]]. unfold gor_inv; simpl. rewrite len_upd.
           split; [exact H1|]. split; [exact H2|]. split; [exact H3|].
           intros Hc. destruct (H4 Hc) as [Hl' _]. apply Nat.eqb_neq in Ej. lia.
      * discriminate.
      * intros i j gi gj Hi Hj Hg Hsi Hsj. rewrite nth_upd in Hi, Hj.
        destruct (Nat.eqb i k) eqn:Ei; destruct (Nat.eqb j k) eqn:Ej.
        -- apply Nat.eqb_eq in Ei. apply Nat.eqb_eq in Ej. congruence.
        -- apply Nat.eqb_eq in Ei. subst i. rewrite Hk in Hi. simpl in Hi. inversion Hi; subst; simpl in *.
           apply (HC k j g gj Hk Hj Hg); lia.
        -- apply Nat.eqb_eq in Ej. subst j. rewrite Hk in Hj. simpl in Hj. inversion Hj; subst; simpl in *.
           apply (HC i k gi g Hi Hk Hg); lia.
        -- eapply HC; eauto.
      * auto.
      * intros _. eexists k, _. rewrite nth_upd, Nat.eqb_refl, Hk. simpl. rewrite E3.
        split; [reflexivity|]. simpl. split; [exact Hgeq | lia].
Qed.

Theorem reach_inv recheck s : reach recheck s -> Inv s.
Proof.
  induction 1 as [|s s' Hr IH [a [r Hs]]]; [apply inv_init | eapply inv_step; eauto].
Qed.

(* ------------------------------------------------------------------ the statements of C18_cycle *)

(* the state only moves New->Gathering (a goroutine's first task), Gathering->Complete (its last
   task) or back to New (Restart) *)
Theorem cycle_state_moves recheck s a s' r :
  reach recheck s -> apply recheck a s = Some (s', r) -> y_state s' <> y_state s ->
  (y_state s = 1 /\ y_state s' = 2 /\ exists k, a = ASetGathering k) \/
  (y_state s = 2 /\ y_state s' = 3 /\ exists k, a = ASetComplete k) \/
  (y_state s' = 1 /\ a = ARestart).
Proof.
  intros Hr Hap Hne. destruct (reach_inv _ _ Hr) as [HA _].
  destruct a; simpl in Hap.
  - inversion Hap; subst. simpl in Hne. congruence.
  - destruct (y_closed s); [inversion Hap; subst; congruence|].
    destruct (negb (y_state s =? 1)); [inversion Hap; subst; congruence|].
    destruct (negb (y_handler s)); inversion Hap; subst; simpl in Hne; congruence.
  - destruct (y_closed s); inversion Hap; subst; [congruence|]. right. right. auto.
  - inversion Hap; subst. simpl in Hne. congruence.
  - destruct (nth_error (y_gors s) k) as [g|] eqn:Hk; [|discriminate].
    destruct (Nat.eqb (g_pc g) 0) eqn:Epc; simpl in Hap; [|discriminate]. apply Nat.eqb_eq in Epc.
    destruct (g_cancelled g || y_closed s) eqn:Ecc; inversion Hap; subst; simpl in Hne; [congruence|].
    apply orb_false_iff in Ecc. destruct Ecc as [Ec _].
    destruct (HA k g Hk) as [_ [_ [_ Hu]]]. destruct (Hu Ec) as [_ [_ [_ [Hst _]]]].
    left. simpl. split; [apply Hst; exact Epc|]. split; [reflexivity | eauto].
  - destruct (nth_error (y_gors s) k); [|discriminate]. destruct (_ && _); inversion Hap; subst; simpl in Hne; congruence.
  - destruct (nth_error (y_gors s) k); [|discriminate]. destruct (_ && _); inversion Hap; subst; simpl in Hne; congruence.
  - destruct (nth_error (y_gors s) k); [|discriminate]. destruct (_ && _); inversion Hap; subst; simpl in Hne; congruence.
  - destruct (nth_error (y_gors s) k); [|discriminate]. destruct (_ && _); inversion Hap; subst; simpl in Hne; congruence.
  - destruct (nth_error (y_gors s) k) as [g|] eqn:Hk; [|discriminate].
    destruct (Nat.eqb (g_pc g) 2) eqn:Epc; simpl in Hap; [|discriminate]. apply Nat.eqb_eq in Epc.
    destruct (g_cancelled g || y_closed s) eqn:Ecc; inversion Hap; subst; simpl in Hne; [congruence|].
    apply orb_false_iff in Ecc. destruct Ecc as [Ec _].
    destruct (HA k g Hk) as [_ [_ [_ Hu]]]. destruct (Hu Ec) as [_ [_ [_ [_ [Hst _]]]]].
    right. left. simpl. split; [apply Hst; right; exact Epc|]. split; [reflexivity | eauto].
Qed.

(* a GatherCandidates call once the state has left New is refused and changes nothing *)
Theorem cycle_refused recheck s s' r :
  y_state s <> 1 -> apply recheck AGather s = Some (s', r) -> s' = s /\ (r = 1 \/ r = 3).
Proof.
  intros Hne. simpl. destruct (y_closed s); [intros H; inversion H; auto|].
  destruct (y_state s =? 1) eqn:E; [apply Z.eqb_eq in E; congruence|]. simpl. intros H; inversion H; auto.
Qed.

(* an accepted call needs state New, and starts exactly one goroutine, cancelling all others *)
Theorem cycle_accepted recheck s s' :
  apply recheck AGather s = Some (s', 0) ->
  y_state s = 1 /\ y_gors s' = cancel_all (y_gors s) ++ [mkGor 0 false (y_gen s) false 0 0].
Proof.
  simpl. destruct (y_closed s); [intros H; inversion H|].
  destruct (y_state s =? 1) eqn:E; simpl; [|intros H; inversion H].
  destruct (y_handler s); simpl; intros H; inversion H. apply Z.eqb_eq in E. auto.
Qed.

(* no two overlapping cycles: at any time at most one goroutine has a live (un-cancelled) context,
   and within one era (stretch between Restarts) at most one goroutine ever moves the state *)
Theorem cycle_no_overlap recheck s j k gj gk :
  reach recheck s -> nth_error (y_gors s) j = Some gj -> nth_error (y_gors s) k = Some gk ->
  (g_cancelled gj = false -> g_cancelled gk = false -> j = k) /\
  (g_gen gj = g_gen gk -> (1 <= g_sets gj)%nat -> (1 <= g_sets gk)%nat -> j = k).
Proof.
  intros Hr Hj Hk. destruct (reach_inv _ _ Hr) as [HA [_ [HC _]]]. split.
  - intros Hcj Hck. destruct (HA j gj Hj) as [_ [_ [_ H1]]]. destruct (HA k gk Hk) as [_ [_ [_ H2]]].
    destruct (H1 Hcj) as [L1 _]. destruct (H2 Hck) as [L2 _]. lia.
  - apply (HC j k gj gk Hj Hk).
Qed.

(* a goroutine gathers only after its own Gathering write was applied; a cycle cancelled before
   that never gathers *)
Theorem cycle_gathers_only_if_applied recheck s k g :
  reach recheck s -> nth_error (y_gors s) k = Some g ->
  ((g_pc g = 1 \/ g_pc g = 2)%nat -> g_sets g = 1%nat) /\ (g_passed g = true -> g_pc g = 1%nat).
Proof.
  intros Hr Hk. destruct (reach_inv _ _ Hr) as [HA _]. destruct (HA k g Hk) as [Hp [_ [Hpa _]]].
  split; [unfold pc_sets in Hp; lia | exact Hpa].
Qed.

(* at most one nil candidate per cycle, none from a cycle that did not complete *)
Theorem cycle_one_nil recheck s j k gj gk :
  reach recheck s -> nth_error (y_gors s) j = Some gj -> nth_error (y_gors s) k = Some gk ->
  (g_nils gj <= 1)%nat /\ (g_nils gj = 1%nat -> g_pc gj = 3%nat /\ g_sets gj = 2%nat) /\
  (g_gen gj = g_gen gk -> g_nils gj = 1%nat -> g_nils gk = 1%nat -> j = k).
Proof.
  intros Hr Hj Hk. destruct (reach_inv _ _ Hr) as [HA [_ [HC _]]].
  destruct (HA j gj Hj) as [Hp1 _]. destruct (HA k gk Hk) as [Hp2 _]. unfold pc_sets in *.
  split; [lia|]. split; [lia|]. intros Hg H1 H2. apply (HC j k gj gk Hj Hk Hg); lia.
Qed.

Theorem cycle_complete_has_nil recheck s :
  reach recheck s -> y_state s = 3 ->
  exists k g, nth_error (y_gors s) k = Some g /\ g_gen g = y_gen s /\ g_nils g = 1%nat.
Proof. intros Hr. destruct (reach_inv _ _ Hr) as [_ [_ [_ [_ HE]]]]. exact HE. Qed.

(* Restart returns to New, cancels every cycle, and opens a new era *)
Theorem cycle_restart recheck s s' :
  apply recheck ARestart s = Some (s', 0) ->
  y_state s' = 1 /\ y_gen s' = S (y_gen s) /\
  forall k g, nth_error (y_gors s') k = Some g -> g_cancelled g = true.
Proof.
  simpl. destruct (y_closed s); intros H; inversion H; subst; simpl. repeat split; auto.
  intros k g Hn. rewrite nth_cancel_all in Hn. destruct (nth_error (y_gors s) k); simpl in Hn; [|discriminate].
  inversion Hn. reflexivity.
Qed.

(* the state writes of a cancelled cycle are dropped (neither the state nor any nil count moves) *)
Theorem cycle_cancelled_writes_dropped recheck s k g s' r :
  nth_error (y_gors s) k = Some g -> g_cancelled g = true ->
  (apply recheck (ASetGathering k) s = Some (s', r) \/ apply recheck (ASetComplete k) s = Some (s', r)) ->
  y_state s' = y_state s /\ y_gors s' = upd_gor (y_gors s) k (set_pc 3).
Proof.
  intros Hk Hc [H | H]; simpl in H; rewrite Hk, Hc in H; simpl in H;
    destruct (negb _); try discriminate; inversion H; subst; simpl; auto.
Qed.

(* --- results are not mixed (for the variant in which the addCandidate task re-checks its context) *)
Lemma gen_stable recheck a s s' r k g :
  apply recheck a s = Some (s', r) -> nth_error (y_gors s) k = Some g ->
  exists g', nth_error (y_gors s') k = Some g' /\ g_gen g' = g_gen g.
Proof.
  intros Hap Hk.
  assert (Hupd : forall j f, (forall x, g_gen (f x) = g_gen x) ->
            exists g', nth_error (upd_gor (y_gors s) j f) k = Some g' /\ g_gen g' = g_gen g).
  { intros j f Hf. rewrite nth_upd. destruct (Nat.eqb k j); rewrite Hk; simpl; eauto. }
  assert (Hcan : exists g', nth_error (cancel_all (y_gors s)) k = Some g' /\ g_gen g' = g_gen g).
  { rewrite nth_cancel_all, Hk. simpl. eauto. }
  destruct a; simpl in Hap.
  - inversion Hap; subst; simpl; eauto.
  - destruct (y_closed s); [inversion Hap; subst; eauto|].
    destruct (negb (y_state s =? 1)); [inversion Hap; subst; eauto|].
    destruct (negb (y_handler s)); inversion Hap; subst; simpl; eauto.
    destruct Hcan as [g' [Hn Hg]]. exists g'. split; [|exact Hg].
    rewrite nth_error_app1; [exact Hn|]. apply nth_error_Some. congruence.
  - destruct (y_closed s); inversion Hap; subst; simpl; eauto.
  - inversion Hap; subst; simpl; eauto.
  - destruct (nth_error (y_gors s) k0); [|discriminate]. destruct (negb _); [discriminate|].
    destruct (_ || _); inversion Hap; subst; simpl; apply Hupd; reflexivity.
  - destruct (nth_error (y_gors s) k0); [|discriminate]. destruct (_ && _); inversion Hap; subst; simpl; apply Hupd; reflexivity.
  - destruct (nth_error (y_gors s) k0); [|discriminate]. destruct (_ && _); inversion Hap; subst; simpl; apply Hupd; reflexivity.
  - destruct (nth_error (y_gors s) k0); [|discriminate]. destruct (_ && _); inversion Hap; subst; simpl; apply Hupd; reflexivity.
  - destruct (nth_error (y_gors s) k0); [|discriminate]. destruct (_ && _); inversion Hap; subst; simpl; apply Hupd; reflexivity.
  - destruct (nth_error (y_gors s) k0); [|discriminate]. destruct (negb _); [discriminate|].
    destruct (_ || _); inversion Hap; subst; simpl; apply Hupd; reflexivity.
Qed.

Definition pubs_own_gen (s : cyc) : Prop :=
  forall k gen, In (k, gen) (y_pubs s) -> exists g, nth_error (y_gors s) k = Some g /\ g_gen g = gen.

Lemma pubs_unchanged recheck a s s' r :
  apply recheck a s = Some (s', r) -> (forall k, a <> AAddRun k) -> y_pubs s' = y_pubs s.
Proof.
  intros Hap Hne. destruct a; simpl in Hap;
    try (destruct (nth_error (y_gors s) k) as [g|]; [|discriminate]);
    try (exfalso; apply (Hne k); reflexivity);
    repeat match type of Hap with
    | (if ?c then _ else _) = _ => destruct c
    end; try discriminate; inversion Hap; subst; reflexivity.
Qed.

Theorem cycle_not_mixed s : reach true s -> pubs_own_gen s.
Proof.
  induction 1 as [|s s' Hr IH [a [r Hap]]]; [intros k gen []|].
  intros k gen Hin.
  assert (Hkeep : forall k0 gen0, In (k0, gen0) (y_pubs s) ->
            exists g, nth_error (y_gors s') k0 = Some g /\ g_gen g = gen0).
  { intros k0 gen0 H0. destruct (IH k0 gen0 H0) as [g [Hk Hg]].
    destruct (gen_stable _ _ _ _ _ _ _ Hap Hk) as [g' [Hk' Hg']]. exists g'. split; [exact Hk' | congruence]. }
  destruct a; try (rewrite (pubs_unchanged _ _ _ _ _ Hap) in Hin by discriminate; apply Hkeep; exact Hin).
  (* AAddRun k0 *)
  simpl in Hap. destruct (nth_error (y_gors s) k0) as [g|] eqn:Hk0; [|discriminate].
  destruct (g_passed g && negb (y_closed s) && negb (g_cancelled g)) eqn:Ec; [|discriminate].
  inversion Hap; subst; clear Hap. simpl in Hin. destruct Hin as [Hin | Hin].
  - inversion Hin; subst; clear Hin.
    rewrite !andb_true_iff in Ec. destruct Ec as [_ Ec]. apply negb_true_iff in Ec.
    destruct (reach_inv _ _ Hr) as [HA _]. destruct (HA k g Hk0) as [_ [_ [_ Hu]]].
    destruct (Hu Ec) as [_ [Hg _]]. exists (set_passed false g). simpl. rewrite nth_upd, Nat.eqb_refl, Hk0.
    simpl. auto.
  - destruct (IH k gen Hin) as [g' [Hk Hg]]. simpl. rewrite nth_upd.
    destruct (Nat.eqb k k0) eqn:E; rewrite Hk; simpl; eauto.
Qed.

(* ------------------------------------------------------------------ the acceptor explores only reachable states *)

Definition all_reach (recheck : bool) (l : list astate) : Prop := forall s, In s l -> reach recheck (t_cyc s).

Lemma hidden_succ_reach rc s x : reach rc (t_cyc s) -> In x (hidden_succ rc s) -> reach rc (t_cyc x).
Proof.
  intros Hr Hin. unfold hidden_succ in Hin. apply in_flat_map in Hin. destruct Hin as [a [_ Hin]].
  destruct (apply rc a (t_cyc s)) as [[c r]|] eqn:E; [|destruct Hin].
  destruct Hin as [<- | []]. simpl. eapply reach_step; [exact Hr | exists a, r; exact E].
Qed.

Lemma fold_add_new_in ys : forall l x, In x (fold_left add_new ys l) -> In x l \/ In x ys.
Proof.
  induction ys as [|y ys IH]; intros l x H; simpl in H; [auto|].
  destruct (IH _ _ H) as [H1 | H1]; [|right; right; exact H1].
  unfold add_new in H1. destruct (existsb (astate_eqb y) l); [auto|].
  apply in_app_iff in H1. destruct H1 as [H1 | [<- | []]]; [auto | right; left; reflexivity].
Qed.

Lemma first_app_reach rc s : forall acts s', reach rc (t_cyc s) -> first_app rc s acts = Some s' -> reach rc (t_cyc s').
Proof.
  induction acts as [|a acts IH]; intros s' Hr H; simpl in H; [discriminate|].
  destruct (apply rc a (t_cyc s)) as [[c r]|] eqn:E.
  - inversion H; subst. simpl. eapply reach_step; [exact Hr | exists a, r; exact E].
  - apply IH; assumption.
Qed.

Lemma norm_fuel_reach rc : forall fuel s, reach rc (t_cyc s) -> reach rc (t_cyc (norm_fuel rc fuel s)).
Proof.
  induction fuel as [|f IH]; intros s Hr; simpl; [exact Hr|].
  destruct (first_app rc s (cancelled_acts s)) as [s'|] eqn:E; [|exact Hr].
  apply IH. eapply first_app_reach; eauto.
Qed.

Lemma norm_reach rc s : reach rc (t_cyc s) -> reach rc (t_cyc (norm rc s)).
Proof. apply norm_fuel_reach. Qed.

Lemma closure_reach rc : forall fuel l, all_reach rc l -> all_reach rc (closure rc fuel l).
Proof.
  induction fuel as [|f IH]; intros l Hl; simpl; [exact Hl|].
  destruct (Nat.eqb _ _); [exact Hl|]. apply IH. intros x Hx.
  destruct (fold_add_new_in _ _ _ Hx) as [H | H]; [apply Hl; exact H|].
  apply in_map_iff in H. destruct H as [y [<- Hy]]. apply norm_reach.
  apply in_flat_map in Hy. destruct Hy as [s [Hs Hin]]. eapply hidden_succ_reach; [apply Hl; exact Hs | exact Hin].
Qed.

Lemma tau_reach rc l : all_reach rc l -> all_reach rc (tau rc l).
Proof.
  intros Hl. unfold tau. apply closure_reach. intros x Hx.
  destruct (fold_add_new_in _ _ _ Hx) as [[] | H].
  apply in_map_iff in H. destruct H as [y [<- Hy]]. apply norm_reach. apply Hl. exact Hy.
Qed.

Lemma api_step_reach rc a res l : all_reach rc l -> all_reach rc (api_step rc a res l).
Proof.
  intros Hl x Hx. unfold api_step in Hx. apply in_flat_map in Hx. destruct Hx as [s [Hs Hin]].
  destruct (apply rc a (t_cyc s)) as [[c r]|] eqn:E; [|destruct Hin].
  destruct (r =? res); [|destruct Hin]. destruct Hin as [<- | []]. simpl.
  eapply reach_step; [apply (tau_reach rc l Hl); exact Hs | exists a, r; exact E].
Qed.

Lemma set_gate_reach rc o l : all_reach rc l -> all_reach rc (set_gate o l).
Proof. intros Hl x Hx. unfold set_gate in Hx. apply in_map_iff in Hx. destruct Hx as [s [<- Hs]]. simpl. apply Hl. exact Hs. Qed.

Theorem accept_op_reach rc n op obs l : all_reach rc l -> all_reach rc (accept_op rc n op obs l).
Proof.
  intros Hl. unfold accept_op.
  repeat match goal with
  | |- all_reach _ (match ?x with _ => _ end) => destruct x
  end;
  try (intros x []);
  try (apply api_step_reach; try apply set_gate_reach; exact Hl);
  intros x Hx; apply filter_In in Hx; destruct Hx as [Hx _];
  first [ apply (tau_reach rc _ Hl) in Hx; exact Hx
        | apply (tau_reach rc _ (set_gate_reach rc _ l Hl)) in Hx; exact Hx
        | apply (tau_reach rc _ (set_gate_reach rc _ _ (tau_reach rc l Hl))) in Hx; exact Hx ].
Qed.

Lemma accept_init_reach rc : all_reach rc accept_init.
Proof. intros s [<- | []]. simpl. apply reach_init. Qed.

(* non-vacuity: a run that gathers, is restarted while gathering, and completes a fresh cycle *)
Definition ex_run : list action :=
  [AOnCandidate; AGather; ASetGathering 0; ARestart; AGather; ASetGathering 1; AInternalDone 0; ASetComplete 0;
   AAddCheck 1; AAddRun 1; AInternalDone 1; ASetComplete 1].
Fixpoint run_actions (rc : bool) (s : cyc) (l : list action) : option cyc :=
  match l with
  | [] => Some s
  | a :: t => match apply rc a s with Some (s', _) => run_actions rc s' t | None => None end
  end.
Lemma run_actions_reach rc : forall l s s', reach rc s -> run_actions rc s l = Some s' -> reach rc s'.
Proof.
  induction l as [|a l IH]; intros s s' Hr H; simpl in H; [inversion H; subst; exact Hr|].
  destruct (apply rc a s) as [[s1 r]|] eqn:E; [|discriminate].
  apply (IH s1 s'); [eapply reach_step; [exact Hr | exists a, r; exact E] | exact H].
Qed.
Lemma example_cycle :
  exists s, reach true s /\ y_state s = 3 /\ y_gen s = 1%nat /\ y_pubs s = [(1%nat, 1%nat)] /\
            map g_nils (y_gors s) = [0%nat; 1%nat].
Proof.
  destruct (run_actions true cyc_init ex_run) as [s|] eqn:E; [|vm_compute in E; discriminate].
  exists s. split; [eapply run_actions_reach; [apply reach_init | exact E]|].
  vm_compute in E. inversion E; subst. vm_compute. auto.
Qed.
