(* C08: preservation of group B of the invariant of the close-protocol model.
   Lemma statements generated from the record Inv (tools: mechanical). *)
From Coq Require Import Arith Bool List Lia.
Import ListNotations.
From Ice Require Import Model.PrioSpec Model.CloseProto Proofs.CloseProtoMeasure Proofs.CloseProtoMeasure2
     Proofs.CloseProtoFrames Proofs.CloseProtoInv.

Section G.
Variable NC : nat.
Variable wfree : nat -> bool.
Variable fix_reg : bool.
Notation step := (step NC wfree fix_reg).
Notation Inv := (Inv NC fix_reg).

Ltac depsB I := pose proof (b_closing _ _ _ I); pose proof (b_tld1 _ _ _ I); pose proof (b_tld2 _ _ _ I); pose proof (b_oncl _ _ _ I); pose proof (b_buf _ _ _ I); pose proof (b_enq _ _ _ I); pose proof (b_join _ _ _ I); pose proof (b_hdone _ _ _ I); pose proof (b_gcancel _ _ _ I); pose proof (a_task _ _ _ I); pose proof (a_hostok _ _ _ I); pose proof (c_hostok _ _ _ I); pose proof (e_lhost _ _ _ I); pose proof (e_lbusy _ _ _ I); pose proof (e_ghost _ _ _ I); pose proof (c_ptld _ _ _ I); idtac.

Lemma p_b_closing s s' (I : Inv s) (H : step s s') :
  closing (lp s') = true -> done s' = true.
Proof. pres H ltac:(exact (b_closing _ _ _ I)) ltac:(depsB I). Qed.

Lemma p_b_tld1 s s' (I : Inv s) (H : step s s') :
  tld s' = true -> lp s' = LExited.
Proof. pres H ltac:(exact (b_tld1 _ _ _ I)) ltac:(depsB I). Qed.

Lemma p_b_tld2 s s' (I : Inv s) (H : step s s') :
  lp s' = LExited -> tld s' = true.
Proof. pres H ltac:(exact (b_tld2 _ _ _ I)) ltac:(depsB I). Qed.

Lemma p_b_oncl s s' (I : Inv s) (H : step s s') :
  oncloses s' = if after_onclose (lp s') then 1 else 0.
Proof. pres H ltac:(exact (b_oncl _ _ _ I)) ltac:(depsB I). Qed.

Lemma p_b_buf s s' (I : Inv s) (H : step s s') :
  bufclosed s' = after_buf (lp s').
Proof. pres H ltac:(exact (b_buf _ _ _ I)) ltac:(depsB I). Qed.

Lemma p_b_enq s s' (I : Inv s) (H : step s s') :
  closedq s' = after_enq (lp s').
Proof. pres H ltac:(exact (b_enq _ _ _ I)) ltac:(depsB I). Qed.

Lemma p_b_join s s' (I : Inv s) (H : step s s') :
  after_join (lp s') = true -> gp s' = GNone \/ gp s' = GDone.
Proof. pres H ltac:(exact (b_join _ _ _ I)) ltac:(depsB I). Qed.

Lemma p_b_hdone s s' (I : Inv s) (H : step s s') :
  hdone s' = true -> tld s' = true.
Proof. pres H ltac:(exact (b_hdone _ _ _ I)) ltac:(depsB I). Qed.

Lemma p_b_gcancel s s' (I : Inv s) (H : step s s') :
  gcancel s' = after_onclose (lp s').
Proof. pres H ltac:(exact (b_gcancel _ _ _ I)) ltac:(depsB I). Qed.

(* clauses: b_closing b_tld1 b_tld2 b_oncl b_buf b_enq b_join b_hdone b_gcancel *)
End G.
