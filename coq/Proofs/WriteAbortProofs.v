(* Proofs about the write-abort protocol model (Model/WriteAbort.v).  C13. *)
From Coq Require Import ZArith Bool List Arith Lia.
From Ice Require Import Model.PrioSpec Model.WriteAbort Gen.Consts.
Import ListNotations.

(* ---- lists of thread ids ---------------------------------------------------------------- *)
Lemma In_remove_nat i k l : In k (remove_nat i l) <-> In k l /\ k <> i.
Proof.
  unfold remove_nat. rewrite filter_In. destruct (Nat.eqb_spec k i); simpl; intuition congruence.
Qed.

Lemma NoDup_remove_nat i l : NoDup l -> NoDup (remove_nat i l).
Proof. intros H. unfold remove_nat. apply NoDup_filter. exact H. Qed.

Lemma remove_nat_notin i l : ~ In i l -> remove_nat i l = l.
Proof.
  induction l as [|a l IH]; simpl; intros H; [reflexivity|].
  destruct (Nat.eqb_spec a i); simpl.
  - subst. exfalso. apply H. now left.
  - f_equal. apply IH. intros Hin. apply H. now right.
Qed.

Lemma length_remove_nat i l : NoDup l -> In i l -> S (length (remove_nat i l)) = length l.
Proof.
  induction l as [|a l IH]; simpl; intros Hnd Hin; [contradiction|].
  inversion Hnd as [|? ? Hna Hnd']; subst.
  destruct (Nat.eqb_spec a i); simpl.
  - subst. rewrite remove_nat_notin by assumption. reflexivity.
  - destruct Hin as [Hin|Hin]; [congruence|]. f_equal. apply IH; assumption.
Qed.

Lemma word_eqb_eq a b : word_eqb a b = true <-> a = b.
Proof.
  destruct a as [c1 b1 d1], b as [c2 b2 d2]. unfold word_eqb. simpl.
  rewrite !andb_true_iff, Nat.eqb_eq, !eqb_true_iff. split.
  - intros [[-> ->] ->]. reflexivity.
  - intros H. inversion H. auto.
Qed.

Lemma word_eqb_neq a b : word_eqb a b = false <-> a <> b.
Proof.
  rewrite <- word_eqb_eq. destruct (word_eqb a b); split; congruence.
Qed.

(* ---- the invariant of fault-free arming ---------------------------------------------------- *)
Definition reg_ok_w (p : wpc) : Prop :=
  match p with
  | WStartCas r => blk r = false
  | WFinCas r => cnt r <> 0 /\ ~ (blk r = true /\ cnt r = 1)
  | WFinCasLast r => blk r = true /\ cnt r = 1
  | _ => True
  end.
Definition reg_ok_a (p : apc) : Prop :=
  match p with
  | ACas r => blk r = false /\ cnt r <> 0
  | AArmCas r => blk r = true /\ dl r = false
  | AUndoCas r => blk r = true /\ dl r = false
  | _ => True
  end.
Definition armed_phase (p : apc) : bool := match p with AArm | AArmCas _ => true | _ => false end.
Definition no_undo (p : apc) : Prop :=
  match p with AUndo | AUndoCas _ => False | _ => True end.

(* [hv]: the variant of clearWriteAbortState (Model/WriteAbort.v).  For the code as it is
   (hv = false) the invariant is only claimed while no arming call has failed. *)
Record Inv (hv : bool) (s : state) : Prop := {
  i_cnt : cnt (ws s) = length (fl s);
  i_nodup : NoDup (fl s);
  i_fl : forall i, In i (fl s) <-> inflight (wpcs s i) = true;
  i_regw : forall i, reg_ok_w (wpcs s i);
  i_rega : forall j, reg_ok_a (apcs s j);
  i_own : forall j, own s = Some j <-> owning (apcs s j) = true;
  i_clr : forall i, clr s = Some i <-> clearing (wpcs s i) = true;
  i_noundo : forall j, hv = false -> no_undo (apcs s j);
  i_free : blk (ws s) = false -> dl (ws s) = false /\ dl_clean s /\ own s = None /\ clr s = None;
  i_arming_own : blk (ws s) = true -> dl (ws s) = false -> own s <> None;
  i_arming_clr : forall i, blk (ws s) = true -> dl (ws s) = false ->
                 clearing (wpcs s i) = true -> wpcs s i = WClr;
  i_owner : forall j, own s = Some j ->
            blk (ws s) = true /\ dl (ws s) = false /\
            (armed_phase (apcs s j) = false -> dl_clean s);
  i_store : forall i, wpcs s i = WClrStore -> dl_clean s;
  i_cntzero : blk (ws s) = true -> (cnt (ws s) = 0 <-> clr s <> None)
}.

Lemma inv_init hv : Inv hv init.
Proof.
  constructor; simpl; try (intros; exact I); try discriminate; unfold dl_clean; simpl;
    try solve [intuition (try discriminate; try constructor)].
Qed.

Ltac split_eqb :=
  repeat match goal with
  | |- context [Nat.eqb ?a ?b] => destruct (Nat.eqb_spec a b); [subst|]
  | H : context [Nat.eqb ?a ?b] |- _ => destruct (Nat.eqb_spec a b); [subst|]
  end.

(* instantiate the quantified clauses at a writer / an aborter *)
Ltac inst_w HI k :=
  let a := fresh "Ifl" in let b := fresh "Iregw" in let c := fresh "Iclr" in let d := fresh "Istore" in
  let e := fresh "Iarmclr" in
  pose proof (i_fl _ _ HI k) as a; pose proof (i_regw _ _ HI k) as b; pose proof (i_clr _ _ HI k) as c;
  pose proof (i_store _ _ HI k) as d; pose proof (i_arming_clr _ _ HI k) as e.
Ltac inst_a HI k :=
  let a := fresh "Irega" in let b := fresh "Iown" in let c := fresh "Inoundo" in let d := fresh "Iowner" in
  pose proof (i_rega _ _ HI k) as a; pose proof (i_own _ _ HI k) as b; pose proof (i_noundo _ _ HI k) as c;
  pose proof (i_owner _ _ HI k) as d.
Ltac globals HI :=
  let a := fresh "Icnt" in let b := fresh "Inodup" in let c := fresh "Ifree" in let d := fresh "Iarmown" in
  let f := fresh "Icntzero" in
  pose proof (i_cnt _ _ HI) as a; pose proof (i_nodup _ _ HI) as b; pose proof (i_free _ _ HI) as c;
  pose proof (i_arming_own _ _ HI) as d; pose proof (i_cntzero _ _ HI) as f.

Ltac rw_pcs :=
  repeat match goal with
  | H : wpcs ?s ?i = _ |- _ => rewrite H in *
  | H : apcs ?s ?j = _ |- _ => rewrite H in *
  end.

Ltac fin := unfold dl_clean, reg_ok_w, reg_ok_a, no_undo, armed_phase in *; simpl in *;
  try solve [intuition (try congruence; try discriminate; try lia; eauto)].

(* the clause list of Inv, in order: cnt nodup fl regw rega own clr noundo free arming_own arming_clr owner store cntzero *)
Ltac clauses HI :=
  constructor; simpl;
  [ | | intros k; inst_w HI k | intros k; inst_w HI k | intros k; inst_a HI k | intros k; inst_a HI k
    | intros k; inst_w HI k | intros k; inst_a HI k | | | intros k; inst_w HI k | intros k; inst_a HI k
    | intros k; inst_w HI k | ].
Ltac go_w HI i := globals HI; inst_w HI i; (let L := fresh "Ilen" in pose proof (length_remove_nat i _ (i_nodup _ _ HI)) as L); clauses HI; unfold upd in *; split_eqb; rw_pcs; fin.
Ltac go_a HI j := globals HI; inst_a HI j; clauses HI; unfold upd in *; split_eqb; rw_pcs; fin.

Ltac fin0 := try solve [intuition (try congruence; try discriminate; try lia; eauto)].
Ltac fin2 :=
  intros; rw_pcs; simpl in *; rewrite ?In_remove_nat in *;
  try (apply NoDup_remove_nat; assumption);
  try (constructor; [ | assumption ]);
  fin0.
Ltac cases_ws :=
  match goal with HI : Inv _ ?s |- _ =>
    destruct (blk (ws s)) eqn:?; destruct (dl (ws s)) eqn:?; fin0;
    destruct (clr s) eqn:?; fin0; destruct (own s) as [jo|] eqn:?; fin0;
    pose proof (i_owner _ _ HI jo); fin0
  end.

(* the variant only matters in the rules of clearWriteAbortState *)
Ltac split_variant :=
  try match goal with
      | H : undo_done ?h _ = _ |- _ => destruct h; unfold undo_done in H
      | |- context [undo_target ?h ?r] => destruct h; unfold undo_target;
                                          try destruct (Nat.eqb_spec (cnt r) 0)
      end; simpl in *.

Lemma inv_step hv s l s' : Inv hv s -> step hv s l s' -> (hv = true \/ armfails s' = 0) -> Inv hv s'.
Proof.
  intros HI Hstep Hnf. inversion Hstep; subst; simpl in Hnf.
  all: split_variant.
  all: match goal with
       | HI' : Inv _ ?s0, H : wpcs ?s0 ?i = _ |- _ => go_w HI' i
       | HI' : Inv _ ?s0, H : apcs ?s0 ?j = _ |- _ => go_a HI' j
       end.
  all: fin2.
  all: try cases_ws.
  Show.
Admitted.

Lemma armfails_mono s l s' : step s l s' -> armfails s' = 0 -> armfails s = 0.
Proof. intros H; inversion H; subst; simpl; try tauto; discriminate. Qed.

Lemma reach_inv s : reach s -> armfails s = 0 -> Inv s.
Proof.
  induction 1 as [|s l s' Hr IH Hs]; intros Hnf.
  - apply inv_init.
  - eapply inv_step; eauto. apply IH. eapply armfails_mono; eauto.
Qed.

(* ---- the theorems ---------------------------------------------------------------------- *)

(* the count field is exactly the number of writers between their increment and decrement *)
Lemma count_exact s : reach s -> armfails s = 0 ->
  exists l, NoDup l /\ (forall i, In i l <-> inflight (wpcs s i) = true) /\ cnt (ws s) = length l.
Proof.
  intros Hr Hnf. destruct (reach_inv s Hr Hnf). exists (fl s). auto.
Qed.

Lemma quiescent_clean s : reach s -> armfails s = 0 -> quiescent s -> ws s = w0 /\ dl_clean s.
Proof.
  intros Hr Hnf [Hw Ha]. pose proof (reach_inv s Hr Hnf) as HI.
  assert (Hfl : fl s = []).
  { destruct (fl s) as [|x l] eqn:E; [reflexivity|]. exfalso.
    assert (Hin : In x (fl s)) by (rewrite E; now left).
    apply (i_fl _ HI) in Hin. specialize (Hw x). destruct (wpcs s x); simpl in *; discriminate. }
  assert (Hno : own s = None).
  { destruct (own s) as [j|] eqn:E; [|reflexivity]. exfalso.
    apply (i_own _ HI) in E. specialize (Ha j). destruct (apcs s j); simpl in *; discriminate. }
  assert (Hnc : clr s = None).
  { destruct (clr s) as [i|] eqn:E; [|reflexivity]. exfalso.
    apply (i_clr _ HI) in E. specialize (Hw i). destruct (wpcs s i); simpl in *; discriminate. }
  pose proof (i_cnt _ HI) as Hc. rewrite Hfl in Hc. simpl in Hc.
  destruct (blk (ws s)) eqn:Hb.
  - exfalso. destruct (dl (ws s)) eqn:Hd.
    + apply (i_cntzero _ HI Hb) in Hc. congruence.
    + apply (i_arming_own _ HI Hb Hd). exact Hno.
  - destruct (i_free _ HI Hb) as (Hd & Hcl & _). split; [|exact Hcl].
    destruct (ws s) as [c b d]; simpl in *; subst; reflexivity.
Qed.

(* ---- traces, and the monitor on them ------------------------------------------------------ *)
Lemma trace_reach ls s : trace ls s -> reach s.
Proof. induction 1; [constructor | econstructor; eauto]. Qed.

Lemma reach_trace s : reach s -> exists ls, trace ls s.
Proof.
  induction 1 as [|s l s' _ [ls IH] Hs]; [exists []; constructor|].
  exists (ls ++ [l]). econstructor; eauto.
Qed.

Lemma step_armfails s l s' : step s l s' ->
  armfails s' = (if label_eqb l (LArm false) then S (armfails s) else armfails s).
Proof. intros H; inversion H; subst; simpl; try reflexivity; destruct ok; reflexivity. Qed.

Lemma trace_armfails ls s : trace ls s -> (armfails s = 0 <-> ~ In (LArm false) ls).
Proof.
  induction 1 as [|ls s l s' Ht IH Hs]; simpl; [tauto|].
  rewrite (step_armfails _ _ _ Hs), in_app_iff. simpl.
  destruct l; simpl; try (rewrite IH; intuition congruence).
  destruct ok; simpl; [rewrite IH; intuition congruence|]. split; [discriminate|]. intros H. exfalso. apply H. auto.
Qed.

Lemma step_dl s l s' : step s l s' -> (armed s', clrfailed s') = dl_track (armed s, clrfailed s) (EV l).
Proof. intros H; inversion H; subst; simpl; reflexivity. Qed.

Lemma trace_dl ls s : trace ls s -> dl_of_log (map EV ls) = (armed s, clrfailed s).
Proof.
  unfold dl_of_log. induction 1 as [|ls s l s' Ht IH Hs]; simpl; [reflexivity|].
  rewrite map_app, fold_left_app, IH. simpl. symmetry. apply step_dl. exact Hs.
Qed.

Lemma samples_exact_nosample st ls : samples_exact st (map EV ls) = true.
Proof. revert st. induction ls as [|l ls IH]; intros st; simpl; [reflexivity|]. apply IH. Qed.

Lemma wa_monitor_sound ls s : trace ls s -> ~ In (LArm false) ls -> quiescent s ->
  C13_wa_monitor (map EV ls) (ws s) (armed s) true false = true.
Proof.
  intros Ht Hnf Hq. pose proof (trace_reach _ _ Ht) as Hr.
  apply (trace_armfails _ _ Ht) in Hnf.
  destruct (quiescent_clean s Hr Hnf Hq) as [Hw Hc].
  unfold C13_wa_monitor, C13_wa_checks, all_ok. rewrite (trace_dl _ _ Ht). simpl.
  rewrite Hw, samples_exact_nosample. simpl. rewrite eqb_reflx.
  destruct Hc as [-> | ->]; simpl; rewrite ?orb_true_r; reflexivity.
Qed.

(* with no failing SetWriteDeadline call at all the deadline is cleared *)
Lemma quiescent_clean_nofail ls s : trace ls s -> ~ In (LArm false) ls -> ~ In (LClear false) ls ->
  quiescent s -> ws s = w0 /\ armed s = false.
Proof.
  intros Ht Hnf Hnc Hq. pose proof (trace_reach _ _ Ht) as Hr.
  apply (trace_armfails _ _ Ht) in Hnf.
  destruct (quiescent_clean s Hr Hnf Hq) as [Hw [Hc|Hc]]; split; auto.
  exfalso. clear Hq Hw Hnf Hr. induction Ht as [|ls s l s' Ht IH Hs]; simpl in *; [discriminate|].
  rewrite in_app_iff in Hnc. simpl in Hnc.
  inversion Hs; subst; simpl in *; try (apply IH; tauto); try discriminate.
Qed.

(* ---- the executable successor functions agree with the rules ------------------------------ *)
Lemma upd_same {A} (f : nat -> A) i v : upd f i v i = v.
Proof. unfold upd. rewrite Nat.eqb_refl. reflexivity. Qed.
Lemma upd_other {A} (f : nat -> A) i v k : k <> i -> upd f i v k = f k.
Proof. unfold upd. intros H. destruct (Nat.eqb_spec k i); congruence. Qed.

Ltac done_w := eexists; split; [econstructor; solve [eauto | tauto | congruence] | simpl; rewrite ?upd_same; repeat split; auto; intros; apply upd_other; auto].

Lemma wnext_sound s i l w' a' p' :
  In (l, w', a', p') (wnext i (ws s) (armed s) (wpcs s i)) ->
  exists s', step s l s' /\ ws s' = w' /\ armed s' = a' /\ wpcs s' i = p' /\
             (forall k, k <> i -> wpcs s' k = wpcs s k) /\ apcs s' = apcs s.
Proof.
  intros H. destruct (wpcs s i) eqn:E; simpl in H.
  - destruct H as [H|[]]; inversion H; subst. done_w.
  - destruct H as [H|H]; [inversion H; subst; done_w|].
    destruct (blk (ws s)) eqn:B; destruct H as [H|[]]; inversion H; subst; done_w.
  - destruct (word_eqb (ws s) r) eqn:W; destruct H as [H|[]]; inversion H; subst.
    + apply word_eqb_eq in W. done_w.
    + apply word_eqb_neq in W. done_w.
  - destruct H as [H|[H|[]]]; inversion H; subst; done_w.
  - destruct H as [H|H]; [inversion H; subst; done_w|].
    destruct (armed s) eqn:A; [|destruct H]. destruct H as [H|[]]; inversion H; subst. rewrite <- A. done_w.
  - destruct (Nat.eqb_spec (cnt (ws s)) 0).
    + destruct H as [H|[]]; inversion H; subst. done_w.
    + destruct (blk (ws s)) eqn:B; simpl in H.
      * destruct (Nat.eqb_spec (cnt (ws s)) 1); destruct H as [H|[]]; inversion H; subst.
        -- done_w.
        -- eexists; split; [eapply w_fin_load; eauto; tauto|simpl; rewrite ?upd_same; repeat split; auto; intros; apply upd_other; auto].
      * destruct H as [H|[]]; inversion H; subst.
        eexists; split; [eapply w_fin_load; eauto; intros [? ?]; congruence|simpl; rewrite ?upd_same; repeat split; auto; intros; apply upd_other; auto].
  - destruct (word_eqb (ws s) r) eqn:W; destruct H as [H|[]]; inversion H; subst.
    + apply word_eqb_eq in W. done_w.
    + apply word_eqb_neq in W. done_w.
  - destruct (word_eqb (ws s) r) eqn:W; destruct H as [H|[]]; inversion H; subst.
    + apply word_eqb_eq in W. done_w.
    + apply word_eqb_neq in W. done_w.
  - destruct (blk (ws s)) eqn:B; simpl in H.
    + destruct (dl (ws s)) eqn:D; destruct H as [H|[]]; inversion H; subst; done_w.
    + destruct H as [H|[]]; inversion H; subst; done_w.
  - destruct H as [H|[H|[]]]; inversion H; subst; done_w.
  - destruct H as [H|[]]; inversion H; subst. done_w.
  - destruct H as [H|[]]; inversion H; subst. done_w.
  - destruct H.
Qed.

Ltac bool_props :=
  repeat match goal with
  | H : _ || _ = true |- _ => apply orb_true_iff in H
  | H : _ || _ = false |- _ => apply orb_false_iff in H; destruct H
  | H : _ && _ = true |- _ => apply andb_true_iff in H; destruct H
  | H : _ && _ = false |- _ => apply andb_false_iff in H
  | H : negb _ = true |- _ => apply negb_true_iff in H
  | H : negb _ = false |- _ => apply negb_false_iff in H
  | H : Nat.eqb _ _ = true |- _ => apply Nat.eqb_eq in H
  | H : Nat.eqb _ _ = false |- _ => apply Nat.eqb_neq in H
  | H : word_eqb _ _ = true |- _ => apply word_eqb_eq in H
  | H : word_eqb _ _ = false |- _ => apply word_eqb_neq in H
  end.

Ltac done_a := eexists; split; [econstructor; solve [eauto | tauto | congruence | intuition congruence] |
  simpl; rewrite ?upd_same; repeat split; auto; intros; apply upd_other; auto].

Lemma anext_sound s j l w' a' p' :
  In (l, w', a', p') (anext j (ws s) (armed s) (apcs s j)) ->
  exists s', step s l s' /\ ws s' = w' /\ armed s' = a' /\ apcs s' j = p' /\
             (forall k, k <> j -> apcs s' k = apcs s k) /\ wpcs s' = wpcs s.
Proof.
  intros H. destruct (apcs s j) eqn:E; simpl in H;
  repeat match type of H with context [if ?c then _ else _] => destruct c eqn:? end;
  simpl in H; repeat (destruct H as [H|H]); try contradiction; inversion H; subst; bool_props; try done_a.
  all: try (destruct (blk (ws s)) eqn:?; destruct (dl (ws s)) eqn:?; intuition (try discriminate); done_a).
  eexists; split; [eapply a_noop; eauto; destruct Heqb as [Hb|Hb]; [left; exact Hb|right; apply Nat.eqb_eq; exact Hb] |
    simpl; rewrite ?upd_same; repeat split; auto; intros; apply upd_other; auto].
Qed.

(* every step of the relation is produced by the successor function of the thread that takes it *)
Lemma step_enumerated s l s' : step s l s' ->
  (exists i, In (l, ws s', armed s', wpcs s' i) (wnext i (ws s) (armed s) (wpcs s i))) \/
  (exists j, In (l, ws s', armed s', apcs s' j) (anext j (ws s) (armed s) (apcs s j))).
Proof.
  intros H; inversion H; subst;
  match goal with
  | Hp : wpcs s ?i = _ |- _ => left; exists i; rewrite Hp
  | Hp : apcs s ?j = _ |- _ => right; exists j; rewrite Hp
  end; simpl; rewrite ?upd_same;
  repeat match goal with
  | Hb : blk _ = _ |- _ => rewrite Hb
  | Hb : dl _ = _ |- _ => rewrite Hb
  | Hb : cnt _ = _ |- _ => rewrite Hb
  | Hb : armed _ = _ |- _ => rewrite Hb
  end; simpl;
  repeat match goal with
  | |- context [word_eqb ?a ?a] => replace (word_eqb a a) with true by (symmetry; apply word_eqb_eq; reflexivity)
  | Hn : ?a <> ?b |- context [word_eqb ?a ?b] => replace (word_eqb a b) with false by (symmetry; apply word_eqb_neq; exact Hn)
  end; simpl; auto 6.
  - destruct (Nat.eqb_spec (cnt (ws s)) 0); [contradiction|].
    destruct (blk (ws s)) eqn:B; simpl; auto.
    destruct (Nat.eqb_spec (cnt (ws s)) 1); simpl; auto. all: try (exfalso; apply H2; auto).
  - destruct H1 as [-> | ->]; simpl; auto. rewrite orb_true_r. simpl; auto.
  - destruct (Nat.eqb_spec (cnt (ws s)) 0); [contradiction|]. simpl; auto.
  - destruct H1 as [-> | ->]; simpl; auto. rewrite orb_true_r. simpl; auto.
  - destruct H1 as [-> | ->]; simpl; auto. rewrite andb_false_r. simpl; auto.
Qed.

(* ---- liveness, partial: whoever spins has a helper -------------------------------------------
   Both wait loops (startWriteContext under blocked, clearWriteDeadlineAfterAbort under
   blocked without deadline) spin only while blocked is set.  Whenever blocked is set, a
   thread of the running abort that does NOT spin is enabled and its step advances its own
   program counter: the aborter that owns blocked until it has set the deadline bit; afterwards
   an in-flight writer, or - once the count is zero - the writer that clears the deadline. *)
Lemma word_dec (a b : word) : a = b \/ a <> b.
Proof. destruct (word_eqb a b) eqn:E; [left; apply word_eqb_eq|right; apply word_eqb_neq]; exact E. Qed.

Lemma spins_blocked s i : w_spins s i -> blk (ws s) = true.
Proof. intros [[_ H]|[_ [H _]]]; exact H. Qed.

Ltac step_w i := eexists; eexists; split; [econstructor; solve [eauto | tauto | congruence] |
  simpl; rewrite upd_same; congruence].

Lemma blocked_has_helper s : reach s -> armfails s = 0 -> blk (ws s) = true ->
  (dl (ws s) = false /\ exists j l s', own s = Some j /\ owning (apcs s j) = true /\
                                       step s l s' /\ apcs s' j <> apcs s j) \/
  (dl (ws s) = true /\ exists i l s', (inflight (wpcs s i) = true \/ clearing (wpcs s i) = true) /\
                                      ~ w_spins s i /\ step s l s' /\ wpcs s' i <> wpcs s i).
Proof.
  intros Hr Hnf Hb. pose proof (reach_inv s Hr Hnf) as HI.
  destruct (dl (ws s)) eqn:Hd; [right|left]; split; auto.
  - (* deadline bit set: writers drain, then the clearer *)
    destruct (fl s) as [|x l] eqn:Efl.
    + pose proof (i_cnt _ HI) as Hc. rewrite Efl in Hc. simpl in Hc.
      apply (i_cntzero _ HI Hb) in Hc. destruct (clr s) as [i|] eqn:Ec; [|congruence].
      pose proof (proj1 (i_clr _ HI i) Ec) as Hcl. exists i.
      assert (Hns : ~ w_spins s i).
      { intros [[Hp _]|[_ [_ Hd']]]; [rewrite Hp in Hcl; discriminate|congruence]. }
      destruct (wpcs s i) eqn:Ep; simpl in Hcl; try discriminate.
      * exists Tau, (set_w s i WClrSet). repeat split; auto.
        -- apply w_clr_go; auto.
        -- simpl. rewrite upd_same. congruence.
      * exists (LClear true), (set_armed (set_w s i WClrStore) false). repeat split; auto.
        -- apply w_clr_set_ok; auto.
        -- simpl. rewrite upd_same. congruence.
      * exists Tau, (set_clr (set_ws (set_w s i WRet) w0) None). repeat split; auto.
        -- apply w_clr_store; auto.
        -- simpl. rewrite upd_same. congruence.
    + assert (Hin : In x (fl s)) by (rewrite Efl; now left).
      pose proof (proj1 (i_fl _ HI x) Hin) as Hfl. exists x.
      assert (Hns : ~ w_spins s x).
      { intros [[Hp _]|[Hp _]]; rewrite Hp in Hfl; discriminate. }
      assert (Hc : cnt (ws s) <> 0) by (rewrite (i_cnt _ HI), Efl; simpl; lia).
      destruct (wpcs s x) eqn:Ep; simpl in Hfl; try discriminate.
      * exists (LSockIn x), (set_w s x WSock). repeat split; auto.
        -- apply w_sock_in; auto.
        -- simpl. rewrite upd_same. congruence.
      * exists (LSockOut x true), (set_w s x WFin). repeat split; auto.
        -- apply w_sock_ok; auto.
        -- simpl. rewrite upd_same. congruence.
      * destruct (Nat.eq_dec (cnt (ws s)) 1) as [H1|H1].
        -- exists Tau, (set_w s x (WFinCasLast (ws s))). repeat split; auto.
           ++ apply w_fin_load_last; auto.
           ++ simpl. rewrite upd_same. congruence.
        -- exists Tau, (set_w s x (WFinCas (ws s))). repeat split; auto.
           ++ apply w_fin_load; auto. tauto.
           ++ simpl. rewrite upd_same. congruence.
      * destruct (word_dec (ws s) r) as [E|E].
        -- exists Tau, (set_fl (set_ws (set_w s x WRet) (wdec r)) (remove_nat x (fl s))). repeat split; auto.
           ++ apply w_fin_cas_ok; auto.
           ++ simpl. rewrite upd_same. congruence.
        -- exists Tau, (set_w s x WFin). repeat split; auto.
           ++ eapply w_fin_cas_fail; eauto.
           ++ simpl. rewrite upd_same. congruence.
      * destruct (word_dec (ws s) r) as [E|E].
        -- exists Tau, (set_clr (set_fl (set_ws (set_w s x WClr) (wdec r)) (remove_nat x (fl s))) (Some x)).
           repeat split; auto.
           ++ apply w_fin_cas_last_ok; auto.
           ++ simpl. rewrite upd_same. congruence.
        -- exists Tau, (set_w s x WFin). repeat split; auto.
           ++ eapply w_fin_cas_last_fail; eauto.
           ++ simpl. rewrite upd_same. congruence.
  - (* the owner of blocked arms the deadline and sets the deadline bit *)
    pose proof (i_arming_own _ HI Hb Hd) as Ho. destruct (own s) as [j|] eqn:Eo; [|congruence].
    pose proof (proj1 (i_own _ HI j) Eo) as Hown. exists j.
    destruct (apcs s j) eqn:Ep; simpl in Hown; try discriminate.
    + exists (LArm true), (set_clrfailed (set_armed (set_a s j AArm) true) false). repeat split; auto.
      * apply a_arm_ok; auto.
      * simpl. rewrite upd_same. congruence.
    + exists Tau, (set_a s j (AArmCas (ws s))). repeat split; auto.
      * apply a_arm_load; auto.
      * simpl. rewrite upd_same. congruence.
    + destruct (word_dec (ws s) r) as [E|E].
      * exists Tau, (set_own (set_ws (set_a s j (ARet true)) (wsetD r)) None). repeat split; auto.
        -- apply a_arm_cas_ok; auto.
        -- simpl. rewrite upd_same. congruence.
      * exists Tau, (set_a s j AArm). repeat split; auto.
        -- eapply a_arm_cas_fail; eauto.
        -- simpl. rewrite upd_same. congruence.
Qed.

(* ---- non-vacuity: a complete abort (one writer blocked in the socket, one abort, no failure) -- *)
Tactic Notation "tnxt" hyp(T) uconstr(c) :=
  eapply trace_snoc in T;
  [ | eapply c; cbv; try reflexivity; try discriminate; try (left; reflexivity) ];
  cbv [set_w set_a set_ws set_armed set_fl set_own set_clr bump_armfails set_clrfailed
       ws armed wpcs apcs fl own clr armfails clrfailed init] in T.

Lemma example_abort_cycle :
  exists ls s, trace ls s /\ ~ In (LArm false) ls /\ ~ In (LClear false) ls /\ quiescent s /\
               In (LArm true) ls /\ In (LSockOut 0 false) ls /\ In (LClear true) ls.
Proof.
  pose proof trace_nil as T.
  tnxt T (w_call _ 0). tnxt T (w_start_load _ 0). tnxt T (w_start_cas_ok _ 0). tnxt T (w_sock_in _ 0).
  tnxt T (a_call _ 0). tnxt T (a_load _ 0). tnxt T (a_cas_ok _ 0). tnxt T (a_arm_ok _ 0).
  tnxt T (w_sock_timeout _ 0).
  tnxt T (w_fin_load_last _ 0). tnxt T (w_fin_cas_last_ok _ 0). tnxt T (w_clr_spin _ 0).
  tnxt T (a_arm_load _ 0). tnxt T (a_arm_cas_ok _ 0). tnxt T (a_ret _ 0).
  tnxt T (w_clr_go _ 0). tnxt T (w_clr_set_ok _ 0). tnxt T (w_clr_store _ 0). tnxt T (w_ret _ 0).
  eexists. eexists. split; [exact T|]. cbv [app].
  repeat split; try (intros i; destruct i as [|i]; reflexivity);
    try (simpl; intuition discriminate); simpl; tauto.
Qed.

(* ---- the record [word] and the uint64 the code uses --------------------------------------- *)
Lemma count_mask_generated : udpMuxWriteCountMask = udpMuxWriteCountMask_local.
Proof. reflexivity. Qed.

Local Open Scope Z_scope.
Definition word_ok (w : word) : Prop := Z.of_nat (cnt w) < 2 ^ 62 - 1.

Ltac Zify.zify_post_hook ::= Z.div_mod_to_equations.

Lemma land_pow2 a n : 0 <= n -> (Z.land a (2 ^ n) <> 0 <-> (a / 2 ^ n) mod 2 = 1).
Proof.
  intros Hn. rewrite <- (Z.testbit_spec' a n Hn). split.
  - intros H. destruct (Z.testbit a n) eqn:E; [reflexivity|]. exfalso. apply H.
    apply Z.bits_inj'. intros k Hk. rewrite Z.land_spec, Z.bits_0, Z.pow2_bits_eqb by lia.
    destruct (Z.eqb_spec n k); [subst; rewrite E; reflexivity|apply andb_false_r].
  - intros H E. destruct (Z.testbit a n) eqn:T; [|discriminate].
    assert (Z.testbit (Z.land a (2 ^ n)) n = true).
    { rewrite Z.land_spec, T, Z.pow2_bits_true by lia. reflexivity. }
    rewrite E, Z.bits_0 in H0. discriminate.
Qed.

(* the fields are recovered from the encoding exactly as the code tests them
   (state&udpMuxWriteCountMask, state&udpMuxWriteBlockedBit != 0, state&udpMuxWriteDeadlineBit != 0) *)
Lemma encode_fields w : word_ok w ->
  Z.land (encode w) udpMuxWriteCountMask = Z.of_nat (cnt w) /\
  (Z.land (encode w) udpMuxWriteBlockedBit <> 0 <-> blk w = true) /\
  (Z.land (encode w) udpMuxWriteDeadlineBit <> 0 <-> dl w = true).
Proof.
  unfold word_ok, encode, udpMuxWriteBlockedBit, udpMuxWriteDeadlineBit, udpMuxWriteCountMask.
  intros H. pose proof (Nat2Z.is_nonneg (cnt w)) as Hn. set (c := Z.of_nat (cnt w)) in *.
  replace 4611686018427387903 with (Z.ones 62) by reflexivity.
  rewrite Z.land_ones, !land_pow2 by lia.
  change (2 ^ 62) with 4611686018427387904 in *. change (2 ^ 63) with 9223372036854775808 in *.
  destruct (blk w), (dl w); repeat split; intros; try lia; try discriminate.
Qed.

(* state+1, state-1, state|blocked, state|deadline, state&^(blocked|deadline) and 0 on the uint64
   are the record operations (no carry into the flag bits while fewer than 2^62-1 writers are in flight) *)
Lemma encode_ops w : word_ok w ->
  encode (winc w) = encode w + 1 /\
  (cnt w <> O -> encode (wdec w) = encode w - 1) /\
  encode w0 = 0 /\
  0 <= encode w < 2 ^ 64 /\
  (forall w', word_ok w' -> encode w = encode w' -> w = w').
Proof.
  unfold word_ok, encode, udpMuxWriteBlockedBit, udpMuxWriteDeadlineBit.
  intros H. change (2 ^ 62) with 4611686018427387904 in *. change (2 ^ 63) with 9223372036854775808 in *.
  change (2 ^ 64) with 18446744073709551616.
  repeat split.
  - simpl cnt. simpl blk. simpl dl. rewrite Nat2Z.inj_succ. lia.
  - intros Hc. simpl cnt. simpl blk. simpl dl. rewrite Nat2Z.inj_pred by lia. lia.
  - destruct (dl w), (blk w); lia.
  - destruct (dl w), (blk w); lia.
  - intros w' H' E. destruct w as [c b d], w' as [c' b' d']; simpl in *.
    assert (c = c' /\ b = b' /\ d = d') as (-> & -> & ->); [|reflexivity].
    destruct b, d, b', d'; repeat split; try reflexivity; try lia.
Qed.

(* ---- the statements used by Props/C13.v ------------------------------------------------------- *)
Lemma quiescent_clean_trace ls s :
  trace ls s -> ~ In (LArm false) ls -> quiescent s ->
  ws s = w0 /\ (armed s = false \/ clrfailed s = true).
Proof.
  intros Ht Hnf Hq. apply quiescent_clean; auto.
  - eapply trace_reach; eauto.
  - apply (trace_armfails _ _ Ht); auto.
Qed.

Lemma no_stuck_spin s : reach s -> armfails s = O ->
  (forall i, w_spins s i -> blk (ws s) = true) /\
  (blk (ws s) = true ->
   (dl (ws s) = false /\ exists j l s', own s = Some j /\ owning (apcs s j) = true /\
                                        step s l s' /\ apcs s' j <> apcs s j) \/
   (dl (ws s) = true /\ exists i l s', (inflight (wpcs s i) = true \/ clearing (wpcs s i) = true) /\
                                       ~ w_spins s i /\ step s l s' /\ wpcs s' i <> wpcs s i)).
Proof.
  intros Hr Hnf. split.
  - intros i. apply spins_blocked.
  - apply blocked_has_helper; assumption.
Qed.

Lemma successors_sound s :
  (forall i l w' a' p', In (l, w', a', p') (wnext i (ws s) (armed s) (wpcs s i)) ->
     exists s', step s l s' /\ ws s' = w' /\ armed s' = a' /\ wpcs s' i = p' /\
                (forall k, k <> i -> wpcs s' k = wpcs s k) /\ apcs s' = apcs s) /\
  (forall j l w' a' p', In (l, w', a', p') (anext j (ws s) (armed s) (apcs s j)) ->
     exists s', step s l s' /\ ws s' = w' /\ armed s' = a' /\ apcs s' j = p' /\
                (forall k, k <> j -> apcs s' k = apcs s k) /\ wpcs s' = wpcs s).
Proof.
  split.
  - intros i l w' a' p'. apply wnext_sound.
  - intros j l w' a' p'. apply anext_sound.
Qed.

Lemma word_encoding w : word_ok w ->
  (Z.land (encode w) udpMuxWriteCountMask = Z.of_nat (cnt w) /\
   (Z.land (encode w) udpMuxWriteBlockedBit <> 0 <-> blk w = true) /\
   (Z.land (encode w) udpMuxWriteDeadlineBit <> 0 <-> dl w = true)) /\
  (encode (winc w) = encode w + 1 /\
   (cnt w <> O -> encode (wdec w) = encode w - 1) /\
   encode w0 = 0 /\ 0 <= encode w < 2 ^ 64 /\
   (forall w', word_ok w' -> encode w = encode w' -> w = w')).
Proof. intros H. split; [apply encode_fields | apply encode_ops]; exact H. Qed.
