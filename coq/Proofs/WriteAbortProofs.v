(* Proofs about the write-abort protocol model (Model/WriteAbort.v).  C13.
   The invariant and its preservation are in Proofs/WriteAbortInv.v. *)
From Coq Require Import ZArith Bool List Arith Lia.
From Ice Require Import Model.PrioSpec Model.WriteAbort Gen.Consts Proofs.WriteAbortInv.
Import ListNotations.

Lemma armfails_mono hv s l s' : step hv s l s' -> armfails s' = 0 -> armfails s = 0.
Proof. intros H; inversion H; subst; simpl; try tauto; discriminate. Qed.

(* [claimed hv s]: the histories the invariant is claimed for *)
Definition claimed (hv : bool) (s : state) : Prop := hv = true \/ armfails s = 0.

(* count exactness, statement for Props *)

Lemma reach_inv hv s : reach hv s -> claimed hv s -> Inv hv s.
Proof.
  induction 1 as [|s l s' Hr IH Hs]; intros Hnf.
  - apply inv_init.
  - eapply inv_step; eauto. apply IH. destruct Hnf as [Hh|Hz]; [left; exact Hh|right].
    eapply armfails_mono; eauto.
Qed.

(* ---- the theorems ---------------------------------------------------------------------- *)

(* the count field is exactly the number of writers between their increment and decrement *)
Lemma count_exact hv s : reach hv s -> claimed hv s ->
  exists l, NoDup l /\ (forall i, In i l <-> inflight (wpcs s i) = true) /\ cnt (ws s) = length l.
Proof.
  intros Hr Hnf. destruct (reach_inv hv s Hr Hnf). exists (fl s). auto.
Qed.

Lemma quiescent_clean hv s : reach hv s -> claimed hv s -> quiescent s -> ws s = w0 /\ dl_clean s.
Proof.
  intros Hr Hnf [Hw Ha]. pose proof (reach_inv hv s Hr Hnf) as HI.
  assert (Hfl : fl s = []).
  { destruct (fl s) as [|x l] eqn:E; [reflexivity|]. exfalso.
    assert (Hin : In x (fl s)) by (rewrite E; now left).
    apply (i_fl _ _ HI) in Hin. specialize (Hw x). destruct (wpcs s x); simpl in *; discriminate. }
  assert (Hno : own s = None).
  { destruct (own s) as [j|] eqn:E; [|reflexivity]. exfalso.
    apply (i_own _ _ HI) in E. specialize (Ha j). destruct (apcs s j); simpl in *; discriminate. }
  assert (Hnc : clr s = None).
  { destruct (clr s) as [i|] eqn:E; [|reflexivity]. exfalso.
    apply (i_clr _ _ HI) in E. specialize (Hw i). destruct (wpcs s i); simpl in *; discriminate. }
  pose proof (i_cnt _ _ HI) as Hc. rewrite Hfl in Hc. simpl in Hc.
  destruct (blk (ws s)) eqn:Hb.
  - exfalso. destruct (dl (ws s)) eqn:Hd.
    + apply (i_cntzero _ _ HI Hb) in Hc. congruence.
    + apply (i_arming_own _ _ HI Hb Hd). exact Hno.
  - destruct (i_free _ _ HI Hb) as (Hd & Hcl & _). split; [|exact Hcl].
    destruct (ws s) as [c b d]; simpl in *; subst; reflexivity.
Qed.

(* ---- traces, and the monitor on them ------------------------------------------------------ *)
Lemma trace_reach hv ls s : trace hv ls s -> reach hv s.
Proof. induction 1; [constructor | econstructor; eauto]. Qed.

Lemma reach_trace hv s : reach hv s -> exists ls, trace hv ls s.
Proof.
  induction 1 as [|s l s' _ [ls IH] Hs]; [exists []; constructor|].
  exists (ls ++ [l]). econstructor; eauto.
Qed.

Lemma step_armfails hv s l s' : step hv s l s' ->
  armfails s' = (if label_eqb l (LArm false) then S (armfails s) else armfails s).
Proof. intros H; inversion H; subst; simpl; try reflexivity; destruct ok; reflexivity. Qed.

Lemma trace_armfails hv ls s : trace hv ls s -> (armfails s = 0 <-> ~ In (LArm false) ls).
Proof.
  induction 1 as [|ls s l s' Ht IH Hs]; simpl; [tauto|].
  rewrite (step_armfails _ _ _ _ Hs), in_app_iff. simpl.
  destruct l; simpl; try (rewrite IH; intuition congruence).
  destruct ok; simpl; [rewrite IH; intuition congruence|]. split; [discriminate|]. intros H. exfalso. apply H. auto.
Qed.

Lemma step_dl hv s l s' : step hv s l s' -> (armed s', clrfailed s') = dl_track (armed s, clrfailed s) (EV l).
Proof. intros H; inversion H; subst; simpl; reflexivity. Qed.

Lemma trace_dl hv ls s : trace hv ls s -> dl_of_log (map EV ls) = (armed s, clrfailed s).
Proof.
  unfold dl_of_log. induction 1 as [|ls s l s' Ht IH Hs]; simpl; [reflexivity|].
  rewrite map_app, fold_left_app, IH. simpl. symmetry. eapply step_dl. exact Hs.
Qed.

Lemma samples_exact_nosample st ls : samples_exact st (map EV ls) = true.
Proof. revert st. induction ls as [|l ls IH]; intros st; simpl; [reflexivity|]. apply IH. Qed.

Lemma claimed_of_trace hv ls s : trace hv ls s -> (hv = true \/ ~ In (LArm false) ls) -> claimed hv s.
Proof. intros Ht [H|H]; [left; exact H|right; apply (trace_armfails _ _ _ Ht); exact H]. Qed.

Lemma wa_monitor_sound hv ls s : trace hv ls s -> (hv = true \/ ~ In (LArm false) ls) -> quiescent s ->
  C13_wa_monitor (map EV ls) (ws s) (armed s) true false = true.
Proof.
  intros Ht Hnf Hq. pose proof (trace_reach _ _ _ Ht) as Hr.
  apply (claimed_of_trace _ _ _ Ht) in Hnf.
  destruct (quiescent_clean hv s Hr Hnf Hq) as [Hw Hc].
  unfold C13_wa_monitor, C13_wa_checks, all_ok. rewrite (trace_dl _ _ _ Ht). simpl.
  rewrite Hw, samples_exact_nosample. simpl. rewrite eqb_reflx.
  destruct Hc as [-> | ->]; simpl; rewrite ?orb_true_r; reflexivity.
Qed.

(* with no failing SetWriteDeadline call at all the deadline is cleared *)
Lemma quiescent_clean_nofail hv ls s : trace hv ls s -> (hv = true \/ ~ In (LArm false) ls) -> ~ In (LClear false) ls ->
  quiescent s -> ws s = w0 /\ armed s = false.
Proof.
  intros Ht Hnf Hnc Hq. pose proof (trace_reach _ _ _ Ht) as Hr.
  apply (claimed_of_trace _ _ _ Ht) in Hnf.
  destruct (quiescent_clean hv s Hr Hnf Hq) as [Hw [Hc|Hc]]; split; auto.
  exfalso. clear Hq Hw Hnf Hr. induction Ht as [|ls s l s' Ht IH Hs]; simpl in *; [discriminate|].
  rewrite in_app_iff in Hnc. simpl in Hnc.
  inversion Hs; subst; simpl in *; try (apply IH; tauto); try discriminate.
Qed.

(* ---- the executable successor functions agree with the rules ------------------------------ *)
Lemma upd_same {A} (f : nat -> A) i v : upd f i v i = v.
Proof. unfold upd. rewrite Nat.eqb_refl. reflexivity. Qed.
Lemma upd_other {A} (f : nat -> A) i v k : k <> i -> upd f i v k = f k.
Proof. unfold upd. intros H. destruct (Nat.eqb_spec k i); congruence. Qed.

Ltac done_w := eexists; split; [econstructor; solve [eauto | tauto | congruence] | simpl; rewrite ?upd_same; repeat split; auto; intros; apply upd_other; auto].

Lemma wnext_sound hv s i l w' a' p' :
  In (l, w', a', p') (wnext i (ws s) (armed s) (wpcs s i)) ->
  exists s', step hv s l s' /\ ws s' = w' /\ armed s' = a' /\ wpcs s' i = p' /\
             (forall k, k <> i -> wpcs s' k = wpcs s k) /\ apcs s' = apcs s.
Proof.
  intros H. destruct (wpcs s i) eqn:E; simpl in H.
  - destruct H as [H|[]]; inversion H; subst. done_w.
  - destruct H as [H|H]; [inversion H; subst; done_w|].
    destruct (blk (ws s)) eqn:B; destruct H as [H|[]]; inversion H; subst; done_w.
  - destruct (word_eqb (ws s) r) eqn:W; destruct H as [H|[]]; inversion H; subst.
    + apply word_eqb_eq in W. done_w.
    + apply word_eqb_neq in W. done_w.
  - destruct H as [H|[H|[]]]; inversion H; subst; done_w.
  - destruct H as [H|H]; [inversion H; subst; done_w|].
    destruct (armed s) eqn:A; [|destruct H]. destruct H as [H|[]]; inversion H; subst. rewrite <- A. done_w.
  - destruct (Nat.eqb_spec (cnt (ws s)) 0).
    + destruct H as [H|[]]; inversion H; subst. done_w.
    + destruct (blk (ws s)) eqn:B; simpl in H.
      * destruct (Nat.eqb_spec (cnt (ws s)) 1); destruct H as [H|[]]; inversion H; subst.
        -- done_w.
        -- eexists; split; [eapply w_fin_load; eauto; tauto|simpl; rewrite ?upd_same; repeat split; auto; intros; apply upd_other; auto].
      * destruct H as [H|[]]; inversion H; subst.
        eexists; split; [eapply w_fin_load; eauto; intros [? ?]; congruence|simpl; rewrite ?upd_same; repeat split; auto; intros; apply upd_other; auto].
  - destruct (word_eqb (ws s) r) eqn:W; destruct H as [H|[]]; inversion H; subst.
    + apply word_eqb_eq in W. done_w.
    + apply word_eqb_neq in W. done_w.
  - destruct (word_eqb (ws s) r) eqn:W; destruct H as [H|[]]; inversion H; subst.
    + apply word_eqb_eq in W. done_w.
    + apply word_eqb_neq in W. done_w.
  - destruct (blk (ws s)) eqn:B; simpl in H.
    + destruct (dl (ws s)) eqn:D; destruct H as [H|[]]; inversion H; subst; done_w.
    + destruct H as [H|[]]; inversion H; subst; done_w.
  - destruct H as [H|[H|[]]]; inversion H; subst; done_w.
  - destruct H as [H|[]]; inversion H; subst. done_w.
  - destruct H as [H|[]]; inversion H; subst. done_w.
  - destruct H.
Qed.

Ltac bool_props :=
  repeat match goal with
  | H : _ || _ = true |- _ => apply orb_true_iff in H
  | H : _ || _ = false |- _ => apply orb_false_iff in H; destruct H
  | H : _ && _ = true |- _ => apply andb_true_iff in H; destruct H
  | H : _ && _ = false |- _ => apply andb_false_iff in H
  | H : negb _ = true |- _ => apply negb_true_iff in H
  | H : negb _ = false |- _ => apply negb_false_iff in H
  | H : Nat.eqb _ _ = true |- _ => apply Nat.eqb_eq in H
  | H : Nat.eqb _ _ = false |- _ => apply Nat.eqb_neq in H
  | H : word_eqb _ _ = true |- _ => apply word_eqb_eq in H
  | H : word_eqb _ _ = false |- _ => apply word_eqb_neq in H
  end.

Ltac done_a := eexists; split; [econstructor; solve [eauto | tauto | congruence | intuition congruence] |
  simpl; rewrite ?upd_same; repeat split; auto; intros; apply upd_other; auto].

Lemma anext_sound hv s j l w' a' p' :
  In (l, w', a', p') (anext hv j (ws s) (armed s) (apcs s j)) ->
  exists s', step hv s l s' /\ ws s' = w' /\ armed s' = a' /\ apcs s' j = p' /\
             (forall k, k <> j -> apcs s' k = apcs s k) /\ wpcs s' = wpcs s.
Proof.
  intros H. destruct (apcs s j) eqn:E; simpl in H;
  repeat match type of H with context [if ?c then _ else _] => destruct c eqn:? end;
  simpl in H; repeat (destruct H as [H|H]); try contradiction; inversion H; subst; bool_props; try done_a.
  all: try (destruct (blk (ws s)) eqn:?; destruct (dl (ws s)) eqn:?; intuition (try discriminate); done_a).
  eexists; split; [eapply a_noop; eauto; destruct Heqb as [Hb|Hb]; [left; exact Hb|right; apply Nat.eqb_eq; exact Hb] |
    simpl; rewrite ?upd_same; repeat split; auto; intros; apply upd_other; auto].
Qed.

(* every step of the relation is produced by the successor function of the thread that takes it *)
Lemma step_enumerated hv s l s' : step hv s l s' ->
  (exists i, In (l, ws s', armed s', wpcs s' i) (wnext i (ws s) (armed s) (wpcs s i))) \/
  (exists j, In (l, ws s', armed s', apcs s' j) (anext hv j (ws s) (armed s) (apcs s j))).
Proof.
  intros H; inversion H; subst;
  match goal with
  | Hp : wpcs s ?i = _ |- _ => left; exists i; rewrite Hp
  | Hp : apcs s ?j = _ |- _ => right; exists j; rewrite Hp
  end; simpl; rewrite ?upd_same;
  repeat match goal with
  | Hb : blk _ = _ |- _ => rewrite Hb
  | Hb : dl _ = _ |- _ => rewrite Hb
  | Hb : cnt _ = _ |- _ => rewrite Hb
  | Hb : armed _ = _ |- _ => rewrite Hb
  | Hb : undo_done _ _ = _ |- _ => rewrite Hb
  end; simpl;
  repeat match goal with
  | |- context [word_eqb ?a ?a] => replace (word_eqb a a) with true by (symmetry; apply word_eqb_eq; reflexivity)
  | Hn : ?a <> ?b |- context [word_eqb ?a ?b] => replace (word_eqb a b) with false by (symmetry; apply word_eqb_neq; exact Hn)
  end; simpl; auto 6.
  - destruct (Nat.eqb_spec (cnt (ws s)) 0); [contradiction|].
    destruct (blk (ws s)) eqn:B; simpl; auto.
    destruct (Nat.eqb_spec (cnt (ws s)) 1); simpl; auto. all: try (exfalso; apply H2; auto).
  - destruct H1 as [-> | ->]; simpl; auto. rewrite orb_true_r. simpl; auto.
  - destruct (Nat.eqb_spec (cnt (ws s)) 0); [contradiction|]. simpl; auto.
  - destruct H1 as [-> | ->]; simpl; auto. rewrite orb_true_r. simpl; auto.
Qed.

(* ---- liveness, partial: whoever spins has a helper -------------------------------------------
   Both wait loops (startWriteContext under blocked, clearWriteDeadlineAfterAbort under
   blocked without deadline) spin only while blocked is set.  Whenever blocked is set, a
   thread of the running abort that does NOT spin is enabled and its step advances its own
   program counter: the aborter that owns blocked until it has set the deadline bit; afterwards
   an in-flight writer, or - once the count is zero - the writer that clears the deadline. *)
Lemma word_dec (a b : word) : a = b \/ a <> b.
Proof. destruct (word_eqb a b) eqn:E; [left; apply word_eqb_eq|right; apply word_eqb_neq]; exact E. Qed.

Lemma spins_blocked s i : w_spins s i -> blk (ws s) = true.
Proof. intros [[_ H]|[_ [H _]]]; exact H. Qed.

Ltac step_w i := eexists; eexists; split; [econstructor; solve [eauto | tauto | congruence] |
  simpl; rewrite upd_same; congruence].

Lemma blocked_has_helper hv s : reach hv s -> claimed hv s -> blk (ws s) = true ->
  (dl (ws s) = false /\ exists j l s', own s = Some j /\ owning (apcs s j) = true /\
                                       step hv s l s' /\ apcs s' j <> apcs s j) \/
  (dl (ws s) = true /\ exists i l s', (inflight (wpcs s i) = true \/ clearing (wpcs s i) = true) /\
                                      ~ w_spins s i /\ step hv s l s' /\ wpcs s' i <> wpcs s i).
Proof.
  intros Hr Hnf Hb. pose proof (reach_inv hv s Hr Hnf) as HI.
  destruct (dl (ws s)) eqn:Hd; [right|left]; split; auto.
  - (* deadline bit set: writers drain, then the clearer *)
    destruct (fl s) as [|x l] eqn:Efl.
    + pose proof (i_cnt _ _ HI) as Hc. rewrite Efl in Hc. simpl in Hc.
      apply (i_cntzero _ _ HI Hb) in Hc. destruct (clr s) as [i|] eqn:Ec; [|congruence].
      pose proof (proj1 (i_clr _ _ HI i) Ec) as Hcl. exists i.
      assert (Hns : ~ w_spins s i).
      { intros [[Hp _]|[_ [_ Hd']]]; [rewrite Hp in Hcl; discriminate|congruence]. }
      destruct (wpcs s i) eqn:Ep; simpl in Hcl; try discriminate.
      * exists Tau, (set_w s i WClrSet). repeat split; auto.
        -- apply w_clr_go; auto.
        -- simpl. rewrite upd_same. congruence.
      * exists (LClear true), (set_armed (set_w s i WClrStore) false). repeat split; auto.
        -- apply w_clr_set_ok; auto.
        -- simpl. rewrite upd_same. congruence.
      * exists Tau, (set_clr (set_ws (set_w s i WRet) w0) None). repeat split; auto.
        -- apply w_clr_store; auto.
        -- simpl. rewrite upd_same. congruence.
    + assert (Hin : In x (fl s)) by (rewrite Efl; now left).
      pose proof (proj1 (i_fl _ _ HI x) Hin) as Hfl. exists x.
      assert (Hns : ~ w_spins s x).
      { intros [[Hp _]|[Hp _]]; rewrite Hp in Hfl; discriminate. }
      assert (Hc : cnt (ws s) <> 0) by (rewrite (i_cnt _ _ HI), Efl; simpl; lia).
      destruct (wpcs s x) eqn:Ep; simpl in Hfl; try discriminate.
      * exists (LSockIn x), (set_w s x WSock). repeat split; auto.
        -- apply w_sock_in; auto.
        -- simpl. rewrite upd_same. congruence.
      * exists (LSockOut x true), (set_w s x WFin). repeat split; auto.
        -- apply w_sock_ok; auto.
        -- simpl. rewrite upd_same. congruence.
      * destruct (Nat.eq_dec (cnt (ws s)) 1) as [H1|H1].
        -- exists Tau, (set_w s x (WFinCasLast (ws s))). repeat split; auto.
           ++ apply w_fin_load_last; auto.
           ++ simpl. rewrite upd_same. congruence.
        -- exists Tau, (set_w s x (WFinCas (ws s))). repeat split; auto.
           ++ apply w_fin_load; auto. tauto.
           ++ simpl. rewrite upd_same. congruence.
      * destruct (word_dec (ws s) r) as [E|E].
        -- exists Tau, (set_fl (set_ws (set_w s x WRet) (wdec r)) (remove_nat x (fl s))). repeat split; auto.
           ++ apply w_fin_cas_ok; auto.
           ++ simpl. rewrite upd_same. congruence.
        -- exists Tau, (set_w s x WFin). repeat split; auto.
           ++ eapply w_fin_cas_fail; eauto.
           ++ simpl. rewrite upd_same. congruence.
      * destruct (word_dec (ws s) r) as [E|E].
        -- exists Tau, (set_clr (set_fl (set_ws (set_w s x WClr) (wdec r)) (remove_nat x (fl s))) (Some x)).
           repeat split; auto.
           ++ apply w_fin_cas_last_ok; auto.
           ++ simpl. rewrite upd_same. congruence.
        -- exists Tau, (set_w s x WFin). repeat split; auto.
           ++ eapply w_fin_cas_last_fail; eauto.
           ++ simpl. rewrite upd_same. congruence.
  - (* the owner of blocked arms the deadline and sets the deadline bit *)
    pose proof (i_arming_own _ _ HI Hb Hd) as Ho. destruct (own s) as [j|] eqn:Eo; [|congruence].
    pose proof (proj1 (i_own _ _ HI j) Eo) as Hown. exists j.
    destruct (apcs s j) eqn:Ep; simpl in Hown; try discriminate.
    + exists (LArm true), (set_clrfailed (set_armed (set_a s j AArm) true) false). repeat split; auto.
      * apply a_arm_ok; auto.
      * simpl. rewrite upd_same. congruence.
    + exists Tau, (set_a s j (AArmCas (ws s))). repeat split; auto.
      * apply a_arm_load; auto.
      * simpl. rewrite upd_same. congruence.
    + destruct (word_dec (ws s) r) as [E|E].
      * exists Tau, (set_own (set_ws (set_a s j (ARet true)) (wsetD r)) None). repeat split; auto.
        -- apply a_arm_cas_ok; auto.
        -- simpl. rewrite upd_same. congruence.
      * exists Tau, (set_a s j AArm). repeat split; auto.
        -- eapply a_arm_cas_fail; eauto.
        -- simpl. rewrite upd_same. congruence.
    + (* clearWriteAbortState after a failed arming (only reachable with the handover variant) *)
      exists Tau, (set_a s j (AUndoCas (ws s))). repeat split; auto.
      * apply a_undo_load; auto. unfold undo_done. rewrite Hb. destruct hv; reflexivity.
      * simpl. rewrite upd_same. congruence.
    + destruct (word_dec (ws s) r) as [E|E].
      * exists Tau, (set_own (set_ws (set_a s j (ARet false)) (undo_target hv r)) None). repeat split; auto.
        -- apply a_undo_cas_ok; auto.
        -- simpl. rewrite upd_same. congruence.
      * exists Tau, (set_a s j AUndo). repeat split; auto.
        -- eapply a_undo_cas_fail; eauto.
        -- simpl. rewrite upd_same. congruence.
Qed.

(* ---- non-vacuity: a complete abort (one writer blocked in the socket, one abort, no failure) -- *)
Tactic Notation "tnxt" hyp(T) uconstr(c) :=
  eapply trace_snoc in T;
  [ | eapply c; cbv; try reflexivity; try discriminate; try (left; reflexivity) ];
  cbv [set_w set_a set_ws set_armed set_fl set_own set_clr bump_armfails set_clrfailed
       ws armed wpcs apcs fl own clr armfails clrfailed init] in T.

Lemma example_abort_cycle hv :
  exists ls s, trace hv ls s /\ ~ In (LArm false) ls /\ ~ In (LClear false) ls /\ quiescent s /\
               In (LArm true) ls /\ In (LSockOut 0 false) ls /\ In (LClear true) ls.
Proof.
  pose proof (trace_nil hv) as T.
  tnxt T (w_call _ _ 0). tnxt T (w_start_load _ _ 0). tnxt T (w_start_cas_ok _ _ 0). tnxt T (w_sock_in _ _ 0).
  tnxt T (a_call _ _ 0). tnxt T (a_load _ _ 0). tnxt T (a_cas_ok _ _ 0). tnxt T (a_arm_ok _ _ 0).
  tnxt T (w_sock_timeout _ _ 0).
  tnxt T (w_fin_load_last _ _ 0). tnxt T (w_fin_cas_last_ok _ _ 0). tnxt T (w_clr_spin _ _ 0).
  tnxt T (a_arm_load _ _ 0). tnxt T (a_arm_cas_ok _ _ 0). tnxt T (a_ret _ _ 0).
  tnxt T (w_clr_go _ _ 0). tnxt T (w_clr_set_ok _ _ 0). tnxt T (w_clr_store _ _ 0). tnxt T (w_ret _ _ 0).
  eexists. eexists. split; [exact T|]. cbv [app].
  repeat split; try (intros i; destruct i as [|i]; reflexivity);
    try (simpl; intuition discriminate); simpl; tauto.
Qed.

(* ---- the record [word] and the uint64 the code uses --------------------------------------- *)
Local Open Scope Z_scope.
(* the generated constants are the bits the record stands for *)
Lemma masks_generated :
  udpMuxWriteBlockedBit = 2 ^ 63 /\ udpMuxWriteDeadlineBit = 2 ^ 62 /\ udpMuxWriteCountMask = 2 ^ 62 - 1.
Proof. repeat split; reflexivity. Qed.

Definition word_ok (w : word) : Prop := Z.of_nat (cnt w) < 2 ^ 62 - 1.

Ltac Zify.zify_post_hook ::= Z.div_mod_to_equations.

Lemma land_pow2 a n : 0 <= n -> (Z.land a (2 ^ n) <> 0 <-> (a / 2 ^ n) mod 2 = 1).
Proof.
  intros Hn. rewrite <- (Z.testbit_spec' a n Hn). split.
  - intros H. destruct (Z.testbit a n) eqn:E; [reflexivity|]. exfalso. apply H.
    apply Z.bits_inj'. intros k Hk. rewrite Z.land_spec, Z.bits_0, Z.pow2_bits_eqb by lia.
    destruct (Z.eqb_spec n k); [subst; rewrite E; reflexivity|apply andb_false_r].
  - intros H E. destruct (Z.testbit a n) eqn:T; [|discriminate].
    assert (Z.testbit (Z.land a (2 ^ n)) n = true).
    { rewrite Z.land_spec, T, Z.pow2_bits_true by lia. reflexivity. }
    rewrite E, Z.bits_0 in H0. discriminate.
Qed.

(* the fields are recovered from the encoding exactly as the code tests them
   (state&udpMuxWriteCountMask, state&udpMuxWriteBlockedBit != 0, state&udpMuxWriteDeadlineBit != 0) *)
Lemma encode_fields w : word_ok w ->
  Z.land (encode w) udpMuxWriteCountMask = Z.of_nat (cnt w) /\
  (Z.land (encode w) udpMuxWriteBlockedBit <> 0 <-> blk w = true) /\
  (Z.land (encode w) udpMuxWriteDeadlineBit <> 0 <-> dl w = true).
Proof.
  unfold word_ok, encode, udpMuxWriteBlockedBit, udpMuxWriteDeadlineBit, udpMuxWriteCountMask.
  intros H. pose proof (Nat2Z.is_nonneg (cnt w)) as Hn. set (c := Z.of_nat (cnt w)) in *.
  change 4611686018427387903 with (Z.ones 62).
  change 9223372036854775808 with (2 ^ 63). change 4611686018427387904 with (2 ^ 62).
  rewrite Z.land_ones, !land_pow2 by lia.
  change (2 ^ 62) with 4611686018427387904 in *. change (2 ^ 63) with 9223372036854775808 in *.
  destruct (blk w), (dl w); repeat split; intros; try lia; try discriminate.
Qed.

(* state+1, state-1, state|blocked, state|deadline, state&^(blocked|deadline) and 0 on the uint64
   are the record operations (no carry into the flag bits while fewer than 2^62-1 writers are in flight) *)
Lemma encode_ops w : word_ok w ->
  encode (winc w) = encode w + 1 /\
  (cnt w <> O -> encode (wdec w) = encode w - 1) /\
  encode w0 = 0 /\
  0 <= encode w < 2 ^ 64 /\
  (forall w', word_ok w' -> encode w = encode w' -> w = w').
Proof.
  unfold word_ok, encode, udpMuxWriteBlockedBit, udpMuxWriteDeadlineBit.
  intros H. change (2 ^ 62) with 4611686018427387904 in *. change (2 ^ 63) with 9223372036854775808 in *.
  change (2 ^ 64) with 18446744073709551616.
  repeat split.
  - simpl cnt. simpl blk. simpl dl. rewrite Nat2Z.inj_succ. lia.
  - intros Hc. simpl cnt. simpl blk. simpl dl. rewrite Nat2Z.inj_pred by lia. lia.
  - destruct (dl w), (blk w); lia.
  - destruct (dl w), (blk w); lia.
  - intros w' H' E. destruct w as [c b d], w' as [c' b' d']; simpl in *.
    assert (c = c' /\ b = b' /\ d = d') as (-> & -> & ->); [|reflexivity].
    destruct b, d, b', d'; repeat split; try reflexivity; try lia.
Qed.

(* ---- the statements used by Props/C13.v ------------------------------------------------------- *)
Lemma quiescent_clean_trace hv ls s :
  trace hv ls s -> (hv = true \/ ~ In (LArm false) ls) -> quiescent s ->
  ws s = w0 /\ (armed s = false \/ clrfailed s = true).
Proof.
  intros Ht Hnf Hq. apply (quiescent_clean hv); auto.
  - eapply trace_reach; eauto.
  - eapply claimed_of_trace; eauto.
Qed.

Lemma no_stuck_spin hv s : reach hv s -> (hv = true \/ armfails s = O) ->
  (forall i, w_spins s i -> blk (ws s) = true) /\
  (blk (ws s) = true ->
   (dl (ws s) = false /\ exists j l s', own s = Some j /\ owning (apcs s j) = true /\
                                        step hv s l s' /\ apcs s' j <> apcs s j) \/
   (dl (ws s) = true /\ exists i l s', (inflight (wpcs s i) = true \/ clearing (wpcs s i) = true) /\
                                       ~ w_spins s i /\ step hv s l s' /\ wpcs s' i <> wpcs s i)).
Proof.
  intros Hr Hnf. split.
  - intros i. apply spins_blocked.
  - apply blocked_has_helper; assumption.
Qed.

Lemma successors_sound hv s :
  (forall i l w' a' p', In (l, w', a', p') (wnext i (ws s) (armed s) (wpcs s i)) ->
     exists s', step hv s l s' /\ ws s' = w' /\ armed s' = a' /\ wpcs s' i = p' /\
                (forall k, k <> i -> wpcs s' k = wpcs s k) /\ apcs s' = apcs s) /\
  (forall j l w' a' p', In (l, w', a', p') (anext hv j (ws s) (armed s) (apcs s j)) ->
     exists s', step hv s l s' /\ ws s' = w' /\ armed s' = a' /\ apcs s' j = p' /\
                (forall k, k <> j -> apcs s' k = apcs s k) /\ wpcs s' = wpcs s).
Proof.
  split.
  - intros i l w' a' p'. apply wnext_sound.
  - intros j l w' a' p'. apply anext_sound.
Qed.

Lemma word_encoding w : word_ok w ->
  (Z.land (encode w) udpMuxWriteCountMask = Z.of_nat (cnt w) /\
   (Z.land (encode w) udpMuxWriteBlockedBit <> 0 <-> blk w = true) /\
   (Z.land (encode w) udpMuxWriteDeadlineBit <> 0 <-> dl w = true)) /\
  (encode (winc w) = encode w + 1 /\
   (cnt w <> O -> encode (wdec w) = encode w - 1) /\
   encode w0 = 0 /\ 0 <= encode w < 2 ^ 64 /\
   (forall w', word_ok w' -> encode w = encode w' -> w = w')).
Proof. intros H. split; [apply encode_fields | apply encode_ops]; exact H. Qed.

(* the two variants separately *)
Lemma quiescent_clean_current ls s :
  trace false ls s -> ~ In (LArm false) ls -> quiescent s ->
  ws s = w0 /\ (armed s = false \/ clrfailed s = true).
Proof. intros Ht Hn. apply (quiescent_clean_trace false ls s Ht). right. exact Hn. Qed.

Lemma quiescent_clean_fixed ls s :
  trace true ls s -> quiescent s -> ws s = w0 /\ (armed s = false \/ clrfailed s = true).
Proof. intros Ht. apply (quiescent_clean_trace true ls s Ht). left. reflexivity. Qed.

Lemma quiescent_clean_nofail_current ls s :
  trace false ls s -> ~ In (LArm false) ls -> ~ In (LClear false) ls -> quiescent s ->
  ws s = w0 /\ armed s = false.
Proof. intros Ht Hn. apply (quiescent_clean_nofail false ls s Ht). right. exact Hn. Qed.

Lemma quiescent_clean_nofail_fixed ls s :
  trace true ls s -> ~ In (LClear false) ls -> quiescent s -> ws s = w0 /\ armed s = false.
Proof. intros Ht. apply (quiescent_clean_nofail true ls s Ht). left. reflexivity. Qed.

Lemma count_exact_current s : reach false s -> armfails s = O ->
  exists l, NoDup l /\ (forall i, In i l <-> inflight (wpcs s i) = true) /\ cnt (ws s) = length l.
Proof. intros Hr Hn. apply (count_exact false s Hr). right. exact Hn. Qed.

Lemma count_exact_fixed s : reach true s ->
  exists l, NoDup l /\ (forall i, In i l <-> inflight (wpcs s i) = true) /\ cnt (ws s) = length l.
Proof. intros Hr. apply (count_exact true s Hr). left. reflexivity. Qed.
