(* Single nomination on the wire: in the two-agent system, while agent x's selector is not restarted and the application
   does not renominate, every USE-CANDIDATE request of x that is in flight -- whatever was delivered, dropped or
   duplicated -- is the routed image of a send on x's recorded nominated pair: all of them go to ONE socket of the peer
   from ONE address of x. *)
From Coq Require Import ZArith Bool List Lia.
From Ice Require Import Model.AgentTypes Model.AgentCore Model.PairMonitor Model.TwoAgents Gen.Consts
  Proofs.AgentFrame Proofs.AgentC06 Proofs.AgentC03Sel Proofs.AgentRem Proofs.AgentEnds Proofs.TwoAgentsProofs
  Proofs.AgentC20Hist Proofs.AgentSingleNom Proofs.AgentNomInv Proofs.TwoAgentsDataReach.
Import ListNotations.
Local Open Scope Z_scope.

Section Wire.
Variables (cfga cfgb : config) (t : topology).
Variable x : bool.   (* the nominating side *)

Definition ag (sy : sys) : state := if x then sy_a sy else sy_b sy.
Definition cfgx : config := if x then cfga else cfgb.

Definition use_flight (f : flight) : Prop := f_to_a f = negb x /\ m_class (f_msg f) = 0 /\ m_use (f_msg f) = true.

(* f is what the network made of a send on the recorded nominated pair *)
Definition on_nominated (s : state) (f : flight) : Prop :=
  exists np, s_nominated s = Some np /\ In f (route_one t x (c_h (p_loc np)) (c_addr (p_rem np)) (f_msg f)).

Definition WireInv (sy : sys) : Prop :=
  Forall (fun f => use_flight f -> on_nominated (ag sy) f) (sy_net sy).

Lemma on_nominated_key s s' f : nom_key s' = nom_key s -> on_nominated s f -> on_nominated s' f.
Proof.
  intros E [np [En Hin]]. unfold nom_key in E. rewrite En in E. destruct (s_nominated s') as [np'|] eqn:En'; [|discriminate E].
  injection E as _ E2 E3. exists np'. split; [exact En'|]. rewrite E2, E3. exact Hin.
Qed.

Lemma route_one_msg from_a lh dst m f : In f (route_one t from_a lh dst m) -> f_msg f = m /\ f_to_a f = negb from_a.
Proof. intros H. destruct (route_one_routed t from_a lh dst m f H) as [_ [H1 H2]]. auto. Qed.

(* the agent's own step: old flights keep their justification, new USE-CANDIDATE flights are on the record *)
Lemma wire_own_step s o net :
  InvU s -> NomInv s -> Rc s -> ~ restarts_or_renominates s o ->
  Forall (fun f => use_flight f -> on_nominated s f) net ->
  Forall (fun f => use_flight f -> on_nominated (fst (step cfgx s o)) f) (net ++ route t x (snd (step cfgx s o))).
Proof.
  intros HU HN HR Hq Hnet.
  destruct (step_single_nomination_adm cfgx s o HU HN HR) as [HR'|[Hk Hu]]; [contradiction|].
  apply Forall_app. split.
  - eapply Forall_impl; [|exact Hnet]. intros f Hf Huse. specialize (Hf Huse).
    destruct Hk as [Hnone|Hkey]; [destruct Hf as [np [En _]]; congruence|]. exact (on_nominated_key s _ f Hkey Hf).
  - apply Forall_forall. intros f Hf [_ [Hc Huse]]. unfold route in Hf. apply in_flat_map in Hf. destruct Hf as [out [Hout Hf]].
    destruct out as [lh dst m| | | | | | |]; try destruct Hf.
    destruct (route_one_msg x lh dst m f Hf) as [Em _]. rewrite Em in Hc, Huse.
    rewrite Forall_forall in Hu. destruct (Hu _ Hout Hc Huse) as [np [En [-> ->]]].
    exists np. split; [exact En|]. rewrite Em. exact Hf.
Qed.

(* a step of the other agent sends nothing towards itself *)
Lemma wire_peer_flights s' outs' :
  Forall (fun f => use_flight f -> on_nominated s' f) (route t (negb x) outs').
Proof.
  apply Forall_forall. intros f Hf [Hto _]. unfold route in Hf. apply in_flat_map in Hf. destruct Hf as [out [_ Hf]].
  destruct out as [lh dst m| | | | | | |]; try destruct Hf.
  destruct (route_one_msg (negb x) lh dst m f Hf) as [_ E]. rewrite E in Hto. destruct x; discriminate Hto.
Qed.

Definition own_op_ok (s : state) (o : op) : Prop := op_ok o s /\ ~ restarts_or_renominates s o.

(* the schedule is admissible and calm for x: each operation x itself performs is *)
Definition wire_step_ok (sy : sys) (o : sys_op) : Prop :=
  match o with
  | SApi on_a op => if Bool.eqb on_a x then own_op_ok (ag sy) op else True
  | SDeliver n =>
    match nth_error (sy_net sy) n with
    | Some f => if Bool.eqb (f_to_a f) x then own_op_ok (ag sy) (InStun (f_lh f) (f_src f) (f_msg f)) else True
    | None => True
    end
  | _ => True
  end.

Definition XInv (sy : sys) : Prop := InvU (ag sy) /\ Rc (ag sy) /\ NomInv (ag sy) /\ WireInv sy.

Lemma ag_agent_step_own o sy : ag (agent_step cfga cfgb t x o sy) = fst (step cfgx (ag sy) o).
Proof. unfold ag, cfgx, agent_step. destruct x; [destruct (step cfga (sy_a sy) o)|destruct (step cfgb (sy_b sy) o)]; reflexivity. Qed.
Lemma net_agent_step_own o sy : sy_net (agent_step cfga cfgb t x o sy) = sy_net sy ++ route t x (snd (step cfgx (ag sy) o)).
Proof. unfold ag, cfgx, agent_step. destruct x; [destruct (step cfga (sy_a sy) o)|destruct (step cfgb (sy_b sy) o)]; reflexivity. Qed.
Lemma ag_agent_step_peer o sy : ag (agent_step cfga cfgb t (negb x) o sy) = ag sy.
Proof. unfold ag, agent_step. destruct x; cbn [negb]; [destruct (step cfgb (sy_b sy) o)|destruct (step cfga (sy_a sy) o)]; reflexivity. Qed.
Lemma net_agent_step_peer o sy : exists outs', sy_net (agent_step cfga cfgb t (negb x) o sy) = sy_net sy ++ route t (negb x) outs'.
Proof. unfold agent_step. destruct x; cbn [negb]; [destruct (step cfgb (sy_b sy) o) as [s' o']|destruct (step cfga (sy_a sy) o) as [s' o']]; exists o'; reflexivity. Qed.

Lemma XInv_agent_own o sy : own_op_ok (ag sy) o -> XInv sy -> XInv (agent_step cfga cfgb t x o sy).
Proof.
  intros [Hok Hq] [HU [HR [HN HW]]]. unfold XInv. rewrite ag_agent_step_own. unfold WireInv. rewrite net_agent_step_own, ag_agent_step_own.
  split; [exact (step_preserves_InvU cfgx o _ HU)|]. split; [apply step_Rc; assumption|].
  split; [exact (proj2 (proj2 (step_GN cfgx o _ (conj HU HN))))|]. apply wire_own_step; assumption.
Qed.

Lemma XInv_agent_peer o sy : XInv sy -> XInv (agent_step cfga cfgb t (negb x) o sy).
Proof.
  intros [HU [HR [HN HW]]]. unfold XInv, WireInv. rewrite ag_agent_step_peer. destruct (net_agent_step_peer o sy) as [outs' ->].
  split; [exact HU|]. split; [exact HR|]. split; [exact HN|]. apply Forall_app. split; [exact HW|apply wire_peer_flights].
Qed.

Lemma XInv_net sy net' : (forall f, In f net' -> In f (sy_net sy)) -> XInv sy -> XInv (mkSys (sy_a sy) (sy_b sy) net').
Proof.
  intros Hsub [HU [HR [HN HW]]]. unfold XInv, WireInv, ag in *. cbn [sy_a sy_b sy_net]. split; [exact HU|]. split; [exact HR|]. split; [exact HN|].
  rewrite Forall_forall in *. intros f Hf. apply HW. apply Hsub. exact Hf.
Qed.

Lemma remove_nth_incl {A} n (l : list A) : forall f, In f (remove_nth n l) -> In f l.
Proof. revert n. induction l as [|y r IH]; intros n f; destruct n; cbn; auto. intros [H|H]; [left; exact H|right; exact (IH _ _ H)]. Qed.

Theorem sys_step_XInv sy o : wire_step_ok sy o -> XInv sy -> XInv (sys_step cfga cfgb t sy o).
Proof.
  intros Hok HX. destruct o as [on_a op|n|n|n]; cbn [sys_step wire_step_ok] in *.
  - destruct (is_inbound op); [exact HX|]. destruct (Bool.eqb on_a x) eqn:E.
    + apply eqb_prop in E. subst on_a. apply XInv_agent_own; assumption.
    + assert (on_a = negb x) by (destruct on_a, x; try reflexivity; discriminate E). subst on_a. apply XInv_agent_peer. exact HX.
  - destruct (nth_error (sy_net sy) n) as [f|] eqn:En; [|exact HX].
    assert (HX' : XInv (mkSys (sy_a sy) (sy_b sy) (remove_nth n (sy_net sy)))) by (apply XInv_net; [apply remove_nth_incl|exact HX]).
    destruct (Bool.eqb (f_to_a f) x) eqn:E.
    + apply eqb_prop in E. rewrite E. apply XInv_agent_own; [|exact HX']. exact Hok.
    + assert (f_to_a f = negb x) by (destruct (f_to_a f), x; try reflexivity; discriminate E). rewrite H. apply XInv_agent_peer. exact HX'.
  - apply XInv_net; [apply remove_nth_incl|exact HX].
  - destruct (nth_error (sy_net sy) n) as [f|] eqn:En; [|exact HX]. apply XInv_net; [|exact HX].
    intros g Hg. apply in_app_or in Hg. destruct Hg as [Hg|[<-|[]]]; [exact Hg|exact (nth_error_In _ _ En)].
Qed.

Fixpoint wire_run_ok (sy : sys) (ops : list sys_op) : Prop :=
  match ops with
  | [] => True
  | o :: r => wire_step_ok sy o /\ wire_run_ok (sys_step cfga cfgb t sy o) r
  end.

Lemma sys_run_XInv ops : forall sy, wire_run_ok sy ops -> XInv sy -> XInv (sys_run cfga cfgb t sy ops).
Proof.
  unfold sys_run. induction ops as [|o r IH]; intros sy Hok HX; cbn [fold_left]; [exact HX|].
  destruct Hok as [H1 H2]. apply IH; [exact H2|]. apply sys_step_XInv; assumption.
Qed.

(* two sends on the same ends are routed to the same socket from the same address *)
Lemma route_one_same_key lh dst m1 m2 f1 f2 :
  In f1 (route_one t x lh dst m1) -> In f2 (route_one t x lh dst m2) -> f_lh f1 = f_lh f2 /\ f_src f1 = f_src f2.
Proof.
  unfold route_one. destruct (index_of lh _ 0) as [i|]; [|intros []]. destruct (index_of_pub dst _ 0) as [j|]; [|intros []].
  destruct (if x then fst (t_link t i j) else snd (t_link t j i)); [|intros []].
  intros [<-|[]] [<-|[]]. split; reflexivity.
Qed.

End Wire.

(* from any system state satisfying the bookkeeping invariants (the initial one does), along any schedule that is
   admissible and calm for x: all USE-CANDIDATE requests of x in flight reach ONE socket of the peer from ONE address *)
Theorem use_candidate_flights_share_one_path cfga cfgb t x sy ops f1 f2 :
  XInv t x sy -> wire_run_ok cfga cfgb t x sy ops ->
  let net := sy_net (sys_run cfga cfgb t sy ops) in
  In f1 net -> use_flight x f1 -> In f2 net -> use_flight x f2 ->
  f_lh f1 = f_lh f2 /\ f_src f1 = f_src f2.
Proof.
  intros HX Hok net I1 U1 I2 U2.
  destruct (sys_run_XInv cfga cfgb t x ops sy Hok HX) as [_ [_ [_ HW]]]. unfold WireInv in HW. rewrite Forall_forall in HW.
  destruct (HW f1 I1 U1) as [np1 [E1 H1]]. destruct (HW f2 I2 U2) as [np2 [E2 H2]]. rewrite E1 in E2. injection E2 as <-.
  exact (route_one_same_key t x _ _ _ _ f1 f2 H1 H2).
Qed.

Lemma XInv_init t x lua lpa lub lpb : XInv t x (sys_init lua lpa lub lpb).
Proof.
  unfold XInv, ag, sys_init. cbn [sy_a sy_b sy_net]. destruct x.
  - split; [apply InvU_init|]. split; [apply Rc_init|]. split; [unfold NomInv, init; cbn; exact I|constructor].
  - split; [apply InvU_init|]. split; [apply Rc_init|]. split; [unfold NomInv, init; cbn; exact I|constructor].
Qed.
