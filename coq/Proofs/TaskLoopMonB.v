From Coq Require Import Arith Bool List Lia.
Import ListNotations.
From Ice Require Import Model.PrioSpec Model.TaskLoop Proofs.TaskLoopInv Proofs.TaskLoopProofs Proofs.TaskLoopMonA.

Ltac sp_cases :=
  repeat match goal with
  | |- context [spc_eqb (sp ?s ?j) SIdle] => destruct (sp s j) eqn:?; simpl
  | |- context [returned (sp ?s ?j)] => destruct (sp s j) eqn:?; simpl
  end.

Ltac neq_rw :=
  repeat match goal with
  | E : ?a <> ?b |- context [?a =? ?b] => rewrite (proj2 (Nat.eqb_neq a b) E)
  | E : ?a <> ?b |- context [?b =? ?a] => rewrite (proj2 (Nat.eqb_neq b a) (not_eq_sym E))
  end.

Lemma nowait_facts : forall s i, Inv s -> sp s i <> SWait -> sp s i <> SRetOk ->
  ts s i = TNot /\ runs s i = 0 /\ tdone s i = false.
Proof.
  intros s i I A B. destruct (i_notwait _ I i A B) as [T D]. repeat split; auto. apply (i_runs0 _ I); auto.
Qed.

Ltac idle_facts II :=
  repeat match goal with
  | E : sp ?s ?j = ?X |- _ =>
      lazymatch goal with
      | _ : runs s j = 0 |- _ => fail
      | _ => let F := fresh "F" in
             assert (F : ts s j = TNot /\ runs s j = 0 /\ tdone s j = false)
               by (apply (nowait_facts s j II); congruence);
             destruct F as (? & ? & ?)
      end
  end.

Section Step.
  Variables (l : label) (s s' : state) (tr : list event).
  Hypothesis I : Inv s.
  Hypothesis T : TI s tr.
  Hypothesis H : lstep l s = Some s'.

  Lemma st_ret : forall i, has (is_ret i) (after_call i (tr ++ ev_of l)) = returned (sp s' i).
  Proof.
    prelude I T H l; post.
    all: try (pose proof (Tret i0) as R0); try (pose proof (Tret i) as R1).
    all: sp_cases; rewrite ?has_snoc; simpl in *; neq_rw; rewrite ?R0, ?R1, ?Nat.eqb_refl, ?orb_false_r, ?orb_true_r;
         try solve [assumption | reflexivity | congruence].
  Qed.

  Lemma st_dur_s : forall i, count (is_start i) (during i (tr ++ ev_of l)) = runs s' i.
  Proof.
    prelude I T H l; post.
    all: try (pose proof (Tdurs i0) as R0); try (pose proof (Tdurs i) as R1).
    all: sp_cases; idle_facts II; rewrite ?count_snoc, ?app_nil_r; simpl in *; neq_rw;
         rewrite ?R0, ?R1, ?Nat.eqb_refl, ?Nat.add_0_r; rw_ts;
         try solve [assumption | reflexivity | congruence | lia | unfold count; simpl; lia].
  Qed.

  Lemma st_dur_e : forall i, count (is_end i) (during i (tr ++ ev_of l)) = endc (ts s' i).
  Proof.
    prelude I T H l; post.
    all: try (pose proof (Tdure i0) as R0); try (pose proof (Tdure i) as R1).
    all: sp_cases; idle_facts II; rewrite ?count_snoc, ?app_nil_r; simpl in *; neq_rw;
         rewrite ?R0, ?R1, ?Nat.eqb_refl, ?Nat.add_0_r; rw_ts;
         try solve [assumption | reflexivity | congruence | lia | unfold count; simpl; lia].
  Qed.
End Step.
