(* The recorded nominated pair agrees with the checklist pair of the same identifier (local candidate, remote address),
   in every state of every history; with it, single nomination holds across supersession of peer-reflexive remotes. *)
From Coq Require Import ZArith Bool List Lia.
From Ice Require Import Model.AgentTypes Model.AgentCore Gen.Consts Gen.Lifecycle Proofs.AgentFrame Proofs.AgentC06 Proofs.AgentC07
  Proofs.AgentC03Sel Proofs.AgentRem Proofs.AgentEnds Proofs.TwoAgentsProofs Proofs.TwoAgentsReach Proofs.AgentC20Hist Proofs.AgentSingleNom.
Import ListNotations.
Local Open Scope Z_scope.

Definition NomInv (s : state) : Prop :=
  match s_nominated s with
  | None => True
  | Some np => p_id np <= s_next_pair s /\
               forall p, In p (s_checklist s) -> p_id p = p_id np -> p_loc p = p_loc np /\ c_addr (p_rem p) = c_addr (p_rem np)
  end.

Definition GN (s : state) : Prop := InvU s /\ NomInv s.

Lemma NomInv_view s s' :
  s_nominated s' = s_nominated s -> s_checklist s' = s_checklist s -> s_next_pair s' = s_next_pair s -> NomInv s -> NomInv s'.
Proof. unfold NomInv. intros -> -> ->. auto. Qed.

Lemma NomInv_none s : s_nominated s = None -> NomInv s.
Proof. unfold NomInv. intros ->. exact I. Qed.

Lemma NomInv_nil s s' : s_nominated s' = s_nominated s -> s_checklist s' = [] -> s_next_pair s' = s_next_pair s -> NomInv s -> NomInv s'.
Proof.
  unfold NomInv. intros -> -> ->. destruct (s_nominated s) as [np|]; [|auto]. intros [H _]. split; [exact H|intros p []].
Qed.

Lemma NomInv_upd id f s :
  (forall q, p_id (f q) = p_id q /\ p_loc (f q) = p_loc q /\ c_addr (p_rem (f q)) = c_addr (p_rem q)) -> NomInv s -> NomInv (upd id f s).
Proof.
  intros Hf. unfold NomInv, upd. cbn [s_nominated s_checklist s_next_pair set_s_checklist].
  destruct (s_nominated s) as [np|]; [|auto]. intros [Hb H]. split; [exact Hb|]. intros p Hp E.
  apply in_map_iff in Hp. destruct Hp as [q [Eq Hq]]. destruct (Hf q) as [F1 [F2 F3]].
  destruct (p_id q =? id); subst p.
  - rewrite F1 in E. rewrite F2, F3. exact (H q Hq E).
  - exact (H q Hq E).
Qed.

Lemma NomInv_add_pair l r s : InvU s -> NomInv s -> NomInv (fst (add_pair l r s)).
Proof.
  intros [_ [Hb Hn]]. unfold NomInv, add_pair, modify. cbn.
  destruct (s_nominated s) as [np|]; [|auto]. intros [Hle H]. split; [lia|]. intros p Hp E.
  apply in_app_iff in Hp. destruct Hp as [Hp|[<-|[]]]; [exact (H p Hp E)|]. cbn in E. lia.
Qed.

Lemma satGN_leaf f : sat (preserves InvU) f -> (forall s, InvU s -> NomInv s -> NomInv (fst (f s))) -> satG GN mp_true f.
Proof. intros H1 H2 s [HU HN]. split; [exact I|]. split; [exact (H1 s HU)|exact (H2 s HU HN)]. Qed.

Lemma gn_update_conn st : satG GN mp_true (update_conn st).
Proof.
  apply satGN_leaf; [apply presU_update_conn|]. intros s _ HN. unfold update_conn.
  destruct (s_conn s =? st); [exact HN|]. destruct (st =? ConnectionStateFailed); cbn [fst].
  - eapply NomInv_nil; [| | |exact HN]; reflexivity.
  - eapply NomInv_view; [| | |exact HN]; reflexivity.
Qed.

Ltac gn_leaf :=
  match goal with
  | |- satG GN mp_true (update_conn _) => apply gn_update_conn
  | |- satG GN mp_true (add_pair _ _) => apply satGN_leaf; [apply presU_add_pair|intros ?s ?HU ?HN; apply NomInv_add_pair; assumption]
  | |- satG GN mp_true (emit _) => apply satG_emit; intros ?s ?Hg; exact I
  | |- satG GN mp_true (upd_pair _ _) =>
    apply satGN_leaf; [apply presU_upd_pair; cbn; intros; (assumption || reflexivity)
                      |intros ?s ?HU ?HN; rewrite upd_pair_fst; apply NomInv_upd; [intros ?q; cbn; repeat split; reflexivity|exact HN]]
  | |- satG GN mp_true (modify _) =>
    apply satGN_leaf; [sat_base presU_tac|intros ?s ?HU ?HN; rewrite modify_fst;
      first [ eapply NomInv_view; [| | |exact HN]; cbn; destruct_matches; reflexivity
            | apply NomInv_none; cbn; destruct_matches; reflexivity
            | eapply NomInv_nil; [| | |exact HN]; cbn; destruct_matches; reflexivity ]]
  end.

Create HintDb agentcore_gn.
#[export] Hint Unfold seen fresh_tx invalidate_pending send_binding_request ping_candidate nominate_pair
  send_binding_success retarget_cache copy_activity add_remote_body add_remote
  add_local set_selector ping_all check_keepalive
  contact_controlled contact_candidates tick accept_data inbound_data do_write conn_write
  conn_write_to_pair conn_read do_start do_set_remote_creds do_restart do_renominate renominate_op do_close step_m
  validate_selected set_selected reselect
  handle_inbound handle_inbound_request dispatch_request dispatch_success
  handle_request_controlled handle_success_controlling handle_success_controlled handle_role_conflict accept_nomination : agentcore_gn.

Ltac gn_go := autounfold with agentcore_gn; repeat (satG_split_eq; try gn_leaf).

Lemma gn_reselect pid : satG GN mp_true (reselect pid).
Proof. gn_go. Qed.

Lemma gn_nominate cfg p : satG GN mp_true (nominate_pair cfg p).
Proof. gn_go. Qed.

(* one superseded pair: the checklist pair and the record are rewritten together *)
Lemma gn_replace_one c p s :
  GN s ->
  let repl := set_p_prio_ov (Some (pair_priority p)) (set_p_rem c p) in
  GN (fst ((upd_pair (p_id p) (fun _ => repl) ;;
            modify (fun s => match s_nominated s with
                             | Some np => if p_id np =? p_id p then set_s_nominated (Some repl) s else s
                             | None => s end)) s)).
Proof.
  intros [HU HN] repl. rewrite seq_fst, upd_pair_fst, modify_fst.
  assert (HU1 : InvU (upd (p_id p) (fun _ => repl) s)) by (apply InvU_upd; [intros q _; reflexivity|exact HU]).
  set (s1 := upd (p_id p) (fun _ => repl) s) in *.
  assert (Hcl : forall q', In q' (s_checklist s1) -> (q' = repl) \/ (In q' (s_checklist s) /\ p_id q' <> p_id p)).
  { intros q' Hq. unfold s1, upd in Hq. cbn [s_checklist set_s_checklist] in Hq. apply in_map_iff in Hq. destruct Hq as [q [E Hq]].
    destruct (Z.eqb_spec (p_id q) (p_id p)); subst q'; [left; reflexivity|right; auto]. }
  assert (En : s_nominated s1 = s_nominated s) by reflexivity.
  assert (Ex : s_next_pair s1 = s_next_pair s) by reflexivity.
  unfold NomInv in HN. change (s_nominated s1) with (s_nominated s). destruct (s_nominated s) as [np|] eqn:Enp.
  - destruct HN as [Hb HN]. destruct (Z.eqb_spec (p_id np) (p_id p)) as [E|NE].
    + split; [eapply InvU_view; [|exact HU1]; reflexivity|]. unfold NomInv. cbn [s_nominated set_s_nominated s_checklist s_next_pair].
      split; [rewrite Ex; cbn; lia|]. intros q' Hq' Eq. destruct (Hcl q' Hq') as [->|[_ Hne]]; [auto|]. cbn in Eq. contradiction.
    + split; [exact HU1|]. unfold NomInv. rewrite En, Ex. split; [exact Hb|]. intros q' Hq' Eq.
      destruct (Hcl q' Hq') as [->|[Hin _]]; [cbn in Eq; congruence|exact (HN q' Hin Eq)].
  - split; [exact HU1|]. unfold NomInv. rewrite En. exact I.
Qed.

Lemma seq_assoc_run (a b c : M) s : (a ;; (b ;; c)) s = ((a ;; b) ;; c) s.
Proof.
  unfold seq. destruct (a s) as [s1 o1]. destruct (b s1) as [s2 o2]. destruct (c s2) as [s3 o3]. rewrite app_assoc. reflexivity.
Qed.

Lemma gn_replace old c : satG GN mp_true (replace_remote_in_pairs old c).
Proof.
  unfold replace_remote_in_pairs. apply satG_with_state. intros s0 _. apply satG_for_each. intros p. cbv zeta.
  assert (H : satG GN mp_true ((upd_pair (p_id p) (fun _ => set_p_prio_ov (Some (pair_priority p)) (set_p_rem c p)) ;;
            modify (fun s => match s_nominated s with
                             | Some np => if p_id np =? p_id p then set_s_nominated (Some (set_p_prio_ov (Some (pair_priority p)) (set_p_rem c p))) s else s
                             | None => s end)) ;; reselect (p_id p))).
  { apply satG_seq; [|apply gn_reselect]. intros s Hg. split; [exact I|]. exact (gn_replace_one c p s Hg). }
  intros s Hg. rewrite seq_assoc_run. exact (H s Hg).
Qed.

(* recording a listed pair (possibly just marked nominated) keeps the invariant *)
Lemma NomInv_record p f s :
  InvU s -> In p (s_checklist s) ->
  (forall q, p_id (f q) = p_id q /\ p_loc (f q) = p_loc q /\ p_rem (f q) = p_rem q) ->
  NomInv (set_s_nominated (Some (f p)) (upd (p_id p) f s)).
Proof.
  intros HU Hp Hf. unfold NomInv. cbn [s_nominated set_s_nominated s_checklist s_next_pair upd set_s_checklist].
  destruct (Hf p) as [F1 [F2 F3]]. split.
  - rewrite F1. destruct HU as [_ [Hb _]]. rewrite Forall_forall in Hb. specialize (Hb p Hp). lia.
  - intros q' Hq' E. apply in_map_iff in Hq'. destruct Hq' as [q [Eq Hq]]. rewrite F1 in E.
    destruct (Z.eqb_spec (p_id q) (p_id p)) as [Ei|Ni]; subst q'.
    + assert (q = p) by (apply (unique_id s p q HU Hp Hq Ei)). subst q. auto.
    + contradiction.
Qed.

Lemma gn_contact_controlling cfg : satG GN mp_true (contact_controlling cfg).
Proof.
  intros s Hg. unfold contact_controlling. rewrite with_state_eq.
  assert (Htail : satG GN mp_true (ping_all cfg) /\ satG GN mp_true (validate_selected cfg (fun ok => if ok then check_keepalive cfg else nop))).
  { split; gn_go. }
  destruct (selected_pair s) as [sp|]; [exact (proj2 Htail s Hg)|].
  destruct (s_nominated s) as [np|] eqn:En; [exact (gn_nominate cfg np s Hg)|].
  rewrite with_state_eq. destruct (best_valid s) as [p|] eqn:Eb; [|exact (proj1 Htail s Hg)].
  destruct (is_nominatable cfg s (p_loc p) && is_nominatable cfg s (p_rem p)); [|exact (proj1 Htail s Hg)].
  unfold upd_pair. rewrite !seq_modify_run. split; [exact I|]. refine (proj2 (gn_nominate cfg p _ _)).
  destruct Hg as [HU HN]. destruct (best_valid_spec s p Eb) as [Hin _]. split.
  - eapply InvU_view; [|apply (InvU_upd (p_id p) (set_p_nominated true)); [intros q Hq; exact Hq|exact HU]]. reflexivity.
  - apply (NomInv_record p (set_p_nominated true) s HU Hin). intros q. cbn. auto.
Qed.

Lemma gn_request_controlling cfg m l r : satG GN mp_true (handle_request_controlling cfg m l r).
Proof.
  unfold handle_request_controlling. apply satG_seq; [gn_go|].
  apply satG_with_state. intros s0 _. destruct (find_pair l r s0) as [p0|]; [|gn_go].
  apply satG_seq; [gn_leaf|].
  intros s Hg. rewrite with_state_eq. destruct (pair_by_id (p_id p0) s) as [p|] eqn:Ep; [|exact (satG_nop _ _ s Hg)].
  destruct ((p_state p =? CandidatePairStateSucceeded) && match s_nominated s with None => true | Some _ => false end
            && match selected_pair s with None => true | Some _ => false end); [|exact (satG_nop _ _ s Hg)].
  destruct (best_available s) as [b|]; [|exact (satG_nop _ _ s Hg)].
  destruct (pair_equal b p && is_nominatable cfg s (p_loc p) && is_nominatable cfg s (p_rem p)); [|exact (satG_nop _ _ s Hg)].
  rewrite seq_modify_run. split; [exact I|]. refine (proj2 (gn_nominate cfg p _ _)).
  destruct Hg as [HU HN]. destruct (pair_by_id_in _ _ _ Ep) as [Hin _]. split.
  - eapply InvU_view; [|exact HU]. reflexivity.
  - pose proof (NomInv_record p (fun q => q) s HU Hin (fun q => conj eq_refl (conj eq_refl eq_refl))) as H.
    eapply NomInv_view; [| | |exact H]; try reflexivity.
    cbn [s_checklist set_s_nominated upd set_s_checklist]. rewrite <- (map_id (s_checklist s)) at 1. apply map_ext. intros q. destruct (p_id q =? p_id p); reflexivity.
Qed.

Theorem step_GN cfg o : satG GN mp_true (step_m cfg o).
Proof.
  destruct o; cbn [step_m]; autounfold with agentcore_gn;
    repeat (satG_split_eq; try gn_leaf; try apply gn_contact_controlling; try apply gn_request_controlling; try apply gn_replace).
Qed.

(* ---- supersession keeps the recorded key ---------------------------------------------------------------------- *)
Lemma reselect_shape pid s :
  s_nominated (fst (reselect pid s)) = s_nominated s /\ s_ctl (fst (reselect pid s)) = s_ctl s /\
  (exists b : bool, s_checklist (fst (reselect pid s)) =
                    map (fun q => if (p_id q =? pid) && b then set_p_nominated true q else q) (s_checklist s)) /\
  Forall (fun o => match o with OSend _ _ _ => False | _ => True end) (snd (reselect pid s)).
Proof.
  unfold reselect. rewrite with_state_eq.
  assert (Hid : s_checklist s = map (fun q => if (p_id q =? pid) && false then set_p_nominated true q else q) (s_checklist s)).
  { rewrite <- (map_id (s_checklist s)) at 1. apply map_ext. intros q. rewrite andb_false_r. reflexivity. }
  destruct (s_selected s) as [id|]; [|repeat split; [exists false; exact Hid|constructor]].
  destruct (Z.eqb_spec id pid) as [->|NE]; [|repeat split; [exists false; exact Hid|constructor]].
  unfold set_selected, upd_pair. rewrite !seq_modify_run. unfold seq, update_conn, emit. cbn [s_conn set_s_selected set_s_checklist].
  destruct (s_conn s =? ConnectionStateConnected); cbn.
  - repeat split; [exists true|repeat constructor]. apply map_ext. intros q. rewrite andb_true_r. reflexivity.
  - repeat split; [exists true|repeat constructor]. apply map_ext. intros q. rewrite andb_true_r. reflexivity.
Qed.

Definition body_of (c : cand) (p : pair) : M :=
  let repl := set_p_prio_ov (Some (pair_priority p)) (set_p_rem c p) in
  upd_pair (p_id p) (fun _ => repl) ;;
  modify (fun s => match s_nominated s with
                   | Some np => if p_id np =? p_id p then set_s_nominated (Some repl) s else s
                   | None => s end) ;;
  reselect (p_id p).

Definition A_old (old c : cand) (s : state) : Prop :=
  forall p, In p (s_checklist s) -> c_h (p_rem p) = c_h old -> c_addr (p_rem p) = c_addr c.

Lemma body_step old c p0 s1 :
  GN s1 -> A_old old c s1 -> In p0 (s_checklist s1) -> c_h (p_rem p0) = c_h old ->
  let s2 := fst (body_of c p0 s1) in
  nom_key s2 = nom_key s1 /\ s_ctl s2 = s_ctl s1 /\ GN s2 /\ A_old old c s2 /\
  (forall p, In p (s_checklist s1) -> p_id p <> p_id p0 -> In p (s_checklist s2)) /\
  Forall (fun o => match o with OSend _ _ _ => False | _ => True end) (snd (body_of c p0 s1)).
Proof.
  intros Hg HA Hin Eh s2.
  set (repl := set_p_prio_ov (Some (pair_priority p0)) (set_p_rem c p0)).
  set (mid := fst ((upd_pair (p_id p0) (fun _ => repl) ;;
            modify (fun s => match s_nominated s with
                             | Some np => if p_id np =? p_id p0 then set_s_nominated (Some repl) s else s
                             | None => s end)) s1)).
  assert (Es2 : body_of c p0 s1 = reselect (p_id p0) mid /\ True).
  { split; [|exact I]. unfold body_of. fold repl. rewrite seq_assoc_run. unfold mid. unfold seq at 1.
    unfold upd_pair at 1 2. unfold seq, modify. cbn [fst snd]. destruct (reselect _ _) as [x y]. reflexivity. }
  destruct Es2 as [Es2 _]. unfold s2. rewrite Es2.
  destruct (reselect_shape (p_id p0) mid) as [Rn [Rc0 [[b Rcl] Ro]]].
  assert (Hmid : GN mid) by exact (gn_replace_one c p0 s1 Hg).
  assert (Emid_cl : s_checklist mid = map (fun q => if p_id q =? p_id p0 then repl else q) (s_checklist s1)).
  { unfold mid. rewrite seq_fst, upd_pair_fst, modify_fst. destruct (s_nominated (upd (p_id p0) (fun _ => repl) s1)) as [np|]; [destruct (p_id np =? p_id p0)|]; reflexivity. }
  assert (Emid_ctl : s_ctl mid = s_ctl s1).
  { unfold mid. rewrite seq_fst, upd_pair_fst, modify_fst. destruct (s_nominated (upd (p_id p0) (fun _ => repl) s1)) as [np|]; [destruct (p_id np =? p_id p0)|]; reflexivity. }
  assert (Emid_key : nom_key mid = nom_key s1).
  { unfold mid. rewrite seq_fst, upd_pair_fst, modify_fst. unfold nom_key.
    change (s_nominated (upd (p_id p0) (fun _ => repl) s1)) with (s_nominated s1).
    destruct Hg as [HU HN]. unfold NomInv in HN. destruct (s_nominated s1) as [np|] eqn:En; [|unfold upd; cbn [s_nominated set_s_checklist]; rewrite En; reflexivity].
    destruct (Z.eqb_spec (p_id np) (p_id p0)) as [E|NE]; [|unfold upd; cbn [s_nominated set_s_checklist]; rewrite En; reflexivity].
    cbn [s_nominated set_s_nominated]. destruct HN as [_ HN]. destruct (HN p0 Hin (eq_sym E)) as [H1 H2].
    unfold repl. cbn. rewrite <- H1, <- H2, (HA p0 Hin Eh), E. reflexivity. }
  split; [unfold nom_key in *; rewrite Rn; exact Emid_key|]. split; [congruence|].
  split; [exact (proj2 (gn_reselect (p_id p0) mid Hmid))|]. split; [|split; [|exact Ro]].
  - intros q' Hq' Eq'. rewrite Rcl, Emid_cl in Hq'. rewrite map_map in Hq'. apply in_map_iff in Hq'. destruct Hq' as [q [E Hq]].
    assert (Hrem : p_rem q' = c \/ (p_rem q' = p_rem q /\ p_id q <> p_id p0)).
    { subst q'. destruct (Z.eqb_spec (p_id q) (p_id p0)) as [Ei|Ni].
      - left. destruct ((p_id repl =? p_id p0) && b); reflexivity.
      - right. destruct ((p_id q =? p_id p0) && b); auto. }
    destruct Hrem as [Hr|[Hr _]]; [rewrite Hr; reflexivity|]. rewrite Hr in *. exact (HA q Hq Eq').
  - intros p Hp Hne. rewrite Rcl, Emid_cl, map_map. apply in_map_iff. exists p. split; [|exact Hp].
    apply Z.eqb_neq in Hne. cbv beta. rewrite Hne. cbn. rewrite Hne. reflexivity.
Qed.

Lemma single_key R s outs s' :
  nom_key s' = nom_key s -> Forall (fun o => match o with OSend _ _ _ => False | _ => True end) outs -> single_rel R s outs s'.
Proof.
  intros E H. right. split; [right; exact E|]. eapply Forall_impl; [|exact H]. intros o Ho. destruct o; try exact I. destruct Ho.
Qed.

Lemma replace_loop old c Lst : forall s1,
  NoDup (map p_id Lst) -> (forall p, In p Lst -> In p (s_checklist s1) /\ c_h (p_rem p) = c_h old) ->
  GN s1 -> A_old old c s1 ->
  let r := for_each Lst (body_of c) s1 in
  nom_key (fst r) = nom_key s1 /\ s_ctl (fst r) = s_ctl s1 /\ GN (fst r) /\
  Forall (fun o => match o with OSend _ _ _ => False | _ => True end) (snd r).
Proof.
  induction Lst as [|p0 t IH]; intros s1 Hnd Hl Hg HA; cbn [for_each].
  - cbn [fst snd]. split; [reflexivity|]. split; [reflexivity|]. split; [exact Hg|constructor].
  - inversion Hnd as [|? ? Hx Ht]; subst. destruct (Hl p0 (or_introl eq_refl)) as [Hin Eh].
    destruct (body_step old c p0 s1 Hg HA Hin Eh) as [K [Cc [G2 [A2 [M2 O2]]]]].
    assert (Hl2 : forall p, In p t -> In p (s_checklist (fst (body_of c p0 s1))) /\ c_h (p_rem p) = c_h old).
    { intros p Hp. destruct (Hl p (or_intror Hp)) as [H1 H2]. split; [|exact H2]. apply M2; [exact H1|].
      intros E. apply Hx. apply in_map_iff. exists p. auto. }
    specialize (IH (fst (body_of c p0 s1)) Ht Hl2 G2 A2). cbv zeta in IH. destruct IH as [K' [C' [G' O']]].
    unfold seq. destruct (body_of c p0 s1) as [s2 o2]. cbn [fst snd] in *. destruct (for_each t (body_of c) s2) as [s3 o3]. cbn [fst snd] in *.
    split; [congruence|]. split; [congruence|]. split; [exact G'|]. apply Forall_app. split; assumption.
Qed.

Lemma filter_NoDup_ids (f : pair -> bool) l : NoDup (map p_id l) -> NoDup (map p_id (filter f l)).
Proof.
  induction l as [|x t IH]; cbn; intros H; [constructor|]. inversion H as [|? ? Hx Ht]; subst.
  destruct (f x); cbn; [constructor; [|apply IH; exact Ht]|apply IH; exact Ht].
  intros Hin. apply Hx. apply in_map_iff in Hin. destruct Hin as [q [E Hq]]. apply filter_In in Hq. apply in_map_iff. exists q. tauto.
Qed.

Definition G3 (c0 : bool) (R : Prop) (c : cand) (red : list cand) (s : state) : Prop :=
  Gc c0 R s /\ GN s /\ same_addr_as c red s.

Lemma g3_replace c0 R c red old :
  In old red -> satG (G3 c0 R c red) (single_prov R) (replace_remote_in_pairs old c).
Proof.
  intros Hold s [Hc [Hg Hs]].
  assert (HA : A_old old c s).
  { intros p Hp Eh. unfold same_addr_as in Hs. rewrite Forall_forall in Hs. exact (Hs p Hp old Hold Eh). }
  pose proof (same_addr_replace old c red s Hs) as Hs'.
  unfold replace_remote_in_pairs in *. rewrite with_state_eq in *.
  set (Lst := filter (fun p => c_h (p_rem p) =? c_h old) (s_checklist s)) in *.
  assert (Hnd : NoDup (map p_id Lst)) by (apply filter_NoDup_ids; exact (proj1 (proj1 Hg))).
  assert (Hl : forall p, In p Lst -> In p (s_checklist s) /\ c_h (p_rem p) = c_h old).
  { intros p Hp. apply filter_In in Hp. destruct Hp as [H1 H2]. apply Z.eqb_eq in H2. auto. }
  destruct (replace_loop old c Lst s Hnd Hl Hg HA) as [K [Cc [G2 O2]]].
  repeat match goal with |- context [for_each Lst ?k s] => lazymatch k with body_of c => fail | _ => change k with (body_of c) end end.
  match type of Hs' with context [for_each Lst ?k s] => change k with (body_of c) in Hs' end.
  split; [apply single_key; assumption|]. split; [|split; [exact G2|exact Hs']].
  destruct Hc as [Hc|HR]; [left; congruence|right; exact HR].
Qed.

Lemma same_addr_view c red s s' : s_checklist s' = s_checklist s -> same_addr_as c red s -> same_addr_as c red s'.
Proof. unfold same_addr_as. intros ->. auto. Qed.

Lemma g3_modify_view c0 R c red f :
  (forall s, s_checklist (f s) = s_checklist s /\ s_nominated (f s) = s_nominated s /\ s_next_pair (f s) = s_next_pair s /\ s_ctl (f s) = s_ctl s) ->
  satG (G3 c0 R c red) (single_prov R) (modify f).
Proof.
  intros Hf. apply satG_modify. intros s [Hc [[HU HN] Hs]]. destruct (Hf s) as [E1 [E2 [E3 E4]]]. split.
  - apply single_weaken_nothing; [exact E2|constructor].
  - split; [destruct Hc as [Hc|HR]; [left; congruence|right; exact HR]|]. split; [split|].
    + eapply InvU_view; [|exact HU]. unfold ids_view. rewrite E1, E3. reflexivity.
    + eapply NomInv_view; [| | |exact HN]; assumption.
    + eapply same_addr_view; [|exact Hs]. exact E1.
Qed.

Lemma g3_add_pair c0 R c red l : satG (G3 c0 R c red) (single_prov R) (add_pair l c).
Proof.
  intros s [Hc [[HU HN] Hs]]. split; [apply single_weaken_nothing; [reflexivity|constructor]|].
  split; [exact Hc|]. split; [split; [exact (presU_add_pair l c s HU)|apply NomInv_add_pair; assumption]|].
  unfold same_addr_as, add_pair, modify in *. cbn. apply Forall_app. split; [exact Hs|]. constructor; [|constructor]. cbn. intros; reflexivity.
Qed.

Lemma g3_add_remote_body c0 R c set :
  let red := if c_typ c =? CandidateTypePeerReflexive then [] else filter (fun e => (c_typ e =? CandidateTypePeerReflexive) && cand_taddr_eqb e c) set in
  satG (G3 c0 R c red) (single_prov R) (add_remote_body c set).
Proof.
  intros red. unfold add_remote_body. fold red. cbv zeta.
  apply satG_seq; [apply g3_modify_view; intros s; cbn; auto|].
  apply satG_seq.
  { apply satG_for_each_in. intros old Hold. apply satG_seq; [|apply satG_seq].
    - unfold copy_activity. apply g3_modify_view. intros s. cbn. destruct_matches; auto.
    - apply g3_replace. exact Hold.
    - unfold retarget_cache. apply g3_modify_view. intros s. cbn. auto. }
  apply satG_seq; [apply g3_modify_view; intros s; cbn; auto|].
  destruct (c_tcp c =? TCPTypePassive); [apply satG_nop|].
  apply satG_with_state. intros s0 _. apply satG_for_each. intros l. apply satG_with_state. intros s1 _.
  destruct (find_pair l c s1); [apply satG_nop|apply g3_add_pair].
Qed.

Lemma same_addr_from_Rm c set s :
  AgentRem.Rm s -> (forall e, In e set -> In e (s_remotes s)) ->
  same_addr_as c (if c_typ c =? CandidateTypePeerReflexive then [] else filter (fun e => (c_typ e =? CandidateTypePeerReflexive) && cand_taddr_eqb e c) set) s.
Proof.
  intros [[Hnd _] HP] Hset. unfold same_addr_as. unfold PR in HP. eapply Forall_impl; [|exact HP]. cbn.
  intros p Hp o Ho Eh.
  assert (Hor : In o (s_remotes s) /\ cand_taddr_eqb o c = true).
  { destruct (c_typ c =? CandidateTypePeerReflexive); [destruct Ho|]. apply filter_In in Ho. destruct Ho as [Ho1 Ho2].
    apply andb_prop in Ho2. split; [apply Hset; exact Ho1|tauto]. }
  destruct Hor as [Hor Et].
  assert (p_rem p = o) by (apply (unique_handle (s_remotes s)); assumption).
  subst o. unfold cand_taddr_eqb in Et. apply andb_prop in Et. destruct Et as [Et _]. apply andb_prop in Et. destruct Et as [_ Et].
  apply addr_eqb_eq. exact Et.
Qed.

(* ---- single nomination, supersession included --------------------------------------------------------------------- *)
Definition restarts_or_renominates (s : state) (o : op) : Prop :=
  match o with
  | Start _ _ _ | Restart _ _ | Renominate _ _ _ => True
  | InStun _ _ m => exists tb, m_ctl m = Some (s_ctl s, tb)
  | _ => False
  end.

Theorem step_single_nomination_adm cfg s o :
  InvU s -> NomInv s -> Rc s ->
  single_rel (restarts_or_renominates s o) s (snd (step cfg s o)) (fst (step cfg s o)).
Proof.
  intros HU HN HR.
  destruct o; try (match goal with |- single_rel _ _ (snd (step _ _ ?o)) _ => exact (step_single_nomination cfg s o) end).
  unfold step. cbn [step_m]. rewrite with_state_eq.
  set (R := restarts_or_renominates s (AddRemote c)).
  assert (Hret : forall c1 red r, satG (G3 (s_ctl s) R c1 red) (single_prov R) (emit (ORet r))).
  { intros c1 red r. apply satG_emit. intros s1 _. apply single_weaken_nothing; [reflexivity|repeat constructor]. }
  assert (Hnop : forall r, single_rel R s (snd (emit (ORet r) s)) (fst (emit (ORet r) s))).
  { intros r. apply single_weaken_nothing; [reflexivity|repeat constructor]. }
  destruct (c_tcp c =? TCPTypeActive); [apply Hnop|]. destruct (s_closed s) eqn:Ec; [apply Hnop|].
  destruct HR as [Hcl|HR]; [congruence|].
  unfold add_remote. rewrite with_state_eq. cbv beta iota.
  destruct (s_conn s =? ConnectionStateFailed); [apply Hnop|]. destruct (negb (accepts_remote cfg c)); [apply Hnop|].
  destruct (existsb _ _); [apply Hnop|].
  set (set0 := filter (fun e => c_net e =? c_net c) (s_remotes s)).
  refine (proj1 (satG_seq _ _ _ _ (g3_add_remote_body (s_ctl s) R c set0) (Hret c _ ROk) s _)).
  split; [left; reflexivity|]. split; [split; assumption|].
  apply same_addr_from_Rm; [exact HR|]. intros e He. apply filter_In in He. tauto.
Qed.

(* ---- histories --------------------------------------------------------------------------------------------------- *)
Fixpoint calm (cfg : config) (s : state) (ops : list op) : Prop :=
  match ops with
  | [] => True
  | o :: t => ~ restarts_or_renominates s o /\ calm cfg (fst (step cfg s o)) t
  end.

Theorem history_single_nomination_adm cfg ops : forall s,
  InvU s -> Rc s -> NomInv s -> ops_ok cfg s ops -> calm cfg s ops ->
  nom_keep s (runs cfg s ops) /\ Forall (use_ok (runs cfg s ops)) (trace cfg s ops).
Proof.
  induction ops as [|o t IH]; intros s HU HR HN Hok Hq; cbn [runs fold_left trace].
  - split; [right; reflexivity|constructor].
  - destruct Hq as [Hr Hq]. destruct Hok as [Ho Hok]. fold (runs cfg (fst (step cfg s o)) t).
    destruct (step_single_nomination_adm cfg s o HU HN HR) as [HR'|H1]; [contradiction|].
    assert (HU' : InvU (fst (step cfg s o))) by exact (step_preserves_InvU cfg o s HU).
    assert (HR2 : Rc (fst (step cfg s o))) by (apply step_Rc; assumption).
    assert (HN' : NomInv (fst (step cfg s o))) by exact (proj2 (proj2 (step_GN cfg o s (conj HU HN)))).
    pose proof (IH _ HU' HR2 HN' Hok Hq) as H2.
    destruct (mp_trans (single_prov False) s _ _ _ _ (or_intror H1) (or_intror H2)) as [[]|H]. exact H.
Qed.

(* all USE-CANDIDATE requests of an admissible stretch without restart, role switch or application renomination go
   from one socket to one address -- signalled candidates superseding peer-reflexive ones included *)
Corollary use_candidate_requests_share_one_pair_adm cfg ops s lh1 dst1 m1 lh2 dst2 m2 :
  InvU s -> Rc s -> NomInv s -> ops_ok cfg s ops -> calm cfg s ops ->
  In (OSend lh1 dst1 m1) (trace cfg s ops) -> m_class m1 = 0 -> m_use m1 = true ->
  In (OSend lh2 dst2 m2) (trace cfg s ops) -> m_class m2 = 0 -> m_use m2 = true ->
  lh1 = lh2 /\ dst1 = dst2.
Proof.
  intros HU HR HN Hok Hq I1 C1 U1 I2 C2 U2. destruct (history_single_nomination_adm cfg ops s HU HR HN Hok Hq) as [_ HF].
  rewrite Forall_forall in HF.
  destruct (HF _ I1 C1 U1) as [np1 [E1 [-> ->]]]. destruct (HF _ I2 C2 U2) as [np2 [E2 [-> ->]]].
  rewrite E1 in E2. injection E2 as <-. auto.
Qed.

(* the recorded nominated pair agrees with the checklist in every state of every admissible history *)
Theorem nominated_record_agrees_with_checklist cfg lu lp ops :
  NomInv (runs cfg (init lu lp) ops).
Proof.
  assert (H : forall ops s, GN s -> GN (runs cfg s ops)).
  { induction ops0 as [|o t IH]; intros s Hg; cbn [runs fold_left]; [exact Hg|]. apply IH. exact (proj2 (step_GN cfg o s Hg)). }
  apply H. split; [apply InvU_init|]. unfold NomInv, init. cbn. exact I.
Qed.
