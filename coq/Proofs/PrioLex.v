(* C17: the candidate priority orders candidates lexicographically by (type preference, local
   preference, lower component first), and determines the three of them -- for every type
   preference 0..126, local preference 0..65535 and component 1..256 (generated Priority). *)
From Coq Require Import ZArith Bool Lia.
From Coq Require Import List.
From Ice Require Import Model.Wrap Model.PrioSpec Model.PrioModel Gen.Prio Proofs.PrioProofs.
Local Open Scope Z_scope.

Lemma priority_lexicographic tp lp comp tp' lp' comp' :
  0 <= tp <= 126 -> 0 <= lp <= 65535 -> 1 <= comp <= 256 ->
  0 <= tp' <= 126 -> 0 <= lp' <= 65535 -> 1 <= comp' <= 256 ->
  (Priority 0 tp lp comp < Priority 0 tp' lp' comp' <->
   tp < tp' \/ (tp = tp' /\ (lp < lp' \/ (lp = lp' /\ comp' < comp)))).
Proof.
  intros Htp Hlp Hc Htp' Hlp' Hc'.
  rewrite !priority_formula by lia.
  change (2 ^ 24) with 16777216. change (2 ^ 8) with 256. lia.
Qed.

Lemma priority_injective tp lp comp tp' lp' comp' :
  0 <= tp <= 126 -> 0 <= lp <= 65535 -> 1 <= comp <= 256 ->
  0 <= tp' <= 126 -> 0 <= lp' <= 65535 -> 1 <= comp' <= 256 ->
  Priority 0 tp lp comp = Priority 0 tp' lp' comp' -> tp = tp' /\ lp = lp' /\ comp = comp'.
Proof.
  intros Htp Hlp Hc Htp' Hlp' Hc'.
  rewrite !priority_formula by lia.
  change (2 ^ 24) with 16777216. change (2 ^ 8) with 256. lia.
Qed.

(* component 0 (never used by the agent) is where the lexicographic reading stops: it carries
   into the local-preference field *)
Lemma priority_component_zero_carries :
  Priority 0 100 7 0 = Priority 0 100 8 256.
Proof. vm_compute. reflexivity. Qed.

(* for whole candidates: whatever the local preferences and components (1..256), a candidate with
   the greater type preference has the greater priority -- the type dominates, for every
   configuration (TCP offsets included, which is why the comparison is on the computed preference) *)
Lemma candidate_priority_type_dominates ty nt tcp rp ha off comp ty' nt' tcp' rp' ha' off' comp' :
  In ty cand_types -> In nt net_types -> In tcp tcp_types -> 0 <= off < 65536 -> 1 <= comp <= 256 ->
  In ty' cand_types -> In nt' net_types -> In tcp' tcp_types -> 0 <= off' < 65536 -> 1 <= comp' <= 256 ->
  TypePreference ty nt ha off < TypePreference ty' nt' ha' off' ->
  candidate_priority ty nt tcp rp ha off comp < candidate_priority ty' nt' tcp' rp' ha' off' comp'.
Proof.
  intros Hty Hnt Htcp Hoff Hc Hty' Hnt' Htcp' Hoff' Hc' Hlt.
  pose proof (type_pref_range ty nt ha off Hty Hnt Hoff) as Htp.
  pose proof (type_pref_range ty' nt' ha' off' Hty' Hnt' Hoff') as Htp'.
  pose proof (relay_pref_range rp) as Hrp. pose proof (relay_pref_range rp') as Hrp'.
  pose proof (local_pref_range ty nt tcp (relayProtocolPreference rp) Hty Hnt Htcp ltac:(lia)) as Hlp.
  pose proof (local_pref_range ty' nt' tcp' (relayProtocolPreference rp') Hty' Hnt' Htcp' ltac:(lia)) as Hlp'.
  unfold candidate_priority.
  apply priority_lexicographic; try assumption. left. exact Hlt.
Qed.
