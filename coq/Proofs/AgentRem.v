(* Remote candidates have distinct handles (object identities) below the agent's own handle counter, and every
   pair's remote candidate is a current one: an invariant of every operation while the agent is open, for
   schedules that hand the agent fresh candidate objects. *)
From Coq Require Import ZArith Bool List Lia.
From Ice Require Import Model.AgentTypes Model.AgentCore Gen.Consts Gen.Lifecycle Proofs.AgentFrame Proofs.AgentC03Sel Proofs.AgentLoc.
Import ListNotations.
Local Open Scope Z_scope.

Definition RU (s : state) : Prop :=
  NoDup (map c_h (s_remotes s)) /\ Forall (fun r => c_h r < s_next_h s) (s_remotes s) /\ 1000000 <= s_next_h s.
Definition PR (s : state) : Prop := Forall (fun p => In (p_rem p) (s_remotes s)) (s_checklist s).
Definition Rm (s : state) : Prop := RU s /\ PR s.
Definition Rc (s : state) : Prop := s_closed s = true \/ Rm s.
Definition Rr (r : cand) (s : state) : Prop := s_closed s = true \/ (Rm s /\ In r (s_remotes s)).

Definition r_view (s : state) := (s_remotes s, s_next_h s, map p_rem (s_checklist s)).
Lemma Rm_view s s' : r_view s' = r_view s -> Rm s -> Rm s'.
Proof.
  unfold r_view, Rm, RU, PR. intros E. injection E as E1 E2 E3. rewrite E1, E2. intros [H1 H2]. split; [exact H1|].
  rewrite Forall_forall in *. intros p Hp.
  assert (Hin : In (p_rem p) (map p_rem (s_checklist s'))) by (apply in_map; exact Hp).
  rewrite E3 in Hin. apply in_map_iff in Hin. destruct Hin as [q [Eq Hq]]. rewrite <- Eq. apply H2. exact Hq.
Qed.

Lemma Rm_empty s : s_remotes s = [] -> s_checklist s = [] -> 1000000 <= s_next_h s -> Rm s.
Proof.
  intros E1 E2 E3. split; [unfold RU; rewrite E1; cbn; repeat split; try constructor; exact E3|unfold PR; rewrite E2; constructor].
Qed.

Lemma Rm_upd id f s : (forall q, p_rem (f q) = p_rem q) -> Rm s -> Rm (upd id f s).
Proof.
  intros Hf H. eapply Rm_view; [|exact H]. unfold r_view, upd. cbn. f_equal. rewrite map_map. apply map_ext.
  intros q. destruct (p_id q =? id); [apply Hf|reflexivity].
Qed.

Lemma Rm_add_pair l r s : In r (s_remotes s) -> Rm s -> Rm (fst (add_pair l r s)).
Proof.
  intros Hr [H1 H2]. split; [exact H1|]. unfold PR in *. cbn. apply Forall_app. split; [exact H2|].
  constructor; [exact Hr|constructor].
Qed.

Lemma Rm_update_conn st s : Rm s -> Rm (fst (update_conn st s)).
Proof.
  intros H. unfold update_conn. destruct (s_conn s =? st); [exact H|].
  destruct (st =? ConnectionStateFailed); cbn [fst]; [apply Rm_empty; try reflexivity; exact (proj2 (proj2 (proj1 H)))|eapply Rm_view; [|exact H]; reflexivity].
Qed.

Lemma remotes_update_conn_live st s : st <> ConnectionStateFailed -> s_remotes (fst (update_conn st s)) = s_remotes s.
Proof.
  intros H. unfold update_conn. destruct (s_conn s =? st); [reflexivity|]. apply Z.eqb_neq in H. rewrite H. reflexivity.
Qed.

Lemma Rr_update_conn_live r st : st <> ConnectionStateFailed -> satG (Rr r) mp_true (update_conn st).
Proof.
  intros Hst s [Hc|[HR Hin]]; (split; [exact I|]).
  - left. rewrite closed_update_conn. exact Hc.
  - right. split; [apply Rm_update_conn; exact HR|rewrite remotes_update_conn_live by exact Hst; exact Hin].
Qed.

Ltac rr_leaf :=
  match goal with
  | |- satG (Rr _) mp_true (update_conn ConnectionStateConnected) => apply Rr_update_conn_live; discriminate
  | |- satG (Rr _) mp_true (emit _) => apply satG_emit; intros ?s ?Hg; exact I
  | |- satG (Rr ?r) mp_true (add_pair _ ?r) =>
    apply satG_modify; intros ?s [?Hc|[?HR ?Hin]]; (split; [exact I|]);
    [left; cbn; assumption|right; split; [apply (Rm_add_pair _ r _ Hin HR)|cbn; assumption]]
  | |- satG (Rr _) mp_true (upd_pair _ _) =>
    apply satG_upd_pair; intros ?s [?Hc|[?HR ?Hin]]; (split; [exact I|]);
    [left; cbn; assumption|right; split; [apply Rm_upd; [cbn; intros; reflexivity|assumption]|cbn; assumption]]
  | |- satG (Rr _) mp_true (modify _) =>
    apply satG_modify; intros ?s [?Hc|[?HR ?Hin]]; (split; [exact I|]);
    [left; cbn; destruct_matches; first [assumption|reflexivity]
    |right; split; [eapply Rm_view; [|eassumption]; cbn; destruct_matches; reflexivity|cbn; destruct_matches; assumption]]
  end.

(* ---- addRemoteCandidate: superseding, appending, pairing ------------------------------------------------ *)
Definition handles (l : list cand) : list Z := map c_h l.
Definition fresh_remote (c : cand) (s : state) : Prop := c_h c < s_next_h s /\ ~ In (c_h c) (handles (s_remotes s)).

(* what the superseding loop maintains about the remote of every pair *)
Definition J (c : cand) (orig : list cand) (redundant remaining : list cand) (s' : state) : Prop :=
  Forall (fun p => p_rem p = c \/
                   (In (p_rem p) orig /\ forall o, In o redundant -> c_h o = c_h (p_rem p) -> In o remaining)) (s_checklist s').

Lemma rems_reselect pid s : map p_rem (s_checklist (fst (reselect pid s))) = map p_rem (s_checklist s).
Proof.
  unfold reselect. rewrite with_state_eq. destruct (s_selected s) as [id|]; [|reflexivity].
  destruct (id =? pid); [|reflexivity]. unfold set_selected. rewrite !seq_fst, upd_pair_fst, modify_fst. unfold emit. cbn [fst].
  rewrite update_conn_live_checklist by discriminate. cbn. rewrite map_map. apply map_ext. intros q. destruct (p_id q =? id); reflexivity.
Qed.

Lemma remid_reselect pid s :
  map (fun x => (p_rem x, p_id x)) (s_checklist (fst (reselect pid s))) = map (fun x => (p_rem x, p_id x)) (s_checklist s).
Proof.
  unfold reselect. rewrite with_state_eq. destruct (s_selected s) as [id|]; [|reflexivity].
  destruct (id =? pid); [|reflexivity]. unfold set_selected. rewrite !seq_fst, upd_pair_fst, modify_fst. unfold emit. cbn [fst].
  rewrite update_conn_live_checklist by discriminate. cbn. rewrite map_map. apply map_ext. intros q. destruct (p_id q =? id); reflexivity.
Qed.

Definition retarget_nominated (p0 : pair) (repl : pair) (s0 : state) : state :=
  match s_nominated s0 with
  | Some np => if p_id np =? p_id p0 then set_s_nominated (Some repl) s0 else s0
  | None => s0
  end.
Lemma retarget_checklist p0 repl s0 : s_checklist (retarget_nominated p0 repl s0) = s_checklist s0.
Proof. unfold retarget_nominated. destruct_matches; reflexivity. Qed.

Lemma J_rems c orig red rem s s' : map p_rem (s_checklist s') = map p_rem (s_checklist s) -> J c orig red rem s -> J c orig red rem s'.
Proof.
  unfold J. intros E H. rewrite Forall_forall in *. intros p Hp.
  assert (Hin : In (p_rem p) (map p_rem (s_checklist s'))) by (apply in_map; exact Hp).
  rewrite E in Hin. apply in_map_iff in Hin. destruct Hin as [q [Eq Hq]]. rewrite <- Eq. apply H. exact Hq.
Qed.

Lemma J_replace c orig red old t s :
  J c orig red (old :: t) s -> J c orig red t (fst (replace_remote_in_pairs old c s)).
Proof.
  intros HJ. unfold replace_remote_in_pairs. rewrite with_state_eq.
  (* generalise: the loop visits a list of pairs that contains every pair whose remote has old's handle *)
  set (Lst := filter (fun p => c_h (p_rem p) =? c_h old) (s_checklist s)).
  assert (Hcov : forall p, In p (s_checklist s) -> c_h (p_rem p) = c_h old -> p_rem p = c \/ In (p_id p) (map p_id Lst)).
  { intros p Hp E. right. apply in_map. apply filter_In. split; [exact Hp|apply Z.eqb_eq; exact E]. }
  clearbody Lst. revert s HJ Hcov. induction Lst as [|p0 rest IH]; intros s HJ Hcov; cbn [for_each].
  - (* nothing left to visit: every pair with old's handle already points to c *)
    unfold J in *. rewrite Forall_forall in *. intros p Hp. destruct (HJ p Hp) as [E|[Ho Hr]]; [left; exact E|].
    destruct (Z.eq_dec (c_h (p_rem p)) (c_h old)) as [Eh|Nh].
    + destruct (Hcov p Hp Eh) as [E|[]]. left. exact E.
    + right. split; [exact Ho|]. intros o Hor Eo. destruct (Hr o Hor Eo) as [<-|Hin]; [exfalso; apply Nh; symmetry; exact Eo|exact Hin].
  - rewrite seq_fst. apply IH.
    + (* J (old :: t) is kept by one iteration *)
      rewrite !seq_fst, upd_pair_fst, modify_fst. eapply J_rems; [apply rems_reselect|].
      match goal with |- J _ _ _ _ ?X => assert (E : map p_rem (s_checklist X) =
          map p_rem (s_checklist (upd (p_id p0) (fun _ => set_p_prio_ov (Some (pair_priority p0)) (set_p_rem c p0)) s)))
          by (cbn; destruct_matches; reflexivity) end.
      eapply J_rems; [exact E|]. unfold J, upd in *. cbn. rewrite Forall_forall in *. intros q Hq.
      apply in_map_iff in Hq. destruct Hq as [q0 [Eq Hq0]]. destruct (p_id q0 =? p_id p0); subst q; [left; reflexivity|apply HJ; exact Hq0].
    + (* coverage is kept: a pair with old's handle is either already at c or still to be visited *)
      intros q Hq Eh. rewrite !seq_fst, upd_pair_fst, modify_fst in Hq.
      set (repl := set_p_prio_ov (Some (pair_priority p0)) (set_p_rem c p0)) in *.
      change (fun s0 : state => match s_nominated s0 with
                | Some np => if p_id np =? p_id p0 then set_s_nominated (Some repl) s0 else s0
                | None => s0 end) with (retarget_nominated p0 repl) in Hq.
      assert (Hq' : In (p_rem q, p_id q) (map (fun x => (p_rem x, p_id x)) (s_checklist (upd (p_id p0) (fun _ => repl) s)))).
      { rewrite <- (retarget_checklist p0 repl (upd (p_id p0) (fun _ => repl) s)). rewrite <- remid_reselect with (pid := p_id p0).
        apply (in_map (fun x => (p_rem x, p_id x))). exact Hq. }
      apply in_map_iff in Hq'. destruct Hq' as [q1 [Eq1 Hq1]]. injection Eq1 as Er Ei.
      unfold upd in Hq1. cbn in Hq1. apply in_map_iff in Hq1. destruct Hq1 as [q0 [Eq0 Hq0]].
      destruct (Z.eqb_spec (p_id q0) (p_id p0)) as [Ep|Np].
      * left. rewrite <- Er, <- Eq0. reflexivity.
      * subst q1. destruct (Hcov q0 Hq0) as [E|Hin]; [rewrite Er; exact Eh|left; rewrite <- Er; exact E|].
        right. rewrite <- Ei. cbn in Hin. destruct Hin as [E|Hin]; [exfalso; apply Np; symmetry; exact E|exact Hin].
Qed.

Lemma NoDup_app_intro_single_Z (l : list Z) x : NoDup l -> ~ In x l -> NoDup (l ++ [x]).
Proof.
  induction l as [|y t IH]; cbn; intros Hn Hx; [constructor; [intros []|constructor]|].
  inversion Hn as [|? ? Hy Ht]; subst. constructor.
  - rewrite in_app_iff. cbn. intros [H|[H|[]]]; [contradiction|subst; apply Hx; left; reflexivity].
  - apply IH; [exact Ht|]. intros H. apply Hx. right. exact H.
Qed.

Definition rn_view (s : state) := (s_remotes s, s_next_h s).
Lemma update_conn_frame_live {A} (g : state -> A) st :
  st <> ConnectionStateFailed -> (forall s, g (set_s_conn st s) = g s) -> sat (frame g) (update_conn st).
Proof.
  intros Hst H1 s. unfold update_conn. cbn. destruct (s_conn s =? st); [reflexivity|]. apply Z.eqb_neq in Hst. rewrite Hst. cbn. apply H1.
Qed.
Lemma rn_frame_replace old new : sat (frame rn_view) (replace_remote_in_pairs old new).
Proof. sat_decompose; try (apply update_conn_frame_live; [discriminate|intros; reflexivity]); try (sat_base frame_tac). Qed.

Lemma NoDup_map_filter {A B} (f : A -> B) (g : A -> bool) (l : list A) : NoDup (map f l) -> NoDup (map f (filter g l)).
Proof.
  induction l as [|x t IH]; cbn; intros H; [constructor|]. inversion H as [|? ? Hx Ht]; subst.
  destruct (g x); cbn; [|apply IH; exact Ht]. constructor; [|apply IH; exact Ht].
  intros Hin. apply Hx. apply in_map_iff in Hin. destruct Hin as [y [Ey Hy]]. apply filter_In in Hy. apply in_map_iff. exists y. tauto.
Qed.

Lemma J_loop c orig red : forall remaining s,
  J c orig red remaining s ->
  let s' := fst (for_each remaining (fun old => copy_activity old c ;; replace_remote_in_pairs old c ;; retarget_cache old c) s) in
  J c orig red [] s' /\ rn_view s' = rn_view s.
Proof.
  induction remaining as [|old t IH]; intros s HJ; cbn [for_each]; [split; [exact HJ|reflexivity]|].
  cbv zeta. rewrite seq_fst.
  set (s1 := fst ((copy_activity old c ;; replace_remote_in_pairs old c ;; retarget_cache old c) s)).
  assert (H1 : J c orig red t s1 /\ rn_view s1 = rn_view s).
  { unfold s1. rewrite !seq_fst. unfold copy_activity at 1, retarget_cache. rewrite !modify_fst.
    set (s0 := match assoc_get (c_h old) (s_lastrecv s), assoc_get (c_h c) (s_lastrecv s) with
               | Some t0, None => set_s_lastrecv (assoc_set (c_h c) t0 (s_lastrecv s)) s | _, _ => s end).
    assert (H0 : J c orig red (old :: t) s0 /\ rn_view s0 = rn_view s).
    { unfold s0. destruct (assoc_get (c_h old) (s_lastrecv s)); [destruct (assoc_get (c_h c) (s_lastrecv s))|]; (split; [first [exact HJ|eapply J_rems; [|exact HJ]; reflexivity]|reflexivity]). }
    destruct H0 as [H0 E0]. split.
    - eapply J_rems; [|apply (J_replace c orig red old t s0 H0)]. reflexivity.
    - pose proof (rn_frame_replace old c s0) as Hf. cbn [mp_rel frame] in Hf.
      transitivity (rn_view (fst (replace_remote_in_pairs old c s0))); [reflexivity|]. rewrite Hf. exact E0. }
  destruct H1 as [H1 E1]. destruct (IH s1 H1) as [H2 E2]. split; [exact H2|]. rewrite E2. exact E1.
Qed.

Lemma Rm_pairing c locs0 s :
  Rm s -> In c (s_remotes s) ->
  let f := for_each locs0 (fun l' => with_state (find_pair l' c) (fun op => match op with Some _ => nop | None => add_pair l' c end)) in
  Rm (fst (f s)) /\ rn_view (fst (f s)) = rn_view s.
Proof.
  revert s. induction locs0 as [|l' t IH]; intros s H Hc; cbn [for_each]; [split; [exact H|reflexivity]|].
  cbv zeta. rewrite seq_fst. rewrite with_state_eq.
  set (s1 := fst (match find_pair l' c s with Some _ => nop | None => add_pair l' c end s)).
  assert (H1 : Rm s1 /\ rn_view s1 = rn_view s).
  { unfold s1. destruct (find_pair l' c s); [split; [exact H|reflexivity]|]. split; [apply Rm_add_pair; assumption|reflexivity]. }
  destruct H1 as [H1 E1]. destruct (IH s1 H1) as [H2 E2].
  - unfold rn_view in E1. injection E1 as E1 _. rewrite E1. exact Hc.
  - split; [exact H2|]. cbv zeta in E2. rewrite E2. exact E1.
Qed.

Lemma Rm_add_remote_body c set s :
  Rm s -> fresh_remote c s -> (forall e, In e set -> In e (s_remotes s)) ->
  let s' := fst (add_remote_body c set s) in
  Rm s' /\ In c (s_remotes s') /\ s_next_h s' = s_next_h s.
Proof.
  intros [[Hnd [Hb Hn]] HP] [Hfb Hfn] Hset. unfold add_remote_body.
  set (red := if c_typ c =? CandidateTypePeerReflexive then [] else filter (fun e => (c_typ e =? CandidateTypePeerReflexive) && cand_taddr_eqb e c) set).
  cbv zeta. rewrite seq_fst, modify_fst.
  set (keep := fun e => negb (existsb (fun o => c_h o =? c_h e) red)).
  set (s1 := set_s_remotes (filter keep (s_remotes s)) s).
  assert (HJ : J c (s_remotes s) red red s1).
  { unfold J, s1. cbn. unfold PR in HP. eapply Forall_impl; [|exact HP]. cbn. intros p Hp. right. split; [exact Hp|]. intros o Ho _. exact Ho. }
  rewrite seq_fst. destruct (J_loop c (s_remotes s) red red s1 HJ) as [HJ2 E2]. cbv zeta in HJ2, E2.
  set (s2 := fst (for_each red (fun old => copy_activity old c ;; replace_remote_in_pairs old c ;; retarget_cache old c) s1)) in *.
  unfold rn_view in E2. injection E2 as Er2 En2.
  rewrite seq_fst, modify_fst.
  set (s3 := set_s_remotes (s_remotes s2 ++ [c]) s2).
  assert (Er3 : s_remotes s3 = filter keep (s_remotes s) ++ [c]) by (unfold s3; cbn [s_remotes set_s_remotes]; rewrite Er2; reflexivity).
  assert (En3' : s_next_h s3 = s_next_h s) by (unfold s3; cbn [s_next_h set_s_remotes]; rewrite En2; reflexivity).
  assert (Ec3 : s_checklist s3 = s_checklist s2) by reflexivity.
  assert (H3 : Rm s3 /\ In c (s_remotes s3) /\ s_next_h s3 = s_next_h s).
  { split; [|split; [rewrite Er3; apply in_or_app; right; left; reflexivity|exact En3']].
    split.
    - unfold RU. rewrite Er3, En3'. split; [|split; [|exact Hn]].
      + rewrite map_app. cbn. apply NoDup_app_intro_single_Z; [apply NoDup_map_filter; exact Hnd|].
        intros Hin. apply Hfn. unfold handles. apply in_map_iff in Hin. destruct Hin as [y [Ey Hy]]. apply filter_In in Hy. apply in_map_iff. exists y. tauto.
      + apply Forall_app. split; [|constructor; [exact Hfb|constructor]].
        rewrite Forall_forall in *. intros e He. apply filter_In in He. apply Hb. tauto.
    - unfold PR. rewrite Er3, Ec3. unfold J in HJ2. eapply Forall_impl; [|exact HJ2]. cbn. intros p [E|[Ho Hr]].
      + rewrite E. apply in_or_app. right. left. reflexivity.
      + apply in_or_app. left. apply filter_In. split; [exact Ho|]. unfold keep.
        destruct (existsb (fun o => c_h o =? c_h (p_rem p)) red) eqn:Ex; [|reflexivity].
        apply existsb_exists in Ex. destruct Ex as [o [Ho1 Ho2]]. apply Z.eqb_eq in Ho2. destruct (Hr o Ho1 Ho2). }
  destruct H3 as [H3 [Hc3 En3]].
  destruct (c_tcp c =? TCPTypePassive); [unfold nop; cbn [fst]; split; [exact H3|split; [exact Hc3|exact En3]]|].
  rewrite with_state_eq.
  destruct (Rm_pairing c (filter (fun l0 => c_net l0 =? c_net c) (s_locals s3)) s3 H3 Hc3) as [H4 E4].
  cbv zeta in H4, E4.
  match goal with |- Rm ?X /\ _ => set (s4 := X) in * end.
  assert (Er4 : s_remotes s4 = s_remotes s3) by (unfold rn_view in E4; congruence).
  assert (En4 : s_next_h s4 = s_next_h s3) by (unfold rn_view in E4; congruence).
  split; [exact H4|]. split; [rewrite Er4; exact Hc3|rewrite En4; exact En3].
Qed.

(* ---- blocks working on a known remote candidate ---------------------------------------------------------- *)
Lemma Rr_dispatch_request cfg m l rc : satG (Rr rc) mp_true (dispatch_request cfg m l rc).
Proof. autounfold with agentcore_ll. satG_split_eq. all: rr_leaf. Qed.
Lemma Rr_dispatch_success cfg m l rc src : satG (Rr rc) mp_true (dispatch_success cfg m l rc src).
Proof. autounfold with agentcore_ll. satG_split_eq. all: rr_leaf. Qed.
Lemma Rr_role_conflict cfg m l rc tb : satG (Rr rc) mp_true (handle_role_conflict cfg m l rc tb).
Proof. autounfold with agentcore_ll. satG_split_eq. all: rr_leaf. Qed.
Lemma Rr_seen rc h : satG (Rr rc) mp_true (seen h).
Proof. unfold seen. rr_leaf. Qed.

Lemma Rr_to_Rc r s : Rr r s -> Rc s.
Proof. intros [H|[H _]]; [left; exact H|right; exact H]. Qed.

Lemma find_remote_in net a s r : find_remote net a s = Some r -> In r (s_remotes s).
Proof. unfold find_remote. intros H. apply find_some in H. tauto. Qed.

Lemma closed_frame_M (f : M) : sat (frame s_closed) f -> forall s, s_closed (fst (f s)) = s_closed s.
Proof. intros H s. exact (H s). Qed.

Lemma closed_frame_add_remote_body c set : sat (frame s_closed) (add_remote_body c set).
Proof. sat_decompose; try (apply update_conn_frame; intros; reflexivity); try (sat_base frame_tac). Qed.

Ltac dif := match goal with |- context [if ?b then _ else _] => destruct b eqn:? end.

(* handleInbound *)
(* [prflx_net l src = c_net l]: the datagram's source is of the socket's own address family *)
Theorem Rc_handle_inbound cfg l src m : prflx_net l src = c_net l -> satG Rc mp_true (handle_inbound cfg l src m).
Proof.
  intros Hfam s Hs. split; [exact I|]. destruct Hs as [Hc|HR].
  { (* closed: every block keeps closed *)
    left. assert (H : sat (preserves Closed) (handle_inbound cfg l src m)) by closed_auto. exact (H s Hc). }
  unfold handle_inbound. destruct (negb (canHandleInbound (m_method m) (m_class m))); [right; exact HR|].
  rewrite with_state_eq. destruct (find_remote (c_net l) src s) as [rc|] eqn:Hfr; cbv beta iota.
  - (* known source *)
    pose proof (find_remote_in _ _ _ _ Hfr) as Hin. apply (Rr_to_Rc rc).
    match goal with |- Rr rc (fst (?f s)) => assert (Hf : satG (Rr rc) mp_true f); [|exact (proj2 (Hf s (or_intror (conj HR Hin))))] end.
    destruct (m_class m =? 2).
    + satG_split_eq; try apply satG_nop; try apply Rr_dispatch_success; try apply Rr_seen.
    + destruct (m_class m =? 0).
      2: { satG_split_eq; try apply satG_nop; try apply Rr_seen. }
      unfold handle_inbound_request. apply satG_with_state. intros s0 _. cbv beta iota zeta.
      destruct (negb _); [apply satG_nop|]. destruct (negb _); [apply satG_nop|].
      satG_split_eq; try apply Rr_role_conflict; try apply Rr_dispatch_request; try apply Rr_seen; try apply satG_nop.
  - (* unknown source: only a request can teach a peer-reflexive candidate *)
    destruct (m_class m =? 2); [dif; right; exact HR|].
    destruct (m_class m =? 0).
    2: { repeat dif; first [right; exact HR | unfold seen; rewrite modify_fst; right; eapply Rm_view; [|exact HR]; reflexivity]. }
    unfold handle_inbound_request. rewrite with_state_eq. cbv beta iota zeta.
    dif; [right; exact HR|]. dif; [right; exact HR|].
    rewrite with_state_eq. rewrite seq_fst, modify_fst.
    set (h := s_next_h s). set (s1 := set_s_next_h (h + 1) s).
    match goal with |- context [add_remote cfg ?rc0 ?k0] => set (rc := rc0); set (k := k0) end.
    assert (H1 : Rm s1) by (destruct HR as [[Hnd [Hb Hn]] HP]; split; [split; [exact Hnd|split; [|unfold s1; cbn; lia]];
                              unfold s1; cbn; eapply Forall_impl; [|exact Hb]; cbn; intros; lia|exact HP]).
    assert (Hfresh : fresh_remote rc s1).
    { destruct HR as [[Hnd [Hb Hn]] HP]. split; [unfold s1, rc; cbn; lia|]. unfold handles, s1, rc. cbn. intros Hin.
      apply in_map_iff in Hin. destruct Hin as [y [Ey Hy]]. rewrite Forall_forall in Hb. specialize (Hb y Hy). fold h in Hb. lia. }
    unfold add_remote. rewrite with_state_eq. cbv beta iota.
    assert (Hk : forall ok s2, Rm s2 -> (ok = true -> In rc (s_remotes s2)) -> Rc (fst (k ok s2))).
    { intros ok s2 H2 Hin. unfold k. destruct ok.
      - apply (Rr_to_Rc rc).
        match goal with |- Rr rc (fst (?f s2)) => assert (Hf : satG (Rr rc) mp_true f); [|exact (proj2 (Hf s2 (or_intror (conj H2 (Hin eq_refl)))))] end.
        satG_split_eq; try apply Rr_role_conflict; try apply Rr_dispatch_request; try apply Rr_seen; try apply satG_nop.
      - right. exact H2. }
    destruct (s_conn s1 =? ConnectionStateFailed); [apply (Hk false s1 H1); intros E; discriminate E|].
    destruct (negb (accepts_remote cfg rc)); [apply (Hk false s1 H1); intros E; discriminate E|].
    destruct (existsb _ _) eqn:Ex.
    + apply (Hk true s1 H1). intros _. exfalso.
      (* a candidate Equal to the new one would have been found by its address *)
      apply existsb_exists in Ex. destruct Ex as [e [He Ee]]. apply filter_In in He. destruct He as [He _].
      unfold cand_equal, cand_taddr_eqb in Ee.
      apply andb_prop in Ee. destruct Ee as [Ee _]. apply andb_prop in Ee. destruct Ee as [Ee _].
      apply andb_prop in Ee. destruct Ee as [Ee _]. apply andb_prop in Ee. destruct Ee as [En Ea].
      unfold find_remote in Hfr. pose proof (find_none _ _ Hfr e He) as Hnone. cbn beta in Hnone.
      unfold rc in En, Ea. cbn [c_net c_addr] in En, Ea. rewrite Hfam in En. rewrite En, Ea in Hnone. discriminate Hnone.
    + rewrite seq_fst.
      match goal with |- context [add_remote_body rc ?set0 s1] =>
        destruct (Rm_add_remote_body rc set0 s1 H1 Hfresh) as [H2 [Hin2 _]]; [intros e He; apply filter_In in He; tauto|] end.
      apply (Hk true _ H2). intros _. exact Hin2.
Qed.

(* ---- every operation --------------------------------------------------------------------------------------- *)
Lemma Rc_update_conn st : satG Rc mp_true (update_conn st).
Proof.
  intros s [Hc|HR]; (split; [exact I|]); [left; rewrite closed_update_conn; exact Hc|right; apply Rm_update_conn; exact HR].
Qed.

Ltac rc_leaf :=
  match goal with
  | |- satG Rc mp_true (update_conn _) => apply Rc_update_conn
  | |- satG Rc mp_true (emit _) => apply satG_emit; intros ?s ?Hg; exact I
  | |- satG Rc mp_true (upd_pair _ _) =>
    apply satG_upd_pair; intros ?s [?Hc|?HR]; (split; [exact I|]);
    [left; cbn; assumption|right; apply Rm_upd; [cbn; intros; reflexivity|assumption]]
  | |- satG Rc mp_true (modify _) =>
    apply satG_modify; intros ?s [?Hc|?HR]; (split; [exact I|]);
    [left; cbn; destruct_matches; first [assumption|reflexivity]
    |first [ right; eapply Rm_view; [|eassumption]; cbn; destruct_matches; reflexivity
           | right; apply Rm_empty; [cbn; destruct_matches; reflexivity ..| match goal with H : Rm _ |- _ => cbn; exact (proj2 (proj2 (proj1 H))) end]
           | left; cbn; destruct_matches; reflexivity ]]
  end.

Lemma Rm_pair_new c rems s : Rm s -> Forall (fun r => In r (s_remotes s)) rems -> Rm (fst (for_each rems (fun r => add_pair c r) s)).
Proof.
  revert s. induction rems as [|r t IH]; intros s H HL; cbn [for_each]; [exact H|].
  rewrite seq_fst. apply IH; [apply Rm_add_pair; [exact (Forall_inv HL)|exact H]|].
  cbn. exact (Forall_inv_tail HL).
Qed.

Lemma Rc_add_local c : satG Rc mp_true (add_local c).
Proof.
  intros s [Hc|HR]; (split; [exact I|]); [left; exact (closed_add_local c s Hc)|].
  right. unfold add_local. rewrite with_state_eq. cbv beta iota.
  destruct (_ || _); [unfold seq, emit; cbn [fst]; exact HR|].
  rewrite !seq_fst, modify_fst. unfold emit. cbn [fst]. rewrite with_state_eq.
  set (s1 := set_s_locals (s_locals s ++ [c]) s).
  apply Rm_pair_new; [eapply Rm_view; [|exact HR]; reflexivity|].
  rewrite Forall_forall. intros r Hr. apply filter_In in Hr. unfold s1. cbn. tauto.
Qed.

Definition op_ok (o : op) (s : state) : Prop :=
  match o with
  | AddRemote c => c_h c < 1000000 /\ ~ In (c_h c) (handles (s_remotes s))
  | InStun lh src _ => forall l, find_local lh s = Some l -> prflx_net l src = c_net l
  | _ => True
  end.

Create HintDb agentcore_rc.
#[export] Hint Unfold seen fresh_tx invalidate_pending send_binding_request ping_candidate
  nominate_pair send_binding_success retarget_cache copy_activity
  set_selector ping_all check_keepalive contact_controlling contact_controlled contact_candidates
  tick accept_data inbound_data do_write conn_write conn_write_to_pair conn_read do_start do_set_remote_creds
  do_restart do_renominate renominate_op do_close validate_selected set_selected reselect : agentcore_rc.

Definition plain_op (o : op) : bool :=
  match o with AddLocal _ | AddRemote _ | InStun _ _ _ => false | _ => true end.

Lemma Rc_plain cfg o : plain_op o = true -> satG Rc mp_true (step_m cfg o).
Proof.
  intros Hp. destruct o; try discriminate Hp; cbn [step_m].
  all: autounfold with agentcore_rc; satG_split_eq; rc_leaf.
Qed.

Theorem step_Rc cfg s o : op_ok o s -> Rc s -> Rc (fst (step cfg s o)).
Proof.
  intros Hok Hs. unfold step. destruct (plain_op o) eqn:Ep; [exact (proj2 (Rc_plain cfg o Ep s Hs))|].
  destruct o; try discriminate Ep; cbn [step_m op_ok] in *.
  - (* AddLocal *) rewrite with_state_eq. destruct (s_closed s) eqn:Ec; [exact Hs|]. exact (proj2 (Rc_add_local c s Hs)).
  - (* AddRemote *)
    rewrite with_state_eq. destruct (c_tcp c =? TCPTypeActive); [exact Hs|]. destruct (s_closed s) eqn:Ec; [exact Hs|].
    destruct Hs as [Hc|HR]; [rewrite Hc in Ec; discriminate|].
    unfold add_remote. rewrite with_state_eq. cbv beta iota.
    destruct (s_conn s =? ConnectionStateFailed); [right; exact HR|].
    destruct (negb (accepts_remote cfg c)); [right; exact HR|].
    destruct (existsb _ _); [right; exact HR|].
    rewrite seq_fst. unfold emit. cbn [fst].
    destruct Hok as [Hlt Hnew].
    match goal with |- context [add_remote_body c ?set0 s] =>
      destruct (Rm_add_remote_body c set0 s HR) as [H2 _]; [split; [destruct HR as [[_ [_ Hn]] _]; lia|exact Hnew]|intros e He; apply filter_In in He; tauto|] end.
    right. exact H2.
  - (* InStun *)
    rewrite with_state_eq. destruct (s_closed s) eqn:Ec; [exact Hs|].
    destruct (find_local lh s) as [l|] eqn:El; [|exact Hs].
    exact (proj2 (Rc_handle_inbound cfg l src m (Hok l eq_refl) s Hs)).
Qed.

Lemma Rc_init lu lp : Rc (init lu lp).
Proof. right. apply Rm_empty; try reflexivity; cbn; lia. Qed.

