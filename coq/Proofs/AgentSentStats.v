(* C07: while one pair stays selected, its sent-packet and sent-byte counters move exactly with the connection's
   byte counter: only Conn.Write moves either, by the same amount (one packet per non-empty accepted write). *)
From Coq Require Import ZArith Bool List Lia.
From Ice Require Import Model.AgentTypes Model.AgentCore Gen.Consts Proofs.AgentFrame Proofs.AgentC06 Proofs.AgentC03Sel
  Proofs.AgentRem Proofs.AgentRemOK Proofs.AgentSupersede Proofs.AgentEnds Proofs.AgentC07.
Import ListNotations.
Local Open Scope Z_scope.

Definition sstrict (p p' : pair) : Prop := p_bytes_sent p' = p_bytes_sent p /\ p_pkts_sent p' = p_pkts_sent p.

Definition sent_frame : mprop.
Proof.
  refine (MProp (fun s _ s' => ends_rel sstrict s s') _ _).
  - intros s. apply ends_rel_refl. intros p. split; reflexivity.
  - intros s o1 s1 o2 s2 H1 H2. eapply ends_rel_trans; [|exact H1|exact H2].
    unfold sstrict. intros p q r [A B] [C D]. split; congruence.
Defined.

Lemma sf_same s s' : s_checklist s' = s_checklist s -> s_next_pair s' = s_next_pair s -> ends_rel sstrict s s'.
Proof.
  intros E1 E2. split; [lia|]. rewrite E1. intros p' Hp. right. exists p'. repeat split; auto.
Qed.

Lemma sf_empty s s' : s_checklist s' = [] -> s_next_pair s' = s_next_pair s -> ends_rel sstrict s s'.
Proof. intros E1 E2. split; [lia|]. rewrite E1. intros p' []. Qed.

Lemma sf_upd id f s : (forall q, p_id (f q) = p_id q /\ p_bytes_sent (f q) = p_bytes_sent q /\ p_pkts_sent (f q) = p_pkts_sent q) -> ends_rel sstrict s (upd id f s).
Proof.
  intros Hf. split; [cbn; lia|]. unfold upd. cbn [s_checklist set_s_checklist]. intros p' Hp. right.
  apply in_map_iff in Hp. destruct Hp as [q [E Hq]]. exists q. split; [exact Hq|].
  destruct (p_id q =? id); subst p'; [|repeat split; reflexivity]. destruct (Hf q) as [A [B C]]. repeat split; auto.
Qed.

Lemma sf_add_pair l r s : ends_rel sstrict s (fst (add_pair l r s)).
Proof.
  unfold add_pair. rewrite modify_fst. split; [cbn; lia|]. cbn [s_checklist set_s_next_pair set_s_checklist].
  intros p' Hp. apply in_app_iff in Hp. destruct Hp as [Hp|[<-|[]]].
  - right. exists p'. repeat split; auto.
  - left. cbn. lia.
Qed.

Lemma sf_update_conn st : sat sent_frame (update_conn st).
Proof.
  intros s. cbn. unfold update_conn. destruct (s_conn s =? st); cbn; [apply sf_same; reflexivity|].
  destruct (st =? ConnectionStateFailed); cbn; [apply sf_empty; reflexivity|apply sf_same; reflexivity].
Qed.

Ltac sf_leaf :=
  match goal with
  | |- sat sent_frame (update_conn _) => apply sf_update_conn
  | |- sat sent_frame (emit _) => apply sat_emit; intros ?s; cbn; apply sf_same; reflexivity
  | |- sat sent_frame (upd_pair _ _) =>
    apply sat_upd_pair; intros ?s; cbn; apply (sf_upd _ _ s); intros ?q; cbn; repeat split; reflexivity
  | |- sat sent_frame (modify _) =>
    apply sat_modify; intros ?s; cbn;
    first [ apply sf_same; cbn; destruct_matches; reflexivity
          | apply sf_empty; cbn; destruct_matches; reflexivity
          | apply (sf_add_pair _ _ s) ]
  end.

Create HintDb agentcore_sf.
#[export] Hint Unfold seen fresh_tx invalidate_pending send_binding_request ping_candidate
  nominate_pair send_binding_success retarget_cache copy_activity
  add_local set_selector ping_all check_keepalive contact_controlling
  contact_controlled contact_candidates handle_request_controlling handle_success_controlling
  handle_success_controlled accept_nomination handle_request_controlled handle_role_conflict
  handle_inbound_request handle_inbound tick accept_data inbound_data do_write conn_write
  conn_write_to_pair conn_read do_start do_set_remote_creds do_restart do_renominate renominate_op do_close step_m
  set_selected reselect dispatch_request dispatch_success validate_selected : agentcore_sf.

Lemma sf_add_pair_sat l r : sat sent_frame (add_pair l r).
Proof. intros s. exact (sf_add_pair l r s). Qed.

(* learning a peer-reflexive candidate supersedes nothing *)
Lemma sf_add_remote_prflx cfg c k :
  c_typ c = CandidateTypePeerReflexive -> (forall ok, sat sent_frame (k ok)) -> sat sent_frame (add_remote cfg c k).
Proof.
  intros Hc Hk. unfold add_remote, add_remote_body. rewrite Hc. change (CandidateTypePeerReflexive =? CandidateTypePeerReflexive) with true.
  cbv iota. cbn [for_each]. sat_split; try apply Hk; try apply sf_add_pair_sat; try sf_leaf.
Qed.

Ltac sf_go :=
  sat_split;
  try apply sf_add_pair_sat;
  try sf_leaf;
  try match goal with
  | |- sat sent_frame (add_remote _ _ _) => apply sf_add_remote_prflx; [reflexivity|intros ?ok; sf_go]
  end.

Lemma sf_step cfg o : (match o with AddRemote _ | Write _ | WriteToPair _ _ => False | _ => True end) -> sat sent_frame (step_m cfg o).
Proof.
  intros Ho. destruct o; try contradiction; cbn [step_m]; autounfold with agentcore_sf; sf_go.
Qed.


(* ---- one operation ------------------------------------------------------------------------------------------ *)
Lemma sf_step_rel cfg o s :
  (match o with AddRemote _ | Write _ | WriteToPair _ _ => False | _ => True end) -> ends_rel sstrict s (fst (step cfg s o)).
Proof. intros H. exact (sf_step cfg o H s). Qed.

Lemma pair_by_id_listed id s p : InvU s -> In p (s_checklist s) -> p_id p = id -> pair_by_id id s = Some p.
Proof.
  intros HU Hp E. destruct (pair_by_id id s) as [q|] eqn:Eq.
  - apply pair_by_id_in in Eq. destruct Eq as [Hq Eid]. f_equal. apply (unique_id s p q HU Hp Hq). congruence.
  - exfalso. unfold pair_by_id in Eq. pose proof (find_none _ _ Eq p Hp) as Hn. cbn in Hn. apply Z.eqb_neq in Hn. contradiction.
Qed.

Lemma bytes_sent_frame cfg o s :
  (match o with Write _ => False | _ => True end) -> s_bytes_sent (fst (step cfg s o)) = s_bytes_sent s.
Proof.
  intros Ho. destruct (match o with Read => true | _ => false end) eqn:Er.
  { destruct o; try discriminate Er. pose proof (read_counts_returned_bytes cfg s) as H.
    destruct (step cfg s Read) as [s1 o1]. cbn [fst]. exact (proj1 H). } pose proof (counters_only_by_write_and_read cfg o) as H. unfold step.
  destruct o; try contradiction; try discriminate Er; specialize (H s);
    match type of H with _ ?a ?b ?c => change (counters c = counters a) in H end;
    exact (f_equal fst H).
Qed.

Definition not_write_to_pair (o : op) : Prop := match o with WriteToPair _ _ => False | _ => True end.

Lemma not_new cfg s o (R : pair -> pair -> Prop) p p' :
  InvU s -> In p (s_checklist s) -> In p' (s_checklist (fst (step cfg s o))) -> p_id p' = p_id p ->
  ends_rel R s (fst (step cfg s o)) -> R p p'.
Proof.
  intros HU Hp Hp' Eid [_ H]. destruct (H p' Hp') as [Hn|[p0 [Hp0 [E0 R0]]]].
  - exfalso. destruct HU as [_ [Hb _]]. rewrite Forall_forall in Hb. specialize (Hb p Hp). lia.
  - assert (p0 = p) by (apply (unique_id s p p0 HU Hp Hp0); congruence). subst p0. exact R0.
Qed.

Lemma plain_sent_sync cfg s o p :
  InvU s -> (match o with AddRemote _ | Write _ | WriteToPair _ _ => False | _ => True end) ->
  In p (s_checklist s) ->
  let s' := fst (step cfg s o) in
  forall p', In p' (s_checklist s') -> p_id p' = p_id p ->
    s_bytes_sent s' - s_bytes_sent s = p_bytes_sent p' - p_bytes_sent p /\
    p_pkts_sent p' - p_pkts_sent p = (if 0 <? s_bytes_sent s' - s_bytes_sent s then 1 else 0).
Proof.
  intros HU Ho Hp s' p' Hp' Eid.
  assert (Hc : s_bytes_sent s' = s_bytes_sent s) by (apply bytes_sent_frame; destruct o; try contradiction; exact I).
  destruct (not_new cfg s o sstrict p p' HU Hp Hp' Eid (sf_step_rel cfg o s Ho)) as [Eb Ek].
  rewrite Hc, Eb, Ek, !Z.sub_diag. split; reflexivity.
Qed.

(* From a state whose selected pair [p] (ID [id]) is listed, any operation but WriteToPair: if a pair is listed
   under [id] afterwards, the connection's sent-byte counter and that pair's moved by the same amount, and the pair's
   packet counter moved by one exactly when that amount is positive. *)
Theorem step_sent_sync cfg s o id p :
  InvU s -> (match o with AddRemote _ => Rm s | _ => True end) -> not_write_to_pair o ->
  s_selected s = Some id -> In p (s_checklist s) -> p_id p = id ->
  let s' := fst (step cfg s o) in
  forall p', In p' (s_checklist s') -> p_id p' = id ->
    s_bytes_sent s' - s_bytes_sent s = p_bytes_sent p' - p_bytes_sent p /\
    p_pkts_sent p' - p_pkts_sent p = (if 0 <? s_bytes_sent s' - s_bytes_sent s then 1 else 0).
Proof.
  intros HU HR Hnw Hsel Hp Eid s' p' Hp' Eid'.
  destruct o; try contradiction; try (subst id; unfold s' in *; match goal with |- context [step cfg s ?o] => exact (plain_sent_sync cfg s o p HU I Hp p' Hp' Eid') end).
  - (* AddRemote *)
    assert (Hc : s_bytes_sent s' = s_bytes_sent s) by (apply bytes_sent_frame; exact I).
    pose proof (add_remote_keeps_pairs cfg c s HU HR) as [_ [keptl [new [Ecl [HK _]]]]].
    pose proof (step_preserves_InvU cfg (AddRemote c) s HU) as HU'.
    destruct (Forall2_in_l _ _ _ p HK Hp) as [q' [Hq' Hk]].
    assert (q' = p').
    { apply (unique_id (fst (step cfg s (AddRemote c))) p' q'); [exact HU'|exact Hp'|unfold step; fold (step cfg s (AddRemote c)); rewrite Ecl; apply in_or_app; left; exact Hq'|].
      destruct Hk as [E1 _]. congruence. }
    subst q'. unfold kept, stats in Hk. decompose [and] Hk.
    match goal with H : (_, _, _, _, _, _, _, _) = _ |- _ => injection H as ? ? ? ? ? ? ? ? end.
    rewrite Hc. replace (p_bytes_sent p') with (p_bytes_sent p) by congruence. replace (p_pkts_sent p') with (p_pkts_sent p) by congruence.
    rewrite !Z.sub_diag. split; reflexivity.
  - (* Write *)
    unfold s', step in *. cbn [step_m] in *. revert Hp'. rewrite conn_write_spec.
    destruct (s_closed s); [cbn [fst]; intros Hp'; assert (p' = p) by (apply (unique_id s p p' HU Hp Hp'); congruence); subst p'; rewrite !Z.sub_diag; split; reflexivity|].
    destruct (pl_stun p0); [cbn [fst]; intros Hp'; assert (p' = p) by (apply (unique_id s p p' HU Hp Hp'); congruence); subst p'; rewrite !Z.sub_diag; split; reflexivity|].
    unfold write_target, selected_pair. rewrite Hsel, (pair_by_id_listed id s p HU Hp Eid).
    unfold write_result. destruct (pl_refused p0); [cbn [fst]; intros Hp'; assert (p' = p) by (apply (unique_id s p p' HU Hp Hp'); congruence); subst p'; rewrite !Z.sub_diag; split; reflexivity|].
    cbn [fst]. unfold wrote. destruct (0 <? pl_len p0) eqn:El.
    2: { intros Hp'. assert (p' = p) by (apply (unique_id s p p' HU Hp Hp'); congruence). subst p'. rewrite !Z.sub_diag. split; reflexivity. }
    cbn [s_checklist set_s_checklist s_bytes_sent set_s_bytes_sent]. intros Hp'.
    apply in_map_iff in Hp'. destruct Hp' as [q [Eq Hq]].
    assert (q = p).
    { apply (unique_id s p q HU Hp Hq). destruct (p_id q =? p_id p) eqn:E; subst p'; cbn in Eid'; congruence. }
    subst q. rewrite Z.eqb_refl in Eq. subst p'. cbn.
    apply Z.ltb_lt in El. replace (s_bytes_sent s + pl_len p0 - s_bytes_sent s) with (pl_len p0) by lia.
    destruct (0 <? pl_len p0) eqn:El'; [|apply Z.ltb_ge in El'; lia]. split; lia.
Qed.

(* ---- histories ---------------------------------------------------------------------------------------------- *)
(* the selection is [Some id] now and after every operation of [ops] *)
Fixpoint sel_always (cfg : config) (s : state) (ops : list op) (id : Z) : Prop :=
  s_selected s = Some id /\
  match ops with [] => True | o :: t => sel_always cfg (fst (step cfg s o)) t id end.

Lemma step_sent_sync_Rc cfg s o id p :
  InvU s -> Rc s -> not_write_to_pair o -> s_selected s = Some id -> In p (s_checklist s) -> p_id p = id ->
  forall p', In p' (s_checklist (fst (step cfg s o))) -> p_id p' = id ->
    s_bytes_sent (fst (step cfg s o)) - s_bytes_sent s = p_bytes_sent p' - p_bytes_sent p.
Proof.
  intros HU HR Hnw Hsel Hp Eid p' Hp' Eid'.
  assert (Hcase : (match o with AddRemote _ => Rm s | _ => True end) \/ (exists c, o = AddRemote c /\ s_closed s = true)).
  { destruct o; try (left; exact I). destruct HR as [Hc|HR]; [right; exists c; auto|left; exact HR]. }
  destruct Hcase as [HR'|[c [-> Hc]]].
  - exact (proj1 (step_sent_sync cfg s o id p HU HR' Hnw Hsel Hp Eid p' Hp' Eid')).
  - rewrite closed_add_remote_noop in * by exact Hc.
    assert (p' = p) by (apply (unique_id s p p' HU Hp Hp'); congruence). subst p'. lia.
Qed.

(* While one pair stays selected and only Conn.Write is used for sending, the bytes the connection counted as sent
   over any stretch of an admissible history are exactly the bytes counted on that pair over the same stretch. *)
Theorem selected_pair_sent_bytes_track cfg ops : forall s id p,
  G s -> Rc s -> ops_ok cfg s ops -> Forall not_write_to_pair ops -> sel_always cfg s ops id ->
  In p (s_checklist s) -> p_id p = id ->
  exists p', In p' (s_checklist (runs cfg s ops)) /\ p_id p' = id /\
             s_bytes_sent (runs cfg s ops) - s_bytes_sent s = p_bytes_sent p' - p_bytes_sent p.
Proof.
  induction ops as [|o t IH]; intros s id p HG HR Hok Hnw Hsel Hp Eid; cbn [runs fold_left].
  - exists p. repeat split; auto. lia.
  - destruct Hok as [Ho Ht]. destruct Hsel as [Hsel Hsel']. cbn in Hsel'.
    pose proof (step_G cfg s o HG) as HG1. pose proof (step_Rc cfg s o Ho HR) as HR1.
    assert (Hsel1 : s_selected (fst (step cfg s o)) = Some id) by (destruct t; exact (proj1 Hsel')).
    destruct HG1 as [Hsv1 HU1]. pose proof Hsv1 as Hsv1'. unfold InvSV in Hsv1'. rewrite Hsel1 in Hsv1'.
    destruct Hsv1' as [p1 [Hp1 [Eid1 _]]].
    pose proof (step_sent_sync_Rc cfg s o id p (proj2 HG) HR (Forall_inv Hnw) Hsel Hp Eid p1 Hp1 Eid1) as D1.
    destruct (IH _ id p1 (conj Hsv1 HU1) HR1 Ht (Forall_inv_tail Hnw) Hsel' Hp1 Eid1) as [p' [Hp' [Eid' D2]]].
    exists p'. split; [exact Hp'|]. split; [exact Eid'|]. fold (runs cfg (fst (step cfg s o)) t). lia.
Qed.
