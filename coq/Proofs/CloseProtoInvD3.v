(* C08: preservation of group D of the invariant of the close-protocol model.
   Lemma statements generated from the record Inv (tools: mechanical). *)
From Coq Require Import Arith Bool List Lia.
Import ListNotations.
From Ice Require Import Model.PrioSpec Model.CloseProto Proofs.CloseProtoMeasure Proofs.CloseProtoMeasure2
     Proofs.CloseProtoFrames Proofs.CloseProtoInv.

Section G.
Variable NC : nat.
Variable wfree : nat -> bool.
Variable fix_reg : bool.
Notation step := (step NC wfree fix_reg).
Notation Inv := (Inv NC fix_reg).

Ltac depsD I := pose proof (d_reg _ _ _ I); pose proof (d_bound _ _ _ I); pose proof (d_exit _ _ _ I); pose proof (d_unreg _ _ _ I); pose proof (d_ioab _ _ _ I); pose proof (d_wait _ _ _ I); pose proof (d_del _ _ _ I); pose proof (d_delb _ _ _ I); pose proof (d_alldel _ _ _ I); pose proof (d_cover _ _ _ I); pose proof (d_abort _ _ _ I); pose proof (d_snap _ _ _ I); pose proof (d_late _ _ _ I); pose proof (d_fix _ _ _ I); pose proof (c_doneby _ _ _ I); pose proof (c_odone _ _ _ I); pose proof (c_once_in _ _ _ I); pose proof (c_past _ _ _ I); pose proof (a_task _ _ _ I); pose proof (a_hostok _ _ _ I); pose proof (c_hostok _ _ _ I); pose proof (e_lhost _ _ _ I); pose proof (e_lbusy _ _ _ I); pose proof (e_rhost _ _ _ I); idtac.

(* arithmetic on the iteration index *)
Ltac cheap_lia2 :=
  solve [ repeat match goal with
          | H : ?T |- _ =>
              lazymatch T with
              | _ < _ => fail | _ <= _ => fail | @eq nat _ _ => fail | ~ (_ < _) => fail | ~ (_ <= _) => fail
              | ~ (@eq nat _ _) => fail
              | nat => fail
              | _ => clear H
              end
          end; lia ].
Ltac succ_le :=
  match goal with
  | |- S ?j <= ?c => destruct (Nat.eq_dec c j); [subst; exfalso; congruence | cheap_lia2]
  end.
Ltac close ::=
  solve [ assumption | discriminate | reflexivity | congruence
        | repeat split; (assumption || congruence || cheap_lia2 || succ_le)
        | right; repeat split; (assumption || congruence || cheap_lia2 || succ_le)
        | exfalso; congruence
        | left; (assumption || congruence) | right; (assumption || congruence)
        | right; repeat split; (assumption || congruence || cheap_lia2)
        | cheap_lia2 ].

Ltac slow ::=
  intros; unfold upd in *; goal_match; upd_cases; goal_match; split_ors; norm;
  try (match goal with |- _ \/ late ?s ?c = true => destruct (late s c) eqn:?; [right; reflexivity|] end);
  first [ close
        | goal_bools; inst_all; norm; mp; norm; mp1; norm; split_solve 4 ].

Lemma p_d_delb s s' (I : Inv s) (H : step s s') :
  match lp s' with LDel _ j => j <= NC | _ => True end.
Proof. pres H ltac:(exact (d_delb _ _ _ I)) ltac:(depsD I). Qed.

Lemma p_d_alldel s s' (I : Inv s) (H : step s s') :
  forall c, after_del_all (lp s') = true -> reg s' c = false.
Proof. pres H ltac:(exact (d_alldel _ _ _ I)) ltac:(depsD I). Qed.

Lemma p_d_cover s s' (I : Inv s) (H : step s s') :
  forall c, once s' = ODone -> reg s' c = true -> ioab s' c = true \/ late s' c = true.
Proof. pres H ltac:(exact (d_cover _ _ _ I)) ltac:(depsD I). Qed.

Lemma p_d_abort s s' (I : Inv s) (H : step s s') :
  forall k c, match cp s' k with
                        | CAbort j => reg s' c = true -> late s' c = false ->
                                      ioab s' c = true \/ (j <= c /\ snap s' k c = true)
                        | COnceEnd => reg s' c = true -> ioab s' c = true \/ late s' c = true
                        | _ => True
                        end.
Proof. pres H ltac:(exact (d_abort _ _ _ I)) ltac:(depsD I). Qed.

Lemma p_d_snap s s' (I : Inv s) (H : step s s') :
  forall k c, snap s' k c = true -> rp s' c <> RNone.
Proof. pres H ltac:(exact (d_snap _ _ _ I)) ltac:(depsD I). Qed.

Lemma p_d_late s s' (I : Inv s) (H : step s s') :
  forall c, late s' c = true -> done s' = true.
Proof. pres H ltac:(exact (d_late _ _ _ I)) ltac:(depsD I). Qed.

Lemma p_d_fix s s' (I : Inv s) (H : step s s') :
  forall c, fix_reg = true -> late s' c = true -> rp s' c <> RNone -> ioab s' c = true.
Proof. pres H ltac:(exact (d_fix _ _ _ I)) ltac:(depsD I). Qed.

(* clauses: d_reg d_bound d_exit d_unreg d_ioab d_wait d_del d_delb d_alldel d_cover d_abort d_snap d_late d_fix *)

End G.
