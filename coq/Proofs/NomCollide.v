(* C16/C20: nomination values that differ by 2^24 are the same attribute on the wire *)
From Coq Require Import ZArith Lia.
From Ice Require Import Model.Attrs Proofs.AttrsProofs.
Local Open Scope Z_scope.

Lemma nomination_wire_collision m t v :
  contains m t = false -> 0 <= v ->
  nomination_get t (nomination_add t (v + 16777216) m) = nomination_get t (nomination_add t v m).
Proof.
  intros Hc Hv. rewrite !nomination_roundtrip by (assumption || lia).
  f_equal. replace (v + 16777216) with (v + 1 * 16777216) by lia. apply Z_mod_plus_full.
Qed.
