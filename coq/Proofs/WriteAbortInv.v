(* The invariant of the write-abort protocol model (Model/WriteAbort.v) and its preservation by
   every rule, for both variants of clearWriteAbortState.  C13.  (Split from WriteAbortProofs.v
   because this file takes minutes to check.) *)
From Coq Require Import ZArith Bool List Arith Lia.
From Ice Require Import Model.PrioSpec Model.WriteAbort Gen.Consts.
Import ListNotations.

(* ---- lists of thread ids ---------------------------------------------------------------- *)
Lemma In_remove_nat i k l : In k (remove_nat i l) <-> In k l /\ k <> i.
Proof.
  unfold remove_nat. rewrite filter_In. destruct (Nat.eqb_spec k i); simpl; intuition congruence.
Qed.

Lemma NoDup_remove_nat i l : NoDup l -> NoDup (remove_nat i l).
Proof. intros H. unfold remove_nat. apply NoDup_filter. exact H. Qed.

Lemma remove_nat_notin i l : ~ In i l -> remove_nat i l = l.
Proof.
  induction l as [|a l IH]; simpl; intros H; [reflexivity|].
  destruct (Nat.eqb_spec a i); simpl.
  - subst. exfalso. apply H. now left.
  - f_equal. apply IH. intros Hin. apply H. now right.
Qed.

Lemma length_remove_nat i l : NoDup l -> In i l -> S (length (remove_nat i l)) = length l.
Proof.
  induction l as [|a l IH]; simpl; intros Hnd Hin; [contradiction|].
  inversion Hnd as [|? ? Hna Hnd']; subst.
  destruct (Nat.eqb_spec a i); simpl.
  - subst. rewrite remove_nat_notin by assumption. reflexivity.
  - destruct Hin as [Hin|Hin]; [congruence|]. f_equal. apply IH; assumption.
Qed.

Lemma word_eqb_eq a b : word_eqb a b = true <-> a = b.
Proof.
  destruct a as [c1 b1 d1], b as [c2 b2 d2]. unfold word_eqb. simpl.
  rewrite !andb_true_iff, Nat.eqb_eq, !eqb_true_iff. split.
  - intros [[-> ->] ->]. reflexivity.
  - intros H. inversion H. auto.
Qed.

Lemma word_eqb_neq a b : word_eqb a b = false <-> a <> b.
Proof.
  rewrite <- word_eqb_eq. destruct (word_eqb a b); split; congruence.
Qed.

(* ---- the invariant of fault-free arming ---------------------------------------------------- *)
Definition reg_ok_w (p : wpc) : Prop :=
  match p with
  | WStartCas r => blk r = false
  | WFinCas r => cnt r <> 0 /\ ~ (blk r = true /\ cnt r = 1)
  | WFinCasLast r => blk r = true /\ cnt r = 1
  | _ => True
  end.
Definition reg_ok_a (p : apc) : Prop :=
  match p with
  | ACas r => blk r = false /\ cnt r <> 0
  | AArmCas r => blk r = true /\ dl r = false
  | AUndoCas r => blk r = true /\ dl r = false
  | _ => True
  end.
Definition armed_phase (p : apc) : bool := match p with AArm | AArmCas _ => true | _ => false end.
Definition no_undo (p : apc) : Prop :=
  match p with AUndo | AUndoCas _ => False | _ => True end.

(* [hv]: the variant of clearWriteAbortState (Model/WriteAbort.v).  For the code as it is
   (hv = false) the invariant is only claimed while no arming call has failed. *)
Record Inv (hv : bool) (s : state) : Prop := {
  i_cnt : cnt (ws s) = length (fl s);
  i_nodup : NoDup (fl s);
  i_fl : forall i, In i (fl s) <-> inflight (wpcs s i) = true;
  i_regw : forall i, reg_ok_w (wpcs s i);
  i_rega : forall j, reg_ok_a (apcs s j);
  i_own : forall j, own s = Some j <-> owning (apcs s j) = true;
  i_clr : forall i, clr s = Some i <-> clearing (wpcs s i) = true;
  i_noundo : forall j, hv = false -> no_undo (apcs s j);
  i_free : blk (ws s) = false -> dl (ws s) = false /\ dl_clean s /\ own s = None /\ clr s = None;
  i_arming_own : blk (ws s) = true -> dl (ws s) = false -> own s <> None;
  i_arming_clr : forall i, blk (ws s) = true -> dl (ws s) = false ->
                 clearing (wpcs s i) = true -> wpcs s i = WClr;
  i_owner : forall j, own s = Some j ->
            blk (ws s) = true /\ dl (ws s) = false /\
            (armed_phase (apcs s j) = false -> dl_clean s);
  i_store : forall i, wpcs s i = WClrStore -> dl_clean s;
  i_cntzero : blk (ws s) = true -> (cnt (ws s) = 0 <-> clr s <> None)
}.

Lemma inv_init hv : Inv hv init.
Proof.
  constructor; simpl; try (intros; exact I); try discriminate; unfold dl_clean; simpl;
    try solve [intuition (try discriminate; try constructor)].
Qed.

Ltac split_eqb :=
  repeat match goal with
  | |- context [Nat.eqb ?a ?b] => destruct (Nat.eqb_spec a b); [subst|]
  | H : context [Nat.eqb ?a ?b] |- _ => destruct (Nat.eqb_spec a b); [subst|]
  end.

(* instantiate the quantified clauses at a writer / an aborter *)
Ltac inst_w HI k :=
  let a := fresh "Ifl" in let b := fresh "Iregw" in let c := fresh "Iclr" in let d := fresh "Istore" in
  let e := fresh "Iarmclr" in
  pose proof (i_fl _ _ HI k) as a; pose proof (i_regw _ _ HI k) as b; pose proof (i_clr _ _ HI k) as c;
  pose proof (i_store _ _ HI k) as d; pose proof (i_arming_clr _ _ HI k) as e.
Ltac inst_a HI k :=
  let a := fresh "Irega" in let b := fresh "Iown" in let c := fresh "Inoundo" in let d := fresh "Iowner" in
  pose proof (i_rega _ _ HI k) as a; pose proof (i_own _ _ HI k) as b; pose proof (i_noundo _ _ HI k) as c;
  pose proof (i_owner _ _ HI k) as d.
Ltac globals HI :=
  let a := fresh "Icnt" in let b := fresh "Inodup" in let c := fresh "Ifree" in let d := fresh "Iarmown" in
  let f := fresh "Icntzero" in
  pose proof (i_cnt _ _ HI) as a; pose proof (i_nodup _ _ HI) as b; pose proof (i_free _ _ HI) as c;
  pose proof (i_arming_own _ _ HI) as d; pose proof (i_cntzero _ _ HI) as f.

Ltac rw_pcs :=
  repeat match goal with
  | H : wpcs ?s ?i = _ |- _ => rewrite H in *
  | H : apcs ?s ?j = _ |- _ => rewrite H in *
  end.

Ltac fin := unfold dl_clean, reg_ok_w, reg_ok_a, no_undo, armed_phase in *; simpl in *;
  try solve [intuition (try congruence; try discriminate; try lia; eauto)].

(* the clause list of Inv, in order: cnt nodup fl regw rega own clr noundo free arming_own arming_clr owner store cntzero *)
Ltac clauses HI :=
  constructor; simpl;
  [ | | intros k; inst_w HI k | intros k; inst_w HI k | intros k; inst_a HI k | intros k; inst_a HI k
    | intros k; inst_w HI k | intros k; inst_a HI k | | | intros k; inst_w HI k | intros k; inst_a HI k
    | intros k; inst_w HI k | ].
Ltac go_w HI i := globals HI; inst_w HI i; (let L := fresh "Ilen" in pose proof (length_remove_nat i _ (i_nodup _ _ HI)) as L); clauses HI; unfold upd in *; split_eqb; rw_pcs; fin.
Ltac go_a HI j := globals HI; inst_a HI j; clauses HI; unfold upd in *; split_eqb; rw_pcs; fin.

Ltac fin0 := try solve [intuition (try congruence; try discriminate; try lia; eauto)].
Ltac fin2 :=
  intros; rw_pcs; simpl in *; rewrite ?In_remove_nat in *;
  try (apply NoDup_remove_nat; assumption);
  try (constructor; [ | assumption ]);
  fin0.
Ltac cases_ws :=
  match goal with HI : Inv _ ?s |- _ =>
    destruct (blk (ws s)) eqn:?; destruct (dl (ws s)) eqn:?; fin0;
    destruct (clr s) eqn:?; fin0; destruct (own s) as [jo|] eqn:?; fin0;
    pose proof (i_owner _ _ HI jo); fin0
  end.

(* the variant only matters in the rules of clearWriteAbortState *)
Ltac split_variant :=
  try match goal with
      | H : undo_done ?h _ = _ |- _ => destruct h; unfold undo_done in H
      | |- context [undo_target ?h ?r] => destruct h; unfold undo_target;
                                          try destruct (Nat.eqb_spec (cnt r) 0)
      end; simpl in *.

Lemma inv_step hv s l s' : Inv hv s -> step hv s l s' -> (hv = true \/ armfails s' = 0) -> Inv hv s'.
Proof.
  intros HI Hstep Hnf. inversion Hstep; subst; simpl in Hnf.
  all: split_variant.
  all: match goal with
       | HI' : Inv _ ?s0, H : wpcs ?s0 ?i = _ |- _ => go_w HI' i
       | HI' : Inv _ ?s0, H : apcs ?s0 ?j = _ |- _ => go_a HI' j
       end.
  all: fin2.
  all: try cases_ws.
Qed.

