(* C01 (single-agent half): a pair is selected only by authenticated, transaction-matched traffic.
   The two-agent statements are in Proofs/TwoAgents.v. *)
From Coq Require Import ZArith Bool List Lia.
From Ice Require Import Model.AgentTypes Model.AgentCore Gen.Consts Proofs.AgentFrame Proofs.AgentC04.
Import ListNotations.
Local Open Scope Z_scope.

(* the selection either stays or is dropped *)
Definition keeps_or_drops_selection : mprop.
Proof.
  refine (MProp (fun s _ s' => s_selected s' = s_selected s \/ s_selected s' = None) _ _).
  - intros s. left. reflexivity.
  - intros s o1 s1 o2 s2 [H1|H1] [H2|H2]; [left; congruence|right; exact H2|right; congruence|right; exact H2].
Defined.

Lemma kds_update_conn st : sat keeps_or_drops_selection (update_conn st).
Proof.
  intros s. cbn. unfold update_conn. destruct (s_conn s =? st); [left; reflexivity|].
  destruct (st =? ConnectionStateFailed); cbn; [right|left]; reflexivity.
Qed.

Lemma kds_reselect pid : sat keeps_or_drops_selection (reselect pid).
Proof.
  intros s. cbn. unfold reselect, with_state. destruct (s_selected s) as [id|] eqn:E; [|left; exact E].
  destruct (id =? pid); [|left; exact E].
  left. unfold set_selected, seq, upd_pair, modify, update_conn, emit. cbn.
  destruct (s_conn s =? ConnectionStateConnected); cbn; congruence.
Qed.

Ltac kds_tac := cbn; destruct_matches; (left; reflexivity) || (right; reflexivity).

(* Every operation other than the delivery of a STUN datagram leaves the selection unchanged or
   drops it (Failed, Restart): a pair BECOMES selected only while handling inbound STUN -- and by C02
   only authenticated, transaction-matched STUN has any effect. *)
Theorem selection_set_only_by_inbound_stun cfg o :
  match o with InStun _ _ _ => True | _ => sat keeps_or_drops_selection (step_m cfg o) end.
Proof.
  destruct o; try exact I; cbn [step_m]; sat_decompose_sel;
    try apply kds_update_conn; try apply kds_reselect; try (sat_base kds_tac).
Qed.
