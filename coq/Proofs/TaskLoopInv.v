(* C10: the inductive invariant of the task-loop interleaving model (all schedules, any number of
   submitters / closers). *)
From Coq Require Import Arith Bool List Lia.
Import ListNotations.
From Ice Require Import Model.PrioSpec Model.TaskLoop.

(* ---- boolean equalities ---------------------------------------------------------------- *)
Lemma spc_eqb_true : forall a b, spc_eqb a b = true -> a = b.
Proof. destruct a, b; simpl; congruence. Qed.
Lemma cpc_eqb_true : forall a b, cpc_eqb a b = true -> a = b.
Proof. destruct a, b; simpl; congruence. Qed.
Lemma once_eqb_true : forall a b, once_eqb a b = true -> a = b.
Proof. destruct a, b; simpl; congruence. Qed.
Lemma lpc_eqb_true : forall a b, lpc_eqb a b = true -> a = b.
Proof. destruct a, b; simpl; try congruence; intros H; apply Nat.eqb_eq in H; congruence. Qed.
Lemma lpc_eqb_refl : forall a, lpc_eqb a a = true.
Proof. destruct a; simpl; auto using Nat.eqb_refl. Qed.

Definition in_once (p : cpc) : Prop :=
  match p with COnce1 | COnce2 | CPre | COnce4 => True | _ => False end.

Definition closing (p : lpc) : Prop :=
  match p with LClosing | LOnClose | LOnCloseDone | LExited => True | _ => False end.

Definition after_onclose (p : lpc) : Prop :=
  match p with LOnClose | LOnCloseDone | LExited => True | _ => False end.

Record Inv (s : state) : Prop := {
  i_got : forall i, lp s = LGot i -> sp s i = SWait /\ ts s i = TNot /\ tdone s i = false;
  i_run : forall i, lp s = LRun i -> sp s i = SWait /\ ts s i = TRunning /\ tdone s i = false;
  i_fin : forall i, lp s = LFin i -> sp s i = SWait /\ ts s i = TCompleted /\ tdone s i = false;
  i_running : forall i, ts s i = TRunning -> lp s = LRun i;
  i_runs0 : forall i, ts s i = TNot -> runs s i = 0;
  i_runs1 : forall i, ts s i <> TNot -> runs s i = 1;
  i_notwait : forall i, sp s i <> SWait -> sp s i <> SRetOk -> ts s i = TNot /\ tdone s i = false;
  i_wait_not : forall i, sp s i = SWait -> ts s i = TNot -> lp s = LGot i;
  i_wait_comp : forall i, sp s i = SWait -> ts s i = TCompleted -> tdone s i = false -> lp s = LFin i;
  i_tdone : forall i, tdone s i = true -> ts s i = TCompleted;
  i_retok : forall i, sp s i = SRetOk -> tdone s i = true;
  i_lclose : closing (lp s) -> done s = true;
  i_oncl1 : after_onclose (lp s) -> oncloses s = 1;
  i_oncl0 : ~ after_onclose (lp s) -> oncloses s = 0;
  i_tld1 : tld s = true -> lp s = LExited;
  i_tld2 : lp s = LExited -> tld s = true;
  i_cret : forall k, cp s k = CRet -> tld s = true;
  i_once_in : forall k, in_once (cp s k) -> once s = ORunning;
  i_once_uniq : forall k k', in_once (cp s k) -> in_once (cp s k') -> k = k';
  i_once_not : once s = ONot -> done s = false /\ prestops s = 0;
  i_once1 : forall k, cp s k = COnce1 -> done s = false;
  i_pre0 : forall k, cp s k = COnce1 \/ cp s k = COnce2 -> prestops s = 0;
  i_pre1 : prestops s <= 1
}.

Ltac bool_hyps :=
  repeat match goal with
  | H : _ && _ = true |- _ => apply andb_prop in H; destruct H
  | H : _ || _ = true |- _ => apply orb_prop in H; destruct H
  | H : spc_eqb _ _ = true |- _ => apply spc_eqb_true in H
  | H : cpc_eqb _ _ = true |- _ => apply cpc_eqb_true in H
  | H : lpc_eqb _ _ = true |- _ => apply lpc_eqb_true in H
  | H : once_eqb _ _ = true |- _ => apply once_eqb_true in H
  | H : negb _ = true |- _ => apply negb_true_iff in H
  end.

(* case analysis of one step: afterwards s' is an explicit record and the guards are hypotheses *)
Ltac step_cases H :=
  let l := fresh "l" in
  destruct H as [l H];
  destruct l as [[?i|?i [| |]|?i|?i|?i| | |?k ?pre|?k|?k|?k]|[?i|?i|?i| | | |?k|?k|?k|?k|?k]]; simpl in H;
  try match type of H with
      | match lp ?s with _ => _ end = _ => destruct (lp s) eqn:?; try discriminate H
      end;
  try match type of H with
      | (if ?c then _ else _) = _ => destruct c eqn:?; [|discriminate H]
      end;
  inversion H; subst; clear H; bool_hyps.

Ltac upd_cases :=
  repeat once match goal with
  | H : context [Nat.eqb ?a ?b] |- _ =>
      let E := fresh "E" in destruct (Nat.eqb a b) eqn:E;
      [apply Nat.eqb_eq in E; subst | apply Nat.eqb_neq in E]
  | |- context [Nat.eqb ?a ?b] =>
      let E := fresh "E" in destruct (Nat.eqb a b) eqn:E;
      [apply Nat.eqb_eq in E; subst | apply Nat.eqb_neq in E]
  end.

Lemma inv_init : Inv init.
Proof. constructor; simpl; intros; try tauto; try discriminate; auto. Qed.

Ltac use_inv I :=
  destruct I as [Igot Irun Ifin Irunning Iruns0 Iruns1 Inotwait Iwaitnot Iwaitcomp Itdone Iretok
                 Ilclose Ioncl1 Ioncl0 Itld1 Itld2 Icret Ioncein Ionceuniq Ioncenot Ionce1 Ipre0 Ipre1].


(* instantiate every universally quantified invariant clause with every thread index in sight *)
Ltac inst1 x :=
  repeat match goal with
  | I : forall i : nat, _ |- _ =>
      lazymatch type of I with
      | forall (i : nat) (j : nat), _ => fail
      | _ => let T := type of (I x) in
             lazymatch goal with
             | _ : T |- _ => fail
             | _ => pose proof (I x)
             end
      end
  end.
Ltac inst2 x y :=
  repeat match goal with
  | I : forall (i : nat) (j : nat), _ |- _ =>
      let T := type of (I x y) in
      lazymatch goal with
      | _ : T |- _ => fail
      | _ => pose proof (I x y)
      end
  end.
Ltac inst_all :=
  repeat match goal with
  | x : nat |- _ => progress (inst1 x)
  end;
  repeat match goal with
  | x : nat, y : nat |- _ => progress (inst2 x y)
  end;
  repeat match goal with
  | I : forall i : nat, _ |- _ => clear I
  end.

Ltac prem :=
  first [ assumption | congruence
        | match goal with
          | H : cp ?s ?k = _ |- in_once (cp ?s ?k) => rewrite H; exact I
          | H : lp ?s = _ |- closing (lp ?s) => rewrite H; exact I
          | H : lp ?s = _ |- after_onclose (lp ?s) => rewrite H; exact I
          | H : lp ?s = _ |- ~ after_onclose (lp ?s) =>
              let F := fresh in intro F; rewrite H in F; exact F
          | |- in_once _ => exact I
          | |- closing _ => exact I
          | |- after_onclose _ => exact I
          | |- ~ after_onclose _ => let F := fresh in intro F; exact F
          | |- _ \/ _ => first [left; congruence | right; congruence]
          end ].

Ltac chain :=
  repeat once match goal with
  | H : ?A /\ ?B |- _ => destruct H
  | H : False |- _ => destruct H
  | H : in_once ?c |- _ => progress (simpl in H)
  | H : spc_eqb _ _ = true |- _ => apply spc_eqb_true in H
  | H : ?A \/ ?B |- _ => destruct H
  | H : ?A -> ?B |- _ =>
      let X := fresh "X" in assert (X : A) by prem; specialize (H X); clear X
  end.

Ltac split_match :=
  repeat once match goal with
  | |- context [match ?x with _ => _ end] => destruct x eqn:?
  | H : context [match ?x with _ => _ end] |- _ => destruct x eqn:?
  end.

Ltac close :=
  try solve [ congruence | discriminate | lia | exact I
            | repeat split; (congruence || lia)
            | exfalso; congruence
            | match goal with F : False |- _ => destruct F end ].

Ltac finish :=
  simpl in *; unfold set_sp, set_cp, set_lp, upd in *; simpl in *;
  try solve [ assumption | intros; eauto ];
  intros; upd_cases; try solve [ eauto | congruence ];
  inst_all; chain; close.

Lemma inv_step : forall s s', Inv s -> step s s' -> Inv s'.
Proof.
  intros s s' I H.
  step_cases H; use_inv I; constructor.
  all: finish.
Qed.

